import Gocc.Model.LR1
import Gocc.Model.LexGen
/-
Termination (fuel adequacy) of the two unbounded fixed-point loops of the parser generator:
  * `GetFirstSets`  (`firstPass` / `firstSetsFuel` / `firstSets`)
  * `ItemSet.Closure` (`closureStep` / `closureLoop` / `closure`)
The Go loops have no iteration bound; the model gives them fuel.  Here we prove that the fuel is
never exhausted: a strictly increasing, bounded measure exists for both loops.
Core Lean only (no Mathlib).
-/
namespace Gocc

/-! ## Generic helpers -/

theorem addNoDup_mem_iff {l : List String} {s t : String} : t ∈ addNoDup l s ↔ t ∈ l ∨ t = s := by
  unfold addNoDup
  split
  · rename_i h
    have hs : s ∈ l := by simpa using h
    constructor
    · exact Or.inl
    · rintro (h' | h')
      · exact h'
      · subst h'; exact hs
  · simp

theorem foldl_addNoDup_mem_iff {f : List String} :
    ∀ {acc : List String} {t : String}, t ∈ f.foldl addNoDup acc ↔ t ∈ acc ∨ t ∈ f := by
  induction f with
  | nil => intro acc t; simp
  | cons x xs ih =>
    intro acc t
    rw [List.foldl_cons, ih, addNoDup_mem_iff, List.mem_cons]
    constructor
    · rintro ((h | h) | h)
      · exact Or.inl h
      · exact Or.inr (Or.inl h)
      · exact Or.inr (Or.inr h)
    · rintro (h | h | h)
      · exact Or.inl (Or.inl h)
      · exact Or.inl (Or.inr h)
      · exact Or.inr h

/-- an invariant `P` and a reflexive-transitive progress relation `R` carried through a `foldl` -/
theorem foldl_inv_rel {α β : Type} (P : β → Prop) (R : β → β → Prop) (Q : α → Prop)
    (g : β → α → β) (hrefl : ∀ b, R b b) (htrans : ∀ a b c, R a b → R b c → R a c)
    (hstep : ∀ b x, Q x → P b → P (g b x) ∧ R b (g b x)) :
    ∀ (l : List α) (b : β), (∀ x ∈ l, Q x) → P b → P (l.foldl g b) ∧ R b (l.foldl g b) := by
  intro l
  induction l with
  | nil => intro b _ hb; exact ⟨hb, hrefl b⟩
  | cons x xs ih =>
    intro b hQ hb
    rw [List.foldl_cons]
    have h1 := hstep b x (hQ x (List.mem_cons_self ..)) hb
    have h2 := ih (g b x) (fun y hy => hQ y (List.mem_cons_of_mem _ hy)) h1.1
    exact ⟨h2.1, htrans _ _ _ h1.2 h2.2⟩

/-! ## FIRST sets -/

/-- the measure: number of stored (head, terminal-or-"empty") pairs -/
def fsSize (fs : FirstSets) : Nat := (fs.map (·.2.length)).sum

/-- universe of set elements -/
def firstU (S : PSymbols) : List String := "empty" :: S.typeMap

/-- well-formedness of the symbol table w.r.t. the productions (what `NewSymbols` establishes) -/
def WFp (S : PSymbols) (prods : List SProd) : Prop :=
  ∀ p ∈ prods, p.head ∈ S.ntList ∧ ∀ s ∈ p.body, s.name ∈ S.typeMap

instance (S : PSymbols) (prods : List SProd) : Decidable (WFp S prods) := by
  unfold WFp; infer_instance

/-- invariant of the `FirstSets` association list -/
structure FInv (S : PSymbols) (fs : FirstSets) : Prop where
  keys : (fs.map (·.1)).Nodup
  heads : ∀ e ∈ fs, e.1 ∈ S.ntList
  vals : ∀ e ∈ fs, e.2.Nodup ∧ ∀ t ∈ e.2, t ∈ firstU S

theorem FInv.nil (S : PSymbols) : FInv S [] :=
  ⟨by simp, by simp, by simp⟩

theorem fsSize_le_mul (fs : FirstSets) (M : Nat) (h : ∀ e ∈ fs, e.2.length ≤ M) :
    fsSize fs ≤ fs.length * M := by
  induction fs with
  | nil => simp [fsSize]
  | cons e es ih =>
    have h1 := h e (List.mem_cons_self ..)
    have h2 := ih (fun x hx => h x (List.mem_cons_of_mem _ hx))
    simp only [fsSize, List.map_cons, List.sum_cons, List.length_cons, Nat.succ_mul] at *
    omega

/-- the measure is bounded by `|heads| * (|symbols| + 1)` -/
theorem FInv.size_le {S : PSymbols} {fs : FirstSets} (h : FInv S fs) :
    fsSize fs ≤ S.ntList.length * (S.typeMap.length + 1) := by
  have h1 : fsSize fs ≤ fs.length * (S.typeMap.length + 1) := by
    apply fsSize_le_mul
    intro e he
    have := (h.vals e he)
    have := List.Nodup.length_le_of_subset this.1 (fun t ht => this.2 t ht)
    simpa [firstU] using this
  have h2 : fs.length ≤ S.ntList.length := by
    have := List.Nodup.length_le_of_subset h.keys (l₂ := S.ntList) (by
      intro k hk
      rcases List.mem_map.1 hk with ⟨e, he, rfl⟩
      exact h.heads e he)
    simpa using this
  exact Nat.le_trans h1 (Nat.mul_le_mul_right _ h2)

theorem key_unique {fs : FirstSets} (hk : (fs.map (·.1)).Nodup) {e1 e2 : String × List String}
    (h1 : e1 ∈ fs) (h2 : e2 ∈ fs) (h : e1.1 = e2.1) : e1 = e2 := by
  induction fs with
  | nil => cases h1
  | cons a as ih =>
    rw [List.map_cons, List.nodup_cons] at hk
    rcases List.mem_cons.1 h1 with rfl | h1'
    · rcases List.mem_cons.1 h2 with rfl | h2'
      · rfl
      · exact absurd (List.mem_map.2 ⟨e2, h2', h.symm⟩) hk.1
    · rcases List.mem_cons.1 h2 with rfl | h2'
      · exact absurd (List.mem_map.2 ⟨e1, h1', h⟩) hk.1
      · exact ih hk.2 h1' h2'

/-- the update performed by `addTok` on an existing key -/
def bump (n t : String) (e : String × List String) : String × List String :=
  if e.1 == n then (e.1, e.2 ++ [t]) else e

theorem addTok_eq (fs : FirstSets) (n t : String) :
    fs.addTok n t =
      match fs.find? (·.1 == n) with
      | some (_, s) => if s.contains t then (fs, false) else (fs.map (bump n t), true)
      | none => (fs ++ [(n, [t])], true) := by
  have : (fun (x : String × List String) =>
      match x with | (m, s') => if m == n then (m, s' ++ [t]) else (m, s')) = bump n t := by
    funext ⟨m, s⟩; rfl
  unfold FirstSets.addTok
  rw [this]
  rfl

theorem fsSize_map_bump_le (fs : FirstSets) (n t : String) :
    fsSize fs ≤ fsSize (fs.map (bump n t)) := by
  induction fs with
  | nil => simp [fsSize]
  | cons e es ih =>
    simp only [fsSize, List.map_cons, List.sum_cons] at *
    have : e.2.length ≤ (bump n t e).2.length := by
      unfold bump; split <;> simp
    omega

theorem fsSize_map_bump_lt (fs : FirstSets) (n t : String) (e : String × List String)
    (he : e ∈ fs) (hn : (e.1 == n) = true) : fsSize fs < fsSize (fs.map (bump n t)) := by
  induction fs with
  | nil => cases he
  | cons a as ih =>
    have hle := fsSize_map_bump_le as n t
    simp only [fsSize, List.map_cons, List.sum_cons] at *
    have hA : a.2.length ≤ (bump n t a).2.length := by
      unfold bump; split <;> simp
    rcases List.mem_cons.1 he with rfl | he'
    · have : (bump n t e).2.length = e.2.length + 1 := by
        unfold bump; simp [hn]
      omega
    · have := ih he'
      omega

/-- progress specification of `addTok` -/
theorem addTok_progress (fs : FirstSets) (n t : String) :
    fsSize fs ≤ fsSize (fs.addTok n t).1 ∧
    ((fs.addTok n t).2 = true → fsSize fs < fsSize (fs.addTok n t).1) ∧
    ((fs.addTok n t).2 = false → (fs.addTok n t).1 = fs) := by
  rw [addTok_eq]
  split
  · rename_i m s hfind
    split
    · simp
    · have hmem := List.mem_of_find?_eq_some hfind
      have hp : ((m, s).1 == n) = true := by
        have := List.find?_some hfind
        simpa using this
      have := fsSize_map_bump_lt fs n t (m, s) hmem hp
      simp only [Bool.true_eq_false, false_implies, and_true, true_implies]
      omega
  · simp [fsSize]

/-- `addTok` preserves the invariant -/
theorem addTok_inv {S : PSymbols} {fs : FirstSets} (h : FInv S fs) {n t : String}
    (hn : n ∈ S.ntList) (ht : t ∈ firstU S) : FInv S (fs.addTok n t).1 := by
  rw [addTok_eq]
  split
  · rename_i m s hfind
    split
    · exact h
    · rename_i hct
      have hmem := List.mem_of_find?_eq_some hfind
      have hp : ((m, s).1 == n) = true := by
        have := List.find?_some hfind
        simpa using this
      have hmn : m = n := by simpa using hp
      have hts : t ∉ s := by simpa using hct
      have hkeys : (fs.map (bump n t)).map (·.1) = fs.map (·.1) := by
        rw [List.map_map]
        apply List.map_congr_left
        intro e _
        simp only [Function.comp, bump]
        split <;> rfl
      refine ⟨?_, ?_, ?_⟩
      · show ((fs.map (bump n t)).map (·.1)).Nodup
        rw [hkeys]; exact h.keys
      · intro e' he'
        rcases List.mem_map.1 he' with ⟨e, he, rfl⟩
        have : (bump n t e).1 = e.1 := by unfold bump; split <;> rfl
        rw [this]; exact h.heads e he
      · intro e' he'
        rcases List.mem_map.1 he' with ⟨e, he, rfl⟩
        have hv := h.vals e he
        unfold bump
        split
        · rename_i hen
          have hen' : e.1 = n := by simpa using hen
          have : e = (m, s) := key_unique h.keys he hmem (by simp [hen', hmn])
          subst this
          refine ⟨?_, ?_⟩
          · show (s ++ [t]).Nodup
            rw [List.nodup_append]
            refine ⟨hv.1, by simp, ?_⟩
            intro a ha b hb
            have : b = t := by simpa using hb
            subst this
            intro hab; subst hab; exact hts ha
          · intro x hx
            rcases List.mem_append.1 hx with hx | hx
            · exact hv.2 x hx
            · have : x = t := by simpa using hx
              subst this; exact ht
        · exact hv
  · rename_i hfind
    have hnone : ∀ e ∈ fs, ¬ (e.1 == n) = true := by
      simpa [List.find?_eq_none] using hfind
    refine ⟨?_, ?_, ?_⟩
    · show ((fs ++ [(n, [t])]).map (·.1)).Nodup
      rw [List.map_append, List.nodup_append]
      refine ⟨h.keys, by simp, ?_⟩
      intro a ha b hb
      have : b = n := by simpa using hb
      subst this
      rcases List.mem_map.1 ha with ⟨e, he, rfl⟩
      intro hab
      exact hnone e he (by simp [hab])
    · intro e he
      rcases List.mem_append.1 he with he | he
      · exact h.heads e he
      · have : e = (n, [t]) := by simpa using he
        subst this; exact hn
    · intro e he
      rcases List.mem_append.1 he with he | he
      · exact h.vals e he
      · have : e = (n, [t]) := by simpa using he
        subst this
        refine ⟨by simp, ?_⟩
        intro x hx
        have : x = t := by simpa using hx
        subst this; exact ht

/-- progress relation between accumulator states `(sets, again)` of a pass -/
def FR (a r : FirstSets × Bool) : Prop :=
  fsSize a.1 ≤ fsSize r.1 ∧ (a.2 = true → r.2 = true) ∧
  (a.2 = false → r.2 = true → fsSize a.1 < fsSize r.1) ∧ (r.2 = false → r.1 = a.1)

theorem FR.refl (a : FirstSets × Bool) : FR a a :=
  ⟨Nat.le_refl _, id, fun h1 h2 => by simp [h1] at h2, fun _ => rfl⟩

theorem FR.trans (a b c : FirstSets × Bool) (h1 : FR a b) (h2 : FR b c) : FR a c := by
  obtain ⟨a1, a2, a3, a4⟩ := h1
  obtain ⟨b1, b2, b3, b4⟩ := h2
  refine ⟨Nat.le_trans a1 b1, fun h => b2 (a2 h), ?_, ?_⟩
  · intro ha hc
    cases hb : b.2 with
    | true => have := a3 ha hb; omega
    | false => have := b3 hb hc; omega
  · intro hc
    have hb : b.2 = false := by
      cases hb : b.2 with
      | true => have := b2 hb; simp [hc] at this
      | false => rfl
    rw [b4 hc, a4 hb]

/-- an accumulator update `(fs', acc.2 || b)` with `fs', b` satisfying the progress spec -/
theorem FR.of_progress (acc : FirstSets × Bool) (fs' : FirstSets) (b : Bool)
    (h : fsSize acc.1 ≤ fsSize fs' ∧ (b = true → fsSize acc.1 < fsSize fs') ∧
      (b = false → fs' = acc.1)) : FR acc (fs', acc.2 || b) := by
  obtain ⟨h1, h2, h3⟩ := h
  refine ⟨h1, ?_, ?_, ?_⟩
  · intro h; simp [h]
  · intro ha hb
    simp only [ha, Bool.false_or] at hb
    exact h2 hb
  · intro hb
    simp only [Bool.or_eq_false_iff] at hb
    exact h3 hb.2

theorem addSet_spec {S : PSymbols} {fs : FirstSets} (h : FInv S fs) {n : String}
    (hn : n ∈ S.ntList) (ts : List String) (hts : ∀ t ∈ ts, t ∈ firstU S) :
    FInv S (fs.addSet n ts).1 ∧ FR (fs, false) (fs.addSet n ts) := by
  unfold FirstSets.addSet
  exact foldl_inv_rel (fun (b : FirstSets × Bool) => FInv S b.1) FR (fun t => t ∈ firstU S)
    (fun (acc : FirstSets × Bool) t => let r := acc.1.addTok n t; (r.1, acc.2 || r.2))
    FR.refl FR.trans
    (fun b t ht hb => ⟨addTok_inv hb hn ht, FR.of_progress b _ _ (addTok_progress b.1 n t)⟩)
    ts (fs, false) hts h

/-! ### membership in `first` / `firstS` -/

theorem mem_fsGet {fs : FirstSets} {n t : String} (h : t ∈ fs.get n) : ∃ e ∈ fs, t ∈ e.2 := by
  unfold FirstSets.get at h
  split at h
  · rename_i k s hfind
    exact ⟨(k, s), List.mem_of_find?_eq_some hfind, h⟩
  · cases h

theorem mem_first {S : PSymbols} {fs : FirstSets} {y t : String} (h : t ∈ first S fs y) :
    t = y ∨ ∃ e ∈ fs, t ∈ e.2 := by
  unfold first at h
  split at h
  · left; simpa using h
  · right; exact mem_fsGet h

theorem mem_firstS_go {S : PSymbols} {fs : FirstSets} {t : String} :
    ∀ (ys acc : List String) (ce : Bool), t ∈ (firstS.go S fs acc ce ys).1 →
      t ∈ acc ∨ ∃ y ∈ ys, t ∈ first S fs y := by
  intro ys
  induction ys with
  | nil => intro acc ce h; simp only [firstS.go] at h; exact Or.inl h
  | cons y ys ih =>
    intro acc ce h
    simp only [firstS.go] at h
    split at h
    · rcases ih _ _ h with h' | ⟨z, hz, hz'⟩
      · rcases foldl_addNoDup_mem_iff.1 h' with h'' | h''
        · exact Or.inl h''
        · exact Or.inr ⟨y, List.mem_cons_self .., h''⟩
      · exact Or.inr ⟨z, List.mem_cons_of_mem _ hz, hz'⟩
    · exact Or.inl h

theorem mem_firstS {S : PSymbols} {fs : FirstSets} {syms : List String} {t : String}
    (h : t ∈ firstS S fs syms) : ∃ y ∈ syms, t ∈ first S fs y := by
  unfold firstS at h
  split at h
  · cases h
  · rename_i x rest
    have key : t ∈ (firstS.go S fs ((first S fs x).foldl addNoDup []) ((first S fs x).contains "empty") rest).1 := by
      simp only at h
      split at h
      · exact h
      · exact (List.mem_filter.1 h).1
    rcases mem_firstS_go _ _ _ key with h' | ⟨z, hz, hz'⟩
    · rcases foldl_addNoDup_mem_iff.1 h' with h'' | h''
      · cases h''
      · exact ⟨x, List.mem_cons_self .., h''⟩
    · exact ⟨z, List.mem_cons_of_mem _ hz, hz'⟩

/-- every element of `firstS` is one of the symbols or an element of a stored set -/
theorem mem_firstS' {S : PSymbols} {fs : FirstSets} {syms : List String} {t : String}
    (h : t ∈ firstS S fs syms) : t ∈ syms ∨ ∃ e ∈ fs, t ∈ e.2 := by
  rcases mem_firstS h with ⟨y, hy, hty⟩
  rcases mem_first hty with rfl | h'
  · exact Or.inl hy
  · exact Or.inr h'

/-! ### one pass -/

theorem firstPass_spec {S : PSymbols} {prods : List SProd} (hW : WFp S prods) :
    ∀ (fs : FirstSets), FInv S fs →
      FInv S (firstPass S prods fs).1 ∧ FR (fs, false) (firstPass S prods fs) := by
  intro fs hfs
  unfold firstPass
  refine foldl_inv_rel (fun (b : FirstSets × Bool) => FInv S b.1) FR
    (fun (p : SProd) => p.head ∈ S.ntList ∧ ∀ s ∈ p.body, s.name ∈ S.typeMap) _
    FR.refl FR.trans ?_ prods (fs, false) hW hfs
  intro acc p ⟨hh, hb⟩ hacc
  have hacc' : FInv S acc.1 := hacc
  dsimp only
  split
  · exact ⟨addTok_inv hacc' hh (by simp [firstU]),
      FR.of_progress acc _ _ (addTok_progress acc.1 p.head "empty")⟩
  · rename_i s0 rest hbody
    have hs0 : s0.name ∈ S.typeMap := hb s0 (by rw [hbody]; exact List.mem_cons_self ..)
    split
    · exact ⟨addTok_inv hacc' hh (List.mem_cons_of_mem _ hs0),
        FR.of_progress acc _ _ (addTok_progress acc.1 p.head s0.name)⟩
    · split
      · have hsub : ∀ t ∈ firstS S acc.1 (p.body.map (·.name)), t ∈ firstU S := by
          intro t ht
          rcases mem_firstS' ht with h' | ⟨e, he, hte⟩
          · rcases List.mem_map.1 h' with ⟨s, hs, rfl⟩
            exact List.mem_cons_of_mem _ (hb s hs)
          · exact (hacc'.vals e he).2 t hte
        have := addSet_spec hacc' hh _ hsub
        refine ⟨this.1, FR.of_progress acc _ _ ⟨this.2.1, ?_, ?_⟩⟩
        · intro h; exact this.2.2.2.1 rfl h
        · intro h; exact this.2.2.2.2 h
      · exact ⟨hacc', FR.refl acc⟩

/-- `firstPass` iterated `k` times (ignoring the `again` flag) -/
def firstPassN (S : PSymbols) (prods : List SProd) : Nat → FirstSets → FirstSets
  | 0, fs => fs
  | k + 1, fs => firstPassN S prods k (firstPass S prods fs).1

/-- The `for again` loop: started from an invariant state with more fuel than the remaining room
    of the measure, it stops by itself after `n` productive passes, `n` bounded by the room. -/
theorem firstSetsFuel_spec {S : PSymbols} {prods : List SProd} (hW : WFp S prods) :
    ∀ (fuel : Nat) (fs : FirstSets), FInv S fs →
      S.ntList.length * (S.typeMap.length + 1) < fsSize fs + fuel →
      ∃ n, fsSize fs + n ≤ S.ntList.length * (S.typeMap.length + 1) ∧ n < fuel ∧
        (∀ k, k < n → (firstPass S prods (firstPassN S prods k fs)).2 = true) ∧
        (firstPass S prods (firstPassN S prods n fs)).2 = false ∧
        firstSetsFuel S prods fuel fs = firstPassN S prods n fs ∧
        FInv S (firstPassN S prods n fs) := by
  intro fuel
  induction fuel with
  | zero =>
    intro fs hfs hlt
    have := hfs.size_le
    omega
  | succ fuel ih =>
    intro fs hfs hlt
    have hp := firstPass_spec hW fs hfs
    obtain ⟨hinv, _, _, hlt', heq⟩ := hp
    cases hr : (firstPass S prods fs).2 with
    | true =>
      have hgt : fsSize fs < fsSize (firstPass S prods fs).1 := hlt' rfl hr
      obtain ⟨n, hn1, hn2, hn3, hn4, hn5, hn6⟩ := ih (firstPass S prods fs).1 hinv (by omega)
      refine ⟨n + 1, by omega, by omega, ?_, hn4, ?_, hn6⟩
      · intro k hk
        cases k with
        | zero => exact hr
        | succ k => exact hn3 k (by omega)
      · simp only [firstSetsFuel, hr, if_true]
        exact hn5
    | false =>
      have hfix : (firstPass S prods fs).1 = fs := heq hr
      refine ⟨0, by have := hfs.size_le; omega, by omega, ?_, hr, ?_, hfs⟩
      · intro k hk; omega
      · simp only [firstSetsFuel, hr, firstPassN]
        simpa using hfix

/-- more fuel does not change the result once the fixed point is reached -/
theorem firstSetsFuel_stable {S : PSymbols} {prods : List SProd} (hW : WFp S prods) :
    ∀ (fuel : Nat) (fs : FirstSets), FInv S fs →
      (firstPass S prods (firstSetsFuel S prods fuel fs)).2 = false →
      ∀ extra, firstSetsFuel S prods (fuel + extra) fs = firstSetsFuel S prods fuel fs := by
  intro fuel
  induction fuel with
  | zero =>
    intro fs hfs hfix extra
    simp only [firstSetsFuel] at hfix
    have hp := (firstPass_spec hW fs hfs).2
    have hfs' : (firstPass S prods fs).1 = fs := hp.2.2.2 hfix
    cases extra with
    | zero => rfl
    | succ e =>
      simp only [firstSetsFuel, hfix]
      simpa using hfs'
  | succ fuel ih =>
    intro fs hfs hfix extra
    have hinv := (firstPass_spec hW fs hfs).1
    rw [show fuel + 1 + extra = (fuel + extra) + 1 by omega]
    simp only [firstSetsFuel] at hfix ⊢
    cases hr : (firstPass S prods fs).2 with
    | true =>
      simp only [hr, if_true] at hfix ⊢
      exact ih _ hinv hfix extra
    | false => simp

/-! ### `NewSymbols` establishes `WFp` -/

theorem foldlM_except_rel {α β ε : Type} (f : β → α → Except ε β) (R : β → β → Prop)
    (Q : α → β → Prop) (hrefl : ∀ b, R b b) (htrans : ∀ a b c, R a b → R b c → R a c)
    (hmono : ∀ a b b', Q a b → R b b' → Q a b')
    (hstep : ∀ b a b', f b a = .ok b' → R b b' ∧ Q a b') :
    ∀ (l : List α) (b b' : β), l.foldlM f b = .ok b' → R b b' ∧ ∀ a ∈ l, Q a b' := by
  intro l
  induction l with
  | nil =>
    intro b b' h
    simp only [List.foldlM_nil, pure, Except.pure] at h
    cases h
    exact ⟨hrefl b, by simp⟩
  | cons x xs ih =>
    intro b b' h
    simp only [List.foldlM_cons, bind, Except.bind] at h
    split at h
    · cases h
    · rename_i b1 hb1
      have h1 := hstep b x b1 hb1
      have h2 := ih b1 b' h
      refine ⟨htrans _ _ _ h1.1 h2.1, ?_⟩
      intro a ha
      rcases List.mem_cons.1 ha with rfl | ha
      · exact hmono _ _ _ h1.2 h2.1
      · exact h2.2 a ha

/-- symbol tables only grow -/
def PLe (s s' : PSymbols) : Prop :=
  (∀ x, x ∈ s.ntList → x ∈ s'.ntList) ∧ (∀ x, x ∈ s.typeMap → x ∈ s'.typeMap)

theorem PLe.refl (s : PSymbols) : PLe s s := ⟨fun _ h => h, fun _ h => h⟩
theorem PLe.trans (a b c : PSymbols) (h1 : PLe a b) (h2 : PLe b c) : PLe a c :=
  ⟨fun x h => h2.1 x (h1.1 x h), fun x h => h2.2 x (h1.2 x h)⟩

theorem symAddSym_ok {s s' : PSymbols} {sym : SSym} (h : symAddSym s sym = .ok s') :
    PLe s s' ∧ sym.name ∈ s'.typeMap := by
  unfold symAddSym at h
  simp only at h
  split at h
  · split at h
    · cases h
    · cases h
      exact ⟨⟨fun _ h => h, fun x hx => addNoDup_mem_iff.2 (Or.inl hx)⟩, addNoDup_mem_iff.2 (Or.inr rfl)⟩
  · cases h
    exact ⟨⟨fun _ h => h, fun x hx => addNoDup_mem_iff.2 (Or.inl hx)⟩, addNoDup_mem_iff.2 (Or.inr rfl)⟩

theorem symAddProd_ok {s s' : PSymbols} {p : SProd} (h : symAddProd s p = .ok s') :
    PLe s s' ∧ (p.head ∈ s'.ntList ∧ ∀ sym ∈ p.body, sym.name ∈ s'.typeMap) := by
  unfold symAddProd at h
  have := foldlM_except_rel symAddSym PLe (fun sym s => sym.name ∈ s.typeMap) PLe.refl PLe.trans
    (fun a b b' hq hr => hr.2 _ hq) (fun b a b' hb => symAddSym_ok hb) _ _ _ h
  refine ⟨⟨fun x hx => this.1.1 x (addNoDup_mem_iff.2 (Or.inl hx)),
    fun x hx => this.1.2 x (addNoDup_mem_iff.2 (Or.inl hx))⟩, ?_, this.2⟩
  exact this.1.1 _ (addNoDup_mem_iff.2 (Or.inr rfl))

theorem newSymbols_WFp {prods : List SProd} {S0 : PSymbols} (h : newSymbols prods = .ok S0) :
    WFp S0 prods := by
  unfold newSymbols at h
  have := foldlM_except_rel symAddProd PLe
    (fun p s => p.head ∈ s.ntList ∧ ∀ sym ∈ p.body, sym.name ∈ s.typeMap) PLe.refl PLe.trans
    (fun a b b' hq hr => ⟨hr.1 _ hq.1, fun sym hs => hr.2 _ (hq.2 sym hs)⟩)
    (fun b a b' hb => symAddProd_ok hb) _ _ _ h
  exact this.2

theorem WFp_addTokens {prods : List SProd} {S : PSymbols} (h : WFp S prods) (ids : List String) :
    WFp (S.addTokens ids) prods := by
  intro p hp
  have := h p hp
  refine ⟨this.1, fun s hs => ?_⟩
  show s.name ∈ ids.foldl addNoDup S.typeMap
  exact foldl_addNoDup_mem_iff.2 (Or.inl (this.2 s hs))


/-! ## LR(1) closure -/

instance : LawfulBEq Item where
  eq_of_beq := by
    intro a b h
    cases a; cases b
    simpa [BEq.beq, instBEqItem.beq] using h
  rfl := by
    intro a; cases a; simp [BEq.beq, instBEqItem.beq]

theorem mem_addItem {l : List Item} {i j : Item} : j ∈ addItem l i ↔ j ∈ l ∨ j = i := by
  unfold addItem
  split
  · rename_i h
    have hi : i ∈ l := by simpa using h
    constructor
    · exact Or.inl
    · rintro (h' | h')
      · exact h'
      · subst h'; exact hi
  · simp

theorem addItem_nodup {l : List Item} {i : Item} (h : l.Nodup) : (addItem l i).Nodup := by
  unfold addItem
  split
  · exact h
  · rename_i hc
    have hi : i ∉ l := by simpa using hc
    rw [List.nodup_append]
    refine ⟨h, by simp, ?_⟩
    intro a ha b hb
    have : b = i := by simpa using hb
    subst this
    intro hab; subst hab; exact hi ha

theorem addItem_prefix (l : List Item) (i : Item) : l <+: addItem l i := by
  unfold addItem
  split
  · exact List.prefix_refl l
  · exact List.prefix_append l [i]

theorem foldl_addItem_spec (l : List Item) : ∀ (c : List Item),
    (c.Nodup → (l.foldl addItem c).Nodup) ∧ c <+: l.foldl addItem c ∧
    ∀ j, j ∈ l.foldl addItem c ↔ j ∈ c ∨ j ∈ l := by
  induction l with
  | nil => intro c; simp
  | cons x xs ih =>
    intro c
    rw [List.foldl_cons]
    obtain ⟨h1, h2, h3⟩ := ih (addItem c x)
    refine ⟨fun hc => h1 (addItem_nodup hc), List.IsPrefix.trans (addItem_prefix c x) h2, ?_⟩
    intro j
    rw [h3, mem_addItem, List.mem_cons]
    constructor
    · rintro ((h | h) | h)
      · exact Or.inl h
      · exact Or.inr (Or.inl h)
      · exact Or.inr (Or.inr h)
    · rintro (h | h | h)
      · exact Or.inl (Or.inl h)
      · exact Or.inl (Or.inr h)
      · exact Or.inr h

theorem mem_closureStep {C : LRCtx} {i j : Item} (h : j ∈ closureStep C i) :
    j.p < C.prods.size ∧ j.d = 0 ∧ j.la ∈ first1 C i := by
  unfold closureStep at h
  split at h
  · cases h
  · dsimp only at h
    simp only [List.mem_flatMap, List.mem_range] at h
    obtain ⟨pi, hpi, hj⟩ := h
    split at hj
    · rcases List.mem_map.1 hj with ⟨t, ht, rfl⟩
      exact ⟨hpi, rfl, ht⟩
    · cases hj

/-- where look-aheads come from: the generating item's look-ahead, a body symbol, or a FIRST set -/
theorem mem_first1 {C : LRCtx} {i : Item} {t : String} (h : t ∈ first1 C i) :
    t = i.la ∨ (∃ p ∈ C.prods.toList, ∃ s ∈ p.body, t = s.name) ∨ ∃ e ∈ C.fs, t ∈ e.2 := by
  unfold first1 sortStrings at h
  rw [List.mem_mergeSort] at h
  rcases mem_firstS' h with h' | h'
  · rcases List.mem_append.1 h' with h'' | h''
    · right; left
      have hb : t ∈ C.body i := List.mem_of_mem_drop h''
      unfold LRCtx.body at hb
      dsimp only at hb
      split at hb
      · cases hb
      · rcases List.mem_map.1 hb with ⟨s, hs, rfl⟩
        by_cases hp : i.p < C.prods.size
        · refine ⟨C.prods[i.p], ?_, s, ?_, rfl⟩
          · exact Array.getElem_mem_toList hp
          · simpa [hp] using hs
        · have hd : C.prods[i.p]! = default := by simp [hp]
          rw [hd] at hs
          cases hs
    · left; simpa using h''
  · right; right; exact h'

/-- well-formedness of a closure context w.r.t. the kernel items -/
structure WFc (C : LRCtx) (items : List Item) : Prop where
  body : ∀ p ∈ C.prods.toList, ∀ s ∈ p.body, s.name ∈ firstU C.S
  fs : ∀ e ∈ C.fs, ∀ t ∈ e.2, t ∈ firstU C.S
  la : ∀ i ∈ items, i.la ∈ firstU C.S

instance (C : LRCtx) (items : List Item) : Decidable (WFc C items) :=
  decidable_of_iff
    ((∀ p ∈ C.prods.toList, ∀ s ∈ p.body, s.name ∈ firstU C.S) ∧
     (∀ e ∈ C.fs, ∀ t ∈ e.2, t ∈ firstU C.S) ∧ (∀ i ∈ items, i.la ∈ firstU C.S))
    ⟨fun ⟨a, b, c⟩ => ⟨a, b, c⟩, fun h => ⟨h.body, h.fs, h.la⟩⟩

/-- universe of the items that `Closure` can add -/
def itemU (C : LRCtx) : List Item :=
  (List.range C.prods.size).flatMap fun pi => (firstU C.S).map fun t => ⟨pi, 0, t⟩

theorem length_flatMap_const {α β : Type} (l : List α) (f : α → List β) (m : Nat)
    (h : ∀ x, (f x).length = m) : (l.flatMap f).length = l.length * m := by
  induction l with
  | nil => simp
  | cons x xs ih =>
    rw [List.flatMap_cons, List.length_append, ih, h, List.length_cons, Nat.succ_mul]
    omega

theorem itemU_length (C : LRCtx) : (itemU C).length = C.prods.size * (C.S.typeMap.length + 1) := by
  unfold itemU
  rw [length_flatMap_const _ _ (C.S.typeMap.length + 1)]
  · simp
  · intro x; simp [firstU]

theorem mem_itemU {C : LRCtx} {j : Item} :
    j ∈ itemU C ↔ j.p < C.prods.size ∧ j.d = 0 ∧ j.la ∈ firstU C.S := by
  unfold itemU
  simp only [List.mem_flatMap, List.mem_range, List.mem_map]
  constructor
  · rintro ⟨pi, hpi, t, ht, rfl⟩
    exact ⟨hpi, rfl, ht⟩
  · rintro ⟨h1, h2, h3⟩
    refine ⟨j.p, h1, j.la, h3, ?_⟩
    cases j; simp_all

/-- the bound on the length of the work list that we prove -/
def closureBound (C : LRCtx) (items : List Item) : Nat :=
  items.length + C.prods.size * (C.S.typeMap.length + 1)

theorem length_le_sum_map (l : List SProd) : l.length ≤ (l.map fun p => p.body.length + 1).sum := by
  induction l with
  | nil => simp
  | cons x xs ih => simp only [List.length_cons, List.map_cons, List.sum_cons]; omega

/-- the model's fuel dominates the proved bound -/
theorem closureBound_le_maxItems (C : LRCtx) (items : List Item) :
    closureBound C items ≤ C.maxItems + items.length := by
  unfold closureBound LRCtx.maxItems
  have h1 := length_le_sum_map C.prods.toList
  rw [Array.length_toList] at h1
  have h2 := Nat.mul_le_mul_right (C.S.typeMap.length + 1) h1
  omega

/-- loop invariant of `closureLoop`: `k` items processed, work list `c` -/
structure CInv (C : LRCtx) (items : List Item) (k : Nat) (c : List Item) : Prop where
  nodup : c.Nodup
  univ : ∀ i ∈ c, i ∈ items ∨ i ∈ itemU C
  kle : k ≤ c.length
  done : ∀ idx i, idx < k → c[idx]? = some i → ∀ j ∈ closureStep C i, j ∈ c

theorem CInv.la {C : LRCtx} {items : List Item} {k : Nat} {c : List Item} (hW : WFc C items)
    (h : CInv C items k c) : ∀ i ∈ c, i.la ∈ firstU C.S := by
  intro i hi
  rcases h.univ i hi with h' | h'
  · exact hW.la i h'
  · exact (mem_itemU.1 h').2.2

theorem CInv.length_le {C : LRCtx} {items : List Item} {k : Nat} {c : List Item}
    (h : CInv C items k c) : c.length ≤ closureBound C items := by
  have := List.Nodup.length_le_of_subset h.nodup (l₂ := items ++ itemU C) (by
    intro i hi
    exact List.mem_append.2 (h.univ i hi))
  rw [List.length_append, itemU_length] at this
  exact this

theorem CInv.step {C : LRCtx} {items : List Item} {k : Nat} {c : List Item} {i : Item}
    (hW : WFc C items) (h : CInv C items k c) (hk : c[k]? = some i) :
    CInv C items (k + 1) ((closureStep C i).foldl addItem c) := by
  obtain ⟨s1, s2, s3⟩ := foldl_addItem_spec (closureStep C i) c
  have hkl : k < c.length := (List.getElem?_eq_some_iff.1 hk).1
  have hic : i ∈ c := List.mem_of_getElem? hk
  refine ⟨s1 h.nodup, ?_, ?_, ?_⟩
  · intro j hj
    rcases (s3 j).1 hj with hj | hj
    · exact h.univ j hj
    · right
      obtain ⟨j1, j2, j3⟩ := mem_closureStep hj
      refine mem_itemU.2 ⟨j1, j2, ?_⟩
      rcases mem_first1 j3 with h' | ⟨p, hp, s, hs, h'⟩ | ⟨e, he, h'⟩
      · rw [h']; exact h.la hW i hic
      · rw [h']; exact hW.body p hp s hs
      · exact hW.fs e he _ h'
  · have := s2.length_le
    omega
  · intro idx i' hidx hi' j hj
    obtain ⟨t, ht⟩ := s2
    have hlt : idx < c.length := by omega
    have hget : c[idx]? = some i' := by
      rw [← ht, List.getElem?_append_left hlt] at hi'
      exact hi'
    by_cases hik : idx < k
    · exact (s3 j).2 (Or.inl (h.done idx i' hik hget j hj))
    · have : idx = k := by omega
      subst this
      rw [hk] at hget
      cases hget
      exact (s3 j).2 (Or.inr hj)

/-- Main loop lemma: with `fuel + k` at least the bound, the loop ends because the work list is
    exhausted (all items processed), never because the fuel ran out. -/
theorem closureLoop_spec {C : LRCtx} {items : List Item} (hW : WFc C items) :
    ∀ (fuel k : Nat) (c : List Item), CInv C items k c → closureBound C items ≤ fuel + k →
      CInv C items (closureLoop C fuel k c).length (closureLoop C fuel k c) := by
  intro fuel
  induction fuel with
  | zero =>
    intro k c h hb
    have h1 := h.length_le
    have h2 := h.kle
    have : k = c.length := by omega
    simp only [closureLoop]
    rw [← this]; exact h
  | succ fuel ih =>
    intro k c h hb
    cases hk : c[k]? with
    | none =>
      have h1 : c.length ≤ k := List.getElem?_eq_none_iff.1 hk
      have h2 := h.kle
      have : k = c.length := by omega
      simp only [closureLoop, hk]
      rw [← this]; exact h
    | some i =>
      simp only [closureLoop, hk]
      exact ih (k + 1) _ (h.step hW hk) (by omega)

/-- with enough fuel the result does not depend on the fuel -/
theorem closureLoop_fuel_irrel {C : LRCtx} {items : List Item} (hW : WFc C items) :
    ∀ (f1 f2 k : Nat) (c : List Item), CInv C items k c → closureBound C items ≤ f1 + k →
      closureBound C items ≤ f2 + k → closureLoop C f1 k c = closureLoop C f2 k c := by
  intro f1
  induction f1 with
  | zero =>
    intro f2 k c h hb1 hb2
    have h1 := h.length_le
    have h2 := h.kle
    have hkc : c[k]? = none := List.getElem?_eq_none_iff.2 (by omega)
    cases f2 with
    | zero => rfl
    | succ f2 => simp only [closureLoop, hkc]
  | succ f1 ih =>
    intro f2 k c h hb1 hb2
    cases f2 with
    | zero =>
      have h1 := h.length_le
      have h2 := h.kle
      have hkc : c[k]? = none := List.getElem?_eq_none_iff.2 (by omega)
      simp only [closureLoop, hkc]
    | succ f2 =>
      cases hk : c[k]? with
      | none => simp only [closureLoop, hk]
      | some i =>
        simp only [closureLoop, hk]
        exact ih f2 (k + 1) _ (h.step hW hk) (by omega) (by omega)

/-- fuel-independent facts: the work list only grows at the end and stays duplicate-free -/
theorem closureLoop_prefix_nodup (C : LRCtx) : ∀ (fuel k : Nat) (c : List Item),
    c <+: closureLoop C fuel k c ∧ (c.Nodup → (closureLoop C fuel k c).Nodup) := by
  intro fuel
  induction fuel with
  | zero => intro k c; simp only [closureLoop]; exact ⟨List.prefix_refl c, id⟩
  | succ fuel ih =>
    intro k c
    cases hk : c[k]? with
    | none => simp only [closureLoop, hk]; exact ⟨List.prefix_refl c, id⟩
    | some i =>
      simp only [closureLoop, hk]
      obtain ⟨s1, s2, _⟩ := foldl_addItem_spec (closureStep C i) c
      obtain ⟨i1, i2⟩ := ih (k + 1) ((closureStep C i).foldl addItem c)
      exact ⟨List.IsPrefix.trans s2 i1, fun hc => i2 (s1 hc)⟩

theorem closure_init (C : LRCtx) (items : List Item) :
    CInv C items 0 (items.foldl addItem []) := by
  obtain ⟨s1, _, s3⟩ := foldl_addItem_spec items []
  refine ⟨s1 (by simp), ?_, Nat.zero_le _, ?_⟩
  · intro i hi
    rcases (s3 i).1 hi with h | h
    · cases h
    · exact Or.inl h
  · intro idx i hidx; omega

theorem closure_inv {C : LRCtx} {items : List Item} (hW : WFc C items) :
    CInv C items (closure C items).length (closure C items) := by
  unfold closure
  apply closureLoop_spec hW _ _ _ (closure_init C items)
  have := closureBound_le_maxItems C items
  omega

/-! ### consequences used by the property file -/

theorem firstSets_inv {S : PSymbols} {prods : List SProd} (hW : WFp S prods) :
    FInv S (firstSets S prods) := by
  unfold firstSets
  obtain ⟨n, _, _, _, _, h5, h6⟩ := firstSetsFuel_spec hW
    (S.ntList.length * (S.typeMap.length + 2) + 2) [] (FInv.nil S) (by
      have : S.ntList.length * (S.typeMap.length + 1) ≤ S.ntList.length * (S.typeMap.length + 2) :=
        Nat.mul_le_mul_left _ (by omega)
      simp only [fsSize, List.map_nil, List.sum_nil]
      omega)
  rw [h5]; exact h6

theorem newSymbols_mono {prods : List SProd} {S0 : PSymbols} (h : newSymbols prods = .ok S0) :
    PLe { typeMap := ["INVALID", "␚"] } S0 := by
  unfold newSymbols at h
  have := foldlM_except_rel symAddProd PLe
    (fun p s => p.head ∈ s.ntList ∧ ∀ sym ∈ p.body, sym.name ∈ s.typeMap) PLe.refl PLe.trans
    (fun a b b' hq hr => ⟨hr.1 _ hq.1, fun sym hs => hr.2 _ (hq.2 sym hs)⟩)
    (fun b a b' hb => symAddProd_ok hb) _ _ _ h
  exact this.1

/-- the closure context built by `genParser` is well-formed for any kernel whose look-aheads are
    symbols (or "empty") -/
theorem WFc_of_WFp {S : PSymbols} {prods : List SProd} (hW : WFp S prods) (items : List Item)
    (hla : ∀ i ∈ items, i.la ∈ firstU S) :
    WFc { prods := prods.toArray, S := S, fs := firstSets S prods } items := by
  refine ⟨?_, ?_, hla⟩
  · intro p hp s hs
    have hp' : p ∈ prods := by simpa using hp
    exact List.mem_cons_of_mem _ ((hW p hp').2 s hs)
  · intro e he t ht
    exact ((firstSets_inv hW).vals e he).2 t ht

theorem WFc.of_la {C : LRCtx} {K J : List Item} (h : WFc C K)
    (hla : ∀ i ∈ J, i.la ∈ firstU C.S) : WFc C J := ⟨h.body, h.fs, hla⟩

/-- the kernel computed by `goto` inherits its look-aheads from `I` -/
theorem goto_kernel_la {C : LRCtx} {I : List Item} (X : String)
    (hI : ∀ i ∈ I, i.la ∈ firstU C.S) :
    ∀ j ∈ (I.filter fun i => i.d < C.len i && C.expected i == X).map
      (fun i => { i with d := i.d + 1 }), j.la ∈ firstU C.S := by
  intro j hj
  rcases List.mem_map.1 hj with ⟨i, hi, rfl⟩
  exact hI i (List.mem_filter.1 hi).1

/-! ### a `decide`-friendly copy of the closure (insertion sort instead of `mergeSort`)
`List.mergeSort` is defined by well-founded recursion and does not reduce under `decide`; the
copies below are provably equal to the model functions and are used only for examples. -/

def insStr (a : String) : List String → List String
  | [] => [a]
  | b :: l => if a ≤ b then a :: b :: l else b :: insStr a l

def insSortStr : List String → List String
  | [] => []
  | a :: l => insStr a (insSortStr l)

theorem insStr_perm (a : String) : ∀ l, (insStr a l).Perm (a :: l) := by
  intro l
  induction l with
  | nil => exact List.Perm.refl _
  | cons b l ih =>
    simp only [insStr]
    split
    · exact List.Perm.refl _
    · exact ((ih.cons b).trans (List.Perm.swap a b l))

theorem insStr_pairwise (a : String) : ∀ l, l.Pairwise (· ≤ ·) → (insStr a l).Pairwise (· ≤ ·) := by
  intro l
  induction l with
  | nil => intro _; simp [insStr]
  | cons b l ih =>
    intro h
    simp only [insStr]
    rw [List.pairwise_cons] at h
    split
    · rename_i hab
      rw [List.pairwise_cons]
      refine ⟨?_, List.pairwise_cons.2 h⟩
      intro x hx
      rcases List.mem_cons.1 hx with rfl | hx
      · exact hab
      · exact String.le_trans hab (h.1 x hx)
    · rename_i hab
      have hba : b ≤ a := by
        rcases String.le_total a b with h' | h'
        · exact absurd h' hab
        · exact h'
      rw [List.pairwise_cons]
      refine ⟨?_, ih h.2⟩
      intro x hx
      have := (insStr_perm a l).subset hx
      rcases List.mem_cons.1 this with rfl | hx'
      · exact hba
      · exact h.1 x hx'

theorem insSortStr_perm : ∀ l, (insSortStr l).Perm l := by
  intro l
  induction l with
  | nil => exact List.Perm.refl _
  | cons a l ih => exact (insStr_perm a _).trans (ih.cons a)

theorem insSortStr_pairwise : ∀ l, (insSortStr l).Pairwise (· ≤ ·) := by
  intro l
  induction l with
  | nil => simp [insSortStr]
  | cons a l ih => exact insStr_pairwise a _ ih

theorem sortStrings_eq_insSortStr (l : List String) : sortStrings l = insSortStr l := by
  unfold sortStrings
  apply List.Perm.eq_of_pairwise (le := (· ≤ ·))
  · intro a b _ _ h1 h2; exact String.le_antisymm h1 h2
  · have := List.pairwise_mergeSort (le := fun (a b : String) => decide (a ≤ b))
      (by intro a b c h1 h2; simp only [decide_eq_true_eq] at *; exact String.le_trans h1 h2)
      (by intro a b; simp only [Bool.or_eq_true, decide_eq_true_eq]; exact String.le_total a b) l
    simpa using this
  · exact insSortStr_pairwise l
  · exact (List.mergeSort_perm l _).trans (insSortStr_perm l).symm

def first1I (C : LRCtx) (i : Item) : List String :=
  insSortStr (firstS C.S C.fs ((C.body i).drop (i.d + 1) ++ [i.la]))

def closureStepI (C : LRCtx) (i : Item) : List Item :=
  if i.d ≥ C.len i || C.S.isTerminal (C.expected i) then []
  else
    let exp := C.expected i
    let f := first1I C i
    (List.range C.prods.size).flatMap fun pi =>
      if C.prods[pi]!.head == exp then f.map fun t => ⟨pi, 0, t⟩ else []

def closureLoopI (C : LRCtx) : Nat → Nat → List Item → List Item
  | 0, _, c => c
  | fuel + 1, k, c =>
    match c[k]? with
    | none => c
    | some i => closureLoopI C fuel (k + 1) ((closureStepI C i).foldl addItem c)

def closureI (C : LRCtx) (items : List Item) : List Item :=
  closureLoopI C (C.maxItems + items.length + 1) 0 (items.foldl addItem [])

theorem closureStep_eq_I (C : LRCtx) (i : Item) : closureStep C i = closureStepI C i := by
  unfold closureStep closureStepI first1 first1I
  rw [sortStrings_eq_insSortStr]

theorem closureLoop_eq_I (C : LRCtx) : ∀ (fuel k : Nat) (c : List Item),
    closureLoop C fuel k c = closureLoopI C fuel k c := by
  intro fuel
  induction fuel with
  | zero => intro k c; rfl
  | succ fuel ih =>
    intro k c
    cases hk : c[k]? with
    | none => simp only [closureLoop, closureLoopI, hk]
    | some i => simp only [closureLoop, closureLoopI, hk]; rw [closureStep_eq_I, ih]

theorem closure_eq_I (C : LRCtx) (items : List Item) : closure C items = closureI C items := by
  unfold closure closureI
  exact closureLoop_eq_I C _ _ _

/-! ### all LR(1) states built by `lrLoop` are closed (no closure was truncated) -/

/-- an item set is closed under `closureStep` and all look-aheads are symbols or "empty" -/
def ClosedLA (C : LRCtx) (I : List Item) : Prop :=
  (∀ i ∈ I, ∀ j ∈ closureStep C i, j ∈ I) ∧ (∀ i ∈ I, i.la ∈ firstU C.S)

def StatesOK (C : LRCtx) (sets : Array LRState) : Prop :=
  ∀ j (h : j < sets.size), ClosedLA C sets[j].items

theorem ClosedLA.nil (C : LRCtx) : ClosedLA C [] := ⟨by simp, by simp⟩

theorem closure_closedLA {C : LRCtx} {items : List Item} (hW : WFc C items) :
    ClosedLA C (closure C items) := by
  refine ⟨?_, (closure_inv hW).la hW⟩
  intro i hi j hj
  have h := closure_inv hW
  obtain ⟨idx, hidx, hget⟩ := List.mem_iff_getElem.1 hi
  exact h.done idx i hidx (by rw [List.getElem?_eq_getElem hidx, hget]) j hj

theorem goto_closedLA {C : LRCtx} {K I : List Item} (hW : WFc C K)
    (hI : ∀ i ∈ I, i.la ∈ firstU C.S) (X : String) : ClosedLA C (goto C I X) := by
  unfold goto
  dsimp only
  split
  · exact ClosedLA.nil C
  · exact closure_closedLA (hW.of_la (goto_kernel_la X hI))

theorem StatesOK.getBang {C : LRCtx} {sets : Array LRState} (h : StatesOK C sets) (i : Nat) :
    ClosedLA C sets[i]!.items := by
  by_cases hi : i < sets.size
  · rw [getElem!_pos sets i hi]; exact h i hi
  · rw [getElem!_neg sets i hi]; exact ClosedLA.nil C

theorem StatesOK.modify {C : LRCtx} {sets : Array LRState} (h : StatesOK C sets) (i : Nat)
    (f : LRState → LRState) (hf : ∀ s, (f s).items = s.items) : StatesOK C (sets.modify i f) := by
  intro j hj
  have hj' : j < sets.size := by simpa using hj
  rw [Array.getElem_modify]
  split
  · rw [hf]; exact h j hj'
  · exact h j hj'

theorem StatesOK.push {C : LRCtx} {sets : Array LRState} (h : StatesOK C sets) (s : LRState)
    (hs : ClosedLA C s.items) : StatesOK C (sets.push s) := by
  intro j hj
  rw [Array.getElem_push]
  split
  · rename_i hlt; exact h j hlt
  · exact hs

theorem lrExpand_ok {C : LRCtx} {K : List Item} (hW : WFc C K) (i : Nat) :
    ∀ (sets : Array LRState), StatesOK C sets → StatesOK C (lrExpand C sets i) := by
  intro sets h
  unfold lrExpand
  have := foldl_inv_rel (fun (b : Array LRState) => StatesOK C b) (fun _ _ => True)
    (fun (_ : String) => True)
    (fun (sets : Array LRState) X =>
      let gto := goto C sets[i]!.items X
      if gto.isEmpty then sets
      else
        match sets.findIdx? (fun s => sameItems s.items gto) with
        | some idx => sets.modify i fun s => { s with trans := s.trans ++ [(X, idx)] }
        | none =>
          let sets := sets.push { items := gto }
          sets.modify i fun s => { s with trans := s.trans ++ [(X, sets.size - 1)] })
    (fun _ => trivial) (fun _ _ _ _ _ => trivial)
    (by
      intro b X _ hb
      refine ⟨?_, trivial⟩
      have hg : ClosedLA C (goto C b[i]!.items X) := goto_closedLA hW (hb.getBang i).2 X
      dsimp only
      split
      · exact hb
      · split
        · exact hb.modify i _ (fun s => rfl)
        · exact (hb.push _ hg).modify i _ (fun s => rfl))
    C.S.typeMap sets (fun _ _ => trivial) h
  exact this.1

theorem lrLoop_ok {C : LRCtx} {K : List Item} (hW : WFc C K) :
    ∀ (fuel i : Nat) (sets : Array LRState), StatesOK C sets → StatesOK C (lrLoop C fuel i sets) := by
  intro fuel
  induction fuel with
  | zero => intro i sets h; exact h
  | succ fuel ih =>
    intro i sets h
    simp only [lrLoop]
    split
    · exact ih (i + 1) _ (lrExpand_ok hW i sets h)
    · exact h

/-- what a successful `genParser` run computed for the context and the LR(1) states -/
theorem genParser_shape {syn : List SProd} {ids : List String} {r : LRResult}
    (h : genParser syn ids = .ok r) :
    ∃ S0, newSymbols (augment syn) = .ok S0 ∧
      r.ctx = { prods := (augment syn).toArray, S := S0.addTokens ids,
                fs := firstSets (S0.addTokens ids) (augment syn) } ∧
      r.states = lrLoop r.ctx 4096 0 #[{ items := closure r.ctx [⟨0, 0, "␚"⟩] }] := by
  unfold genParser at h
  simp only [bind, Except.bind] at h
  split at h
  · cases h
  · rename_i S0 hS0
    refine ⟨S0, hS0, ?_⟩
    split at h
    · cases h
    · simp only [pure, Except.pure] at h
      cases h
      exact ⟨rfl, rfl⟩

/-! ## (C) lexer ε-closure `emoves` — partial result
Depth-first work list with a visited set.  We prove completeness of `emovesLoop` relative to an
explicit finite universe `U` of items that is closed under `emoveStep` (for non-basic items) with
out-degree at most `D`: fuel `1 + |U| * (D + 1)` suffices.  What is NOT proved here is the
construction, for an arbitrary pattern, of such a `U` with `1 + |U| * (D + 1) ≤ (C.fuel + 2)^2`
(a counting argument over the positions of the pattern tree); for a concrete lexer the universe
can be supplied and checked by `decide`. -/

theorem litem_beq (a b : LItem) : (a == b) = (a.prod == b.prod && a.path == b.path) := by
  cases a; cases b; rfl

instance : LawfulBEq LItem where
  eq_of_beq := by
    intro a b h
    rw [litem_beq] at h
    cases a; cases b
    simpa using h
  rfl := by
    intro a; rw [litem_beq]; simp

/-- reachability by `emoveStep` through non-basic items (basic items are not expanded) -/
inductive EReach (C : LexCtx) (s : LItem) : LItem → Prop
  | refl : EReach C s s
  | step {x y : LItem} : EReach C s x → C.isBasic x = false → y ∈ emoveStep C x → EReach C s y

/-- a finite universe closed under the ε-step, with bounded out-degree -/
structure EUniv (C : LexCtx) (U : List LItem) (D : Nat) : Prop where
  closed : ∀ x ∈ U, C.isBasic x = false → ∀ y ∈ emoveStep C x, y ∈ U
  deg : ∀ x ∈ U, C.isBasic x = false → (emoveStep C x).length ≤ D

instance (C : LexCtx) (U : List LItem) (D : Nat) : Decidable (EUniv C U D) :=
  decidable_of_iff
    ((∀ x ∈ U, C.isBasic x = false → ∀ y ∈ emoveStep C x, y ∈ U) ∧
     (∀ x ∈ U, C.isBasic x = false → (emoveStep C x).length ≤ D))
    ⟨fun ⟨a, b⟩ => ⟨a, b⟩, fun h => ⟨h.closed, h.deg⟩⟩

/-- the strictly decreasing potential of the loop -/
def ePot (U : List LItem) (D : Nat) (work visited : List LItem) : Nat :=
  work.length + (U.length - visited.length) * (D + 1)

structure EInv (C : LexCtx) (U work visited out : List LItem) : Prop where
  vnodup : visited.Nodup
  vsub : ∀ x ∈ visited, x ∈ U
  wsub : ∀ x ∈ work, x ∈ U
  succ : ∀ x ∈ visited, C.isBasic x = false → ∀ y ∈ emoveStep C x, y ∈ visited ∨ y ∈ work
  basic : ∀ x ∈ visited, C.isBasic x = true → x ∈ out

theorem emovesLoop_spec {C : LexCtx} {U : List LItem} {D : Nat} (hU : EUniv C U D) :
    ∀ (fuel : Nat) (work visited out : List LItem), EInv C U work visited out →
      ePot U D work visited ≤ fuel →
      ∃ V : List LItem, (∀ x ∈ work, x ∈ V) ∧ (∀ x ∈ visited, x ∈ V) ∧
        (∀ x ∈ V, C.isBasic x = false → ∀ y ∈ emoveStep C x, y ∈ V) ∧
        (∀ x ∈ V, C.isBasic x = true → x ∈ emovesLoop C fuel work visited out) := by
  have hdone : ∀ (fuel : Nat) (visited out : List LItem), EInv C U [] visited out →
      emovesLoop C fuel [] visited out = out →
      ∃ V : List LItem, (∀ x ∈ ([] : List LItem), x ∈ V) ∧ (∀ x ∈ visited, x ∈ V) ∧
        (∀ x ∈ V, C.isBasic x = false → ∀ y ∈ emoveStep C x, y ∈ V) ∧
        (∀ x ∈ V, C.isBasic x = true → x ∈ emovesLoop C fuel [] visited out) := by
    intro fuel visited out h heq
    refine ⟨visited, by simp, fun x hx => hx, ?_, ?_⟩
    · intro x hx hb y hy
      rcases h.succ x hx hb y hy with h' | h'
      · exact h'
      · cases h'
    · intro x hx hb
      rw [heq]; exact h.basic x hx hb
  intro fuel
  induction fuel with
  | zero =>
    intro work visited out h hp
    have : work = [] := by
      unfold ePot at hp
      exact List.eq_nil_of_length_eq_zero (by omega)
    subst this
    exact hdone 0 visited out h (by simp only [emovesLoop])
  | succ fuel ih =>
    intro work visited out h hp
    cases work with
    | nil => exact hdone (fuel + 1) visited out h (by simp only [emovesLoop])
    | cons i work =>
      have hiU : i ∈ U := h.wsub i (List.mem_cons_self ..)
      simp only [emovesLoop]
      by_cases hv : visited.contains i = true
      · -- already visited: drop it
        have hiv : i ∈ visited := by simpa using hv
        simp only [hv, if_true]
        have hinv : EInv C U work visited out := by
          refine ⟨h.vnodup, h.vsub, fun x hx => h.wsub x (List.mem_cons_of_mem _ hx), ?_, h.basic⟩
          intro x hx hb y hy
          rcases h.succ x hx hb y hy with h' | h'
          · exact Or.inl h'
          · rcases List.mem_cons.1 h' with rfl | h''
            · exact Or.inl hiv
            · exact Or.inr h''
        obtain ⟨V, v1, v2, v3, v4⟩ := ih work visited out hinv (by
          unfold ePot at hp ⊢; simp only [List.length_cons] at hp; omega)
        refine ⟨V, ?_, v2, v3, v4⟩
        intro x hx
        rcases List.mem_cons.1 hx with rfl | hx
        · exact v2 _ hiv
        · exact v1 x hx
      · have hiv : i ∉ visited := by simpa using hv
        have hnd : (i :: visited).Nodup := List.nodup_cons.2 ⟨hiv, h.vnodup⟩
        have hsub : ∀ x ∈ i :: visited, x ∈ U := by
          intro x hx
          rcases List.mem_cons.1 hx with rfl | hx
          · exact hiU
          · exact h.vsub x hx
        have hlen : visited.length + 1 ≤ U.length := by
          have := List.Nodup.length_le_of_subset hnd (fun x hx => hsub x hx)
          simpa using this
        have hsplit : (U.length - visited.length) * (D + 1) =
            (U.length - (visited.length + 1)) * (D + 1) + (D + 1) := by
          have : U.length - visited.length = (U.length - (visited.length + 1)) + 1 := by omega
          rw [this, Nat.succ_mul]
        simp only [hv]
        by_cases hb : C.isBasic i = true
        · simp only [hb, if_true]
          have hinv : EInv C U work (i :: visited) (out ++ [i]) := by
            refine ⟨hnd, hsub, fun x hx => h.wsub x (List.mem_cons_of_mem _ hx), ?_, ?_⟩
            · intro x hx hbx y hy
              rcases List.mem_cons.1 hx with rfl | hx
              · rw [hb] at hbx; cases hbx
              · rcases h.succ x hx hbx y hy with h' | h'
                · exact Or.inl (List.mem_cons_of_mem _ h')
                · rcases List.mem_cons.1 h' with rfl | h''
                  · exact Or.inl (List.mem_cons_self ..)
                  · exact Or.inr h''
            · intro x hx hbx
              rcases List.mem_cons.1 hx with rfl | hx
              · simp
              · exact List.mem_append_left _ (h.basic x hx hbx)
          obtain ⟨V, v1, v2, v3, v4⟩ := ih work (i :: visited) (out ++ [i]) hinv (by
            unfold ePot at hp ⊢; simp only [List.length_cons] at hp ⊢; omega)
          refine ⟨V, ?_, fun x hx => v2 x (List.mem_cons_of_mem _ hx), v3, v4⟩
          intro x hx
          rcases List.mem_cons.1 hx with rfl | hx
          · exact v2 _ (List.mem_cons_self ..)
          · exact v1 x hx
        · have hb' : C.isBasic i = false := by simpa using hb
          simp only [hb', Bool.false_eq_true, if_false]
          have hinv : EInv C U ((emoveStep C i).reverse ++ work) (i :: visited) out := by
            refine ⟨hnd, hsub, ?_, ?_, ?_⟩
            · intro x hx
              rcases List.mem_append.1 hx with hx | hx
              · exact hU.closed i hiU hb' x (List.mem_reverse.1 hx)
              · exact h.wsub x (List.mem_cons_of_mem _ hx)
            · intro x hx hbx y hy
              rcases List.mem_cons.1 hx with rfl | hx
              · exact Or.inr (List.mem_append_left _ (List.mem_reverse.2 hy))
              · rcases h.succ x hx hbx y hy with h' | h'
                · exact Or.inl (List.mem_cons_of_mem _ h')
                · rcases List.mem_cons.1 h' with rfl | h''
                  · exact Or.inl (List.mem_cons_self ..)
                  · exact Or.inr (List.mem_append_right _ h'')
            · intro x hx hbx
              rcases List.mem_cons.1 hx with rfl | hx
              · rw [hb'] at hbx; cases hbx
              · exact h.basic x hx hbx
          have hdeg := hU.deg i hiU hb'
          obtain ⟨V, v1, v2, v3, v4⟩ := ih _ (i :: visited) out hinv (by
            unfold ePot at hp ⊢
            simp only [List.length_cons, List.length_append, List.length_reverse] at hp ⊢
            omega)
          refine ⟨V, ?_, fun x hx => v2 x (List.mem_cons_of_mem _ hx), v3, v4⟩
          intro x hx
          rcases List.mem_cons.1 hx with rfl | hx
          · exact v2 _ (List.mem_cons_self ..)
          · exact v1 x (List.mem_append_right _ hx)

/-- PARTIAL (relative to a supplied universe): every basic item reachable from `i` is returned by
    `emoves C i`, provided some `emoveStep`-closed universe `U ∋ i` with out-degree `≤ D`
    satisfies `1 + |U| * (D + 1) ≤ (C.fuel + 2)^2`. -/
theorem emoves_complete_of_universe {C : LexCtx} {i : LItem} {U : List LItem} {D : Nat}
    (hU : EUniv C U D) (hi : i ∈ U)
    (hfuel : 1 + U.length * (D + 1) ≤ (C.fuel + 2) * (C.fuel + 2)) :
    ∀ y, EReach C i y → C.isBasic y = true → y ∈ emoves C i := by
  unfold emoves
  obtain ⟨V, v1, _, v3, v4⟩ := emovesLoop_spec hU ((C.fuel + 2) * (C.fuel + 2)) [i] [] []
    ⟨by simp, by simp, by simpa using hi, by simp, by simp⟩
    (by unfold ePot; simpa using hfuel)
  intro y hy
  have hV : y ∈ V := by
    induction hy with
    | refl => exact v1 i (List.mem_cons_self ..)
    | step _ hnb hstep ih => exact v3 _ ih hnb _ hstep
  intro hb
  exact v4 y hV hb

end Gocc
