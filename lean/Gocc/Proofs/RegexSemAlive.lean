import Gocc.Proofs.RegexSemMain
/-
C01 (regular-expression semantics), part 7: the residual language of EVERY position, and the prefix
property.

  * `run_of_cont`: from any dotted position `y`, every string of its continuation language `Cont C y` is
    read by a run to the completed item — with `run_cont` (soundness): `Cont C y` IS the residual
    language of `y` (`residual_iff`).
  * `live` patterns: every continuation language is non-empty (`cont_nonempty`), hence the automaton is
    alive after `w` iff `w` is a prefix of a string matched by some token (`alive_iff`).
-/
namespace Gocc
namespace RegexS

open EmovesU LexGenC

theorem cPassAll {C : LexCtx} {k : Nat} {P : LProd} (hP : C.prods[k]? = some P) (p : LPat) :
    CPass C k P p := cPass hP p.size p (Nat.le_refl _)

theorem after_rem_end {pn : LNode} {m : Nat} (hpl : isPatLike pn = true) (hm : m < pn.len) :
    ∀ w, after pn m w → rem pn pn.len w := by
  intro w hw
  have hne : pn.len ≠ 0 := by omega
  cases pn with
  | alt _ => simp [isPatLike] at hpl
  | pat p => simpa [rem, after, hne] using hw
  | grp p => simpa [rem, after, hne] using hw
  | opt p => simpa [rem, after, hne] using hw
  | rep p => simpa [rem, after] using hw

section
variable {C : LexCtx} {k : Nat} {P : LProd} (hP : C.prods[k]? = some P)
include hP

/-- the rest of a `( )`, `[ ]`, `{ }` node from any of its positions, then out of it -/
theorem cSub {q : List Nat} {j : Nat} {c : LNode} {p : LPat}
    (hc : node (.pat P.pat) (q ++ [j]) = some c)
    (hk : c = .grp p ∨ c = .opt p ∨ c = .rep p) {pos : Nat} {u : List Int} (hu : rem c pos u) :
    Run C ⟨k, q ++ [j] ++ [pos]⟩ u ⟨k, q ++ [j + 1]⟩ := by
  rcases hk with rfl | rfl | rfl
  · by_cases h0 : pos = 0
    · subst h0
      simp only [rem, if_true] at hu
      have h2 := cPassAll hP p _ _ 0 u hc (Or.inr (Or.inl rfl)) (Or.inl rfl) hu
      have h3 := post_step hP hc (p := p) (pos := (LNode.grp p).len)
        (Or.inl ⟨rfl, by simpa [LNode.len] using alts_ne_of_den hu⟩)
      simpa using h2.trans h3
    · simp only [rem, h0, if_false] at hu
      rw [show u = [] from hu]
      exact post_step hP hc (p := p) (Or.inl ⟨rfl, h0⟩)
  · have hpost : ∀ pos', Run C ⟨k, q ++ [j] ++ [pos']⟩ [] ⟨k, q ++ [j + 1]⟩ :=
      fun pos' => post_step hP hc (p := p) (Or.inr (Or.inl rfl))
    by_cases h0 : pos = 0
    · subst h0
      simp only [rem, if_true] at hu
      rw [denTerm_opt] at hu
      rcases hu with rfl | hu
      · exact hpost 0
      · have h2 := cPassAll hP p _ _ 0 u hc (Or.inr (Or.inr (Or.inl rfl))) (Or.inl rfl) hu
        simpa using h2.trans (hpost _)
    · simp only [rem, h0, if_false] at hu
      rw [show u = [] from hu]
      exact hpost pos
  · simp only [rem, denTerm_rep] at hu
    exact cRep hP hc (cPassAll hP p) hu pos

/-- COMPLETENESS for every position: a string of the continuation language is read to the end -/
theorem run_of_cont_aux : ∀ (N : Nat) (q : List Nat) (n : LNode) (pos : Nat) (v : List Int),
    q.length = N → node (.pat P.pat) q = some n → pos ≤ n.len →
    cat (rem n pos) (up (.pat P.pat) q eps) v →
    Run C ⟨k, q ++ [pos]⟩ v ⟨k, [P.pat.alts.length]⟩ := by
  intro N
  induction N with
  | zero =>
    intro q n pos v hq hn hpos hv
    have : q = [] := List.eq_nil_of_length_eq_zero hq
    subst this
    simp only [node, Option.some.injEq] at hn
    subst hn
    obtain ⟨v1, v2, rfl, h1, h2⟩ := hv
    simp only [up] at h2
    rw [show v2 = [] from h2, List.append_nil, List.nil_append]
    simp only [LNode.len] at hpos
    by_cases h0 : pos = 0
    · subst h0
      simp only [rem, if_true] at h1
      exact run_of_den hP h1
    · simp only [rem, h0, if_false] at h1
      rw [show v1 = [] from h1]
      by_cases hlt : pos < P.pat.alts.length
      · refine Run.step_eps ?_ ?_
        · have := nonbasic_patlike hP (q := []) (n := .pat P.pat) rfl rfl pos (fun _ => hlt)
          simpa using this
        · rw [step_root hP, if_neg h0]
          exact List.mem_singleton.2 rfl
      · have : pos = P.pat.alts.length := by omega
        rw [this]
        exact .refl _
  | succ N ih =>
    intro q n pos v hq hn hpos hv
    have hqne : q ≠ [] := by intro h; subst h; simp at hq
    obtain ⟨q', j, pn, rfl, hpn, hc⟩ := node_parent hn hqne
    have hq' : q'.length = N := by simpa using hq
    rw [up_snoc q' _ pn n j eps hpn hc] at hv
    obtain ⟨v1, v2, rfl, h1, v2a, v2b, rfl, h2a, h2b⟩ := hv
    rcases child_kind hc with ⟨hpl, hal⟩ | ⟨hal, hpl, hnp⟩
    · -- `n` is an alternative of the pattern-like node `pn`
      cases n with
      | alt a =>
        simp only [rem] at h1
        simp only [LNode.len] at hpos
        have r1 := cAlt hP hn (fun j' t p' _ _ => cPassAll hP p') (a.terms.length - pos) pos v1
          (by omega) h1
        have r2 := alt_end_step hP hpn hc
        have r3 := ih q' pn pn.len (v2a ++ v2b) hq' hpn (Nat.le_refl _)
          ⟨v2a, v2b, rfl, after_rem_end hpl (child_lt hc) _ h2a, h2b⟩
        simpa using (r1.trans r2).trans r3
      | _ => simp [isAlt] at hal
    · -- `n` is a `( )`, `[ ]`, `{ }` term of the alternative `pn`
      cases pn with
      | alt a =>
        obtain ⟨p, hk⟩ := child_alt_term hc
        have hk' : n = .grp p ∨ n = .opt p ∨ n = .rep p := by
          rcases hk with ⟨_, h⟩ | ⟨_, h⟩ | ⟨_, h⟩
          · exact Or.inl h
          · exact Or.inr (Or.inl h)
          · exact Or.inr (Or.inr h)
        have r1 := cSub hP hn hk' h1
        have hj := child_lt hc
        simp only [LNode.len] at hj
        have r3 := ih q' (.alt a) (j + 1) (v2a ++ v2b) hq' hpn (by simp only [LNode.len]; omega)
          ⟨v2a, v2b, rfl, by simpa [rem, after] using h2a, h2b⟩
        exact r1.trans r3
      | _ => simp [isAlt] at hal

end

/-- every string of the continuation language of a dotted position is read to the completed item -/
theorem run_of_cont {C : LexCtx} {y : LItem} {P : LProd} (hP : C.prods[y.prod]? = some P)
    (hy : Pos C y) {v : List Int} (hv : Cont C y v) :
    Run C y v ⟨y.prod, [P.pat.alts.length]⟩ := by
  obtain ⟨P', hP', q, pos, n, hpath, hn, hpos⟩ := hy
  rw [hP] at hP'
  cases hP'
  cases y with
  | mk k l =>
    simp only at hP hpath hn
    subst hpath
    exact run_of_cont_aux hP q.length q n pos v rfl hn hpos ((cont_at hP hn pos v).1 hv)

/-- RESIDUAL LANGUAGE: the strings that lead from a dotted position to the completed item of its
    production are exactly its continuation language -/
theorem residual_iff {C : LexCtx} {y : LItem} {P : LProd} (hP : C.prods[y.prod]? = some P)
    (hne : P.pat.alts ≠ []) (hy : Pos C y) (v : List Int) :
    Run C y v ⟨y.prod, [P.pat.alts.length]⟩ ↔ Cont C y v :=
  ⟨fun h => run_cont h hy (cont_final hP hne (Nat.le_refl _)), run_of_cont hP hy⟩

/-! ### live patterns: no empty language anywhere -/

def termLV : LTerm → Bool
  | .lit _ => true
  | .rng lo hi => decide (lo ≤ hi)
  | .opt p | .rep p | .grp p => p.live
  | .dot | .ref _ => false

def nodeLV : LNode → Bool
  | .pat p | .grp p | .opt p | .rep p => p.live
  | .alt a => LPat.live.lvTerms a.terms

theorem lvTerms_cons (t : LTerm) (rest : List LTerm) :
    LPat.live.lvTerms (t :: rest) = (termLV t && LPat.live.lvTerms rest) := by
  cases t <;> rw [LPat.live.lvTerms] <;> rfl

theorem live_mk (alts : List LAlt) :
    (LPat.mk alts).live = (!alts.isEmpty && LPat.live.lvAlts alts) := by
  rw [LPat.live]

theorem lvAlts_get : ∀ (alts : List LAlt) (j : Nat) (a : LAlt), alts[j]? = some a →
    LPat.live.lvAlts alts = true → LPat.live.lvTerms a.terms = true
  | [], j, a, h, _ => by simp at h
  | (.mk ts) :: rest, 0, a, h, hn => by
    simp only [List.getElem?_cons_zero, Option.some.injEq] at h
    subst h
    simp only [LPat.live.lvAlts, Bool.and_eq_true] at hn
    exact hn.1
  | (.mk ts) :: rest, j + 1, a, h, hn => by
    simp only [List.getElem?_cons_succ] at h
    simp only [LPat.live.lvAlts, Bool.and_eq_true] at hn
    exact lvAlts_get rest j a h hn.2

theorem lvTerms_get : ∀ (ts : List LTerm) (j : Nat) (t : LTerm), ts[j]? = some t →
    LPat.live.lvTerms ts = true → termLV t = true
  | [], j, a, h, _ => by simp at h
  | t0 :: rest, 0, a, h, hn => by
    simp only [List.getElem?_cons_zero, Option.some.injEq] at h
    subst h
    rw [lvTerms_cons, Bool.and_eq_true] at hn
    exact hn.1
  | t0 :: rest, j + 1, a, h, hn => by
    simp only [List.getElem?_cons_succ] at h
    rw [lvTerms_cons, Bool.and_eq_true] at hn
    exact lvTerms_get rest j a h hn.2

theorem lvTerms_drop : ∀ (ts : List LTerm) (j : Nat), LPat.live.lvTerms ts = true →
    LPat.live.lvTerms (ts.drop j) = true
  | ts, 0, h => by simpa using h
  | [], j + 1, _ => by simp [LPat.live.lvTerms]
  | t :: rest, j + 1, h => by
    rw [lvTerms_cons, Bool.and_eq_true] at h
    simpa using lvTerms_drop rest j h.2

theorem child_nodeLV {n c : LNode} {j : Nat} (h : n.child j = some c) (hn : nodeLV n = true) :
    nodeLV c = true := by
  cases n with
  | alt a =>
    simp only [LNode.child] at h
    simp only [nodeLV] at hn
    cases ht : a.terms[j]? with
    | none => rw [ht] at h; simp at h
    | some t =>
      rw [ht] at h
      have := lvTerms_get _ _ _ ht hn
      cases t <;> simp at h <;> subst h <;> simpa [nodeLV, termLV] using this
  | pat p | grp p | opt p | rep p =>
    cases p with
    | mk alts =>
      simp only [LNode.child, LPat.alts] at h
      simp only [nodeLV, live_mk, Bool.and_eq_true] at hn
      cases ht : alts[j]? with
      | none => rw [ht] at h; simp at h
      | some a =>
        rw [ht] at h
        simp only [Option.map_some, Option.some.injEq] at h
        subst h
        exact lvAlts_get _ _ _ ht hn.2

mutual
  theorem ne_pat : (p : LPat) → p.live = true → ∃ w, denPat p w
    | .mk alts, h => by
      rw [live_mk, Bool.and_eq_true] at h
      obtain ⟨w, hw⟩ := ne_alts alts (by simpa using h.1) h.2
      exact ⟨w, by rw [denPat_mk]; exact hw⟩
  theorem ne_alts : (alts : List LAlt) → alts ≠ [] → LPat.live.lvAlts alts = true →
      ∃ w, denAlts alts w
    | [], h, _ => absurd rfl h
    | .mk ts :: rest, _, h => by
      simp only [LPat.live.lvAlts, Bool.and_eq_true] at h
      obtain ⟨w, hw⟩ := ne_terms ts h.1
      exact ⟨w, by rw [denAlts_cons, denAlt_mk]; exact Or.inl hw⟩
  theorem ne_terms : (ts : List LTerm) → LPat.live.lvTerms ts = true → ∃ w, denTerms ts w
    | [], _ => ⟨[], by rw [denTerms_nil]⟩
    | t :: rest, h => by
      rw [lvTerms_cons, Bool.and_eq_true] at h
      obtain ⟨u, hu⟩ := ne_term t h.1
      obtain ⟨v, hv⟩ := ne_terms rest h.2
      exact ⟨u ++ v, by rw [denTerms_cons]; exact ⟨u, v, rfl, hu, hv⟩⟩
  theorem ne_term : (t : LTerm) → termLV t = true → ∃ w, denTerm t w
    | .dot, h => by simp [termLV] at h
    | .ref _, h => by simp [termLV] at h
    | .lit c, _ => ⟨[c], by rw [denTerm_lit]⟩
    | .rng lo hi, h => ⟨[lo], by
        simp only [termLV, decide_eq_true_eq] at h
        rw [denTerm_rng]; exact ⟨lo, rfl, Int.le_refl _, h⟩⟩
    | .opt p, _ => ⟨[], by rw [denTerm_opt]; exact Or.inl rfl⟩
    | .rep p, _ => ⟨[], by rw [denTerm_rep]; exact .nil⟩
    | .grp p, h => by
      obtain ⟨w, hw⟩ := ne_pat p h
      exact ⟨w, by rw [denTerm_grp]; exact hw⟩
end

theorem node_nodeLV : ∀ (q : List Nat) (r m : LNode), node r q = some m → nodeLV r = true →
    nodeLV m = true := by
  intro q
  induction q with
  | nil => intro r m h hr; simp only [node, Option.some.injEq] at h; subst h; exact hr
  | cons a q ih =>
    intro r m h hr
    simp only [node] at h
    cases hc : r.child a with
    | none => rw [hc] at h; simp at h
    | some c =>
      rw [hc] at h
      exact ih c m (by simpa using h) (child_nodeLV hc hr)

theorem rem_nonempty {n : LNode} (hn : nodeLV n = true) (pos : Nat) : ∃ u, rem n pos u := by
  cases n with
  | alt a =>
    simp only [nodeLV] at hn
    exact ne_terms _ (lvTerms_drop a.terms pos hn)
  | pat p =>
    by_cases h0 : pos = 0
    · obtain ⟨w, hw⟩ := ne_pat p hn
      exact ⟨w, by simpa [rem, h0] using hw⟩
    · exact ⟨[], by simp [rem, h0, eps]⟩
  | grp p =>
    by_cases h0 : pos = 0
    · obtain ⟨w, hw⟩ := ne_pat p hn
      exact ⟨w, by simpa [rem, h0] using hw⟩
    · exact ⟨[], by simp [rem, h0, eps]⟩
  | opt p =>
    refine ⟨[], ?_⟩
    by_cases h0 : pos = 0
    · simp only [rem, h0, if_true]; rw [denTerm_opt]; exact Or.inl rfl
    · simp [rem, h0, eps]
  | rep p => exact ⟨[], by simp only [rem, denTerm_rep]; exact .nil⟩

theorem after_nonempty {n : LNode} (hn : nodeLV n = true) (j : Nat) : ∃ u, after n j u := by
  cases n with
  | alt a =>
    simp only [nodeLV] at hn
    exact ne_terms _ (lvTerms_drop a.terms (j + 1) hn)
  | rep p => exact ⟨[], by simp only [after, denTerm_rep]; exact .nil⟩
  | pat p => exact ⟨[], by simp [after, eps]⟩
  | grp p => exact ⟨[], by simp [after, eps]⟩
  | opt p => exact ⟨[], by simp [after, eps]⟩

theorem up_nonempty : ∀ (q : List Nat) (r m : LNode) (K : Lang), node r q = some m →
    nodeLV r = true → (∃ v, K v) → ∃ v, up r q K v := by
  intro q
  induction q with
  | nil => intro r m K _ _ hK; simpa [up] using hK
  | cons a q ih =>
    intro r m K h hr hK
    simp only [node] at h
    cases hc : r.child a with
    | none => rw [hc] at h; simp at h
    | some c =>
      rw [hc] at h
      simp only [up, hc]
      refine ih c m _ (by simpa using h) (child_nodeLV hc hr) ?_
      obtain ⟨u, hu⟩ := after_nonempty hr a
      obtain ⟨v, hv⟩ := hK
      exact ⟨u ++ v, u, v, rfl, hu, hv⟩

/-- with a `live` pattern every dotted position has a non-empty continuation language -/
theorem cont_nonempty {C : LexCtx} {y : LItem} {P : LProd} (hP : C.prods[y.prod]? = some P)
    (hlive : P.pat.live = true) (hy : Pos C y) : ∃ v, Cont C y v := by
  obtain ⟨P', hP', q, pos, n, hpath, hn, _⟩ := hy
  rw [hP] at hP'
  cases hP'
  cases y with
  | mk k l =>
    simp only at hP hpath hn
    subst hpath
    have hr : nodeLV (.pat P.pat) = true := hlive
    obtain ⟨u, hu⟩ := rem_nonempty (node_nodeLV q _ _ hn hr) pos
    obtain ⟨v, hv⟩ := up_nonempty q _ n eps hn hr ⟨[], rfl⟩
    exact ⟨u ++ v, (cont_at hP hn pos _).2 ⟨u, v, rfl, hu, hv⟩⟩

theorem alts_ne_of_live {p : LPat} (h : p.live = true) : p.alts ≠ [] := by
  cases p with
  | mk alts =>
    rw [live_mk, Bool.and_eq_true] at h
    simpa [LPat.alts] using h.1

/-! ### the prefix property -/

/-- the token patterns are `live` -/
def LiveC (C : LexCtx) : Prop :=
  ∀ (k : Nat) (P : LProd), C.prods[k]? = some P → P.kind ≠ .reg → P.pat.live = true

theorem liveC_of_liveToks {prods : List LProd} (h : liveToks prods = true) :
    LiveC { prods := prods.toArray } := by
  intro k P hP hk
  simp only [liveToks, List.all_eq_true] at h
  have hmem : P ∈ prods := by
    have : prods[k]? = some P := by simpa using hP
    exact List.mem_of_getElem? this
  have := h P hmem
  cases hkk : P.kind <;> simp_all

/-- a prefix of a matched string keeps the automaton alive (no side condition) -/
theorem alive_of_prefix {C : LexCtx} (hC : NoRefC C) (hD : NoDotC C) {k : Nat} {P : LProd}
    (hP : C.prods[k]? = some P) (hk : P.kind ≠ .reg) {w v : List Int} (h : denPat P.pat (w ++ v)) :
    xRun C w ≠ [] := by
  have hrun := run_of_den hP h
  have hr : C.isReduce ⟨k, [P.pat.alts.length]⟩ = true := by rw [isReduce_root hP]; simp
  obtain ⟨y, hy, h1, _⟩ := run_split hrun (by simp [LexCtx.isBasic, hr]) w v rfl
  have : [y] ∈ xRun C w := (mem_xRun_iff hC hD w _).2 ⟨k, P, y, hP, hk, rfl, h1, hy⟩
  intro he
  rw [he] at this
  cases this

/-- with `live` token patterns: an alive automaton has read a prefix of a matched string -/
theorem prefix_of_alive {C : LexCtx} (hC : NoRefC C) (hD : NoDotC C) (hL : LiveC C) {w : List Int}
    (h : xRun C w ≠ []) :
    ∃ (k : Nat) (P : LProd) (v : List Int), C.prods[k]? = some P ∧ P.kind ≠ .reg ∧
      denPat P.pat (w ++ v) := by
  cases hx : xRun C w with
  | nil => exact absurd hx h
  | cons x rest =>
    have hmem : x ∈ xRun C w := by rw [hx]; exact List.mem_cons_self
    obtain ⟨k, P, y, hP, hk, _, hrun, _⟩ := (mem_xRun_iff hC hD w x).1 hmem
    have hprod : y.prod = k := run_prod hrun
    have hPy : C.prods[y.prod]? = some P := by rw [hprod]; exact hP
    have hpos : Pos C y := run_pos hrun (pos_start hP)
    have hlive := hL k P hP hk
    obtain ⟨v, hv⟩ := cont_nonempty hPy hlive hpos
    have hrun2 := run_of_cont hPy hpos hv
    rw [hprod] at hrun2
    have hall := hrun.trans hrun2
    refine ⟨k, P, v, hP, hk, ?_⟩
    exact (cont_start hP _).1 (run_cont hall (pos_start hP)
      (cont_final hP (alts_ne_of_live hlive) (Nat.le_refl _)))

/-- ALIVENESS = PREFIX -/
theorem alive_iff {C : LexCtx} (hC : NoRefC C) (hD : NoDotC C) (hL : LiveC C) (w : List Int) :
    xRun C w ≠ [] ↔ ∃ (k : Nat) (P : LProd) (v : List Int), C.prods[k]? = some P ∧ P.kind ≠ .reg ∧
      denPat P.pat (w ++ v) :=
  ⟨prefix_of_alive hC hD hL, fun ⟨_, _, _, hP, hk, h⟩ => alive_of_prefix hC hD hP hk h⟩

end RegexS
end Gocc
