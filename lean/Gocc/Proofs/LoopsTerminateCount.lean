/-
Counting lemma for the termination of the two item-set loops (`lrLoop`, `lexLoop`), core Lean only.

A list of pairwise "set-different", duplicate-free lists over a finite universe `U` has at most
`2 ^ |U|` elements:
  * `charVec U s` is the characteristic Boolean vector of `s` over `U`;
  * two duplicate-free lists over `U` with the same vector are equal as sets and have the same
    length, i.e. the Go `Equal` test (`sameItems` / `sameLItems`) answers `true` on them;
  * a duplicate-free list of Boolean vectors of length `n` is a sub-list of the `2 ^ n` vectors
    enumerated by `allVecs n`.
-/
namespace Gocc.LoopsT

/-- all Boolean vectors of length `n` -/
def allVecs : Nat → List (List Bool)
  | 0 => [[]]
  | n + 1 => (allVecs n).map (true :: ·) ++ (allVecs n).map (false :: ·)

theorem allVecs_length (n : Nat) : (allVecs n).length = 2 ^ n := by
  induction n with
  | zero => rfl
  | succ n ih =>
    simp only [allVecs, List.length_append, List.length_map, ih, Nat.pow_succ]
    omega

theorem mem_allVecs : ∀ (v : List Bool), v ∈ allVecs v.length
  | [] => by simp [allVecs]
  | b :: v => by
    have := mem_allVecs v
    cases b <;> simp [allVecs, this]

/-- a duplicate-free list of Boolean vectors of length `n` has at most `2 ^ n` elements -/
theorem nodup_vecs_length_le {L : List (List Bool)} {n : Nat} (hn : L.Nodup)
    (hl : ∀ v ∈ L, v.length = n) : L.length ≤ 2 ^ n := by
  rw [← allVecs_length n]
  apply List.Nodup.length_le_of_subset hn
  intro v hv
  rw [← hl v hv]
  exact mem_allVecs v

section
variable {α : Type} [BEq α] [LawfulBEq α]

/-- characteristic vector of `s` over the universe `U` -/
def charVec (U s : List α) : List Bool := U.map fun x => s.contains x

theorem charVec_length (U s : List α) : (charVec U s).length = U.length := by
  simp [charVec]

theorem sub_of_charVec_eq {U s t : List α} (h : charVec U s = charVec U t)
    (hs : ∀ x ∈ s, x ∈ U) : ∀ x ∈ s, x ∈ t := by
  intro x hx
  have h' : s.contains x = t.contains x := (List.map_inj_left.1 h) x (hs x hx)
  have h1 : s.contains x = true := List.contains_iff_mem.2 hx
  rw [h'] at h1
  exact List.contains_iff_mem.1 h1

/-- the Go `Equal` test (same length, every element of the first is in the second) -/
def sameList (a b : List α) : Bool := a.length == b.length && a.all b.contains

/-- duplicate-free lists over `U` with the same characteristic vector pass the `Equal` test -/
theorem sameList_of_charVec_eq {U s t : List α} (hs : ∀ x ∈ s, x ∈ U) (ht : ∀ x ∈ t, x ∈ U)
    (hsn : s.Nodup) (htn : t.Nodup) (h : charVec U s = charVec U t) : sameList s t = true := by
  have h1 := sub_of_charVec_eq h hs
  have h2 := sub_of_charVec_eq h.symm ht
  have l1 := List.Nodup.length_le_of_subset hsn h1
  have l2 := List.Nodup.length_le_of_subset htn h2
  unfold sameList
  simp only [Bool.and_eq_true, beq_iff_eq, List.all_eq_true, List.contains_iff_mem]
  exact ⟨by omega, h1⟩

/-- COUNTING LEMMA.  `L` is a list of objects carrying duplicate-free lists `f a` over `U`; if an
    earlier object never passes the `Equal` test against a later one, `L` has at most `2 ^ |U|`
    elements. -/
theorem length_le_two_pow {β : Type} (U : List α) (f : β → List α) (L : List β)
    (hU : ∀ a ∈ L, ∀ x ∈ f a, x ∈ U) (hn : ∀ a ∈ L, (f a).Nodup)
    (hd : L.Pairwise fun a b => sameList (f a) (f b) = false) : L.length ≤ 2 ^ U.length := by
  have hv : (L.map fun a => charVec U (f a)).Nodup := by
    unfold List.Nodup
    rw [List.pairwise_map]
    refine List.Pairwise.imp_of_mem ?_ hd
    intro a b ha hb hab heq
    rw [sameList_of_charVec_eq (hU a ha) (hU b hb) (hn a ha) (hn b hb) heq] at hab
    cases hab
  have := nodup_vecs_length_le hv (n := U.length) (by
    intro v hv'
    obtain ⟨a, _, rfl⟩ := List.mem_map.1 hv'
    exact charVec_length U (f a))
  simpa using this

end
end Gocc.LoopsT
