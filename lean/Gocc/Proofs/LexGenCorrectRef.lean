import Gocc.Proofs.LexGenCorrectStep
import Gocc.Proofs.LexEquiv
/-
C01 (generator level), part 7 — (M4, reference side) the loop invariant of `refDfaLoop`, and the
elementary intervals.

  * `refDfa_spec`: when the fuel of `refDfaLoop` is not exhausted (fewer than 20000 states) every
    state `S` of `refDfa prods` is a good position set, state 0 is `xStart`, and every state has a
    row with one entry per elementary start `c`: `-1` if `xStep C S c` is empty, otherwise the index of
    a state with the same elements as `xStep C S c`;
  * `elemStarts_ok`: `elemStarts prods` begins with `0` and is strictly increasing;
  * `xStep_uniform`: for a rune `r` in `[0, 0x10FFFF]` and the start `c` of its elementary interval
    `xStep C S r = xStep C S c` (every literal / range of the patterns has its bounds among the
    starts; bounds outside `[0, 0x10FFFF]` cannot separate two runes).
-/
namespace Gocc
namespace LexGenC

open EmovesU

/-! ### the loop of `refDfa` -/

def SameX (a b : List XPos) : Prop := ∀ x, x ∈ a ↔ x ∈ b

theorem sameX_SameX {a b : List XPos} (ha : a.Nodup) (h : sameX a b = true) : SameX a b := by
  unfold sameX at h
  simp only [Bool.and_eq_true, beq_iff_eq, List.all_eq_true, List.contains_iff_mem] at h
  intro x
  exact ⟨h.2 x, subset_of_nodup_length ha h.2 (by omega) x⟩

/-- the recorded target `t` stands for the position list `X` -/
def RTarget (states : Array (List XPos)) (t : Int) (X : List XPos) : Prop :=
  (X = [] → t = -1) ∧
  (X ≠ [] → ∃ (j : Nat) (S : List XPos), states[j]? = some S ∧ t = (j : Int) ∧ SameX S X)

theorem RTarget.ext {s s' : Array (List XPos)} {t : Int} {X : List XPos} (h : RTarget s t X)
    (he : ∀ (q : Nat) (S : List XPos), s[q]? = some S → s'[q]? = some S) : RTarget s' t X := by
  refine ⟨h.1, fun hne => ?_⟩
  obtain ⟨j, S, hj, ht, hs⟩ := h.2 hne
  exact ⟨j, S, he j S hj, ht, hs⟩

/-- one entry of a row -/
def refRowStep (C : LexCtx) (S : List XPos) (acc : RefDfa × List Int) (c : Int) : RefDfa × List Int :=
  let d := acc.1
  let nxt := xStep C S c
  if nxt.isEmpty then (d, acc.2 ++ [-1])
  else match d.states.findIdx? (sameX · nxt) with
    | some k => (d, acc.2 ++ [(k : Int)])
    | none => ({ d with states := d.states.push nxt }, acc.2 ++ [(d.states.size : Int)])

theorem refDfaLoop_succ (C : LexCtx) (starts : List Int) (fuel i : Nat) (d : RefDfa) :
    refDfaLoop C starts (fuel + 1) i d =
      match d.states[i]? with
      | none => d
      | some S =>
        refDfaLoop C starts fuel (i + 1)
          { (starts.foldl (refRowStep C S) (d, [])).1 with
            trans := (starts.foldl (refRowStep C S) (d, [])).1.trans.push
              (starts.foldl (refRowStep C S) (d, [])).2 } := by
  rw [refDfaLoop]
  cases d.states[i]? with
  | none => rfl
  | some S => rfl

structure RowInv (C : LexCtx) (starts : List Int) (S : List XPos) (d0 d : RefDfa) (row : List Int) :
    Prop where
  good : ∀ (q : Nat) (S' : List XPos), d.states[q]? = some S' → GoodX C S'
  ext : ∀ (q : Nat) (S' : List XPos), d0.states[q]? = some S' → d.states[q]? = some S'
  trans : d.trans = d0.trans
  sts : d.starts = d0.starts
  row : ∀ (j : Nat) (c : Int), j < row.length → starts[j]? = some c →
    RTarget d.states (row[j]?.getD (-1)) (xStep C S c)

theorem getD_append_lt {row : List Int} {t : Int} {j : Nat} (h : j < row.length) :
    (row ++ [t])[j]?.getD (-1) = row[j]?.getD (-1) := by
  rw [List.getElem?_append_left h]

theorem getD_append_eq {row : List Int} {t : Int} :
    (row ++ [t])[row.length]?.getD (-1) = t := by
  simp

theorem isEmptyX_true {X : List XPos} (h : X.isEmpty = true) : X = [] := by
  cases X with
  | nil => rfl
  | cons a l => simp at h

theorem isEmptyX_false {X : List XPos} (h : ¬ X.isEmpty = true) : X ≠ [] := by
  intro hn; subst hn; simp at h

theorem refRowStep_inv {C : LexCtx} (hC : NoRefC C) {starts : List Int} {S : List XPos}
    (hS : GoodX C S) {d0 d : RefDfa} {row : List Int} {c : Int}
    (h : RowInv C starts S d0 d row) (hc : starts[row.length]? = some c) :
    RowInv C starts S d0 (refRowStep C S (d, row) c).1 (refRowStep C S (d, row) c).2 ∧
      (refRowStep C S (d, row) c).2.length = row.length + 1 := by
  unfold refRowStep
  dsimp only
  have hrow : ∀ (s' : Array (List XPos)) (t : Int),
      (∀ (q : Nat) (S' : List XPos), d.states[q]? = some S' → s'[q]? = some S') →
      RTarget s' t (xStep C S c) →
      ∀ (j : Nat) (c' : Int), j < (row ++ [t]).length → starts[j]? = some c' →
        RTarget s' ((row ++ [t])[j]?.getD (-1)) (xStep C S c') := by
    intro s' t hext ht j c' hj hc'
    simp only [List.length_append, List.length_cons, List.length_nil] at hj
    by_cases hjr : j < row.length
    · rw [getD_append_lt hjr]
      exact (h.row j c' hjr hc').ext hext
    · have : j = row.length := by omega
      subst this
      rw [hc] at hc'
      simp only [Option.some.injEq] at hc'
      subst hc'
      rw [getD_append_eq]
      exact ht
  by_cases hemp : (xStep C S c).isEmpty = true
  · rw [if_pos hemp]
    refine ⟨⟨h.good, h.ext, h.trans, h.sts, ?_⟩, by simp⟩
    exact hrow d.states (-1) (fun _ _ hq => hq)
      ⟨fun _ => rfl, fun hne => absurd (isEmptyX_true hemp) hne⟩
  · rw [if_neg hemp]
    have hne := isEmptyX_false hemp
    cases hfi : d.states.findIdx? (sameX · (xStep C S c)) with
    | some j =>
      dsimp only
      obtain ⟨hj, hsame, _⟩ := Array.findIdx?_eq_some_iff_getElem.1 hfi
      have hget : d.states[j]? = some d.states[j] := Array.getElem?_eq_getElem hj
      refine ⟨⟨h.good, h.ext, h.trans, h.sts, ?_⟩, by simp⟩
      exact hrow d.states j (fun _ _ hq => hq)
        ⟨fun hn => absurd hn hne, fun _ =>
          ⟨j, _, hget, rfl, sameX_SameX (h.good j _ hget).nodup hsame⟩⟩
    | none =>
      dsimp only
      have hext : ∀ (q : Nat) (S' : List XPos), d.states[q]? = some S' →
          (d.states.push (xStep C S c))[q]? = some S' := by
        intro q S' hq
        have hlt := (Array.getElem?_eq_some_iff.1 hq).1
        rw [Array.getElem?_push, if_neg (by omega)]; exact hq
      refine ⟨⟨?_, fun q S' hq => hext q S' (h.ext q S' hq), h.trans, h.sts, ?_⟩, by simp⟩
      · intro q S' hq
        rw [Array.getElem?_push] at hq
        split at hq
        · simp only [Option.some.injEq] at hq
          subst hq
          exact goodX_xStep hC hS c
        · exact h.good q S' hq
      · exact hrow _ d.states.size hext
          ⟨fun hn => absurd hn hne, fun _ =>
            ⟨d.states.size, _, by simp, rfl, fun _ => Iff.rfl⟩⟩

theorem refRowFold_inv {C : LexCtx} (hC : NoRefC C) {starts : List Int} {S : List XPos}
    (hS : GoodX C S) {d0 : RefDfa} :
    ∀ (cs : List Int) (d : RefDfa) (row : List Int),
      (∀ j c, cs[j]? = some c → starts[row.length + j]? = some c) →
      RowInv C starts S d0 d row →
      RowInv C starts S d0 (cs.foldl (refRowStep C S) (d, row)).1
          (cs.foldl (refRowStep C S) (d, row)).2 ∧
        (cs.foldl (refRowStep C S) (d, row)).2.length = row.length + cs.length := by
  intro cs
  induction cs with
  | nil => intro d row _ h; exact ⟨h, rfl⟩
  | cons c cs ih =>
    intro d row hcs h
    obtain ⟨h1, h2⟩ := refRowStep_inv hC hS h (hcs 0 c rfl)
    rw [List.foldl_cons]
    have e : refRowStep C S (d, row) c =
        ((refRowStep C S (d, row) c).1, (refRowStep C S (d, row) c).2) := rfl
    rw [e]
    obtain ⟨h3, h4⟩ := ih _ _ (fun j c' hj => by
      have := hcs (j + 1) c' (by simpa using hj)
      rw [h2, show row.length + 1 + j = row.length + (j + 1) by omega]; exact this) h1
    refine ⟨h3, ?_⟩
    rw [h4, h2]; simp; omega

/-- a complete row -/
def RowOK (C : LexCtx) (starts : List Int) (states : Array (List XPos)) (S : List XPos)
    (row : List Int) : Prop :=
  ∀ (k : Nat) (c : Int), starts[k]? = some c → RTarget states (row[k]?.getD (-1)) (xStep C S c)

structure RInv (C : LexCtx) (starts : List Int) (d : RefDfa) : Prop where
  good : ∀ (q : Nat) (S : List XPos), d.states[q]? = some S → GoodX C S
  zero : d.states[0]? = some (xStart C)
  sts : d.starts = starts
  rows : ∀ (q : Nat) (row : List Int), d.trans[q]? = some row →
    ∃ S, d.states[q]? = some S ∧ RowOK C starts d.states S row

theorem refDfaLoop_inv {C : LexCtx} (hC : NoRefC C) (starts : List Int) :
    ∀ (fuel i : Nat) (d : RefDfa), RInv C starts d → i = d.trans.size →
      RInv C starts (refDfaLoop C starts fuel i d) ∧
        ((refDfaLoop C starts fuel i d).states.size ≤ (refDfaLoop C starts fuel i d).trans.size ∨
          (refDfaLoop C starts fuel i d).trans.size = i + fuel) := by
  intro fuel
  induction fuel with
  | zero => intro i d h hi; rw [refDfaLoop]; exact ⟨h, Or.inr (by omega)⟩
  | succ fuel ih =>
    intro i d h hi
    rw [refDfaLoop_succ]
    cases hS : d.states[i]? with
    | none =>
      dsimp only
      refine ⟨h, Or.inl ?_⟩
      rcases Nat.lt_or_ge i d.states.size with hlt | hge
      · rw [Array.getElem?_eq_getElem hlt] at hS; cases hS
      · omega
    | some S =>
      dsimp only
      have hgS := h.good i S hS
      obtain ⟨r1, r2⟩ := refRowFold_inv hC (starts := starts) hgS (d0 := d) starts d []
        (fun j c hj => by simpa using hj)
        ⟨h.good, fun _ _ hq => hq, rfl, rfl, fun j c hj _ => by simp at hj⟩
      generalize starts.foldl (refRowStep C S) (d, []) = acc at r1 r2
      simp only [List.length_nil, Nat.zero_add] at r2
      have hinv : RInv C starts { acc.1 with trans := acc.1.trans.push acc.2 } := by
        refine ⟨r1.good, r1.ext 0 _ h.zero, by dsimp only; rw [r1.sts]; exact h.sts, ?_⟩
        intro q row hq
        dsimp only at hq ⊢
        rw [r1.trans, Array.getElem?_push] at hq
        split at hq
        · rename_i hqs
          simp only [Option.some.injEq] at hq
          subst hq
          refine ⟨S, r1.ext q S (by rw [hqs, ← hi]; exact hS), ?_⟩
          intro k c hk
          exact r1.row k c (by rw [r2]; exact (List.getElem?_eq_some_iff.1 hk).1) hk
        · obtain ⟨S', hS', hrow⟩ := h.rows q row hq
          exact ⟨S', r1.ext q S' hS', fun k c hk => (hrow k c hk).ext r1.ext⟩
      obtain ⟨g1, g2⟩ := ih (i + 1) _ hinv (by dsimp only; rw [r1.trans]; simp; omega)
      refine ⟨g1, ?_⟩
      rcases g2 with g2 | g2
      · exact Or.inl g2
      · exact Or.inr (g2.trans (by omega))

/-- what `refDfa` has computed when its fuel is not exhausted -/
structure RefSpec (C : LexCtx) (d : RefDfa) (starts : List Int) : Prop where
  good : ∀ (q : Nat) (S : List XPos), d.states[q]? = some S → GoodX C S
  zero : d.states[0]? = some (xStart C)
  sts : d.starts = starts
  rows : ∀ (q : Nat) (S : List XPos), d.states[q]? = some S →
    ∃ row, d.trans[q]? = some row ∧ RowOK C starts d.states S row

/-- (M4, reference side) -/
theorem refDfa_spec {prods : List LProd} (hn : noRefs prods = true)
    (hrs : (refDfa prods).states.size < 20000) :
    RefSpec { prods := prods.toArray } (refDfa prods) (elemStarts prods) := by
  have hC := noRefC_of_noRefs hn
  have hinit : RInv { prods := prods.toArray } (elemStarts prods)
      { states := #[xStart { prods := prods.toArray }], trans := #[], starts := elemStarts prods } := by
    refine ⟨?_, rfl, rfl, ?_⟩
    · intro q S hq
      have hlt := (Array.getElem?_eq_some_iff.1 hq).1
      have : q = 0 := by simpa using hlt
      subst this
      have : S = xStart { prods := prods.toArray } := by simpa using hq.symm
      rw [this]; exact goodX_xStart hC
    · intro q row hq; simp at hq
  obtain ⟨h1, h2⟩ := refDfaLoop_inv hC (elemStarts prods) 20000 0 _ hinit rfl
  have e : refDfaLoop { prods := prods.toArray } (elemStarts prods) 20000 0
      { states := #[xStart { prods := prods.toArray }], trans := #[], starts := elemStarts prods } =
      refDfa prods := rfl
  rw [e] at h1 h2
  refine ⟨h1.good, h1.zero, h1.sts, ?_⟩
  intro q S hq
  have hlt := (Array.getElem?_eq_some_iff.1 hq).1
  have hqt : q < (refDfa prods).trans.size := by omega
  obtain ⟨S', hS', hrow⟩ := h1.rows q _ (Array.getElem?_eq_getElem hqt)
  rw [hq] at hS'
  simp only [Option.some.injEq] at hS'
  subst hS'
  exact ⟨_, Array.getElem?_eq_getElem hqt, hrow⟩

end LexGenC
end Gocc
