import Gocc.Proofs.Termination
/-
Unconditional construction of the finite universe needed by `emoves_complete_of_universe`
(Proofs/Termination.lean, section (C)).

For a production `k` with pattern `P` the universe is the list of all "dotted positions" of the
pattern tree of `P`: every path `q ++ [j]` such that the node reached from the root by the child
steps `q` exists and `j ≤ len` of that node (`j = len` is the "end" position produced by
`setToEnd` / `incLast`).  It is
  * closed under `emoveStep` (`step_good`, proved on paths, by case analysis on the top node),
  * complete as an enumeration (`enum_complete`, induction on the path),
  * of length `≤ 2 * P.size` (`enumPat_length`, mutual structural recursion on the pattern),
and every node of the tree has at most `P.size - 1` children (`node_size`), so the out-degree of
`emoveStep` is `≤ P.size`.  With `C.fuel ≥ 4 * P.size + 12` the fuel `(C.fuel + 2)^2` of the model
is more than enough (`1 + (2 s + 1) (s + 1) ≤ (4 s + 14)^2`).

The start item itself is added to the universe, so NO well-formedness hypothesis on the start item
is needed: whatever its top position is, all its successors are proper positions of the tree.
-/
namespace Gocc
namespace EmovesU

/-! ### paths: the node reached by child steps -/

/-- the node reached from `n` by the child steps `q` -/
def node : LNode → List Nat → Option LNode
  | n, [] => some n
  | n, j :: q => (n.child j).bind fun c => node c q

theorem walk_snoc (q : List Nat) : ∀ (n : LNode) (p : Nat),
    walk n (q ++ [p]) = (node n q).map fun m => (m, p) := by
  induction q with
  | nil => intro n p; simp only [List.nil_append, walk, node, Option.map_some]
  | cons a q ih =>
    intro n p
    cases q with
    | nil =>
      simp only [List.cons_append, List.nil_append, walk, node]
      cases n.child a <;> simp
    | cons b q =>
      have := fun c => ih c p
      simp only [List.cons_append] at this ⊢
      simp only [walk, node]
      cases n.child a with
      | none => simp
      | some c => simpa [node] using this c

theorem node_snoc (q : List Nat) : ∀ (n : LNode) (j : Nat),
    node n (q ++ [j]) = (node n q).bind fun m => m.child j := by
  induction q with
  | nil => intro n j; cases h : n.child j <;> simp [node, h]
  | cons a q ih =>
    intro n j
    simp only [List.cons_append, node]
    cases n.child a with
    | none => simp
    | some c => simpa using ih c j

theorem snoc_of_ne_nil : ∀ (l : List Nat), l ≠ [] → ∃ q p, l = q ++ [p]
  | [], h => absurd rfl h
  | [a], _ => ⟨[], a, rfl⟩
  | a :: b :: l, _ => by
    obtain ⟨q, p, h⟩ := snoc_of_ne_nil (b :: l) (by simp)
    exact ⟨a :: q, p, by rw [h]; rfl⟩

/-- a defined walk decomposes the path -/
theorem walk_some {n m : LNode} {l : List Nat} {pos : Nat} (h : walk n l = some (m, pos)) :
    ∃ q, l = q ++ [pos] ∧ node n q = some m := by
  by_cases hl : l = []
  · subst hl; simp [walk] at h
  · obtain ⟨q, p, rfl⟩ := snoc_of_ne_nil l hl
    rw [walk_snoc] at h
    cases hq : node n q with
    | none => rw [hq] at h; simp at h
    | some m' =>
      rw [hq] at h
      simp only [Option.map_some, Option.some.injEq, Prod.mk.injEq] at h
      exact ⟨q, by rw [h.2], by rw [← h.1]; exact hq⟩

@[simp] theorem setLast_snoc (q : List Nat) (p v : Nat) : setLast (q ++ [p]) v = q ++ [v] := by
  simp [setLast]

@[simp] theorem incLast_snoc (q : List Nat) (p : Nat) : incLast (q ++ [p]) = q ++ [p + 1] := by
  simp [incLast]

/-! ### kinds of nodes -/

def isPatLike : LNode → Bool
  | .alt _ => false
  | _ => true

def isAlt : LNode → Bool
  | .alt _ => true
  | _ => false

theorem child_lt {n c : LNode} {j : Nat} (h : n.child j = some c) : j < n.len := by
  cases n with
  | alt a =>
    simp only [LNode.child] at h
    simp only [LNode.len]
    cases ht : a.terms[j]? with
    | none => rw [ht] at h; simp at h
    | some t => exact (List.getElem?_eq_some_iff.1 ht).1
  | pat p | grp p | opt p | rep p =>
    simp only [LNode.child] at h
    simp only [LNode.len]
    cases ht : p.alts[j]? with
    | none => rw [ht] at h; simp at h
    | some t => exact (List.getElem?_eq_some_iff.1 ht).1

/-- children of a pattern-like node are alternatives; children of alternatives are
    `( )`, `[ ]`, `{ }` nodes; nothing has a `.pat` child -/
theorem child_kind {n c : LNode} {j : Nat} (h : n.child j = some c) :
    (isPatLike n = true ∧ isAlt c = true) ∨
    (isAlt n = true ∧ isPatLike c = true ∧ ∀ p, c ≠ .pat p) := by
  cases n with
  | alt a =>
    right
    simp only [LNode.child] at h
    split at h <;> simp at h <;> subst h <;> simp [isAlt, isPatLike]
  | pat p | grp p | opt p | rep p =>
    left
    simp only [LNode.child] at h
    cases ht : p.alts[j]? with
    | none => rw [ht] at h; simp at h
    | some t => rw [ht] at h; simp at h; subst h; simp [isAlt, isPatLike]

theorem child_of_lt_patlike {n : LNode} {j : Nat} (hn : isPatLike n = true) (hj : j < n.len) :
    ∃ a, n.child j = some (.alt a) := by
  cases n with
  | alt a => simp [isPatLike] at hn
  | pat p | grp p | opt p | rep p =>
    simp only [LNode.len] at hj
    exact ⟨p.alts[j], by simp [LNode.child, List.getElem?_eq_getElem hj]⟩

/-- the parent of a node that is not the root -/
theorem node_parent {r m : LNode} {q : List Nat} (h : node r q = some m) (hq : q ≠ []) :
    ∃ q' j pn, q = q' ++ [j] ∧ node r q' = some pn ∧ pn.child j = some m := by
  obtain ⟨q', j, rfl⟩ := snoc_of_ne_nil q hq
  rw [node_snoc] at h
  cases hq' : node r q' with
  | none => rw [hq'] at h; simp at h
  | some pn => rw [hq'] at h; exact ⟨q', j, pn, rfl, hq', by simpa using h⟩

/-- below a `.pat` root, a `.pat` node is the root -/
theorem node_pat_root {P P' : LPat} {q : List Nat} (h : node (.pat P) q = some (.pat P')) : q = [] := by
  by_cases hq : q = []
  · exact hq
  · obtain ⟨q', j, pn, _, _, hc⟩ := node_parent h hq
    rcases child_kind hc with ⟨_, h2⟩ | ⟨_, _, h3⟩
    · simp [isAlt] at h2
    · exact absurd rfl (h3 P')

/-- a `( )`, `[ ]`, `{ }` node below a `.pat` root has an alternative as parent -/
theorem node_sub_parent {P : LPat} {m : LNode} {q : List Nat} (h : node (.pat P) q = some m)
    (hm' : ∀ p, m ≠ .pat p) :
    ∃ q' j pn, q = q' ++ [j] ∧ node (.pat P) q' = some pn ∧ j < pn.len := by
  by_cases hq : q = []
  · subst hq; simp only [node, Option.some.injEq] at h; exact absurd h.symm (hm' P)
  · obtain ⟨q', j, pn, h1, h2, hc⟩ := node_parent h hq
    exact ⟨q', j, pn, h1, h2, child_lt hc⟩

/-- an alternative has a parent -/
theorem node_alt_parent {P : LPat} {a : LAlt} {q : List Nat} (h : node (.pat P) q = some (.alt a)) :
    ∃ q' j pn, q = q' ++ [j] ∧ node (.pat P) q' = some pn := by
  by_cases hq : q = []
  · subst hq; simp [node] at h
  · obtain ⟨q', j, pn, h1, h2, _⟩ := node_parent h hq
    exact ⟨q', j, pn, h1, h2⟩

/-! ### the ε-step stays inside the positions of the tree -/

/-- a proper dotted position of the tree below `r`: an existing node and a position `≤` its length -/
def GoodPath (r : LNode) (p : List Nat) : Prop :=
  ∃ q j m, p = q ++ [j] ∧ node r q = some m ∧ j ≤ m.len

theorem top_eq {C : LexCtx} {k : Nat} {P : LProd} (hP : C.prods[k]? = some P) (l : List Nat) :
    C.top ⟨k, l⟩ = walk (.pat P.pat) l := by
  simp [LexCtx.top, hP]

theorem good_enter {r n : LNode} {q : List Nat} (hn : node r q = some n)
    (hpl : isPatLike n = true) {k' : Nat} (hk : k' < n.len) : GoodPath r (q ++ [k'] ++ [0]) := by
  obtain ⟨a, ha⟩ := child_of_lt_patlike hpl hk
  exact ⟨q ++ [k'], 0, .alt a, rfl, by rw [node_snoc, hn]; exact ha, Nat.zero_le _⟩

theorem good_post {P : LPat} {n : LNode} {q : List Nat} (hn : node (.pat P) q = some n)
    (hn' : ∀ p, n ≠ .pat p) : GoodPath (.pat P) (incLast q) := by
  obtain ⟨q', j, pn, rfl, h2, h3⟩ := node_sub_parent hn hn'
  exact ⟨q', j + 1, pn, by simp, h2, h3⟩

theorem good_alt_end {P : LPat} {a : LAlt} {q : List Nat} (hn : node (.pat P) q = some (.alt a)) :
    ∃ pn j, walk (.pat P) q = some (pn, j) ∧ GoodPath (.pat P) (setLast q pn.len) := by
  obtain ⟨q', j, pn, rfl, h2⟩ := node_alt_parent hn
  exact ⟨pn, j, by rw [walk_snoc, h2]; rfl, q', pn.len, pn, by simp, h2, Nat.le_refl _⟩

theorem alt_child_of_not_term {a : LAlt} {pos : Nat} (hpos : pos < a.terms.length)
    (ht : (LNode.alt a).termAt pos = none) : ∃ c, (LNode.alt a).child pos = some c := by
  simp only [LNode.termAt] at ht
  simp only [LNode.child]
  rw [List.getElem?_eq_getElem hpos] at ht ⊢
  cases h : a.terms[pos] <;> rw [h] at ht <;> simp at ht ⊢

theorem getElem!_of_some {C : LexCtx} {k : Nat} {P : LProd} (hP : C.prods[k]? = some P) :
    C.prods[k]! = P := by
  obtain ⟨h, rfl⟩ := Array.getElem?_eq_some_iff.1 hP
  simp [h]

theorem step_good {C : LexCtx} {k : Nat} {P : LProd} (hP : C.prods[k]? = some P)
    {q : List Nat} {pos : Nat} {n : LNode} (hn : node (.pat P.pat) q = some n)
    (hnb : C.isBasic ⟨k, q ++ [pos]⟩ = false) :
    ∀ y ∈ emoveStep C ⟨k, q ++ [pos]⟩, y.prod = k ∧ GoodPath (.pat P.pat) y.path := by
  have htop : C.top ⟨k, q ++ [pos]⟩ = some (n, pos) := by
    rw [top_eq hP, walk_snoc, hn]; rfl
  have hexp : n.termAt pos = none := by
    simp only [LexCtx.isBasic, Bool.or_eq_false_iff, LexCtx.expected, htop] at hnb
    simpa using hnb.2
  have henter : ∀ y ∈ (List.range n.len).map
      (fun k' => ({ prod := k, path := setLast (q ++ [pos]) k' ++ [0] } : LItem)),
      isPatLike n = true → y.prod = k ∧ GoodPath (.pat P.pat) y.path := by
    intro y hy hpl
    simp only [List.mem_map, List.mem_range] at hy
    obtain ⟨k', hk', rfl⟩ := hy
    exact ⟨rfl, by simpa using good_enter hn hpl hk'⟩
  have hpost : (∀ p, n ≠ .pat p) →
      GoodPath (.pat P.pat) (incLast (q ++ [pos]).dropLast) := by
    intro h; simpa using good_post hn h
  intro y hy
  unfold emoveStep at hy
  rw [htop] at hy
  simp only [getElem!_of_some hP] at hy
  cases n with
  | pat P' =>
    have hq := node_pat_root hn
    subst hq
    dsimp only at hy
    simp only [List.nil_append, List.length_cons, List.length_nil] at hy
    split at hy
    · exact henter y hy rfl
    · simp only [Nat.zero_add, beq_self_eq_true, if_true, List.mem_singleton] at hy
      subst hy
      exact ⟨rfl, [], _, .pat P', rfl, hn, Nat.le_refl _⟩
  | grp P' =>
    dsimp only at hy
    split at hy
    · exact henter y hy rfl
    · simp only [List.mem_singleton] at hy
      subst hy
      exact ⟨rfl, hpost (by intro p h; cases h)⟩
  | opt P' =>
    dsimp only at hy
    split at hy
    · rcases List.mem_append.1 hy with hy | hy
      · exact henter y hy rfl
      · simp only [List.mem_singleton] at hy
        subst hy
        exact ⟨rfl, hpost (by intro p h; cases h)⟩
    · simp only [List.mem_singleton] at hy
      subst hy
      exact ⟨rfl, hpost (by intro p h; cases h)⟩
  | rep P' =>
    dsimp only at hy
    rcases List.mem_append.1 hy with hy | hy
    · exact henter y hy rfl
    · simp only [List.mem_singleton] at hy
      subst hy
      exact ⟨rfl, hpost (by intro p h; cases h)⟩
  | alt a =>
    dsimp only at hy
    split at hy
    · obtain ⟨pn, j, hw, hg⟩ := good_alt_end hn
      simp only [List.dropLast_concat, hw, List.mem_singleton] at hy
      subst hy
      exact ⟨rfl, hg⟩
    · rename_i hlt
      simp only [LNode.len, ge_iff_le, Nat.not_le] at hlt
      obtain ⟨c, hc⟩ := alt_child_of_not_term hlt hexp
      simp only [List.mem_singleton] at hy
      subst hy
      exact ⟨rfl, q ++ [pos], 0, c, rfl, by rw [node_snoc, hn]; exact hc, Nat.zero_le _⟩

/-- out-degree of the ε-step -/
theorem step_length {C : LexCtx} {x : LItem} {n : LNode} {pos : Nat}
    (htop : C.top x = some (n, pos)) : (emoveStep C x).length ≤ n.len + 1 := by
  unfold emoveStep
  rw [htop]
  cases n <;> dsimp only <;> (repeat' split) <;> simp

theorem step_nil_of_top_none {C : LexCtx} {x : LItem} (htop : C.top x = none) :
    emoveStep C x = [] := by
  unfold emoveStep; rw [htop]

/-! ### enumeration of all dotted positions of a pattern tree -/

mutual
  def enumPat (pre : List Nat) : LPat → List (List Nat)
    | .mk alts => (List.range (alts.length + 1)).map (fun j => pre ++ [j]) ++ enumAlts pre 0 alts
  def enumAlt (pre : List Nat) : LAlt → List (List Nat)
    | .mk ts => (List.range (ts.length + 1)).map (fun j => pre ++ [j]) ++ enumTerms pre 0 ts
  def enumAlts (pre : List Nat) (k : Nat) : List LAlt → List (List Nat)
    | [] => []
    | a :: rest => enumAlt (pre ++ [k]) a ++ enumAlts pre (k + 1) rest
  def enumTerm (pre : List Nat) : LTerm → List (List Nat)
    | .opt p => enumPat pre p
    | .rep p => enumPat pre p
    | .grp p => enumPat pre p
    | _ => []
  def enumTerms (pre : List Nat) (k : Nat) : List LTerm → List (List Nat)
    | [] => []
    | t :: rest => enumTerm (pre ++ [k]) t ++ enumTerms pre (k + 1) rest
end

def enumNode (pre : List Nat) : LNode → List (List Nat)
  | .pat p | .grp p | .opt p | .rep p => enumPat pre p
  | .alt a => enumAlt pre a

theorem enumAlts_sub (pre : List Nat) : ∀ (alts : List LAlt) (k a : Nat) (al : LAlt),
    alts[a]? = some al → ∀ x ∈ enumAlt (pre ++ [k + a]) al, x ∈ enumAlts pre k alts := by
  intro alts
  induction alts with
  | nil => intro k a al h; simp at h
  | cons hd rest ih =>
    intro k a al h x hx
    rw [enumAlts]
    cases a with
    | zero =>
      simp only [List.getElem?_cons_zero, Option.some.injEq] at h
      subst h
      exact List.mem_append_left _ hx
    | succ a =>
      simp only [List.getElem?_cons_succ] at h
      refine List.mem_append_right _ (ih (k + 1) a al h x ?_)
      have : k + 1 + a = k + (a + 1) := by omega
      rw [this]; exact hx

theorem enumTerms_sub (pre : List Nat) : ∀ (ts : List LTerm) (k a : Nat) (t : LTerm),
    ts[a]? = some t → ∀ x ∈ enumTerm (pre ++ [k + a]) t, x ∈ enumTerms pre k ts := by
  intro ts
  induction ts with
  | nil => intro k a t h; simp at h
  | cons hd rest ih =>
    intro k a t h x hx
    rw [enumTerms]
    cases a with
    | zero =>
      simp only [List.getElem?_cons_zero, Option.some.injEq] at h
      subst h
      exact List.mem_append_left _ hx
    | succ a =>
      simp only [List.getElem?_cons_succ] at h
      refine List.mem_append_right _ (ih (k + 1) a t h x ?_)
      have : k + 1 + a = k + (a + 1) := by omega
      rw [this]; exact hx

theorem enumNode_child {n c : LNode} {a : Nat} (pre : List Nat) (h : n.child a = some c) :
    ∀ x ∈ enumNode (pre ++ [a]) c, x ∈ enumNode pre n := by
  intro x hx
  cases n with
  | alt al =>
    cases al with
    | mk ts =>
      simp only [LNode.child, LAlt.terms] at h
      simp only [enumNode, enumAlt]
      refine List.mem_append_right _ ?_
      cases ht : ts[a]? with
      | none => rw [ht] at h; simp at h
      | some t =>
        rw [ht] at h
        refine enumTerms_sub pre ts 0 a t ht x ?_
        rw [Nat.zero_add]
        cases t <;> simp at h <;> subst h <;> simpa [enumNode, enumTerm] using hx
  | pat p | grp p | opt p | rep p =>
    cases p with
    | mk alts =>
      simp only [LNode.child, LPat.alts] at h
      simp only [enumNode, enumPat]
      refine List.mem_append_right _ ?_
      cases ht : alts[a]? with
      | none => rw [ht] at h; simp at h
      | some al =>
        rw [ht] at h
        simp only [Option.map_some, Option.some.injEq] at h
        subst h
        refine enumAlts_sub pre alts 0 a al ht x ?_
        rw [Nat.zero_add]
        simpa [enumNode] using hx

theorem enumNode_head (pre : List Nat) (n : LNode) {j : Nat} (hj : j ≤ n.len) :
    pre ++ [j] ∈ enumNode pre n := by
  cases n with
  | alt al =>
    cases al with
    | mk ts =>
      simp only [LNode.len, LAlt.terms] at hj
      simp only [enumNode, enumAlt]
      exact List.mem_append_left _ (List.mem_map.2 ⟨j, List.mem_range.2 (by omega), rfl⟩)
  | pat p | grp p | opt p | rep p =>
    cases p with
    | mk alts =>
      simp only [LNode.len, LPat.alts] at hj
      simp only [enumNode, enumPat]
      exact List.mem_append_left _ (List.mem_map.2 ⟨j, List.mem_range.2 (by omega), rfl⟩)

/-- the enumeration contains every proper position -/
theorem enum_complete : ∀ (q : List Nat) (r m : LNode) (pre : List Nat) (j : Nat),
    node r q = some m → j ≤ m.len → pre ++ (q ++ [j]) ∈ enumNode pre r := by
  intro q
  induction q with
  | nil =>
    intro r m pre j h hj
    simp only [node, Option.some.injEq] at h
    subst h
    exact enumNode_head pre r hj
  | cons a q ih =>
    intro r m pre j h hj
    simp only [node] at h
    cases hc : r.child a with
    | none => rw [hc] at h; simp at h
    | some c =>
      rw [hc] at h
      have := ih c m (pre ++ [a]) j (by simpa using h) hj
      have h2 := enumNode_child pre hc _ this
      simpa using h2

theorem goodPath_mem_enum {P : LPat} {l : List Nat} (h : GoodPath (.pat P) l) :
    l ∈ enumPat [] P := by
  obtain ⟨q, j, m, rfl, hn, hj⟩ := h
  have := enum_complete q (.pat P) m [] j hn hj
  simpa [enumNode] using this

/-! ### counting: `|enum| ≤ 2 * size` -/

def termSize : LTerm → Nat
  | .opt p => 1 + p.size
  | .rep p => 1 + p.size
  | .grp p => 1 + p.size
  | _ => 1

theorem sizeTerms_cons (t : LTerm) (rest : List LTerm) :
    LPat.size.sizeTerms (t :: rest) = termSize t + LPat.size.sizeTerms rest := by
  cases t <;> rw [LPat.size.sizeTerms] <;> first | rfl | (intro p h; cases h)

mutual
  theorem enumPat_length (pre : List Nat) : (P : LPat) → (enumPat pre P).length + 1 ≤ 2 * P.size
    | .mk alts => by
      have := enumAlts_length pre 0 alts
      simp only [enumPat, LPat.size, List.length_append, List.length_map, List.length_range]
      omega
  theorem enumAlt_length (pre : List Nat) : (a : LAlt) →
      (enumAlt pre a).length + 1 ≤ 2 * (1 + LPat.size.sizeTerms a.terms)
    | .mk ts => by
      have := enumTerms_length pre 0 ts
      simp only [enumAlt, LAlt.terms, List.length_append, List.length_map, List.length_range]
      omega
  theorem enumAlts_length (pre : List Nat) (k : Nat) : (alts : List LAlt) →
      (enumAlts pre k alts).length + alts.length ≤ 2 * LPat.size.sizeAlts alts
    | [] => by simp [enumAlts, LPat.size.sizeAlts]
    | .mk ts :: rest => by
      have h1 := enumAlt_length (pre ++ [k]) (.mk ts)
      have h2 := enumAlts_length pre (k + 1) rest
      simp only [LAlt.terms] at h1
      simp only [enumAlts, LPat.size.sizeAlts, List.length_append, List.length_cons]
      omega
  theorem enumTerm_length (pre : List Nat) : (t : LTerm) →
      (enumTerm pre t).length + 1 ≤ 2 * termSize t
    | .opt p => by
      have := enumPat_length pre p
      simp only [enumTerm, termSize]; omega
    | .rep p => by
      have := enumPat_length pre p
      simp only [enumTerm, termSize]; omega
    | .grp p => by
      have := enumPat_length pre p
      simp only [enumTerm, termSize]; omega
    | .dot => by simp [enumTerm, termSize]
    | .lit _ => by simp [enumTerm, termSize]
    | .rng _ _ => by simp [enumTerm, termSize]
    | .ref _ => by simp [enumTerm, termSize]
  theorem enumTerms_length (pre : List Nat) (k : Nat) : (ts : List LTerm) →
      (enumTerms pre k ts).length + ts.length ≤ 2 * LPat.size.sizeTerms ts
    | [] => by simp [enumTerms, LPat.size.sizeTerms]
    | t :: rest => by
      have h1 := enumTerm_length (pre ++ [k]) t
      have h2 := enumTerms_length pre (k + 1) rest
      rw [enumTerms, sizeTerms_cons, List.length_append, List.length_cons]
      omega
end

/-! ### every node has fewer children than the size of the pattern -/

def altSize : LAlt → Nat
  | .mk ts => 1 + LPat.size.sizeTerms ts

theorem sizeAlts_cons (a : LAlt) (rest : List LAlt) :
    LPat.size.sizeAlts (a :: rest) = altSize a + LPat.size.sizeAlts rest := by
  cases a; rw [LPat.size.sizeAlts]; rfl

theorem one_le_termSize (t : LTerm) : 1 ≤ termSize t := by
  cases t <;> simp [termSize]

theorem length_le_sizeTerms : ∀ ts : List LTerm, ts.length ≤ LPat.size.sizeTerms ts
  | [] => by simp
  | t :: rest => by
    have := length_le_sizeTerms rest
    have := one_le_termSize t
    rw [sizeTerms_cons, List.length_cons]; omega

theorem length_le_sizeAlts : ∀ alts : List LAlt, alts.length ≤ LPat.size.sizeAlts alts
  | [] => by simp
  | a :: rest => by
    have := length_le_sizeAlts rest
    have : 1 ≤ altSize a := by cases a; simp [altSize]
    rw [sizeAlts_cons, List.length_cons]; omega

theorem termSize_le_sizeTerms : ∀ (ts : List LTerm) (j : Nat) (t : LTerm), ts[j]? = some t →
    termSize t ≤ LPat.size.sizeTerms ts
  | [], j, t, h => by simp at h
  | hd :: rest, 0, t, h => by
    simp only [List.getElem?_cons_zero, Option.some.injEq] at h
    subst h; rw [sizeTerms_cons]; omega
  | hd :: rest, j + 1, t, h => by
    simp only [List.getElem?_cons_succ] at h
    have := termSize_le_sizeTerms rest j t h
    rw [sizeTerms_cons]; omega

theorem altSize_le_sizeAlts : ∀ (alts : List LAlt) (j : Nat) (a : LAlt), alts[j]? = some a →
    altSize a ≤ LPat.size.sizeAlts alts
  | [], j, t, h => by simp at h
  | hd :: rest, 0, t, h => by
    simp only [List.getElem?_cons_zero, Option.some.injEq] at h
    subst h; rw [sizeAlts_cons]; omega
  | hd :: rest, j + 1, t, h => by
    simp only [List.getElem?_cons_succ] at h
    have := altSize_le_sizeAlts rest j t h
    rw [sizeAlts_cons]; omega

def nodeSize : LNode → Nat
  | .pat p | .grp p | .opt p | .rep p => p.size
  | .alt a => altSize a

theorem len_lt_nodeSize (n : LNode) : n.len + 1 ≤ nodeSize n := by
  cases n with
  | alt a =>
    cases a with
    | mk ts =>
      have := length_le_sizeTerms ts
      simp only [LNode.len, LAlt.terms, nodeSize, altSize]; omega
  | pat p | grp p | opt p | rep p =>
    cases p with
    | mk alts =>
      have := length_le_sizeAlts alts
      simp only [LNode.len, LPat.alts, nodeSize, LPat.size]; omega

theorem child_nodeSize {n c : LNode} {j : Nat} (h : n.child j = some c) :
    nodeSize c ≤ nodeSize n := by
  cases n with
  | alt a =>
    cases a with
    | mk ts =>
      simp only [LNode.child, LAlt.terms] at h
      cases ht : ts[j]? with
      | none => rw [ht] at h; simp at h
      | some t =>
        rw [ht] at h
        have := termSize_le_sizeTerms ts j t ht
        cases t <;> simp at h <;> subst h <;> simp only [nodeSize, altSize, termSize] at this ⊢ <;> omega
  | pat p | grp p | opt p | rep p =>
    cases p with
    | mk alts =>
      simp only [LNode.child, LPat.alts] at h
      cases ht : alts[j]? with
      | none => rw [ht] at h; simp at h
      | some al =>
        rw [ht] at h
        simp only [Option.map_some, Option.some.injEq] at h
        subst h
        have := altSize_le_sizeAlts alts j al ht
        simp only [nodeSize, LPat.size]; omega

theorem node_size : ∀ (q : List Nat) (r m : LNode), node r q = some m → m.len + 1 ≤ nodeSize r := by
  intro q
  induction q with
  | nil =>
    intro r m h
    simp only [node, Option.some.injEq] at h
    subst h; exact len_lt_nodeSize r
  | cons a q ih =>
    intro r m h
    simp only [node] at h
    cases hc : r.child a with
    | none => rw [hc] at h; simp at h
    | some c =>
      rw [hc] at h
      have := ih c m (by simpa using h)
      have := child_nodeSize hc
      omega

/-! ### the universe of a production, and the fuel -/

/-- all dotted positions of production `k` -/
def univ (C : LexCtx) (k : Nat) : List LItem :=
  match C.prods[k]? with
  | some P => (enumPat [] P.pat).map fun p => ⟨k, p⟩
  | none => []

/-- bound on the out-degree of `emoveStep` on items of production `k` -/
def univD (C : LexCtx) (k : Nat) : Nat :=
  match C.prods[k]? with
  | some P => P.pat.size
  | none => 0

theorem step_in_univ {C : LexCtx} {k : Nat} {P : LProd} (hP : C.prods[k]? = some P)
    (x : LItem) (hx : x.prod = k) (hnb : C.isBasic x = false) :
    (∀ y ∈ emoveStep C x, y ∈ univ C k) ∧ (emoveStep C x).length ≤ P.pat.size := by
  cases x with
  | mk xk l =>
    simp only at hx
    subst hx
    cases htop : C.top ⟨xk, l⟩ with
    | none => rw [step_nil_of_top_none htop]; simp
    | some np =>
      obtain ⟨n, pos⟩ := np
      have hw := htop
      rw [top_eq hP] at hw
      obtain ⟨q, rfl, hn⟩ := walk_some hw
      refine ⟨?_, ?_⟩
      · intro y hy
        obtain ⟨h1, h2⟩ := step_good hP hn hnb y hy
        have hm := goodPath_mem_enum h2
        simp only [univ, hP]
        exact List.mem_map.2 ⟨y.path, hm, by cases y; simp only at h1; subst h1; rfl⟩
      · have h1 := step_length htop
        have h2 := node_size q _ _ hn
        simp only [nodeSize] at h2
        omega

theorem mem_univ_prod {C : LexCtx} {k : Nat} {x : LItem} (h : x ∈ univ C k) : x.prod = k := by
  unfold univ at h
  split at h
  · obtain ⟨p, _, rfl⟩ := List.mem_map.1 h; rfl
  · cases h

/-- `i :: univ C i.prod` is closed under the ε-step, whatever `i` is -/
theorem euniv (C : LexCtx) (i : LItem) : EUniv C (i :: univ C i.prod) (univD C i.prod) := by
  cases hP : C.prods[i.prod]? with
  | none =>
    have hnil : ∀ x ∈ i :: univ C i.prod, emoveStep C x = [] := by
      intro x hx
      simp only [univ, hP, List.mem_cons, List.not_mem_nil, or_false] at hx
      subst hx
      exact step_nil_of_top_none (by simp [LexCtx.top, hP])
    refine ⟨fun x hx _ y hy => ?_, fun x hx _ => ?_⟩
    · rw [hnil x hx] at hy; cases hy
    · rw [hnil x hx]; simp
  | some P =>
    have hprod : ∀ x ∈ i :: univ C i.prod, x.prod = i.prod := by
      intro x hx
      rcases List.mem_cons.1 hx with rfl | hx
      · rfl
      · exact mem_univ_prod hx
    refine ⟨fun x hx hnb y hy => ?_, fun x hx hnb => ?_⟩
    · exact List.mem_cons_of_mem _ ((step_in_univ hP x (hprod x hx) hnb).1 y hy)
    · simp only [univD, hP]
      exact (step_in_univ hP x (hprod x hx) hnb).2

theorem le_sum_map (f : LProd → Nat) : ∀ (l : List LProd) (x : LProd), x ∈ l → f x ≤ (l.map f).sum
  | [], x, h => by cases h
  | a :: l, x, h => by
    simp only [List.map_cons, List.sum_cons]
    rcases List.mem_cons.1 h with rfl | h
    · omega
    · have := le_sum_map f l x h; omega

theorem fuel_ge {C : LexCtx} {k : Nat} {P : LProd} (hP : C.prods[k]? = some P) :
    4 * P.pat.size + 12 ≤ C.fuel := by
  have hmem : P ∈ C.prods.toList := by
    obtain ⟨h, rfl⟩ := Array.getElem?_eq_some_iff.1 hP
    simp
  have := le_sum_map (fun p => 4 * p.pat.size + 4) C.prods.toList P hmem
  unfold LexCtx.fuel
  omega

theorem univ_length (C : LexCtx) (k : Nat) : (univ C k).length + 1 ≤ 2 * univD C k + 1 ∧
    (univD C k = 0 → (univ C k).length = 0) := by
  unfold univ univD
  split
  · rename_i P _
    have := enumPat_length [] P.pat
    simp only [List.length_map]
    constructor
    · omega
    · intro h; omega
  · simp

theorem fuel_arith (u s F : Nat) (hu : u + 1 ≤ 2 * s + 1) (hF : 4 * s + 8 ≤ F) :
    1 + (u + 1) * (s + 1) ≤ (F + 2) * (F + 2) := by
  have h1 : (u + 1) * (s + 1) ≤ (2 * s + 1) * (s + 1) := Nat.mul_le_mul_right _ hu
  have h2 : (2 * s + 1) * (s + 1) + 1 * (s + 1) = (2 * s + 2) * (s + 1) := by
    rw [← Nat.add_mul]
  have h3 : (2 * s + 2) * (s + 1) ≤ (F + 2) * (F + 2) :=
    Nat.mul_le_mul (by omega) (by omega)
  omega

/-- the model's fuel `(C.fuel + 2)^2` covers the universe -/
theorem fuel_ok (C : LexCtx) (i : LItem) :
    1 + (i :: univ C i.prod).length * (univD C i.prod + 1) ≤ (C.fuel + 2) * (C.fuel + 2) := by
  have hl := (univ_length C i.prod).1
  have hF : 4 * univD C i.prod + 8 ≤ C.fuel := by
    unfold univD
    split
    · rename_i P hP
      have := fuel_ge hP; omega
    · unfold LexCtx.fuel; omega
  simp only [List.length_cons]
  exact fuel_arith _ _ _ hl hF

/-! ### completeness and soundness of `emoves` -/

/-- every basic item ε-reachable from `i` is returned by `emoves C i`: the fuel of the model is
    never exhausted, the result is what the unbounded Go loop computes -/
theorem emoves_complete (C : LexCtx) (i : LItem) :
    ∀ y, EReach C i y → C.isBasic y = true → y ∈ emoves C i :=
  emoves_complete_of_universe (euniv C i) (List.mem_cons_self ..) (fuel_ok C i)

theorem emovesLoop_sound (C : LexCtx) (s : LItem) : ∀ (fuel : Nat) (work visited out : List LItem),
    (∀ x ∈ work, EReach C s x) → (∀ x ∈ out, EReach C s x ∧ C.isBasic x = true) →
    ∀ y ∈ emovesLoop C fuel work visited out, EReach C s y ∧ C.isBasic y = true := by
  intro fuel
  induction fuel with
  | zero => intro work visited out _ ho y hy; simp only [emovesLoop] at hy; exact ho y hy
  | succ fuel ih =>
    intro work visited out hw ho y hy
    cases work with
    | nil => simp only [emovesLoop] at hy; exact ho y hy
    | cons i work =>
      have hw' : ∀ x ∈ work, EReach C s x := fun x hx => hw x (List.mem_cons_of_mem _ hx)
      have hi : EReach C s i := hw i (List.mem_cons_self ..)
      simp only [emovesLoop] at hy
      split at hy
      · exact ih work visited out hw' ho y hy
      · split at hy
        · rename_i hb
          refine ih work _ _ hw' ?_ y hy
          intro x hx
          rcases List.mem_append.1 hx with hx | hx
          · exact ho x hx
          · simp only [List.mem_singleton] at hx; subst hx; exact ⟨hi, hb⟩
        · rename_i hb
          refine ih _ _ out ?_ ho y hy
          intro x hx
          rcases List.mem_append.1 hx with hx | hx
          · exact EReach.step hi (by simpa using hb) (List.mem_reverse.1 hx)
          · exact hw' x hx

/-- `emoves C i` returns only basic items ε-reachable from `i` (for any fuel) -/
theorem emoves_sound (C : LexCtx) (i : LItem) :
    ∀ y ∈ emoves C i, EReach C i y ∧ C.isBasic y = true := by
  unfold emoves
  exact emovesLoop_sound C i _ [i] [] [] (by intro x hx; simp at hx; subst hx; exact .refl)
    (by intro x hx; cases hx)

theorem mem_emoves_iff (C : LexCtx) (i y : LItem) :
    y ∈ emoves C i ↔ EReach C i y ∧ C.isBasic y = true :=
  ⟨emoves_sound C i y, fun h => emoves_complete C i y h.1 h.2⟩

end EmovesU
end Gocc
