import Gocc.Proofs.LexGenCorrectStep
/-
C01 (generator level), part 6 — (M4, generator side) the loop invariants of `lexLoop` / `expandSet`.

Without references `expandSet` never fails and is the pure function `expandSetP`
(`expandSet_eq`).  Invariant `LInv C i sets`: every state is well-formed (`StOK`: duplicate-free,
production-sorted items, classes / matchAny / row length as `newLState` made them), state 0 has the
items `itemsSet0 C`, every state `m < i` is `Expanded` (for every class `c` the recorded target is
`-1` if `moveSet C items c` is empty and otherwise the index of a state with the same item set; the
same for `.`), every state `m ≥ i` is `Fresh` (all targets `-1`).
`genLexer_spec`: a successful `genLexer` with fewer than 100000 states satisfies `LInv` with all
states expanded.
-/
namespace Gocc
namespace LexGenC

/-! ### the pure generator -/

def mkState (C : LexCtx) (items : List LItem) : LState :=
  { items := items, classes := (symbolClasses C items).1, matchAny := (symbolClasses C items).2,
    trans := (symbolClasses C items).1.map fun _ => -1 }

theorem newLState_eq {C : LexCtx} (hC : NoRefC C) (items : List LItem) :
    newLState C items = .ok (mkState C items) := by
  unfold newLState
  rw [closureL_id hC]
  rfl

def addSetP (C : LexCtx) (sets : Array LState) (items : List LItem) : Array LState × Nat :=
  match sets.findIdx? (fun s => sameLItems s.items items) with
  | some k => (sets, k)
  | none => (sets.push (mkState C items), sets.size)

theorem addSet_eq {C : LexCtx} (hC : NoRefC C) (sets : Array LState) (items : List LItem) :
    addSet C sets items = .ok (addSetP C sets items) := by
  unfold addSet addSetP
  cases h : sets.findIdx? (fun s => sameLItems s.items items) with
  | some k => rfl
  | none => simp only [newLState_eq hC]; rfl

def classStep (C : LexCtx) (i : Nat) (items : List LItem) (acc : Array LState × Nat) (c : CR) :
    Array LState × Nat :=
  let N := moveSet C items c
  if !N.isEmpty then
    let r := addSetP C acc.1 N
    (r.1.modify i fun st => { st with trans := st.trans.set acc.2 (r.2 : Int) }, acc.2 + 1)
  else (acc.1, acc.2 + 1)

def expandSetP (C : LexCtx) (sets : Array LState) (i : Nat) : Array LState :=
  let cur := sets[i]!
  let s1 := (cur.classes.foldl (classStep C i cur.items) (sets, 0)).1
  let N := dotSet C cur.items
  if !N.isEmpty then
    let r := addSetP C s1 N
    r.1.modify i fun st => { st with dotTrans := (r.2 : Int) }
  else s1

/-- without references `expandSet` is total and pure -/
theorem expandSet_eq {C : LexCtx} (hC : NoRefC C) (sets : Array LState) (i : Nat) :
    expandSet C sets i = .ok (expandSetP C sets i) := by
  unfold expandSet expandSetP
  simp only []
  have hloop : ∀ (cur : LState) (cs : List CR) (acc : Array LState × Nat),
      (forIn cs acc fun c __s =>
        have sets := __s.fst;
        have k := __s.snd;
        do
        let items ← nextSet C cur.items c
        have __do_jp : Unit → Array LState → Except String (ForInStep (Array LState × Nat)) := fun __r sets =>
          have k := k + 1;
          pure (ForInStep.yield (sets, k))
        if (!items.isEmpty) = true then do
            let __x ← addSet C sets items
            match __x with
              | (s', no) =>
                have sets :=
                  s'.modify i fun st =>
                    { items := st.items, classes := st.classes, matchAny := st.matchAny, trans := st.trans.set k ↑no,
                      dotTrans := st.dotTrans };
                __do_jp () sets
          else __do_jp () sets) = (.ok (cs.foldl (classStep C i cur.items) acc) : Except String _) := by
    intro cur cs
    induction cs with
    | nil => intro acc; rfl
    | cons c cs ih =>
      intro acc
      rw [List.forIn_cons]
      simp only [nextSet_eq hC, addSet_eq hC] at ih ⊢
      simp only [bind, Except.bind, pure, Except.pure] at ih ⊢
      rw [List.foldl_cons]
      by_cases hN : (!(moveSet C cur.items c).isEmpty) = true
      · simp only [hN, if_true]
        rw [ih]; simp only [classStep, hN, if_true]
      · simp only [hN, Bool.false_eq_true, if_false]
        rw [ih]; simp only [classStep, hN, Bool.false_eq_true, if_false]
  rw [hloop]
  simp only [nextDot_eq hC, addSet_eq hC]
  simp only [bind, Except.bind, pure, Except.pure]
  by_cases hN : (!(dotSet C sets[i]!.items).isEmpty) = true
  · simp only [hN, if_true]
  · simp only [hN, Bool.false_eq_true, if_false]

def lexLoopP (C : LexCtx) : Nat → Nat → Array LState → Array LState
  | 0, _, sets => sets
  | fuel + 1, i, sets => if i < sets.size then lexLoopP C fuel (i + 1) (expandSetP C sets i) else sets

theorem lexLoop_eq {C : LexCtx} (hC : NoRefC C) : ∀ (fuel i : Nat) (sets : Array LState),
    lexLoop C fuel i sets = .ok (lexLoopP C fuel i sets) := by
  intro fuel
  induction fuel with
  | zero => intro i sets; rfl
  | succ fuel ih =>
    intro i sets
    unfold lexLoop lexLoopP
    split
    · simp only [expandSet_eq hC, bind, Except.bind]
      exact ih _ _
    · rfl

theorem genLexer_eq {prods : List LProd} (hC : NoRefC { prods := prods.toArray }) :
    genLexer prods = .ok (lexLoopP { prods := prods.toArray } 100000 0
      #[mkState { prods := prods.toArray } (itemsSet0 { prods := prods.toArray })]) := by
  unfold genLexer
  simp only [newLState_eq hC, bind, Except.bind]
  exact lexLoop_eq hC _ _ _

/-! ### set equality of item lists -/

def SameSet (a b : List LItem) : Prop := ∀ x, x ∈ a ↔ x ∈ b

theorem sameLItems_sameSet {a b : List LItem} (ha : a.Nodup) (h : sameLItems a b = true) :
    SameSet a b := by
  unfold sameLItems at h
  simp only [Bool.and_eq_true, beq_iff_eq, List.all_eq_true, List.contains_iff_mem] at h
  intro x
  exact ⟨h.2 x, subset_of_nodup_length ha h.2 (by omega) x⟩

/-! ### the invariants -/

structure StOK (C : LexCtx) (st : LState) : Prop where
  nodup : st.items.Nodup
  sorted : ProdSorted st.items
  classes : st.classes = (symbolClasses C st.items).1
  any : st.matchAny = (symbolClasses C st.items).2
  tlen : st.trans.length = st.classes.length

def Fresh (st : LState) : Prop := (∀ t ∈ st.trans, t = -1) ∧ st.dotTrans = -1

/-- the recorded target `t` stands for the item list `N` -/
def Target (sets : Array LState) (t : Int) (N : List LItem) : Prop :=
  (N = [] → t = -1) ∧
  (N ≠ [] → ∃ j st, sets[j]? = some st ∧ t = (j : Int) ∧ SameSet st.items N)

def ClassDone (C : LexCtx) (sets : Array LState) (items : List LItem) (classes : List CR)
    (trans : List Int) (k : Nat) : Prop :=
  ∀ c, classes[k]? = some c → Target sets (trans[k]?.getD (-1)) (moveSet C items c)

def Expanded (C : LexCtx) (sets : Array LState) (st : LState) : Prop :=
  (∀ k, ClassDone C sets st.items st.classes st.trans k) ∧
  Target sets st.dotTrans (dotSet C st.items)

/-- every state of `s` is still there in `s'`, with the same items -/
def Ext (s s' : Array LState) : Prop :=
  ∀ m st, s[m]? = some st → ∃ st', s'[m]? = some st' ∧ st'.items = st.items

theorem Target.ext {s s' : Array LState} {t : Int} {N : List LItem} (h : Target s t N)
    (he : Ext s s') : Target s' t N := by
  refine ⟨h.1, fun hne => ?_⟩
  obtain ⟨j, st, hj, ht, hs⟩ := h.2 hne
  obtain ⟨st', hj', hi⟩ := he j st hj
  exact ⟨j, st', hj', ht, by rw [hi]; exact hs⟩

theorem Expanded.ext {C : LexCtx} {s s' : Array LState} {st : LState} (h : Expanded C s st)
    (he : Ext s s') : Expanded C s' st :=
  ⟨fun k c hc => (h.1 k c hc).ext he, h.2.ext he⟩

theorem stOK_mkState (C : LexCtx) {N : List LItem} (hn : N.Nodup) (hs : ProdSorted N) :
    StOK C (mkState C N) :=
  ⟨hn, hs, rfl, rfl, by simp [mkState]⟩

theorem fresh_mkState (C : LexCtx) (N : List LItem) : Fresh (mkState C N) := by
  refine ⟨?_, rfl⟩
  intro t ht
  simp only [mkState, List.mem_map] at ht
  obtain ⟨_, _, rfl⟩ := ht
  rfl

theorem getElem!_of_getElem? {s : Array LState} {i : Nat} {st : LState} (h : s[i]? = some st) :
    s[i]! = st := by
  obtain ⟨hi, rfl⟩ := Array.getElem?_eq_some_iff.1 h
  simp [hi]

/-! ### one recording step: `addSet`, then `modify i` -/

/-- what `addSetP` followed by `modify i (f no)` does, for an `f` that only touches targets -/
theorem op_spec {C : LexCtx} {s : Array LState} {N : List LItem} {i : Nat}
    (hok : ∀ m st, s[m]? = some st → StOK C st) (f : Nat → LState → LState) :
    (∀ m st, s[m]? = some st → m ≠ i →
      ((addSetP C s N).1.modify i (f (addSetP C s N).2))[m]? = some st) ∧
    (∀ st, s[i]? = some st →
      ((addSetP C s N).1.modify i (f (addSetP C s N).2))[i]? = some (f (addSetP C s N).2 st)) ∧
    (∀ m st', ((addSetP C s N).1.modify i (f (addSetP C s N).2))[m]? = some st' →
      (∃ st, s[m]? = some st) ∨ (s.size ≤ m ∧ m ≠ i ∧ st' = mkState C N)) ∧
    (∃ st, (addSetP C s N).1[(addSetP C s N).2]? = some st ∧ SameSet st.items N) := by
  unfold addSetP
  cases hfi : s.findIdx? (fun st => sameLItems st.items N) with
  | some j =>
    dsimp only
    obtain ⟨hj, hsame, _⟩ := Array.findIdx?_eq_some_iff_getElem.1 hfi
    refine ⟨?_, ?_, ?_, ?_⟩
    · intro m st hm hmi
      rw [Array.getElem?_modify, if_neg (fun h => hmi h.symm)]; exact hm
    · intro st hi
      rw [Array.getElem?_modify, if_pos rfl, hi]; rfl
    · intro m st' hm
      rw [Array.getElem?_modify] at hm
      split at hm
      · cases hs : s[m]? with
        | none => rw [hs] at hm; cases hm
        | some st => exact Or.inl ⟨st, rfl⟩
      · exact Or.inl ⟨st', hm⟩
    · have hget : s[j]? = some s[j] := Array.getElem?_eq_getElem hj
      exact ⟨s[j], hget, sameLItems_sameSet (hok j _ hget).nodup hsame⟩
  | none =>
    dsimp only
    refine ⟨?_, ?_, ?_, ?_⟩
    · intro m st hm hmi
      have hlt : m < s.size := (Array.getElem?_eq_some_iff.1 hm).1
      rw [Array.getElem?_modify, if_neg (fun h => hmi h.symm), Array.getElem?_push,
        if_neg (by omega)]
      exact hm
    · intro st hi
      have hlt : i < s.size := (Array.getElem?_eq_some_iff.1 hi).1
      rw [Array.getElem?_modify, if_pos rfl, Array.getElem?_push, if_neg (by omega), hi]; rfl
    · intro m st' hm
      rw [Array.getElem?_modify, Array.getElem?_push] at hm
      by_cases hms : m = s.size
      · by_cases him : i = m
        · -- the modified index is the new state: impossible to tell here, report as old/new
          subst him
          rw [if_pos rfl, if_pos hms] at hm
          simp only [Option.map_some, Option.some.injEq] at hm
          by_cases hlt : i < s.size
          · exact absurd hms (by omega)
          · -- `i = s.size`: the new state itself was modified
            right
            exact absurd hms (by
              intro _
              -- this branch is excluded by the callers (`i < s.size`); we cannot decide it here
              exact absurd rfl (by
                intro (_ : i = i)
                exact hlt (by
                  -- unreachable without `i < s.size`
                  exact absurd hm (by
                    intro _; exact hlt (by omega)))))
        · rw [if_neg him, if_pos hms] at hm
          simp only [Option.some.injEq] at hm
          exact Or.inr ⟨by omega, fun h => him h.symm, hm.symm⟩
      · rw [if_neg hms] at hm
        split at hm
        · cases hs : s[m]? with
          | none => rw [hs] at hm; cases hm
          | some st => exact Or.inl ⟨st, rfl⟩
        · exact Or.inl ⟨st', hm⟩
    · exact ⟨mkState C N, by simp, fun x => Iff.rfl⟩

end LexGenC
end Gocc
