import Gocc.Proofs.LexGenCorrectStep
/-
C01 (generator level), part 6 — (M4, generator side) the loop invariants of `lexLoop` / `expandSet`.

Without references `expandSet` never fails and is the pure function `expandSetP`
(`expandSet_eq`).  Invariant `LInv C i sets`: every state is well-formed (`StOK`: duplicate-free,
production-sorted items, classes / matchAny / row length as `newLState` made them), state 0 has the
items `itemsSet0 C`, every state `m < i` is `Expanded` (for every class `c` the recorded target is
`-1` if `moveSet C items c` is empty and otherwise the index of a state with the same item set; the
same for `.`), every state `m ≥ i` is `Fresh` (all targets `-1`).
`genLexer_spec`: a successful `genLexer` with fewer than 100000 states satisfies `LInv` with all
states expanded.
-/
namespace Gocc
namespace LexGenC

/-! ### the pure generator -/

def mkState (C : LexCtx) (items : List LItem) : LState :=
  { items := items, classes := (symbolClasses C items).1, matchAny := (symbolClasses C items).2,
    trans := (symbolClasses C items).1.map fun _ => -1 }

theorem newLState_eq {C : LexCtx} (hC : NoRefC C) (items : List LItem) :
    newLState C items = .ok (mkState C items) := by
  unfold newLState
  rw [closureL_id hC]
  rfl

def addSetP (C : LexCtx) (sets : Array LState) (items : List LItem) : Array LState × Nat :=
  match sets.findIdx? (fun s => sameLItems s.items items) with
  | some k => (sets, k)
  | none => (sets.push (mkState C items), sets.size)

theorem addSet_eq {C : LexCtx} (hC : NoRefC C) (sets : Array LState) (items : List LItem) :
    addSet C sets items = .ok (addSetP C sets items) := by
  unfold addSet addSetP
  cases h : sets.findIdx? (fun s => sameLItems s.items items) with
  | some k => rfl
  | none => simp only [newLState_eq hC]; rfl

def classStep (C : LexCtx) (i : Nat) (items : List LItem) (acc : Array LState × Nat) (c : CR) :
    Array LState × Nat :=
  let N := moveSet C items c
  if !N.isEmpty then
    let r := addSetP C acc.1 N
    (r.1.modify i fun st => { st with trans := st.trans.set acc.2 (r.2 : Int) }, acc.2 + 1)
  else (acc.1, acc.2 + 1)

def expandSetP (C : LexCtx) (sets : Array LState) (i : Nat) : Array LState :=
  let cur := sets[i]!
  let s1 := (cur.classes.foldl (classStep C i cur.items) (sets, 0)).1
  let N := dotSet C cur.items
  if !N.isEmpty then
    let r := addSetP C s1 N
    r.1.modify i fun st => { st with dotTrans := (r.2 : Int) }
  else s1

/-- without references `expandSet` is total and pure -/
theorem expandSet_eq {C : LexCtx} (hC : NoRefC C) (sets : Array LState) (i : Nat) :
    expandSet C sets i = .ok (expandSetP C sets i) := by
  unfold expandSet expandSetP
  simp only []
  have hloop : ∀ (cur : LState) (cs : List CR) (acc : Array LState × Nat),
      (forIn cs acc fun c __s =>
        have sets := __s.fst;
        have k := __s.snd;
        do
        let items ← nextSet C cur.items c
        have __do_jp : Unit → Array LState → Except String (ForInStep (Array LState × Nat)) := fun __r sets =>
          have k := k + 1;
          pure (ForInStep.yield (sets, k))
        if (!items.isEmpty) = true then do
            let __x ← addSet C sets items
            match __x with
              | (s', no) =>
                have sets :=
                  s'.modify i fun st =>
                    { items := st.items, classes := st.classes, matchAny := st.matchAny, trans := st.trans.set k ↑no,
                      dotTrans := st.dotTrans };
                __do_jp () sets
          else __do_jp () sets) = (.ok (cs.foldl (classStep C i cur.items) acc) : Except String _) := by
    intro cur cs
    induction cs with
    | nil => intro acc; rfl
    | cons c cs ih =>
      intro acc
      rw [List.forIn_cons]
      simp only [nextSet_eq hC, addSet_eq hC] at ih ⊢
      simp only [bind, Except.bind, pure, Except.pure] at ih ⊢
      rw [List.foldl_cons]
      by_cases hN : (!(moveSet C cur.items c).isEmpty) = true
      · simp only [hN, if_true]
        rw [ih]; simp only [classStep, hN, if_true]
      · simp only [hN, Bool.false_eq_true, if_false]
        rw [ih]; simp only [classStep, hN, Bool.false_eq_true, if_false]
  rw [hloop]
  simp only [nextDot_eq hC, addSet_eq hC]
  simp only [bind, Except.bind, pure, Except.pure]
  by_cases hN : (!(dotSet C sets[i]!.items).isEmpty) = true
  · simp only [hN, if_true]
  · simp only [hN, Bool.false_eq_true, if_false]

def lexLoopP (C : LexCtx) : Nat → Nat → Array LState → Array LState
  | 0, _, sets => sets
  | fuel + 1, i, sets => if i < sets.size then lexLoopP C fuel (i + 1) (expandSetP C sets i) else sets

theorem lexLoop_eq {C : LexCtx} (hC : NoRefC C) : ∀ (fuel i : Nat) (sets : Array LState),
    lexLoop C fuel i sets = .ok (lexLoopP C fuel i sets) := by
  intro fuel
  induction fuel with
  | zero => intro i sets; rfl
  | succ fuel ih =>
    intro i sets
    unfold lexLoop lexLoopP
    split
    · simp only [expandSet_eq hC, bind, Except.bind]
      exact ih _ _
    · rfl

theorem genLexer_eq {prods : List LProd} (hC : NoRefC { prods := prods.toArray }) :
    genLexer prods = .ok (lexLoopP { prods := prods.toArray } 100000 0
      #[mkState { prods := prods.toArray } (itemsSet0 { prods := prods.toArray })]) := by
  unfold genLexer
  simp only [newLState_eq hC, bind, Except.bind]
  exact lexLoop_eq hC _ _ _

/-! ### set equality of item lists -/

def SameSet (a b : List LItem) : Prop := ∀ x, x ∈ a ↔ x ∈ b

theorem sameLItems_sameSet {a b : List LItem} (ha : a.Nodup) (h : sameLItems a b = true) :
    SameSet a b := by
  unfold sameLItems at h
  simp only [Bool.and_eq_true, beq_iff_eq, List.all_eq_true, List.contains_iff_mem] at h
  intro x
  exact ⟨h.2 x, subset_of_nodup_length ha h.2 (by omega) x⟩

/-! ### the invariants -/

structure StOK (C : LexCtx) (st : LState) : Prop where
  nodup : st.items.Nodup
  sorted : ProdSorted st.items
  classes : st.classes = (symbolClasses C st.items).1
  any : st.matchAny = (symbolClasses C st.items).2
  tlen : st.trans.length = st.classes.length

def Fresh (st : LState) : Prop := (∀ t ∈ st.trans, t = -1) ∧ st.dotTrans = -1

/-- the recorded target `t` stands for the item list `N` -/
def Target (sets : Array LState) (t : Int) (N : List LItem) : Prop :=
  (N = [] → t = -1) ∧
  (N ≠ [] → ∃ (j : Nat) (st : LState), sets[j]? = some st ∧ t = (j : Int) ∧ SameSet st.items N)

def ClassDone (C : LexCtx) (sets : Array LState) (items : List LItem) (classes : List CR)
    (trans : List Int) (k : Nat) : Prop :=
  ∀ c, classes[k]? = some c → Target sets (trans[k]?.getD (-1)) (moveSet C items c)

def Expanded (C : LexCtx) (sets : Array LState) (st : LState) : Prop :=
  (∀ k, ClassDone C sets st.items st.classes st.trans k) ∧
  Target sets st.dotTrans (dotSet C st.items)

/-- every state of `s` is still there in `s'`, with the same items -/
def Ext (s s' : Array LState) : Prop :=
  ∀ (m : Nat) (st : LState), s[m]? = some st → ∃ st', s'[m]? = some st' ∧ st'.items = st.items

theorem Target.ext {s s' : Array LState} {t : Int} {N : List LItem} (h : Target s t N)
    (he : Ext s s') : Target s' t N := by
  refine ⟨h.1, fun hne => ?_⟩
  obtain ⟨j, st, hj, ht, hs⟩ := h.2 hne
  obtain ⟨st', hj', hi⟩ := he j st hj
  exact ⟨j, st', hj', ht, by rw [hi]; exact hs⟩

theorem Expanded.ext {C : LexCtx} {s s' : Array LState} {st : LState} (h : Expanded C s st)
    (he : Ext s s') : Expanded C s' st :=
  ⟨fun k c hc => (h.1 k c hc).ext he, h.2.ext he⟩

theorem stOK_mkState (C : LexCtx) {N : List LItem} (hn : N.Nodup) (hs : ProdSorted N) :
    StOK C (mkState C N) :=
  ⟨hn, hs, rfl, rfl, by simp [mkState]⟩

theorem fresh_mkState (C : LexCtx) (N : List LItem) : Fresh (mkState C N) := by
  refine ⟨?_, rfl⟩
  intro t ht
  simp only [mkState, List.mem_map] at ht
  obtain ⟨_, _, rfl⟩ := ht
  rfl

theorem getElem!_of_getElem? {s : Array LState} {i : Nat} {st : LState} (h : s[i]? = some st) :
    s[i]! = st := by
  obtain ⟨hi, rfl⟩ := Array.getElem?_eq_some_iff.1 h
  simp [hi]

/-! ### one recording step: `addSet`, then `modify i` -/

/-- what `addSetP` followed by `modify i (f no)` does, for an `f` that only touches targets -/
theorem op_spec {C : LexCtx} {s : Array LState} {N : List LItem} {i : Nat}
    (hok : ∀ (m : Nat) (st : LState), s[m]? = some st → StOK C st) (hilt : i < s.size) (f : Nat → LState → LState) :
    (∀ (m : Nat) (st : LState), s[m]? = some st → m ≠ i →
      ((addSetP C s N).1.modify i (f (addSetP C s N).2))[m]? = some st) ∧
    (∀ st, s[i]? = some st →
      ((addSetP C s N).1.modify i (f (addSetP C s N).2))[i]? = some (f (addSetP C s N).2 st)) ∧
    (∀ (m : Nat) (st' : LState), ((addSetP C s N).1.modify i (f (addSetP C s N).2))[m]? = some st' →
      (∃ st, s[m]? = some st) ∨ (s.size ≤ m ∧ m ≠ i ∧ st' = mkState C N)) ∧
    (∃ st, (addSetP C s N).1[(addSetP C s N).2]? = some st ∧ SameSet st.items N) := by
  unfold addSetP
  cases hfi : s.findIdx? (fun st => sameLItems st.items N) with
  | some j =>
    dsimp only
    obtain ⟨hj, hsame, _⟩ := Array.findIdx?_eq_some_iff_getElem.1 hfi
    refine ⟨?_, ?_, ?_, ?_⟩
    · intro m st hm hmi
      rw [Array.getElem?_modify, if_neg (fun h => hmi h.symm)]; exact hm
    · intro st hi
      rw [Array.getElem?_modify, if_pos rfl, hi]; rfl
    · intro m st' hm
      rw [Array.getElem?_modify] at hm
      split at hm
      · cases hs : s[m]? with
        | none => rw [hs] at hm; cases hm
        | some st => exact Or.inl ⟨st, rfl⟩
      · exact Or.inl ⟨st', hm⟩
    · have hget : s[j]? = some s[j] := Array.getElem?_eq_getElem hj
      exact ⟨s[j], hget, sameLItems_sameSet (hok j _ hget).nodup hsame⟩
  | none =>
    dsimp only
    refine ⟨?_, ?_, ?_, ?_⟩
    · intro m st hm hmi
      have hlt : m < s.size := (Array.getElem?_eq_some_iff.1 hm).1
      rw [Array.getElem?_modify, if_neg (fun h => hmi h.symm), Array.getElem?_push,
        if_neg (by omega)]
      exact hm
    · intro st hi
      have hlt : i < s.size := (Array.getElem?_eq_some_iff.1 hi).1
      rw [Array.getElem?_modify, if_pos rfl, Array.getElem?_push, if_neg (by omega), hi]; rfl
    · intro m st' hm
      rw [Array.getElem?_modify, Array.getElem?_push] at hm
      by_cases hms : m = s.size
      · by_cases him : i = m
        · omega
        · rw [if_neg him, if_pos hms] at hm
          simp only [Option.some.injEq] at hm
          exact Or.inr ⟨by omega, fun h => him h.symm, hm.symm⟩
      · rw [if_neg hms] at hm
        split at hm
        · cases hs : s[m]? with
          | none => rw [hs] at hm; cases hm
          | some st => exact Or.inl ⟨st, rfl⟩
        · exact Or.inl ⟨st', hm⟩
    · exact ⟨mkState C N, by simp, fun x => Iff.rfl⟩

/-- the part of the invariant that does not concern the state being expanded -/
structure FInv (C : LexCtx) (i : Nat) (s : Array LState) : Prop where
  ok : ∀ (m : Nat) (st : LState), s[m]? = some st → StOK C st
  zero : ∃ st, s[0]? = some st ∧ st.items = itemsSet0 C
  before : ∀ (m : Nat) (st : LState), s[m]? = some st → m < i → Expanded C s st
  after : ∀ (m : Nat) (st : LState), s[m]? = some st → i < m → Fresh st

/-- `f` only touches the targets of a state -/
def KeepsShape (f : Nat → LState → LState) : Prop :=
  ∀ no st, (f no st).items = st.items ∧ (f no st).classes = st.classes ∧
    (f no st).matchAny = st.matchAny ∧ (f no st).trans.length = st.trans.length

theorem op_frame {C : LexCtx} {s : Array LState} {N : List LItem} {i : Nat} (h : FInv C i s)
    (hilt : i < s.size) (hN : N.Nodup) (hNs : ProdSorted N) (hne : N ≠ [])
    (f : Nat → LState → LState) (hf : KeepsShape f) :
    FInv C i ((addSetP C s N).1.modify i (f (addSetP C s N).2)) ∧
    Ext s ((addSetP C s N).1.modify i (f (addSetP C s N).2)) ∧
    (∀ st, s[i]? = some st →
      ((addSetP C s N).1.modify i (f (addSetP C s N).2))[i]? = some (f (addSetP C s N).2 st)) ∧
    Target ((addSetP C s N).1.modify i (f (addSetP C s N).2)) ((addSetP C s N).2 : Int) N := by
  obtain ⟨o1, o2, o3, o4⟩ := op_spec (N := N) h.ok hilt f
  have hext : Ext s ((addSetP C s N).1.modify i (f (addSetP C s N).2)) := by
    intro m st hm
    by_cases hmi : m = i
    · subst hmi
      exact ⟨_, o2 st hm, (hf _ st).1⟩
    · exact ⟨st, o1 m st hm hmi, rfl⟩
  refine ⟨⟨?_, ?_, ?_, ?_⟩, hext, o2, ?_⟩
  · intro m st' hm
    rcases o3 m st' hm with ⟨st, hst⟩ | ⟨_, _, rfl⟩
    · by_cases hmi : m = i
      · subst hmi
        rw [o2 st hst] at hm
        simp only [Option.some.injEq] at hm
        subst hm
        have hk := h.ok m st hst
        obtain ⟨f1, f2, f3, f4⟩ := hf (addSetP C s N).2 st
        exact ⟨by rw [f1]; exact hk.nodup, by rw [f1]; exact hk.sorted,
          by rw [f1, f2]; exact hk.classes, by rw [f1, f3]; exact hk.any,
          by rw [f4, f2]; exact hk.tlen⟩
      · rw [o1 m st hst hmi] at hm
        simp only [Option.some.injEq] at hm
        subst hm
        exact h.ok m st hst
    · exact stOK_mkState C hN hNs
  · obtain ⟨st, h0, hi0⟩ := h.zero
    obtain ⟨st', h0', hi0'⟩ := hext 0 st h0
    exact ⟨st', h0', by rw [hi0', hi0]⟩
  · intro m st' hm hmi
    rcases o3 m st' hm with ⟨st, hst⟩ | ⟨hge, _, _⟩
    · rw [o1 m st hst (by omega)] at hm
      simp only [Option.some.injEq] at hm
      subst hm
      exact (h.before m st hst hmi).ext hext
    · omega
  · intro m st' hm hmi
    rcases o3 m st' hm with ⟨st, hst⟩ | ⟨_, _, rfl⟩
    · rw [o1 m st hst (by omega)] at hm
      simp only [Option.some.injEq] at hm
      subst hm
      exact h.after m st hst hmi
    · exact fresh_mkState C N
  · refine ⟨fun hn => absurd hn hne, fun _ => ?_⟩
    obtain ⟨st0, hst0, hsame⟩ := o4
    by_cases hij : i = (addSetP C s N).2
    · refine ⟨_, f (addSetP C s N).2 st0, ?_, rfl, ?_⟩
      · rw [Array.getElem?_modify, if_pos hij, hst0]; rfl
      · rw [(hf _ st0).1]; exact hsame
    · refine ⟨_, st0, ?_, rfl, hsame⟩
      rw [Array.getElem?_modify, if_neg hij]; exact hst0

/-- invariant while state `i` is being expanded: the classes `< k` are recorded -/
structure PInv (C : LexCtx) (i : Nat) (items : List LItem) (classes : List CR) (k : Nat)
    (s : Array LState) : Prop where
  frame : FInv C i s
  cur : ∃ st, s[i]? = some st ∧ st.items = items ∧ st.classes = classes ∧ st.dotTrans = -1 ∧
      (∀ k', k' < k → ClassDone C s items classes st.trans k') ∧
      (∀ k', k ≤ k' → st.trans[k']?.getD (-1) = -1)

theorem isEmpty_false_ne {N : List LItem} (h : (!N.isEmpty) = true) : N ≠ [] := by
  intro hn; subst hn; simp at h

theorem isEmpty_true_eq {N : List LItem} (h : ¬ (!N.isEmpty) = true) : N = [] := by
  cases N with
  | nil => rfl
  | cons a l => simp at h

theorem classStep_inv {C : LexCtx} {i : Nat} {items : List LItem} {classes : List CR} {k : Nat}
    {s : Array LState} {c : CR} (h : PInv C i items classes k s) (hc : classes[k]? = some c) :
    PInv C i items classes (k + 1) (classStep C i items (s, k) c).1 ∧
      (classStep C i items (s, k) c).2 = k + 1 := by
  obtain ⟨st, hst, hitems, hclasses, hdot, hdone, htodo⟩ := h.cur
  have hilt : i < s.size := (Array.getElem?_eq_some_iff.1 hst).1
  have hstok := h.frame.ok i st hst
  unfold classStep
  dsimp only
  by_cases hN : (!(moveSet C items c).isEmpty) = true
  · rw [if_pos hN]
    refine ⟨?_, rfl⟩
    have hne := isEmpty_false_ne hN
    have hshape : KeepsShape (fun (no : Nat) (st : LState) =>
        { st with trans := st.trans.set k (no : Int) }) := by
      intro no st; exact ⟨rfl, rfl, rfl, by simp⟩
    obtain ⟨g1, g2, g3, g4⟩ := op_frame (N := moveSet C items c) h.frame hilt
      (nodup_moveSet C items c) (prodSorted_moveSet C c (by rw [← hitems]; exact hstok.sorted)) hne
      _ hshape
    refine ⟨g1, _, g3 st hst, hitems, hclasses, hdot, ?_, ?_⟩
    · intro k' hk' c' hc'
      dsimp only
      by_cases hkk : k' = k
      · subst hkk
        rw [hc] at hc'
        simp only [Option.some.injEq] at hc'
        subst hc'
        have hlt : k' < st.trans.length := by
          rw [hstok.tlen, hclasses]
          exact (List.getElem?_eq_some_iff.1 hc).1
        rw [List.getElem?_set, if_pos rfl, if_pos hlt]
        exact g4
      · rw [List.getElem?_set, if_neg (fun e => hkk e.symm)]
        exact (hdone k' (by omega) c' hc').ext g2
    · intro k' hk'
      dsimp only
      rw [List.getElem?_set, if_neg (by omega)]
      exact htodo k' (by omega)
  · rw [if_neg hN]
    refine ⟨⟨h.frame, st, hst, hitems, hclasses, hdot, ?_, fun k' hk' => htodo k' (by omega)⟩, rfl⟩
    intro k' hk' c' hc'
    by_cases hkk : k' = k
    · subst hkk
      rw [hc] at hc'
      simp only [Option.some.injEq] at hc'
      subst hc'
      rw [htodo k' (Nat.le_refl _)]
      exact ⟨fun _ => rfl, fun hne => absurd (isEmpty_true_eq hN) hne⟩
    · exact hdone k' (by omega) c' hc'

theorem classFold_inv {C : LexCtx} {i : Nat} {items : List LItem} {classes : List CR} :
    ∀ (cs : List CR) (k : Nat) (s : Array LState), (∀ j c, cs[j]? = some c → classes[k + j]? = some c) →
      PInv C i items classes k s →
      PInv C i items classes (k + cs.length) (cs.foldl (classStep C i items) (s, k)).1 := by
  intro cs
  induction cs with
  | nil => intro k s _ h; simpa using h
  | cons c cs ih =>
    intro k s hcs h
    obtain ⟨h1, h2⟩ := classStep_inv h (hcs 0 c rfl)
    rw [List.foldl_cons]
    have e : classStep C i items (s, k) c =
        ((classStep C i items (s, k) c).1, k + 1) := by rw [← h2]
    rw [e]
    have := ih (k + 1) _ (fun j c' hj => by
      have := hcs (j + 1) c' (by simpa using hj)
      rw [show k + 1 + j = k + (j + 1) by omega]; exact this) h1
    rw [show k + (c :: cs).length = k + 1 + cs.length by simp; omega]
    exact this

/-- invariant between two expansions -/
structure LInv (C : LexCtx) (i : Nat) (s : Array LState) : Prop where
  ok : ∀ (m : Nat) (st : LState), s[m]? = some st → StOK C st
  zero : ∃ st, s[0]? = some st ∧ st.items = itemsSet0 C
  before : ∀ (m : Nat) (st : LState), s[m]? = some st → m < i → Expanded C s st
  after : ∀ (m : Nat) (st : LState), s[m]? = some st → i ≤ m → Fresh st

theorem expandSetP_inv {C : LexCtx} {i : Nat} {s : Array LState} (h : LInv C i s)
    (hilt : i < s.size) : LInv C (i + 1) (expandSetP C s i) := by
  have hget : s[i]? = some s[i] := Array.getElem?_eq_getElem hilt
  have hcur : s[i]! = s[i] := getElem!_of_getElem? hget
  have hfresh := h.after i _ hget (Nat.le_refl _)
  have hp0 : PInv C i s[i].items s[i].classes 0 s := by
    refine ⟨⟨h.ok, h.zero, h.before, fun m st hm hmi => h.after m st hm (by omega)⟩,
      s[i], hget, rfl, rfl, hfresh.2, fun k' hk' => by omega, ?_⟩
    intro k' _
    cases hk : s[i].trans[k']? with
    | none => rfl
    | some t => exact hfresh.1 t (List.mem_of_getElem? hk)
  have hp1 := classFold_inv (C := C) (i := i) s[i].classes 0 s
    (fun j c hj => by simpa using hj) hp0
  simp only [Nat.zero_add] at hp1
  unfold expandSetP
  dsimp only
  rw [hcur]
  generalize (List.foldl (classStep C i s[i].items) (s, 0) s[i].classes).1 = s1 at hp1
  obtain ⟨st, hst, hitems, hclasses, hdot, hdone, _⟩ := hp1.cur
  have hilt1 : i < s1.size := (Array.getElem?_eq_some_iff.1 hst).1
  have hstok := hp1.frame.ok i st hst
  have hall : ∀ (s' : Array LState) (trans : List Int), Ext s1 s' → trans = st.trans →
      ∀ k, ClassDone C s' st.items st.classes trans k := by
    intro s' trans hext htr k c' hc'
    have hlt : k < s[i].classes.length := by
      rw [hclasses] at hc'; exact (List.getElem?_eq_some_iff.1 hc').1
    rw [htr]
    have := hdone k hlt c' (by rw [← hclasses]; exact hc')
    rw [hitems]
    exact this.ext hext
  by_cases hN : (!(dotSet C s[i].items).isEmpty) = true
  · rw [if_pos hN]
    have hne := isEmpty_false_ne hN
    have hshape : KeepsShape (fun (no : Nat) (st : LState) =>
        { st with dotTrans := (no : Int) }) := by
      intro no st; exact ⟨rfl, rfl, rfl, rfl⟩
    obtain ⟨g1, g2, g3, g4⟩ := op_frame (N := dotSet C s[i].items) hp1.frame hilt1
      (nodup_dotSet C _) (prodSorted_dotSet C (by rw [← hitems]; exact hstok.sorted)) hne
      _ hshape
    refine ⟨g1.ok, g1.zero, ?_, fun m st' hm hmi => g1.after m st' hm (by omega)⟩
    intro m st' hm hmi
    by_cases hmi' : m = i
    · subst hmi'
      rw [g3 st hst] at hm
      simp only [Option.some.injEq] at hm
      subst hm
      exact ⟨hall _ _ g2 rfl, by dsimp only; rw [hitems]; exact g4⟩
    · exact g1.before m st' hm (by omega)
  · rw [if_neg hN]
    refine ⟨hp1.frame.ok, hp1.frame.zero, ?_, fun m st' hm hmi => hp1.frame.after m st' hm (by omega)⟩
    intro m st' hm hmi
    by_cases hmi' : m = i
    · subst hmi'
      rw [hst] at hm
      simp only [Option.some.injEq] at hm
      subst hm
      refine ⟨hall _ _ (fun m st hm => ⟨st, hm, rfl⟩) rfl, ?_⟩
      rw [hdot, hitems]
      exact ⟨fun _ => rfl, fun hne => absurd (isEmpty_true_eq hN) hne⟩
    · exact hp1.frame.before m st' hm (by omega)

theorem lexLoopP_inv {C : LexCtx} : ∀ (fuel i : Nat) (s : Array LState), LInv C i s →
    ∃ i', LInv C i' (lexLoopP C fuel i s) ∧
      ((lexLoopP C fuel i s).size ≤ i' ∨ i' = i + fuel) := by
  intro fuel
  induction fuel with
  | zero => intro i s h; exact ⟨i, h, Or.inr rfl⟩
  | succ fuel ih =>
    intro i s h
    unfold lexLoopP
    split
    · rename_i hlt
      obtain ⟨i', h1, h2⟩ := ih (i + 1) _ (expandSetP_inv h hlt)
      exact ⟨i', h1, by omega⟩
    · exact ⟨i, h, Or.inl (by omega)⟩

theorem linv_init (C : LexCtx) : LInv C 0 #[mkState C (itemsSet0 C)] := by
  have hm : ∀ (m : Nat) (st : LState), (#[mkState C (itemsSet0 C)] : Array LState)[m]? = some st →
      st = mkState C (itemsSet0 C) := by
    intro m st hm
    have hlt := (Array.getElem?_eq_some_iff.1 hm).1
    have : m = 0 := by simpa using hlt
    subst this
    simpa using hm.symm
  refine ⟨?_, ⟨_, rfl, rfl⟩, fun m st _ hm => by omega, ?_⟩
  · intro m st h
    rw [hm m st h]
    exact stOK_mkState C (nodup_itemsSet0 C) (prodSorted_itemsSet0 C)
  · intro m st h _
    rw [hm m st h]
    exact fresh_mkState C _

/-- what a successful, fuel-respecting run of the generator has computed -/
structure GenSpec (C : LexCtx) (states : Array LState) : Prop where
  ok : ∀ (m : Nat) (st : LState), states[m]? = some st → StOK C st
  zero : ∃ st, states[0]? = some st ∧ st.items = itemsSet0 C
  expanded : ∀ (m : Nat) (st : LState), states[m]? = some st → Expanded C states st

/-- (M4, generator side) -/
theorem genLexer_spec {prods : List LProd} {states : Array LState}
    (h : genLexer prods = .ok states) (hn : noRefs prods = true) (hsz : states.size < 100000) :
    GenSpec { prods := prods.toArray } states := by
  have hC := noRefC_of_noRefs hn
  rw [genLexer_eq hC] at h
  simp only [Except.ok.injEq] at h
  obtain ⟨i', h1, h2⟩ := lexLoopP_inv (C := { prods := prods.toArray }) 100000 0 _
    (linv_init { prods := prods.toArray })
  rw [h] at h1 h2
  refine ⟨h1.ok, h1.zero, ?_⟩
  intro m st hm
  have hlt := (Array.getElem?_eq_some_iff.1 hm).1
  exact h1.before m st hm (by omega)

end LexGenC
end Gocc
