import Gocc.Proofs.LoopsTerminateLexItems
/-
`ItemSet.dependentsClosure` (internal/lexer/items/itemset.go) is a third unbounded work-list loop
(`for i := 0; i < len(items); i++ { … items = items.AddNoDuplicate(…) }`), modelled by `depLoop`
on fuel `|items| + |prev| + C.fuel² + 8`.  The fuel is never exhausted: the list only grows by
items of `prev` and by good items (`LGood`), each once.
-/
namespace Gocc.LoopsT

/-- `b` is `a` followed by new, pairwise different elements satisfying `Q` -/
def Appends (Q : LItem → Prop) (a b : List LItem) : Prop :=
  ∃ ex, b = a ++ ex ∧ ex.Nodup ∧ ∀ y ∈ ex, Q y ∧ y ∉ a

theorem Appends.refl (Q : LItem → Prop) (a : List LItem) : Appends Q a a :=
  ⟨[], by simp, by simp, by simp⟩

theorem Appends.trans {Q : LItem → Prop} {a b c : List LItem} (h1 : Appends Q a b)
    (h2 : Appends Q b c) : Appends Q a c := by
  obtain ⟨e1, rfl, n1, q1⟩ := h1
  obtain ⟨e2, rfl, n2, q2⟩ := h2
  refine ⟨e1 ++ e2, by rw [List.append_assoc], ?_, ?_⟩
  · rw [List.nodup_append]
    refine ⟨n1, n2, ?_⟩
    intro x hx y hy hxy
    subst hxy
    exact (q2 x hy).2 (List.mem_append_right _ hx)
  · intro y hy
    rcases List.mem_append.1 hy with hy | hy
    · exact q1 y hy
    · exact ⟨(q2 y hy).1, fun hm => (q2 y hy).2 (List.mem_append_left _ hm)⟩

theorem Appends.sub {Q : LItem → Prop} {a b : List LItem} (h : Appends Q a b) : ∀ x ∈ a, x ∈ b := by
  obtain ⟨e, rfl, _, _⟩ := h
  exact fun x hx => List.mem_append_left _ hx

theorem appends_addAll {Q : LItem → Prop} (l is : List LItem) (h : ∀ y ∈ is, Q y) :
    Appends Q l (addAll l is) := by
  obtain ⟨ex, h1, h2, h3⟩ := addAll_eq_append is l
  exact ⟨ex, h1, h2, fun y hy => ⟨h y (h3 y hy).1, (h3 y hy).2⟩⟩

theorem appends_addL {Q : LItem → Prop} (l : List LItem) {i : LItem} (h : Q i) :
    Appends Q l (addL l i) :=
  appends_addAll l [i] (by intro y hy; simp at hy; subst hy; exact h)

/-- the inner loop `for _, thisItem := range this.Items` for the item `it = items[i]` -/
def depG (C : LexCtx) (it : LItem) (acc : List LItem) (th : LItem) : List LItem :=
  match C.expected th with
  | some (.ref r) =>
    if r == C.idOf it then
      if C.isReduce it then addAll acc (moveRef C th (C.idOf it)) else addL acc th
    else acc
  | _ => acc

def depStep (C : LexCtx) (prev : List LItem) (it : LItem) (items : List LItem) : List LItem :=
  prev.foldl (depG C it) items

theorem depLoop_succ (C : LexCtx) (prev : List LItem) (fuel k : Nat) (items : List LItem) :
    depLoop C prev (fuel + 1) k items =
      match items[k]? with
      | none => items
      | some it => depLoop C prev fuel (k + 1) (depStep C prev it items) := rfl

/-- what processing `it` may add: for `thisItem ∈ prev` expecting the regular definition `it.Id`,
    the moved items if `it` is a reduce item, else `thisItem` itself -/
def DepNew (C : LexCtx) (prev : List LItem) (it y : LItem) : Prop :=
  ∃ th ∈ prev, ∃ r, C.expected th = some (.ref r) ∧ (r == C.idOf it) = true ∧
    ((C.isReduce it = true ∧ y ∈ moveRef C th (C.idOf it)) ∨ (C.isReduce it = false ∧ y = th))

theorem depG_spec {C : LexCtx} {prev : List LItem} {it th : LItem} (hth : th ∈ prev)
    (acc : List LItem) :
    Appends (DepNew C prev it) acc (depG C it acc th) ∧
    ∀ y, (∃ r, C.expected th = some (.ref r) ∧ (r == C.idOf it) = true ∧
      ((C.isReduce it = true ∧ y ∈ moveRef C th (C.idOf it)) ∨ (C.isReduce it = false ∧ y = th))) →
      y ∈ depG C it acc th := by
  unfold depG
  split
  · rename_i r he
    split
    · rename_i hr
      split
      · rename_i hred
        refine ⟨appends_addAll _ _ (fun y hy => ⟨th, hth, r, he, hr, .inl ⟨hred, hy⟩⟩), ?_⟩
        rintro y ⟨r', _, _, h | h⟩
        · exact mem_addAll'.2 (.inr h.2)
        · rw [hred] at h; cases h.1
      · rename_i hred
        refine ⟨appends_addL _ ⟨th, hth, r, he, hr, .inr ⟨by simpa using hred, rfl⟩⟩, ?_⟩
        rintro y ⟨r', _, _, h | h⟩
        · exact absurd h.1 hred
        · exact mem_addL'.2 (.inr h.2)
    · rename_i hr
      refine ⟨Appends.refl _ _, ?_⟩
      rintro y ⟨r', he', hr', _⟩
      rw [he] at he'
      cases he'
      exact absurd hr' hr
  · rename_i hne
    refine ⟨Appends.refl _ _, ?_⟩
    rintro y ⟨r', he', _⟩
    exact absurd he' (hne r')

theorem depStep_spec (C : LexCtx) (prev : List LItem) (it : LItem) (items : List LItem) :
    Appends (DepNew C prev it) items (depStep C prev it items) ∧
    ∀ y, DepNew C prev it y → y ∈ depStep C prev it items := by
  unfold depStep
  have key : ∀ (l : List LItem), (∀ x ∈ l, x ∈ prev) → ∀ (acc : List LItem),
      Appends (DepNew C prev it) acc (l.foldl (depG C it) acc) ∧
      ∀ th ∈ l, ∀ y, (∃ r, C.expected th = some (.ref r) ∧ (r == C.idOf it) = true ∧
        ((C.isReduce it = true ∧ y ∈ moveRef C th (C.idOf it)) ∨
          (C.isReduce it = false ∧ y = th))) → y ∈ l.foldl (depG C it) acc := by
    intro l
    induction l with
    | nil => intro _ acc; exact ⟨Appends.refl _ _, by simp⟩
    | cons a l ih =>
      intro hl acc
      rw [List.foldl_cons]
      obtain ⟨s1, s2⟩ := depG_spec (it := it) (hl a (by simp)) acc
      obtain ⟨r1, r2⟩ := ih (fun x hx => hl x (List.mem_cons_of_mem _ hx)) (depG C it acc a)
      refine ⟨s1.trans r1, ?_⟩
      intro th hth y hy
      rcases List.mem_cons.1 hth with rfl | hth
      · exact r1.sub y (s2 y hy)
      · exact r2 th hth y hy
  obtain ⟨k1, k2⟩ := key prev (fun _ h => h) items
  refine ⟨k1, ?_⟩
  rintro y ⟨th, hth, r, h⟩
  exact k2 th hth y ⟨r, h⟩

structure DInv (C : LexCtx) (prev l : List LItem) (k : Nat) (items : List LItem) : Prop where
  ext : ∃ extra, items = l ++ extra ∧ extra.Nodup ∧ ∀ y ∈ extra, y ∈ prev ++ lexUniv C
  kle : k ≤ items.length
  done : ∀ idx it, idx < k → items[idx]? = some it → ∀ y, DepNew C prev it y → y ∈ items

theorem DInv.length_le {C : LexCtx} {prev l items : List LItem} {k : Nat}
    (h : DInv C prev l k items) : items.length ≤ l.length + prev.length + (lexUniv C).length := by
  obtain ⟨extra, h1, h2, h3⟩ := h.ext
  have := List.Nodup.length_le_of_subset h2 h3
  rw [List.length_append] at this
  rw [h1, List.length_append]
  omega

theorem depNew_univ {C : LexCtx} {prev : List LItem} (hp : ∀ x ∈ prev, LGood C x) {it y : LItem}
    (h : DepNew C prev it y) : y ∈ prev ++ lexUniv C := by
  obtain ⟨th, hth, r, _, _, h | h⟩ := h
  · exact List.mem_append_right _ (lgood_mem_univ (lgood_moveRef (hp th hth) _ y h.2))
  · rw [h.2]; exact List.mem_append_left _ hth

theorem DInv.step {C : LexCtx} {prev l items : List LItem} {k : Nat} {it : LItem}
    (hp : ∀ x ∈ prev, LGood C x) (h : DInv C prev l k items) (hk : items[k]? = some it) :
    DInv C prev l (k + 1) (depStep C prev it items) := by
  have hlt : k < items.length := (List.getElem?_eq_some_iff.1 hk).1
  obtain ⟨⟨ex, h1, h2, h3⟩, hall⟩ := depStep_spec C prev it items
  obtain ⟨extra, g1, g2, g3⟩ := h.ext
  have hsub : ∀ y ∈ items, y ∈ depStep C prev it items :=
    fun y hy => by rw [h1]; exact List.mem_append_left _ hy
  refine ⟨⟨extra ++ ex, by rw [h1, g1, List.append_assoc], ?_, ?_⟩, ?_, ?_⟩
  · rw [List.nodup_append]
    refine ⟨g2, h2, ?_⟩
    intro a ha b hb hab
    subst hab
    exact (h3 a hb).2 (by rw [g1]; exact List.mem_append_right _ ha)
  · intro y hy
    rcases List.mem_append.1 hy with hy | hy
    · exact g3 y hy
    · exact depNew_univ hp (h3 y hy).1
  · rw [h1, List.length_append]; omega
  · intro idx j hidx hj y hy
    have hidx' : idx < items.length := by omega
    have hj' : items[idx]? = some j := by
      rw [h1, List.getElem?_append_left hidx'] at hj; exact hj
    by_cases hik : idx = k
    · subst hik
      rw [hk] at hj'
      cases hj'
      exact hall y hy
    · exact hsub y (h.done idx j (by omega) hj' y hy)

/-- with `fuel > |l| + |prev| + |universe| - k` the loop leaves through `i = len(items)` -/
theorem depLoop_spec {C : LexCtx} {prev : List LItem} (hp : ∀ x ∈ prev, LGood C x)
    (l : List LItem) : ∀ (fuel k : Nat) (items : List LItem), DInv C prev l k items →
      l.length + prev.length + (lexUniv C).length + 1 ≤ k + fuel →
      DInv C prev l (depLoop C prev fuel k items).length (depLoop C prev fuel k items) := by
  intro fuel
  induction fuel with
  | zero =>
    intro k items hinv hf
    have := hinv.length_le
    have := hinv.kle
    omega
  | succ fuel ih =>
    intro k items hinv hf
    rw [depLoop_succ]
    split
    · rename_i hk
      have hge : items.length ≤ k := by
        apply Decidable.byContradiction
        intro hlt
        rw [List.getElem?_eq_getElem (by omega)] at hk
        cases hk
      have hkl := hinv.kle
      have hkeq : k = items.length := by omega
      rw [← hkeq]; exact hinv
    · rename_i it hk
      exact ih _ _ (hinv.step hp hk) (by omega)

/-- `dependentsClosure` exhausts its work list: the result extends `items`, and processing any of
    its items adds nothing new -/
theorem depClosure_spec {C : LexCtx} {prev : List LItem} (hp : ∀ x ∈ prev, LGood C x)
    (items : List LItem) :
    (∀ x ∈ items, x ∈ depClosure C prev items) ∧
    ∀ it ∈ depClosure C prev items, ∀ y, DepNew C prev it y → y ∈ depClosure C prev items := by
  unfold depClosure
  split
  · rename_i he
    rw [List.isEmpty_iff] at he
    subst he
    exact ⟨by simp, by simp⟩
  · have hfuel : (lexUniv C).length + 1 ≤ C.fuel * C.fuel + 8 := by
      have h1 := lexUniv_length C
      have h2 := Nat.le_mul_self C.fuel
      omega
    have hinv := depLoop_spec hp items (items.length + prev.length + C.fuel * C.fuel + 8) 0 items
      ⟨⟨[], by simp, by simp, by simp⟩, Nat.zero_le _, fun idx i hidx _ => by omega⟩ (by omega)
    obtain ⟨extra, h1, _, _⟩ := hinv.ext
    refine ⟨fun x hx => by rw [h1]; exact List.mem_append_left _ hx, ?_⟩
    intro it hit
    obtain ⟨idx, hidx, hget⟩ := List.mem_iff_getElem.1 hit
    exact hinv.done idx it hidx (by rw [List.getElem?_eq_getElem hidx, hget])

end Gocc.LoopsT
