import Gocc.Proofs.ValidateV
/-
Termination of the `Parse` loop without error recovery (the Go loop has no fuel): for tables that
pass the completeness validator `complete` and the validity validator `validItems`, on EVERY input
the model's `parseLoop` answers something other than `.outOfFuel` for all sufficiently large fuel.

  §1  generic facts about runs: the last configuration (`parseLoop_done`), runs that end
      (`steps_done`), a terminating step does not look at the input (`step_done_indep`), cutting a
      run at the moment token `n` is scanned (`split_run`, `shift_transfer`)
  §2  the accepting configuration has consumed the whole input (`accept_ntok`)
  §3  every viable prefix is consumed after finitely many iterations (`reach`)
  §4  a token of type 1 inside the input is the end of the input (`eof_cut`, `accept_cut`)
  §5  the theorem (`parseLoop_terminates`, `parse_terminates`), uniqueness of the answer

Argument: let `i` be the largest index such that `w.take i` is a prefix of a sentence (`i = 0`
qualifies, the language is not empty: `body0_productive`), `u = w.take i ++ v` a sentence.  `u` is
accepted (`parse_accepts`); its run scans token `i` at some point (§2); up to that point the run
on `w` is the same (`Steps.agree`).  There the look-ahead on `w` is `a = w[i]` (1 at the end of
the input).  If the top state has an action on `a`, then `w.take i ++ [a]` is a viable prefix
(`act_viable`) — impossible for `a ≠ 1` by the choice of `i`; for `a = 1` it says that `w.take i` is
a sentence, and then `w` is accepted like `w.take i` (§4).  Otherwise the parser stops with a
syntax error (or the token-type range panic).
-/
namespace Gocc.ParseTerm
open Gocc

/-! ### §1 runs -/

theorem exists_max (P : Nat → Prop) (h0 : P 0) :
    ∀ n : Nat, ∃ i, i ≤ n ∧ P i ∧ ∀ j, i < j → j ≤ n → ¬ P j := by
  intro n
  induction n with
  | zero => exact ⟨0, Nat.le_refl _, h0, fun j h1 h2 => by omega⟩
  | succ n ih =>
    by_cases h : P (n + 1)
    · exact ⟨n + 1, Nat.le_refl _, h, fun j h1 h2 => by omega⟩
    · obtain ⟨i, hi, hp, hmax⟩ := ih
      refine ⟨i, by omega, hp, fun j h1 h2 => ?_⟩
      by_cases hj : j = n + 1
      · subst hj; exact h
      · exact hmax j h1 (by omega)

/-- a `parseLoop` that answers is a finite run followed by a terminating iteration -/
theorem parseLoop_done {cfg : PCfg} {w : List Nat} : ∀ (fuel : Nat) (ps : PState),
    (parseLoop cfg w fuel ps).1 ≠ .outOfFuel →
    ∃ b o ps', Steps cfg w ps b ∧ step cfg w b = .done o ps' ∧
      parseLoop cfg w fuel ps = (o, ps') := by
  intro fuel
  induction fuel with
  | zero => intro ps h; exact absurd rfl h
  | succ fuel ih =>
    intro ps h
    rw [parseLoop_succ] at h ⊢
    rcases hs : step cfg w ps with ⟨o, ps1⟩ | ps1
    · exact ⟨ps, o, ps1, .refl _, hs, rfl⟩
    · rw [hs] at h
      obtain ⟨b, o, ps', h1, h2, h3⟩ := ih ps1 h
      exact ⟨b, o, ps', .head hs h1, h2, h3⟩

/-- a finite run followed by a terminating iteration: `parseLoop` answers, with every fuel from
    some bound on -/
theorem steps_done {cfg : PCfg} {w : List Nat} {a b : PState} {o : Outcome} {ps' : PState}
    (h : Steps cfg w a b) (hd : step cfg w b = .done o ps') :
    ∃ n, ∀ fuel, n ≤ fuel → parseLoop cfg w fuel a = (o, ps') := by
  obtain ⟨n, hn⟩ := h.parseLoop
  refine ⟨n + 1, fun fuel hle => ?_⟩
  obtain ⟨k, rfl⟩ : ∃ k, fuel = n + (k + 1) := ⟨fuel - n - 1, by omega⟩
  rw [hn, parseLoop_succ, hd]
  rfl

/-- an iteration that ends the parse does not look at the input -/
theorem step_done_indep {cfg : PCfg} (hr : ∀ s : Nat, cfg.T.canRecover[s]?.getD false = false)
    {w w' : List Nat} {ps : PState} {o : Outcome} {ps' : PState}
    (h : step cfg w ps = .done o ps') : step cfg w' ps = .done o ps' := by
  rcases hst : ps.states with _ | ⟨top, rest⟩
  · unfold step at h ⊢
    rw [hst] at h ⊢
    exact h
  · by_cases hlt : ps.next.2 < cfg.T.numSymbols
    · rcases ha : cfg.T.act top ps.next.2 with _ | a
      · rw [step_noact hr w hst hlt ha] at h
        rw [step_noact hr w' hst hlt ha]
        exact h
      · rw [step_act hst ha hlt] at h
        rw [step_act hst ha hlt]
        cases a with
        | accept => exact h
        | reduce p => exact h
        | shift s => simp [doAct] at h
    · unfold step at h ⊢
      rw [hst] at h ⊢
      simp only [] at h ⊢
      rw [if_pos (by omega)] at h ⊢
      exact h

/-- the iteration of a run in which token `n` is scanned -/
theorem split_run {cfg : PCfg} (hr : ∀ s : Nat, cfg.T.canRecover[s]?.getD false = false)
    {w : List Nat} {a b : PState} (h : Steps cfg w a b) {n : Nat} (h1 : a.ntok ≤ n)
    (h2 : n < b.ntok) :
    ∃ c c', Steps cfg w a c ∧ c.ntok = n ∧ step cfg w c = .cont c' ∧ c'.ntok = n + 1 := by
  induction h with
  | refl => omega
  | @head ps ps1 ps2 hs hrest ih =>
    have := step_ntok hr hs
    by_cases hc : ps1.ntok ≤ n
    · obtain ⟨c, c', q1, q2, q3, q4⟩ := ih hc h2
      exact ⟨c, c', .head hs q1, q2, q3, q4⟩
    · exact ⟨ps, ps1, .refl _, by omega, hs, by omega⟩

/-- an iteration that scans a token is a shift; on another input it shifts the same state and
    scans the other input's token -/
theorem shift_transfer {cfg : PCfg} (hr : ∀ s : Nat, cfg.T.canRecover[s]?.getD false = false)
    {w : List Nat} (w' : List Nat) {c c' : PState} (hs : step cfg w c = .cont c')
    (hn : c'.ntok = c.ntok + 1) :
    step cfg w' c = .cont { c' with next := scanTok w' c.ntok } := by
  obtain ⟨top, rest, a, hst, hlt, ha, hdo⟩ := step_cont_inv hr hs
  rw [step_act hst ha hlt]
  cases a with
  | accept => simp only [doAct] at hdo; split at hdo <;> cases hdo
  | reduce p =>
    obtain ⟨-, _, _, _, -, -, -, -, -, e, -⟩ := doAct_reduce_inv hdo
    omega
  | shift s =>
    simp only [doAct, StepR.cont.injEq] at hdo
    subst hdo
    rfl

theorem doAct_reduce_not_accept (cfg : PCfg) (w : List Nat) (p : Nat) (ps : PState) :
    ∀ r ps', doAct cfg w (.reduce p) ps ≠ .done (.accept r) ps' := by
  intro r ps'
  simp only [doAct]
  repeat' split
  all_goals simp

/-- the iteration that accepts found the `accept` entry -/
theorem step_accept_inv {cfg : PCfg} (hr : ∀ s : Nat, cfg.T.canRecover[s]?.getD false = false)
    (hlt : ∀ s t a, cfg.T.act s t = some a → t < cfg.T.numSymbols)
    {w : List Nat} {ps : PState} {r : Attr} {ps' : PState}
    (h : step cfg w ps = .done (.accept r) ps') {top : Nat} {rest : List Nat}
    (hst : ps.states = top :: rest) : cfg.T.act top ps.next.2 = some .accept := by
  rcases ha : cfg.T.act top ps.next.2 with _ | a
  · obtain ⟨o, ps'', hd, hno⟩ := step_noact_done hr w hst ha
    rw [hd] at h
    simp only [StepR.done.injEq] at h
    exact absurd h.1 (hno r)
  · rw [step_act hst ha (hlt _ _ _ ha)] at h
    cases a with
    | accept => rfl
    | shift s => simp [doAct] at h
    | reduce p => exact absurd h (doAct_reduce_not_accept cfg w p ps r ps')

theorem VStk.ne_nil {T : PTables} {ss : List Nat} {γ : List Sym} (h : VStk T ss γ) :
    ∃ top rest, ss = top :: rest := by
  cases h with
  | base => exact ⟨_, _, rfl⟩
  | push _ _ => exact ⟨_, _, rfl⟩

/-! ### §2 the accepting configuration -/

/-- when the parser accepts the sentence `u` it has scanned `|u| + 1` tokens -/
theorem accept_ntok {G : NGrammar} {T : PTables} {fc : FirstCert} {c : CertLA} {fcv : FirstCert}
    (VF : ValidFacts G T c fcv) (F : CompleteFacts G T fc c)
    (hr : ∀ s : Nat, T.canRecover[s]?.getD false = false) {cfg : PCfg} (hT : cfg.T = T)
    {u : List Nat} (hu : NSentence G u) {b : PState} (hrun : Steps cfg u (initPS u) b)
    {r : Attr} {ps' : PState} (hd : step cfg u b = .done (.accept r) ps') :
    b.ntok = u.length + 1 := by
  obtain ⟨γ, m, hS, -, hnt, hnx, hle, -⟩ := hrun.vinv VF F hr hT (vinv_init VF u)
  obtain ⟨top, rest, hst⟩ := VStk.ne_nil hS
  subst hT
  have hacc := step_accept_inv hr F.actLt hd hst
  have h1 : b.next.2 = 1 := (VF.acceptJ top _ hacc).1
  rw [hnx] at h1
  have := scanTok_eof (sentence_no_eof VF (.inr rfl) hu) hle h1
  omega

/-! ### §3 every viable prefix is consumed -/

/-- `w.take i` is a prefix of a sentence: after finitely many iterations the parser on `w` has
    scanned token `i` (it is the look-ahead) -/
theorem reach {G : NGrammar} {T : PTables} {fc : FirstCert} {c : CertLA} {fcv : FirstCert}
    (VF : ValidFacts G T c fcv) (hf : firstOk G fc = true) (hc : complete G T fc c = true)
    (hr : ∀ s : Nat, T.canRecover[s]?.getD false = false) {cfg : PCfg} (hA : ActsOk cfg)
    (hT : cfg.T = T) (w : List Nat) {i : Nat} (hi : i ≤ w.length)
    (hvp : NViablePrefix G (w.take i)) :
    ∃ d, Steps cfg w (initPS w) d ∧ d.ntok = i + 1 := by
  have hr' : ∀ s : Nat, cfg.T.canRecover[s]?.getD false = false := by rw [hT]; exact hr
  rcases Nat.eq_zero_or_pos i with rfl | hpos
  · exact ⟨initPS w, .refl _, rfl⟩
  · obtain ⟨v, hu⟩ := hvp
    obtain ⟨fuel, r, hacc⟩ := parse_accepts hf hc hA hT hu (initPS w)
    rw [parse_eq] at hacc
    obtain ⟨b, o, ps', hrun, hd, hres⟩ :=
      parseLoop_done fuel _ (by rw [hacc]; intro h; cases h)
    rw [hres] at hacc
    simp only at hacc
    subst hacc
    have hb := accept_ntok VF (completeFacts_of hc) hr hT hu hrun hd
    have hlen : i ≤ (w.take i ++ v).length := by simp; omega
    obtain ⟨c0, c1, q1, q2, q3, q4⟩ :=
      split_run hr' hrun (n := i) (by simp only [initPS]; omega) (by omega)
    have hag : ∀ j, j < i → scanTok (w.take i ++ v) j = scanTok w j :=
      fun j hj => (scanTok_take_append v hj hi).symm
    have hinit : initPS (w.take i ++ v) = initPS w := by
      unfold initPS
      rw [hag 0 hpos]
    rw [hinit] at q1
    have q1' : Steps cfg w (initPS w) c0 := q1.agree hr' fun j _ hj2 => hag j (by omega)
    have q3' := shift_transfer hr' w q3 (by omega)
    exact ⟨_, q1'.trans (.single q3'), by simp [q4]⟩

/-! ### §4 a token of type 1 inside the input -/

theorem scanTok_cut {w : List Nat} {i : Nat} (hi : i ≤ w.length) (h1 : (scanTok w i).2 = 1)
    {j : Nat} (hj : j ≤ i) : scanTok w j = scanTok (w.take i) j := by
  by_cases hlt : j < i
  · have := scanTok_take_append (w := w) [] hlt hi
    simpa using this
  · have : j = i := by omega
    subst this
    have h2 : scanTok (w.take j) j = (j, 1) := by
      have := scanTok_take_at (w := w) [] hi
      simpa using this
    rw [h2]
    exact Prod.ext (scanTok_fst w j) h1

/-- token `i` of `w` has type 1: from any configuration reached on `w.take i`, the parser behaves
    on `w` as on `w.take i` (the tokens after token `i` are never scanned) -/
theorem eof_cut {G : NGrammar} {T : PTables} {fc : FirstCert} {c : CertLA} {fcv : FirstCert}
    (VF : ValidFacts G T c fcv) (F : CompleteFacts G T fc c)
    (hr : ∀ s : Nat, T.canRecover[s]?.getD false = false) {cfg : PCfg} (hT : cfg.T = T)
    {w : List Nat} {i : Nat} (hi : i ≤ w.length) (h1 : (scanTok w i).2 = 1) :
    ∀ (fuel : Nat) (ps : PState), Steps cfg (w.take i) (initPS (w.take i)) ps →
      parseLoop cfg w fuel ps = parseLoop cfg (w.take i) fuel ps := by
  have hr' : ∀ s : Nat, cfg.T.canRecover[s]?.getD false = false := by rw [hT]; exact hr
  intro fuel
  induction fuel with
  | zero => intro ps _; rfl
  | succ fuel ih =>
    intro ps hrun
    rw [parseLoop_succ, parseLoop_succ]
    rcases hs : step cfg (w.take i) ps with ⟨o, ps1⟩ | ps1
    · rw [step_done_indep hr' (w' := w) hs]
      rfl
    · have hsw : step cfg w ps = .cont ps1 := by
        obtain ⟨top, rest, a, hst, hlt, ha, hdo⟩ := step_cont_inv hr' hs
        rw [step_act hst ha hlt]
        cases a with
        | accept => exact hdo
        | reduce p => exact hdo
        | shift s =>
          obtain ⟨γ, m, hS, -, hnt, hnx, hle, -⟩ := hrun.vinv VF F hr hT (vinv_init VF _)
          rw [hst] at hS
          rw [hT] at ha
          have hne := shift_ne_eof VF hS ha
          rw [hnx] at hne
          have hm := scanTok_lt hne
          have hag : scanTok w ps.ntok = scanTok (w.take i) ps.ntok :=
            scanTok_cut hi h1 (by simp at hm; omega)
          rw [doAct_agree cfg (.shift s) ps hag]
          exact hdo
      rw [hsw]
      exact ih ps1 (hrun.trans (.single hs))

/-- `w` up to a token of type 1 is a sentence: `w` is accepted -/
theorem accept_cut {G : NGrammar} {T : PTables} {fc : FirstCert} {c : CertLA} {fcv : FirstCert}
    (VF : ValidFacts G T c fcv) (hf : firstOk G fc = true) (hc : complete G T fc c = true)
    (hr : ∀ s : Nat, T.canRecover[s]?.getD false = false) {cfg : PCfg} (hA : ActsOk cfg)
    (hT : cfg.T = T) {w : List Nat} {i : Nat} (hi : i ≤ w.length) (h1 : (scanTok w i).2 = 1)
    (hs : NSentence G (w.take i)) :
    ∃ n r ps, ∀ fuel, n ≤ fuel → parseLoop cfg w fuel (initPS w) = (.accept r, ps) := by
  obtain ⟨n, r, hacc⟩ := parse_accepts hf hc hA hT hs (initPS w)
  rw [parse_eq] at hacc
  have hinit : initPS w = initPS (w.take i) := by
    unfold initPS
    rw [scanTok_cut hi h1 (Nat.zero_le _)]
  have hcut := eof_cut VF (completeFacts_of hc) hr hT hi h1 n _ (.refl _)
  rw [← hinit] at hcut
  refine ⟨n, r, (parseLoop cfg w n (initPS w)).2, fun fuel hle => ?_⟩
  obtain ⟨k, rfl⟩ : ∃ k, fuel = n + k := ⟨fuel - n, by omega⟩
  have hacc' : (parseLoop cfg w n (initPS w)).1 = .accept r := by
    rw [hcut, hinit]
    exact hacc
  rw [parseLoop_fuel_mono (by rw [hacc']; intro h; cases h) k]
  exact Prod.ext hacc' rfl

/-! ### §5 the theorem -/

theorem scanTok_snd_getD (w : List Nat) (i : Nat) : (scanTok w i).2 = (w[i]?).getD 1 := by
  unfold scanTok
  rcases w[i]? with _ | x <;> rfl

/-- `w` up to a token of type 1 (or up to its end) is a sentence.  For `1 ∉ w` this is
    `NSentence G w` (`eofSentence_iff`). -/
def EofSentence (G : NGrammar) (w : List Nat) : Prop :=
  ∃ i, i ≤ w.length ∧ (w[i]?).getD 1 = 1 ∧ NSentence G (w.take i)

theorem eofSentence_iff {G : NGrammar} {w : List Nat} (hw : 1 ∉ w) :
    EofSentence G w ↔ NSentence G w := by
  constructor
  · rintro ⟨i, hi, h1, hs⟩
    have : i = w.length := scanTok_eof hw hi (by rw [scanTok_snd_getD]; exact h1)
    subst this
    simpa using hs
  · intro hs
    exact ⟨w.length, Nat.le_refl _, by simp, by simpa using hs⟩

/-- how the parser without recovery ends -/
def Verdict (G : NGrammar) (T : PTables) (w : List Nat) (o : Outcome) : Prop :=
  (∃ r, o = .accept r ∧ EofSentence G w) ∨
  (∃ i exp top, o = .synErr i ((w[i]?).getD 1) exp top ∧ i ≤ w.length ∧
      NViablePrefix G (w.take i) ∧ ∀ j, i < j → j ≤ w.length → ¬ NViablePrefix G (w.take j)) ∨
  (o = .panic "index out of range (token type)" ∧ ∃ t, t ∈ w ∧ T.numSymbols ≤ t)

theorem Verdict.ne_outOfFuel {G : NGrammar} {T : PTables} {w : List Nat} {o : Outcome}
    (h : Verdict G T w o) : o ≠ .outOfFuel := by
  rcases h with ⟨r, rfl, -⟩ | ⟨i, e, t, rfl, -⟩ | ⟨rfl, -⟩ <;> intro h <;> cases h

/-- TERMINATION: on every input the loop ends, with the same answer for every sufficiently large
    fuel -/
theorem parseLoop_terminates {G : NGrammar} {T : PTables} {fc : FirstCert} {c : CertLA}
    {vc : VCert} (hf : firstOk G fc = true) (hc : complete G T fc c = true)
    (hv : validItems G T c vc = true) (hr : ∀ s : Nat, T.canRecover[s]?.getD false = false)
    {cfg : PCfg} (hA : ActsOk cfg) (hT : cfg.T = T) (w : List Nat) :
    ∃ n o ps, (∀ fuel, n ≤ fuel → parseLoop cfg w fuel (initPS w) = (o, ps)) ∧
      Verdict G T w o := by
  have VF := validFacts_of hv
  have F := completeFacts_of hc
  obtain ⟨i, hi, hvp, hmax⟩ := exists_max (fun k => NViablePrefix G (w.take k))
    (by obtain ⟨v, hv'⟩ := body0_productive VF; exact ⟨v, by simpa using hv'⟩) w.length
  obtain ⟨d, hrun, hnt⟩ := reach VF hf hc hr hA hT w hi hvp
  obtain ⟨γ, m, hS, hu, hnt', hnx, hle, -⟩ := hrun.vinv VF F hr hT (vinv_init VF w)
  have hm : m = i := by omega
  subst hm
  obtain ⟨top, rest, hst⟩ := VStk.ne_nil hS
  rw [hst] at hS
  have hty : d.next.2 = (w[m]?).getD 1 := by rw [hnx, scanTok_snd_getD]
  have hix : d.next.1 = m := by rw [hnx, scanTok_fst]
  rcases ha : T.act top d.next.2 with _ | act
  · subst hT
    by_cases hlt : d.next.2 < cfg.T.numSymbols
    · have hstep := step_noact hr w hst hlt ha
      obtain ⟨n, hn⟩ := steps_done hrun hstep
      rw [hty, hix] at hn
      exact ⟨n, _, _, hn, .inr (.inl ⟨_, _, _, rfl, hi, hvp, hmax⟩)⟩
    · have hstep : step cfg w d = .done (.panic "index out of range (token type)") d := by
        unfold step
        rw [hst]
        simp only []
        rw [if_pos (by omega)]
      obtain ⟨n, hn⟩ := steps_done hrun hstep
      have h1 : (scanTok w m).2 ≠ 1 := by
        have := complete_numSymbols hc
        rw [← hnx]
        omega
      have hml := scanTok_lt h1
      refine ⟨n, _, _, hn, .inr (.inr ⟨rfl, d.next.2, ?_, by omega⟩)⟩
      rw [hnx, scanTok_snd_lt hml]
      exact List.getElem_mem hml
  · have hav := act_viable VF hS hu ha
    by_cases h1 : d.next.2 = 1
    · have hs := hav.2 h1
      obtain ⟨n, r, ps, hn⟩ := accept_cut VF hf hc hr hA hT hi (by rw [← hnx]; exact h1) hs
      exact ⟨n, _, _, hn, .inl ⟨r, rfl, m, hi, by rw [← hty]; exact h1, hs⟩⟩
    · exfalso
      obtain ⟨v, hv'⟩ := hav.1 h1
      have hlt : m < w.length := scanTok_lt (by rw [← hnx]; exact h1)
      apply hmax (m + 1) (by omega) hlt
      have : w.take (m + 1) = w.take m ++ [d.next.2] := by
        rw [List.take_add_one, hnx, scanTok_snd_lt hlt]
        simp [hlt]
      exact ⟨v, by rw [this]; simpa using hv'⟩

/-- the answer is unique: two fuel bounds give the same result -/
theorem answer_unique {cfg : PCfg} {w : List Nat} {ps0 : PState} {n n' : Nat}
    {r r' : Outcome × PState} (h : ∀ fuel, n ≤ fuel → parseLoop cfg w fuel ps0 = r)
    (h' : ∀ fuel, n' ≤ fuel → parseLoop cfg w fuel ps0 = r') : r = r' := by
  rw [← h (n + n') (by omega), ← h' (n + n') (by omega)]

/-- … and every answer other than `outOfFuel`, with whatever fuel, is that answer -/
theorem answer_of_ne_outOfFuel {cfg : PCfg} {w : List Nat} {ps0 : PState} {n : Nat}
    {r : Outcome × PState} (h : ∀ fuel, n ≤ fuel → parseLoop cfg w fuel ps0 = r) {fuel : Nat}
    (hne : (parseLoop cfg w fuel ps0).1 ≠ .outOfFuel) : parseLoop cfg w fuel ps0 = r := by
  rw [← h (fuel + n) (by omega), parseLoop_fuel_mono hne n]

/-- the verdict decides `EofSentence` -/
theorem Verdict.accept_iff {G : NGrammar} {T : PTables} {fc : FirstCert} {c : CertLA}
    {vc : VCert} (hf : firstOk G fc = true) (hc : complete G T fc c = true)
    (hv : validItems G T c vc = true) (hr : ∀ s : Nat, T.canRecover[s]?.getD false = false)
    {cfg : PCfg} (hA : ActsOk cfg) (hT : cfg.T = T) {w : List Nat} {n : Nat} {o : Outcome}
    {ps : PState} (hn : ∀ fuel, n ≤ fuel → parseLoop cfg w fuel (initPS w) = (o, ps))
    (hV : Verdict G T w o) : (∃ r, o = .accept r) ↔ EofSentence G w := by
  constructor
  · rintro ⟨r, rfl⟩
    rcases hV with ⟨_, -, h⟩ | ⟨_, _, _, h, -⟩ | ⟨h, -⟩
    · exact h
    · cases h
    · cases h
  · rintro ⟨i, hi, h1, hs⟩
    obtain ⟨n', r, ps', hn'⟩ := accept_cut (validFacts_of hv) hf hc hr hA hT hi
      (by rw [scanTok_snd_getD]; exact h1) hs
    have := answer_unique hn hn'
    simp only [Prod.mk.injEq] at this
    exact ⟨r, this.1⟩

end Gocc.ParseTerm
