import Gocc.Props.C07
import Gocc.Props.C02GenComplete
/-
Helpers for Props/C07Gen.lean — error recovery is inert on sentences, at the generator level.

§1  the validators (`safe`, `safeEnds`, `complete`) and `ActsOk` do not read `canRecover`:
    they hold for `T.noRecovery` / `cfg.noRecovery` as soon as they hold for `T` / `cfg`;
§2  table-level consequences (any validated tables, recovery states allowed): a sentence is
    accepted, with the run of the parser without recovery; the result of that run is the
    evaluation of a parse tree; the parser without recovery accepts only sentences;
§3  terminals are never erased: a derivation / a parse tree of a string without the terminal `e`
    uses no production whose body mentions `e` (`NDerivesAvoid`, `PT.avoids`, `NGrammar.without`).
-/
namespace Gocc.GenInert

/-! ### §1 the validators do not read `canRecover` -/

theorem act_noRecovery (T : PTables) (s t : Nat) : T.noRecovery.act s t = T.act s t := rfl

theorem safe_noRecovery (G : NGrammar) (T : PTables) (c : Cert) :
    safe G T.noRecovery c = safe G T c := rfl

theorem safeEnds_noRecovery (T : PTables) (c : Cert) :
    safeEnds T.noRecovery c = safeEnds T c := rfl

theorem complete_noRecovery (G : NGrammar) (T : PTables) (fc : FirstCert) (c : CertLA) :
    complete G T.noRecovery fc c = complete G T fc c := rfl

theorem kindsTotal_noRecovery (T : PTables) : kindsTotal T.noRecovery = kindsTotal T := rfl

/-- the tables without recovery states have no recovery state -/
theorem noRecovery_hr (T : PTables) (s : Nat) : T.noRecovery.canRecover[s]?.getD false = false := by
  simp [PTables.noRecovery]

theorem actsOk_noRecovery {cfg : PCfg} (hA : ActsOk cfg) : ActsOk cfg.noRecovery := hA

theorem noRecovery_T {cfg : PCfg} {T : PTables} (hT : cfg.T = T) :
    cfg.noRecovery.T = T.noRecovery := by
  subst hT; rfl

/-! ### §2 table level -/

/-- a run that ends in a syntax error is not an accepting run, whatever the fuel -/
theorem not_accept_of_synErr {cfg : PCfg} {w : List Nat} {fuel : Nat} {old : PState}
    {i t : Nat} {e : List Nat} {s : Nat}
    (h : (parse cfg w fuel old).1 = Outcome.synErr i t e s) (fuel' : Nat) (res : Attr) :
    (parse cfg w fuel' old).1 ≠ Outcome.accept res := by
  intro h'
  unfold parse at h h'
  rcases Nat.le_total fuel fuel' with hle | hle
  · obtain ⟨k, rfl⟩ := Nat.exists_eq_add_of_le hle
    rw [parseLoop_fuel_mono (by rw [h]; intro hh; cases hh) k, h] at h'
    cases h'
  · obtain ⟨k, rfl⟩ := Nat.exists_eq_add_of_le hle
    rw [parseLoop_fuel_mono (by rw [h']; intro hh; cases hh) k, h'] at h
    cases h

/-- the run of the parser without recovery accepts: the real parser (any recovery flags, any
    error terminal) performs exactly that run -/
theorem parse_eq_of_noRecovery_accept {cfg : PCfg} {w : List Nat} {fuel : Nat} {old : PState}
    {res : Attr} (h : (parse cfg.noRecovery w fuel old).1 = Outcome.accept res) :
    parse cfg w fuel old = parse cfg.noRecovery w fuel old :=
  C07_inert_parse cfg w fuel old (by intro i t e s hh; rw [h] at hh; cases hh)

/-- validated tables WITH recovery states: the parser without recovery accepts only sentences -/
theorem noRecovery_accept_sound {G : NGrammar} {T : PTables} {cert : Cert}
    (hs : safe G T cert = true) (he : safeEnds T cert = true)
    {w : List Nat} (hw : 1 ∉ w) {cfg : PCfg} (hT : cfg.T = T)
    {fuel : Nat} {old : PState} {res : Attr}
    (h : (parse cfg.noRecovery w fuel old).1 = Outcome.accept res) : NSentence G w :=
  C02_accept_sound (T := T.noRecovery) hs he (noRecovery_hr T) hw (noRecovery_T hT) h

/-- validated tables WITH recovery states: what the parser without recovery returns is the
    evaluation of a parse tree -/
theorem noRecovery_result_is_tree_eval {G : NGrammar} {T : PTables} {cert : Cert}
    (hs : safe G T cert = true) (he : safeEnds T cert = true)
    {w : List Nat} (hw : 1 ∉ w) {cfg : PCfg} (hT : cfg.T = T)
    {fuel : Nat} {old : PState} {res : Attr} {ps : PState}
    (h : parse cfg.noRecovery w fuel old = (Outcome.accept res, ps)) :
    ∃ t : PT, t.wf G ∧ G.body 0 = [t.sym G] ∧ t.yield = (List.range w.length).zip w ∧
      evalT T.prodKind t [] = some (res, ps.log) :=
  C03_result_is_tree_eval (T := T.noRecovery) hs he (noRecovery_hr T) hw (noRecovery_T hT) h

/-- validated tables WITH recovery states: a sentence is accepted by the parser without recovery,
    for every sufficiently large fuel -/
theorem sentence_noRecovery_accepted {G : NGrammar} {T : PTables} {fc : FirstCert} {c : CertLA}
    (hf : firstOk G fc = true) (hc : complete G T fc c = true)
    {cfg : PCfg} (hA : ActsOk cfg) (hT : cfg.T = T)
    {w : List Nat} (hsn : NSentence G w) (old : PState) :
    ∃ fuel₀ res ps, ∀ fuel, fuel₀ ≤ fuel →
      parse cfg.noRecovery w fuel old = (Outcome.accept res, ps) := by
  obtain ⟨fuel₀, res, h⟩ := C02_sentence_accepted (T := T.noRecovery) hf hc
    (actsOk_noRecovery hA) (noRecovery_T hT) hsn old
  refine ⟨fuel₀, res, (parse cfg.noRecovery w fuel₀ old).2, fun fuel hle => ?_⟩
  obtain ⟨k, rfl⟩ := Nat.exists_eq_add_of_le hle
  unfold parse at h ⊢
  rw [parseLoop_fuel_mono (by rw [h]; intro hh; cases hh) k, ← h]

/-! ### §3 terminals are never erased -/

/-- derivations that use no production whose body mentions the terminal `e` -/
inductive NDerivesAvoid (G : NGrammar) (e : Nat) : List Sym → List Nat → Prop
  | nil : NDerivesAvoid G e [] []
  | term {a α w} : NDerivesAvoid G e α w → NDerivesAvoid G e (Sym.t a :: α) (a :: w)
  | nt {p α u v} : p < G.prods.size → Sym.t e ∉ G.body p → NDerivesAvoid G e (G.body p) u →
      NDerivesAvoid G e α v → NDerivesAvoid G e (Sym.nt (G.head p) :: α) (u ++ v)

/-- `w` is a sentence of the grammar in which the alternatives mentioning `e` are absent -/
def NSentenceAvoid (G : NGrammar) (e : Nat) (w : List Nat) : Prop := NDerivesAvoid G e (G.body 0) w

theorem NDerivesAvoid.derives {G : NGrammar} {e : Nat} {α : List Sym} {w : List Nat}
    (h : NDerivesAvoid G e α w) : NDerives G α w := by
  induction h with
  | nil => exact .nil
  | term _ ih => exact .term ih
  | nt hp _ _ _ ih1 ih2 => exact .nt hp ih1 ih2

theorem NDerivesAvoid.append {G : NGrammar} {e : Nat} {α β : List Sym} {u v : List Nat}
    (h1 : NDerivesAvoid G e α u) (h2 : NDerivesAvoid G e β v) :
    NDerivesAvoid G e (α ++ β) (u ++ v) := by
  induction h1 with
  | nil => exact h2
  | term _ ih => exact .term ih
  | @nt p α u' v' hp hm hb _ _ ih2 =>
    rw [List.append_assoc]
    exact .nt hp hm hb ih2

/-- a terminal of the sentential form is a token of the derived string -/
theorem mem_of_derives {G : NGrammar} {e : Nat} {α : List Sym} {w : List Nat}
    (h : NDerives G α w) (hm : Sym.t e ∈ α) : e ∈ w := by
  induction h with
  | nil => cases hm
  | @term a α w _ ih =>
    rcases List.mem_cons.mp hm with hh | hh
    · cases hh; exact List.mem_cons_self
    · exact List.mem_cons_of_mem _ (ih hh)
  | nt _ _ _ _ ih2 =>
    rcases List.mem_cons.mp hm with hh | hh
    · cases hh
    · exact List.mem_append_right _ (ih2 hh)

theorem avoid_of_derives {G : NGrammar} {e : Nat} {α : List Sym} {w : List Nat}
    (h : NDerives G α w) (he : e ∉ w) : NDerivesAvoid G e α w := by
  induction h with
  | nil => exact .nil
  | term _ ih => exact .term (ih (fun hh => he (List.mem_cons_of_mem _ hh)))
  | nt hp h1 _ ih1 ih2 =>
    have he1 := fun hh => he (List.mem_append_left _ hh)
    have he2 := fun hh => he (List.mem_append_right _ hh)
    exact .nt hp (fun hm => he1 (mem_of_derives h1 hm)) (ih1 he1) (ih2 he2)

theorem derivesAvoid_iff {G : NGrammar} {e : Nat} {α : List Sym} {w : List Nat} (he : e ∉ w) :
    NDerivesAvoid G e α w ↔ NDerives G α w :=
  ⟨NDerivesAvoid.derives, fun h => avoid_of_derives h he⟩

/-- the grammar without the alternatives that mention the terminal `e` (the remaining productions
    are renumbered; production 0 stays production 0 when its body does not mention `e`) -/
def _root_.Gocc.NGrammar.without (G : NGrammar) (e : Nat) : NGrammar :=
  { prods := (G.prods.toList.filter fun pb => !(pb.2.contains (Sym.t e))).toArray }

theorem prod_mem_iff (G : NGrammar) (A : Nat) (β : List Sym) :
    (A, β) ∈ G.prods.toList ↔ ∃ p, p < G.prods.size ∧ G.head p = A ∧ G.body p = β := by
  constructor
  · intro h
    obtain ⟨p, hp, hg⟩ := List.getElem_of_mem h
    have hp' : p < G.prods.size := by simpa using hp
    refine ⟨p, hp', ?_, ?_⟩
    · simp only [NGrammar.head, Array.getElem?_eq_getElem hp', Option.map_some, Option.getD_some]
      rw [← Array.getElem_toList (h := hp), hg]
    · simp only [NGrammar.body, Array.getElem?_eq_getElem hp', Option.map_some, Option.getD_some]
      rw [← Array.getElem_toList (h := hp), hg]
  · rintro ⟨p, hp, rfl, rfl⟩
    simp only [NGrammar.head, NGrammar.body, Array.getElem?_eq_getElem hp, Option.map_some,
      Option.getD_some]
    exact Array.mem_toList_iff.mpr (Array.getElem_mem hp)

theorem without_mem_iff (G : NGrammar) (e A : Nat) (β : List Sym) :
    (A, β) ∈ (G.without e).prods.toList ↔ (A, β) ∈ G.prods.toList ∧ Sym.t e ∉ β := by
  simp [NGrammar.without]

theorem without_of_avoid {G : NGrammar} {e : Nat} {α : List Sym} {w : List Nat}
    (h : NDerivesAvoid G e α w) : NDerives (G.without e) α w := by
  induction h with
  | nil => exact .nil
  | term _ ih => exact .term ih
  | @nt p α u v hp hm _ _ ih1 ih2 =>
    have : (G.head p, G.body p) ∈ (G.without e).prods.toList :=
      (without_mem_iff G e _ _).mpr ⟨(prod_mem_iff G _ _).mpr ⟨p, hp, rfl, rfl⟩, hm⟩
    obtain ⟨q, hq, hh, hb⟩ := (prod_mem_iff _ _ _).mp this
    rw [← hh]
    rw [← hb] at ih1
    exact .nt hq ih1 ih2

theorem avoid_of_without {G : NGrammar} {e : Nat} {α : List Sym} {w : List Nat}
    (h : NDerives (G.without e) α w) : NDerivesAvoid G e α w := by
  induction h with
  | nil => exact .nil
  | term _ ih => exact .term ih
  | @nt q α u v hq _ _ ih1 ih2 =>
    have : ((G.without e).head q, (G.without e).body q) ∈ (G.without e).prods.toList :=
      (prod_mem_iff _ _ _).mpr ⟨q, hq, rfl, rfl⟩
    obtain ⟨hm, hne⟩ := (without_mem_iff G e _ _).mp this
    obtain ⟨p, hp, hh, hb⟩ := (prod_mem_iff _ _ _).mp hm
    rw [← hh]
    rw [← hb] at ih1 hne
    exact .nt hp hne ih1 ih2

/-- the restricted derivation relation IS derivability in the grammar without those alternatives -/
theorem derives_without_iff {G : NGrammar} {e : Nat} {α : List Sym} {w : List Nat} :
    NDerives (G.without e) α w ↔ NDerivesAvoid G e α w :=
  ⟨avoid_of_without, without_of_avoid⟩

/-- production 0 is kept, as production 0 -/
theorem without_body0 {G : NGrammar} {e : Nat} (h0 : Sym.t e ∉ G.body 0) :
    (G.without e).body 0 = G.body 0 := by
  unfold NGrammar.body NGrammar.without
  rcases hl : G.prods.toList with _ | ⟨pb, rest⟩
  · have : G.prods = #[] := by
      have := congrArg List.toArray hl
      simpa using this
    simp [this]
  · have h1 : G.prods[0]? = some pb := by
      rw [← Array.getElem?_toList, hl]; rfl
    have h2 : Sym.t e ∉ pb.2 := by
      simpa [NGrammar.body, h1] using h0
    have h3 : (!(pb.2.contains (Sym.t e))) = true := by simpa using h2
    rw [h1]
    simp only [List.filter_cons, h3, if_true]
    rfl

theorem sentence_without_iff {G : NGrammar} {e : Nat} (h0 : Sym.t e ∉ G.body 0) {w : List Nat} :
    NSentence (G.without e) w ↔ NSentenceAvoid G e w := by
  unfold NSentence NSentenceAvoid
  rw [without_body0 h0]
  exact derives_without_iff

/-! #### parse trees -/

mutual
/-- no node of the tree is an instance of a production whose body mentions the terminal `e` -/
def _root_.Gocc.PT.avoids (G : NGrammar) (e : Nat) : PT → Prop
  | .leaf _ _ => True
  | .node p kids => Sym.t e ∉ G.body p ∧ PT.avoidsL G e kids
def _root_.Gocc.PT.avoidsL (G : NGrammar) (e : Nat) : List PT → Prop
  | [] => True
  | k :: ks => k.avoids G e ∧ PT.avoidsL G e ks
end

/-- a kid spelled `e` is a leaf of type `e`, which is in the yield -/
theorem mem_yieldL_of_sym (G : NGrammar) (e : Nat) : ∀ kids : List PT,
    Sym.t e ∈ kids.map (PT.sym G) → e ∈ (PT.yieldL kids).map (·.2)
  | [], h => by cases h
  | k :: ks, h => by
    simp only [List.map_cons, List.mem_cons] at h
    simp only [PT.yieldL, List.map_append, List.mem_append]
    rcases h with h | h
    · left
      cases k with
      | leaf i t =>
        simp only [PT.sym, Sym.t.injEq] at h
        subst h
        simp [PT.yield]
      | node p kids => simp [PT.sym] at h
    · right
      exact mem_yieldL_of_sym G e ks h

mutual
theorem avoids_of_yield (G : NGrammar) (e : Nat) : (t : PT) → t.wf G →
    e ∉ t.yield.map (·.2) → t.avoids G e
  | .leaf _ _, _, _ => trivial
  | .node p kids, hwf, he => by
    unfold PT.wf at hwf
    unfold PT.yield at he
    unfold PT.avoids
    refine ⟨fun hm => he ?_, avoidsL_of_yield G e kids hwf.2.2 he⟩
    rw [← hwf.2.1] at hm
    exact mem_yieldL_of_sym G e kids hm
theorem avoidsL_of_yield (G : NGrammar) (e : Nat) : (ts : List PT) → PT.wfL G ts →
    e ∉ (PT.yieldL ts).map (·.2) → PT.avoidsL G e ts
  | [], _, _ => trivial
  | k :: ks, hwf, he => by
    unfold PT.wfL at hwf
    unfold PT.yieldL at he
    unfold PT.avoidsL
    simp only [List.map_append, List.mem_append, not_or] at he
    exact ⟨avoids_of_yield G e k hwf.1 he.1, avoidsL_of_yield G e ks hwf.2 he.2⟩
end

/-- the token types of `(List.range w.length).zip w` are `w` -/
theorem zip_range_types (w : List Nat) : ((List.range w.length).zip w).map (·.2) = w := by
  rw [← List.unzip_snd, List.unzip_zip_right] <;> simp

mutual
/-- a tree that avoids `e` is a derivation that avoids `e` -/
theorem derivesAvoid_of_tree (G : NGrammar) (e : Nat) : (t : PT) → t.wf G → t.avoids G e →
    NDerivesAvoid G e [t.sym G] (t.yield.map (·.2))
  | .leaf _ a, _, _ => .term .nil
  | .node p kids, hwf, ha => by
    unfold PT.wf at hwf
    unfold PT.avoids at ha
    have h := derivesAvoidL_of_tree G e kids hwf.2.2 ha.2
    rw [hwf.2.1] at h
    have := NDerivesAvoid.nt (α := []) hwf.1 ha.1 h .nil
    simpa [PT.sym, PT.yield] using this
theorem derivesAvoidL_of_tree (G : NGrammar) (e : Nat) : (ts : List PT) → PT.wfL G ts →
    PT.avoidsL G e ts → NDerivesAvoid G e (ts.map (PT.sym G)) ((PT.yieldL ts).map (·.2))
  | [], _, _ => .nil
  | k :: ks, hwf, ha => by
    unfold PT.wfL at hwf
    unfold PT.avoidsL at ha
    have h1 := derivesAvoid_of_tree G e k hwf.1 ha.1
    have h2 := derivesAvoidL_of_tree G e ks hwf.2 ha.2
    simp only [List.map_cons, PT.yieldL, List.map_append]
    exact NDerivesAvoid.append h1 h2
end

end Gocc.GenInert
