import Gocc.Model.Parse
/-
Specification side for C02 / C03 / C06: what a grammar *means*, independent of LR tables.

* `Derives` — derivability in the context-free grammar (an alternative whose first symbol is
  spelled `empty` derives the empty string); `Sentence`; `ViablePrefix`.
* Executable oracles (used only to judge the implementation's outputs, never as proofs):
  `earleyLast` (Earley recogniser: acceptance and the set of terminals that can come next),
  `spanTree` (a parse tree per (symbol, span) by fixed-point iteration), `evalTree`
  (post-order evaluation of the harness actions, default actions and empty alternatives).
Grammar symbols are spellings; tokens are type numbers into `terminals` (0 INVALID, 1 end of input).
-/
namespace Gocc

structure Cfg where
  prods : Array (String × List String)    -- head, body ([] for `empty`); production 0 is S' : Start
  terminals : List String
  nts : List String
deriving Inhabited

/-- The grammar the author wrote, read by symbol KIND and not by spelling (this is the oracle's view; the
    generator compares spellings — known finding D16): a string literal is always a terminal (tagged with a leading
    `"` so that it cannot be confused with a production or with the keyword), an alternative is empty exactly when it
    is the single keyword `empty`. -/
def cfgOf (syn : List SProd) (terminals nts : List String) : Cfg :=
  { prods := ((augment syn).map fun p =>
      (p.head,
       match p.body with
       | [s] => if s.kind != .strLit && s.name == "empty" then [] else [if s.kind == .strLit then "\"" ++ s.name else s.name]
       | b => b.map fun s => if s.kind == .strLit then "\"" ++ s.name else s.name)).toArray,
    terminals := terminals, nts := nts }

def Cfg.isNT (G : Cfg) (s : String) : Bool := G.nts.contains s
/-- token type of a terminal; a string literal (tagged) is looked up by its content -/
def Cfg.termType (G : Cfg) (s : String) : Nat :=
  (G.terminals.idxOf? (if s.startsWith "\"" then (s.drop 1).toString else s)).getD 0

/-- `Derives G α w`: the sentential form `α` derives the token-type string `w` -/
inductive Derives (G : Cfg) : List String → List Nat → Prop
  | nil : Derives G [] []
  | term {a α w} : ¬ G.isNT a → Derives G α w → Derives G (a :: α) (G.termType a :: w)
  | nt {A α β u v} : G.isNT A → (A, β) ∈ G.prods.toList → Derives G β u → Derives G α v →
      Derives G (A :: α) (u ++ v)

def Sentence (G : Cfg) (w : List Nat) : Prop := Derives G ["S'"] w
def ViablePrefix (G : Cfg) (u : List Nat) : Prop := ∃ v, Sentence G (u ++ v)

/-! ### Earley recogniser (oracle) -/

structure EItem where
  p : Nat
  d : Nat
  o : Nat
deriving DecidableEq, Repr, BEq, Inhabited

def Cfg.body (G : Cfg) (p : Nat) : List String := (G.prods[p]?.map (·.2)).getD []
def Cfg.head (G : Cfg) (p : Nat) : String := (G.prods[p]?.map (·.1)).getD ""

def eAdd (l : List EItem) (i : EItem) : List EItem := if l.contains i then l else l ++ [i]

/-- closure of Earley set `k` (predict + complete, to a fixed point; handles nullable symbols) -/
def eClose (G : Cfg) (sets : Array (List EItem)) (k : Nat) : Nat → List EItem → List EItem
  | 0, cur => cur
  | fuel + 1, cur =>
    let step := cur.foldl (fun acc it =>
      match (G.body it.p)[it.d]? with
      | some X =>
        if G.isNT X then
          -- predict
          let acc := (List.range G.prods.size).foldl (fun acc q =>
            if G.head q == X then eAdd acc ⟨q, 0, k⟩ else acc) acc
          -- X may already be complete in this set (nullable): advance over it
          if acc.any (fun c => c.o == k && G.head c.p == X && c.d == (G.body c.p).length) then eAdd acc ⟨it.p, it.d + 1, it.o⟩ else acc
        else acc
      | none =>
        -- complete
        let origin := if it.o == k then acc else (sets[it.o]?.getD [])
        origin.foldl (fun acc par =>
          if (G.body par.p)[par.d]? == some (G.head it.p) then eAdd acc ⟨par.p, par.d + 1, par.o⟩ else acc) acc) cur
    if step.length == cur.length then cur else eClose G sets k fuel step

def earleySets (G : Cfg) (w : List Nat) : Array (List EItem) :=
  let fuel := 8 * (G.prods.toList.map fun p => p.2.length + 1).sum + 16
  let s0 := eClose G #[] 0 fuel [⟨0, 0, 0⟩]
  let rec go (k : Nat) (sets : Array (List EItem)) : List Nat → Array (List EItem)
    | [] => sets
    | t :: rest =>
      let prev := sets[k]?.getD []
      let scanned := prev.foldl (fun acc it =>
        match (G.body it.p)[it.d]? with
        | some X => if !G.isNT X && G.termType X == t then eAdd acc ⟨it.p, it.d + 1, it.o⟩ else acc
        | none => acc) []
      let closed := eClose G sets (k + 1) (fuel * (k + 2)) scanned
      go (k + 1) (sets.push closed) rest
  go 0 #[s0] w

/-- (is `w` a sentence, terminal types that can follow `w` in some sentence [1 = end of input]) -/
def earleyLast (G : Cfg) (w : List Nat) : Bool × List Nat :=
  let sets := earleySets G w
  let last := sets[w.length]?.getD []
  let acc := last.contains ⟨0, 1, 0⟩
  let nexts := (last.filterMap fun it =>
    match (G.body it.p)[it.d]? with
    | some X => if G.isNT X then none else some (G.termType X)
    | none => none).eraseDups
  (acc, ((if acc then [1] else []) ++ nexts).mergeSort (· ≤ ·))

/-- every non-terminal derives some terminal string (needed for C06's "exact expected set") -/
def allProductive (G : Cfg) : Bool :=
  let rec go (fuel : Nat) (prod : List String) : List String :=
    match fuel with
    | 0 => prod
    | fuel + 1 =>
      let next := G.prods.toList.foldl (fun acc (h, b) =>
        if !acc.contains h && b.all (fun s => !G.isNT s || acc.contains s) then acc ++ [h] else acc) prod
      if next.length == prod.length then prod else go fuel next
  let p := go (G.nts.length + 1) []
  G.nts.all p.contains

/-! ### Parse trees and their evaluation (oracle for C03) -/

inductive PTree where
  | leaf (idx typ : Nat)
  | node (p : Nat) (kids : List PTree)
deriving Inhabited

/-- trees for (symbol, i, j) by fixed-point iteration over a table; one tree per entry -/
structure SpanTab where
  ent : List ((String × Nat × Nat) × PTree)

def SpanTab.get (t : SpanTab) (s : String) (i j : Nat) : Option PTree :=
  (t.ent.find? fun e => e.1 == (s, i, j)).map (·.2)

/-- all ways to split `body` over `[i, j)` using the current table; first success -/
def matchBody (G : Cfg) (w : Array Nat) (t : SpanTab) : List String → Nat → Nat → Option (List PTree)
  | [], i, j => if i == j then some [] else none
  | X :: rest, i, j =>
    if !G.isNT X then
      if i < j && w[i]? == some (G.termType X) then
        (matchBody G w t rest (i + 1) j).map (PTree.leaf i (G.termType X) :: ·)
      else none
    else
      (List.range (j - i + 1)).findSome? fun d =>
        match t.get X i (i + d) with
        | some tr => (matchBody G w t rest (i + d) j).map (tr :: ·)
        | none => none

def spanPass (G : Cfg) (w : Array Nat) (t : SpanTab) : SpanTab :=
  let n := w.size
  (List.range (n + 1)).foldl (fun t i =>
    (List.range (n + 1 - i)).foldl (fun t d =>
      let j := i + d
      (List.range G.prods.size).foldl (fun t p =>
        let h := G.head p
        if (t.get h i j).isSome then t
        else match matchBody G w t (G.body p) i j with
          | some kids => { ent := t.ent ++ [((h, i, j), PTree.node p kids)] }
          | none => t) t) t) t

def spanTree (G : Cfg) (w : List Nat) : Option PTree :=
  let wa := w.toArray
  let rec go (fuel : Nat) (t : SpanTab) : SpanTab :=
    match fuel with
    | 0 => t
    | fuel + 1 =>
      let t' := spanPass G wa t
      if t'.ent.length == t.ent.length then t else go fuel t'
  (go (G.nts.length * (w.length + 2) + 4) { ent := [] }).get "S'" 0 w.length

structure EvalSt where
  log : List Nat := []
  calls : Nat := 0

/-- post-order evaluation; `Except.error id` = the harness action `id` failed -/
partial def evalTree (kinds : Array RKind) (failAt : Nat) : PTree → EvalSt → Except (Nat × EvalSt) (Attr × EvalSt)
  | .leaf i t, st => .ok (.tok i t, st)
  | .node p kids, st => do
    let mut st := st
    let mut xs : List Attr := []
    for k in kids do
      let (a, st') ← evalTree kinds failAt k st
      xs := xs ++ [a]
      st := st'
    match kinds[p]?.getD .dflt with
    | .dflt => .ok (xs.headD .nil, st)
    | .nilEmpty => .ok (.nil, st)
    | .user shape id =>
      let st2 : EvalSt := { st with log := id :: st.log, calls := st.calls + 1 }
      if failAt != 0 && st2.calls == failAt then .error (id, st2)
      else match userAction shape id xs with
        | .ok a => .ok (a, st2)
        | .error _ => .error (0, st2)

end Gocc
