import Gocc.Model.Range
/-
Specification vocabulary for C18 (no reference to how `addRange` computes).
-/
namespace Gocc

/-- `WF b l`: every class non-empty, classes strictly increasing and disjoint, all above `b`. -/
def WF : Int → List CR → Prop
  | _, [] => True
  | b, r :: rest => b < r.lo ∧ r.lo ≤ r.hi ∧ WF r.hi rest

/-- rune `x` lies in some class of `l` -/
def cover : List CR → Int → Prop
  | [], _ => False
  | r :: rest, x => (r.lo ≤ x ∧ x ≤ r.hi) ∨ cover rest x

/-- every class of `l` is inside `[f,t]` or disjoint from it -/
def Refines (l : List CR) (f t : Int) : Prop :=
  ∀ c ∈ l, (f ≤ c.lo ∧ c.hi ≤ t) ∨ (c.hi < f ∨ t < c.lo)

/-- executable oracle: sorted, disjoint, non-empty -/
def wfB : Int → List CR → Bool
  | _, [] => true
  | b, r :: rest => decide (b < r.lo) && decide (r.lo ≤ r.hi) && wfB r.hi rest

def coverB : List CR → Int → Bool
  | [], _ => false
  | r :: rest, x => (decide (r.lo ≤ x) && decide (x ≤ r.hi)) || coverB rest x

def refinesB (l : List CR) (f t : Int) : Bool :=
  l.all fun c => (decide (f ≤ c.lo) && decide (c.hi ≤ t)) || decide (c.hi < f) || decide (t < c.lo)

end Gocc
