import Gocc.Model.Parse
import Gocc.Spec.NCfg
/-
Parse trees over a numbered grammar and their post-order evaluation (total twin of the run-time
oracle `evalTree` of Spec/Cfg.lean, without failing actions).

* `PT`         parse trees: `leaf idx typ` is the `idx`-th token the scanner returned, of type
               `typ`; `node p kids` an application of production `p`.
* `PT.yield`   the tokens at the leaves, left to right.
* `PT.sym`     the grammar symbol at the root.
* `PT.wf G`    every node is a production of `G` whose body is spelled by the roots of its kids.
* `evalT`      post-order evaluation: the attribute of the tree and the log of action ids
               (most recent first, exactly like `PState.log`); `none` when a reduce function
               panics (a default action `X[0]` without symbols, a harness action on a missing
               or wrongly typed operand).
-/
namespace Gocc

inductive PT where
  | leaf (idx typ : Nat)
  | node (p : Nat) (kids : List PT)
deriving Repr, Inhabited

mutual
/-- tokens (index, type) at the leaves, left to right -/
def PT.yield : PT → List (Nat × Nat)
  | .leaf i t => [(i, t)]
  | .node _ kids => PT.yieldL kids
def PT.yieldL : List PT → List (Nat × Nat)
  | [] => []
  | k :: ks => k.yield ++ PT.yieldL ks
end

/-- the grammar symbol at the root -/
def PT.sym (G : NGrammar) : PT → Sym
  | .leaf _ t => Sym.t t
  | .node p _ => Sym.nt (G.head p)

mutual
/-- every node is an instance of a production of `G` -/
def PT.wf (G : NGrammar) : PT → Prop
  | .leaf _ _ => True
  | .node p kids => p < G.prods.size ∧ kids.map (PT.sym G) = G.body p ∧ PT.wfL G kids
def PT.wfL (G : NGrammar) : List PT → Prop
  | [] => True
  | k :: ks => k.wf G ∧ PT.wfL G ks
end

mutual
/-- post-order evaluation, threading the call log (most recent first) -/
def evalT (kinds : Array RKind) : PT → List Nat → Option (Attr × List Nat)
  | .leaf i t, log => some (Attr.tok i t, log)
  | .node p kids, log =>
    match evalL kinds kids log with
    | none => none
    | some (xs, log') =>
      match kinds[p]?.getD .dflt with
      | .dflt =>
        match xs with
        | x :: _ => some (x, log')
        | [] => none
      | .nilEmpty => some (Attr.nil, log')
      | .user shape id =>
        match userAction shape id xs with
        | .ok a => some (a, id :: log')
        | .error _ => none
/-- the kids left to right -/
def evalL (kinds : Array RKind) : List PT → List Nat → Option (List Attr × List Nat)
  | [], log => some ([], log)
  | k :: ks, log =>
    match evalT kinds k log with
    | none => none
    | some (a, log1) =>
      match evalL kinds ks log1 with
      | none => none
      | some (as, log2) => some (a :: as, log2)
end

end Gocc
