import Gocc.Model.Utf8
/-
Specification vocabulary for C20: the *valid rune literals* of the Go language specification
(section "Rune literals"), written down independently of `litToRune` / `runeValue`.

    rune_lit         = "'" ( unicode_value | byte_value ) "'" .
    unicode_value    = unicode_char | little_u_value | big_u_value | escaped_char .
    byte_value       = octal_byte_value | hex_byte_value .
    octal_byte_value = `\` octal_digit octal_digit octal_digit .
    hex_byte_value   = `\` "x" hex_digit hex_digit .
    little_u_value   = `\` "u" hex_digit hex_digit hex_digit hex_digit .
    big_u_value      = `\` "U" hex_digit hex_digit hex_digit hex_digit
                               hex_digit hex_digit hex_digit hex_digit .
    escaped_char     = `\` ( "a" | "b" | "f" | "n" | "r" | "t" | "v" | `\` | "'" | `"` ) .

with the prose restrictions: `unicode_char` is any code point except newline (and, inside a rune
literal, an unescaped `'` or `\` cannot stand for itself); `\"` is illegal in a rune literal;
an octal value must be <= 255; `\u`/`\U` values above 0x10FFFF and surrogate halves are illegal.
Source text is UTF-8, so a raw character is a Unicode scalar value (no surrogates), spelled
with `Gocc.encodeRune`.  (The "may disallow NUL" implementation restriction is not imposed:
the set below is a superset, which only makes the theorems stronger.)

The only thing imported from the model side is `encodeRune` (UTF-8 encoder, trusted base).
-/
namespace Gocc

/-- a hexadecimal digit: its value and, for `a..f`, whether it is written in upper case
    (`upper` is irrelevant for `0..9`) -/
structure HexDigit where
  v : Fin 16
  upper : Bool
  deriving DecidableEq, Repr

/-- numeric value 0..15 -/
def HexDigit.val (h : HexDigit) : Nat := h.v.val

/-- the byte that spells the digit: `'0'..'9'`, `'A'..'F'` or `'a'..'f'` -/
def HexDigit.char (h : HexDigit) : Nat :=
  if h.val < 10 then 48 + h.val
  else if h.upper then 65 + (h.val - 10)
  else 97 + (h.val - 10)

/-- an octal digit -/
structure OctDigit where
  v : Fin 8
  deriving DecidableEq, Repr

def OctDigit.val (d : OctDigit) : Nat := d.v.val

/-- the byte that spells the digit: `'0'..'7'` -/
def OctDigit.char (d : OctDigit) : Nat := 48 + d.val

/-- the nine single-character escapes that are legal in a rune literal -/
inductive NamedEsc
  | a | b | f | n | r | t | v | backslash | quote
  deriving DecidableEq, Repr

/-- the byte after the backslash -/
def NamedEsc.char : NamedEsc → Nat
  | .a => 97          -- 'a'
  | .b => 98          -- 'b'
  | .f => 102         -- 'f'
  | .n => 110         -- 'n'
  | .r => 114         -- 'r'
  | .t => 116         -- 't'
  | .v => 118         -- 'v'
  | .backslash => 92  -- '\\'
  | .quote => 39      -- '\''

/-- the code point the escape denotes -/
def NamedEsc.value : NamedEsc → Nat
  | .a => 7           -- U+0007 alert or bell
  | .b => 8           -- U+0008 backspace
  | .f => 12          -- U+000C form feed
  | .n => 10          -- U+000A line feed or newline
  | .r => 13          -- U+000D carriage return
  | .t => 9           -- U+0009 horizontal tab
  | .v => 11          -- U+000B vertical tab
  | .backslash => 92  -- U+005C backslash
  | .quote => 39      -- U+0027 single quote

/-- surrogate half -/
def isSurrogate (x : Nat) : Bool := 0xD800 ≤ x && x ≤ 0xDFFF

/-- shapes of rune literals -/
inductive GoRuneLit
  /-- `'c'` : a raw character -/
  | raw (c : Nat)
  /-- `'\a'` … `'\''` -/
  | named (e : NamedEsc)
  /-- `'\xhh'` -/
  | hex2 (h1 h0 : HexDigit)
  /-- `'\ooo'` -/
  | oct3 (o2 o1 o0 : OctDigit)
  /-- `'\uhhhh'` -/
  | u4 (h3 h2 h1 h0 : HexDigit)
  /-- `'\Uhhhhhhhh'` -/
  | U8 (h7 h6 h5 h4 h3 h2 h1 h0 : HexDigit)
  deriving DecidableEq, Repr

namespace GoRuneLit

/-- the code point as a natural number: the character itself, the table value of a named
    escape, or the number written by the digits of a numeric escape (positional notation) -/
def number : GoRuneLit → Nat
  | raw c => c
  | named e => e.value
  | hex2 h1 h0 => h1.val * 16 + h0.val
  | oct3 o2 o1 o0 => o2.val * 64 + o1.val * 8 + o0.val
  | u4 h3 h2 h1 h0 => h3.val * 4096 + h2.val * 256 + h1.val * 16 + h0.val
  | U8 h7 h6 h5 h4 h3 h2 h1 h0 =>
      h7.val * 268435456 + h6.val * 16777216 + h5.val * 1048576 + h4.val * 65536 +
      h3.val * 4096 + h2.val * 256 + h1.val * 16 + h0.val

/-- the side conditions that make a literal of the given shape *valid* Go -/
def valid : GoRuneLit → Bool
  | raw c => decide (c < 0x110000) && !isSurrogate c &&
             decide (c ≠ 39) && decide (c ≠ 92) && decide (c ≠ 10)
  | named _ => true
  | hex2 _ _ => true
  | l@(oct3 _ _ _) => decide (l.number ≤ 255)
  | l@(u4 _ _ _ _) => !isSurrogate l.number
  | l@(U8 _ _ _ _ _ _ _ _) => decide (l.number ≤ 0x10FFFF) && !isSurrogate l.number

/-- the bytes between the quotes -/
def body : GoRuneLit → List Nat
  | raw c => encodeRune c
  | named e => [92, e.char]
  | hex2 h1 h0 => [92, 120, h1.char, h0.char]
  | oct3 o2 o1 o0 => [92, o2.char, o1.char, o0.char]
  | u4 h3 h2 h1 h0 => [92, 117, h3.char, h2.char, h1.char, h0.char]
  | U8 h7 h6 h5 h4 h3 h2 h1 h0 =>
      [92, 85, h7.char, h6.char, h5.char, h4.char, h3.char, h2.char, h1.char, h0.char]

/-- the bytes of the literal, including the two surrounding single quotes -/
def spell (l : GoRuneLit) : List Nat := 39 :: (l.body ++ [39])

/-- the code point Go assigns to the literal -/
def value (l : GoRuneLit) : Int := (l.number : Int)

end GoRuneLit

end Gocc
