import Gocc.Model.LexGen
import Gocc.Model.Scan
/-
Reference semantics of a lexical part (C01a), written without the generator's machinery for
regular definitions: a *position* is a call stack of dotted items — a reference `_r` pushes a
fresh frame for `_r` (macro expansion, the call context is kept) and the end of a definition
pops it and advances the caller.  The reference automaton is the subset construction over
these positions with the property's rule for '.': on a rune, the positions expecting a literal
or range containing it advance; only if there is none do the positions expecting '.' advance.
The verdict of a state is the best completed token (string literal of the syntax part first,
then the earliest declared), accepted or ignored.

Executable: `refDfa` (states over elementary rune intervals), `dfaEquiv` (exact product walk
against the generator model's automaton).  Recursive definitions have no finite expansion:
everything here is under `acyclicDefs`.
-/
namespace Gocc

abbrev XPos := List LItem     -- top frame first

def refsOfPat : LPat → List String
  | .mk alts => refsAlts alts
where
  refsAlts : List LAlt → List String
    | [] => []
    | (.mk ts) :: rest => refsTerms ts ++ refsAlts rest
  refsTerms : List LTerm → List String
    | [] => []
    | t :: rest => (match t with
        | .ref r => [r]
        | .opt p | .rep p | .grp p => refsOfPat p
        | _ => []) ++ refsTerms rest

/-- no definition reaches itself through references -/
def acyclicDefs (prods : List LProd) : Bool :=
  let refs (id : String) : List String :=
    match prods.find? (·.id == id) with
    | some p => refsOfPat p.pat
    | none => []
  let rec reach (fuel : Nat) (frontier seen : List String) : List String :=
    match fuel with
    | 0 => seen
    | fuel + 1 =>
      let next := (frontier.flatMap refs).eraseDups.filter (!seen.contains ·)
      if next.isEmpty then seen else reach fuel next (seen ++ next)
  prods.all fun p => !(reach (prods.length + 1) (refs p.id).eraseDups (refs p.id).eraseDups).contains p.id

/-- ε-closure of one position: expands the top frame, calls and returns -/
def xClosureLoop (C : LexCtx) : Nat → List XPos → List XPos → List XPos → List XPos
  | 0, _, _, out => out
  | _ + 1, [], _, out => out
  | fuel + 1, x :: work, visited, out =>
    if visited.contains x then xClosureLoop C fuel work visited out
    else
      match x with
      | [] => xClosureLoop C fuel work (x :: visited) out
      | top :: callers =>
        if C.isReduce top then
          match callers with
          | [] => xClosureLoop C fuel work (x :: visited) (out ++ [x])          -- token complete
          | caller :: rest =>                                                     -- return
            xClosureLoop C fuel (({ caller with path := incLast caller.path } :: rest) :: work) (x :: visited) out
        else
          match C.expected top with
          | some (.ref r) =>
            match C.prodIndex r with
            | some k => xClosureLoop C fuel ((⟨k, [0]⟩ :: x) :: work) (x :: visited) out   -- call
            | none => xClosureLoop C fuel work (x :: visited) out
          | some _ => xClosureLoop C fuel work (x :: visited) (out ++ [x])       -- expects a rune
          | none =>
            xClosureLoop C fuel ((emoveStep C top).map (· :: callers) ++ work) (x :: visited) out

def xFuel (C : LexCtx) : Nat := (C.fuel + 2) ^ 3 + 64

def xClosure (C : LexCtx) (xs : List XPos) : List XPos :=
  (xClosureLoop C (xFuel C) xs [] []).eraseDups

def xStart (C : LexCtx) : List XPos :=
  xClosure C ((List.range C.prods.size).filterMap fun k =>
    match C.prods[k]? with
    | some p => if p.kind != .reg then some [⟨k, [0]⟩] else none
    | none => none)

def xExpected (C : LexCtx) (x : XPos) : Option LTerm :=
  match x with
  | top :: _ => if C.isReduce top then none else C.expected top
  | [] => none

def termHas (t : LTerm) (c : Int) : Bool :=
  match t with
  | .lit v => v == c
  | .rng a b => a ≤ c && c ≤ b
  | _ => false

def xAdvance (x : XPos) : XPos :=
  match x with
  | top :: rest => { top with path := incLast top.path } :: rest
  | [] => []

/-- one rune: specific alternatives first, '.' only as the fallback -/
def xStep (C : LexCtx) (S : List XPos) (c : Int) : List XPos :=
  let specific := S.filter fun x => match xExpected C x with
    | some t => termHas t c
    | none => false
  let isDot (x : XPos) : Bool := match xExpected C x with
    | some .dot => true
    | _ => false
  let movers := if specific.isEmpty then S.filter isDot else specific
  xClosure C (movers.map xAdvance)

/-- completed token of a state: string literal first, then lowest production index -/
def xVerdict (C : LexCtx) (S : List XPos) : LAct :=
  let done := S.filterMap fun x => match x with
    | [top] => if C.isReduce top then some top else none
    | _ => none
  lexAction C done

/-! ### The reference automaton over elementary rune intervals -/

def boundsOfPat : LPat → List Int
  | .mk alts => bAlts alts
where
  bAlts : List LAlt → List Int
    | [] => []
    | (.mk ts) :: rest => bTerms ts ++ bAlts rest
  bTerms : List LTerm → List Int
    | [] => []
    | t :: rest => (match t with
        | .lit v => [v, v + 1]
        | .rng a b => [a, b + 1]
        | .opt p | .rep p | .grp p => boundsOfPat p
        | _ => []) ++ bTerms rest

/-- start points of the elementary intervals: inside one interval every literal and range of
    the lexical part behaves uniformly -/
def elemStarts (prods : List LProd) : List Int :=
  let bs := (0 :: prods.flatMap fun p => boundsOfPat p.pat).eraseDups
  (bs.filter fun b => 0 ≤ b ∧ b ≤ 0x10FFFF).mergeSort (fun a b => a ≤ b)

structure RefDfa where
  states : Array (List XPos)
  trans : Array (List Int)         -- per state, one target per elementary interval (-1 = dead)
  starts : List Int
deriving Inhabited

def sameX (a b : List XPos) : Bool := a.length == b.length && a.all b.contains

def refDfaLoop (C : LexCtx) (starts : List Int) : Nat → Nat → RefDfa → RefDfa
  | 0, _, d => d
  | fuel + 1, i, d =>
    match d.states[i]? with
    | none => d
    | some S =>
      let (d', row) := starts.foldl (fun (acc : RefDfa × List Int) c =>
        let d := acc.1
        let nxt := xStep C S c
        if nxt.isEmpty then (d, acc.2 ++ [-1])
        else match d.states.findIdx? (sameX · nxt) with
          | some k => (d, acc.2 ++ [(k : Int)])
          | none => ({ d with states := d.states.push nxt }, acc.2 ++ [(d.states.size : Int)])) (d, [])
      refDfaLoop C starts fuel (i + 1) { d' with trans := d'.trans.push row }

def refDfa (prods : List LProd) : RefDfa :=
  let C : LexCtx := { prods := prods.toArray }
  let starts := elemStarts prods
  refDfaLoop C starts 20000 0 { states := #[xStart C], trans := #[], starts := starts }

/-- index of the elementary interval containing rune `r` -/
def elemIndex (starts : List Int) (r : Int) : Nat :=
  (starts.filter (· ≤ r)).length - 1

def RefDfa.step (d : RefDfa) (s : Nat) (r : Int) : Int :=
  match d.trans[s]? with
  | some row => row[elemIndex d.starts r]?.getD (-1)
  | none => -1

end Gocc
