import Gocc.Model.Parse
/-
Declarative specification of the generated parser's error recovery (`Parser.Error`,
template `internal/parser/gen/golang/parser.go`).  Definitions only; nothing here mentions
`recover`, `firstRecovery` or `skipLoop` (the model of the code, Model/Parse.lean).

At a syntax error the parser
  1. discards the stack entries above the topmost state flagged `canRecover`  (`topRecovery`),
  2. pushes an error attribute (offending token, discarded attributes, expected tokens) by
     shifting the error symbol in that state                                  (`RecWF`: it can),
  3. skips input, starting with the offending token, up to the first token that has an action
     in the new state; gives up at end of input                               (`firstAcceptable`).
Tokens are identified by their index in the scanner's output (`Attr.tok i _`); `attrToks` lists
the shifted tokens inside an attribute, `TokInv` is the token-conservation invariant of the
`Parse` loop.
-/
namespace Gocc

/-! ### well-formed recovery flags -/

/-- every state flagged as a recovery state really shifts the error symbol -/
def RecWF (T : PTables) (errTerm : Nat) : Prop :=
  ∀ s, T.canRecover[s]?.getD false = true → ∃ s', T.act s errTerm = some (.shift s')

/-- Bool version of `RecWF` (states `≥ T.canRecover.size` are not flagged) -/
def recWFb (T : PTables) (errTerm : Nat) : Bool :=
  (List.range T.canRecover.size).all fun s =>
    !(T.canRecover[s]?.getD false) ||
      (match T.act s errTerm with
       | some (.shift _) => true
       | _ => false)

/-! ### which entries are discarded -/

/-- number of stack entries above the topmost state that can recover (`states` is top first) -/
def topRecovery (T : PTables) (states : List Nat) : Option Nat :=
  states.findIdx? fun s => T.canRecover[s]?.getD false

/-! ### which input is skipped -/

/-- the tokens recovery looks at: number 0 is the offending token `tok` (the current look-ahead),
    number `j + 1` is the result of the `j`-th further `Scan` call (`ntok` calls were made before) -/
def lookAhead (input : List Nat) (tok : Nat × Nat) (ntok : Nat) : Nat → Nat × Nat
  | 0 => tok
  | j + 1 => scanTok input (ntok + j)

/-- `lookAhead 0 … lookAhead (input.length + 1)`; always contains an end-of-input token
    (`firstEOF_spec` in Proofs/Recover.lean) -/
def lookAheads (input : List Nat) (tok : Nat × Nat) (ntok : Nat) : List (Nat × Nat) :=
  (List.range (input.length + 2)).map (lookAhead input tok ntok)

/-- number of the first end-of-input token (type 1) among the `lookAhead`s -/
def firstEOF (input : List Nat) (tok : Nat × Nat) (ntok : Nat) : Nat :=
  (lookAheads input tok ntok).findIdx fun t => t.2 == 1

/-- The first token among `tok, scanTok input ntok, scanTok input (ntok + 1), …`, not after the
    first end-of-input token, that has an action in state `s`: `some (j, t)` where `t` is that
    token and `j` its number (= the number of extra `Scan` calls needed to reach it);
    `none` if there is no such token up to and including the first end-of-input token. -/
def firstAcceptable (T : PTables) (input : List Nat) (s : Nat) (tok : Nat × Nat) (ntok : Nat) :
    Option (Nat × (Nat × Nat)) :=
  let window := (lookAheads input tok ntok).take (firstEOF input tok ntok + 1)
  (window.findIdx? fun t => (T.act s t.2).isSome).map fun j => (j, lookAhead input tok ntok j)

/-! ### one call of `Error` -/

/-- Specification of `Error`: called in parser state `ps` it returns `(recovered, errTok)` and
    leaves the parser in state `ps'`.  (The relation is functional: `RecoverSpec.unique` in
    Proofs/Recover.lean.) -/
def RecoverSpec (T : PTables) (errTerm : Nat) (input : List Nat) (ps : PState)
    (recovered : Bool) (errTok : Nat × Nat) (ps' : PState) : Prop :=
  -- the reported error token is the look-ahead; the call log is not touched
  errTok = ps.next ∧ ps'.log = ps.log ∧ ps'.calls = ps.calls ∧
  match topRecovery T ps.states with
  | none =>
    -- no state on the stack can recover: nothing is popped, no token is consumed
    recovered = false ∧ ps'.states = ps.states ∧ ps'.attrs = ps.attrs ∧ ps'.next = ps.next ∧
      ps'.ntok = ps.ntok
  | some k =>
    -- `k` entries are discarded, `r` is the topmost state that can recover, it shifts `error`
    ∃ r rest s', ps.states.drop k = r :: rest ∧ T.act r errTerm = some (.shift s') ∧
      ps'.states = s' :: ps.states.drop k ∧
      -- error attribute: offending token, discarded attributes oldest first, expected tokens
      ps'.attrs = Attr.err ps.next.1 ps.next.2 (ps.attrs.take k).reverse (T.rowExpected r) ::
        ps.attrs.drop k ∧
      -- input is skipped up to the first acceptable token, or to the end
      match firstAcceptable T input s' ps.next ps.ntok with
      | some (j, t) => recovered = true ∧ ps'.next = t ∧ ps'.ntok = ps.ntok + j
      | none => recovered = false ∧
          ps'.next = lookAhead input ps.next ps.ntok (firstEOF input ps.next ps.ntok) ∧
          ps'.ntok = ps.ntok + firstEOF input ps.next ps.ntok

/-! ### tokens inside attributes -/

mutual
/-- indices of the shifted tokens inside an attribute, left to right.  The offending token
    recorded in an error attribute is a record, not a shifted token. -/
def attrToks : Attr → List Nat
  | .nil => []
  | .tok i _ => [i]
  | .node _ kids => attrToksL kids
  | .err _ _ syms _ => attrToksL syms
/-- concatenation of `attrToks` over a list of attributes -/
def attrToksL : List Attr → List Nat
  | [] => []
  | a :: as => attrToks a ++ attrToksL as
end

/-- tokens on the stack, bottom to top (the stack `attrs` is top first) -/
def stackToks (attrs : List Attr) : List Nat := attrToksL attrs.reverse

/-- token conservation: the tokens inside the stack attributes, bottom to top, are strictly
    increasing, all of them precede the look-ahead, and the look-ahead is the last token scanned -/
def TokInv (ps : PState) : Prop :=
  (stackToks ps.attrs).Pairwise (· < ·) ∧ (∀ i ∈ stackToks ps.attrs, i < ps.next.1) ∧
    ps.next.1 + 1 = ps.ntok

/-- tables that never shift the end-of-input token (true of all generated tables: `␚` occurs in
    no production body).  Without it a table can shift end of input for ever, and "token index
    `< input.length`" fails (the tokens are still in order, `C07_tokens_in_order_any`). -/
def NoShiftEOF (T : PTables) : Prop := ∀ s s', T.act s 1 ≠ some (.shift s')

/-- Bool version of `NoShiftEOF` -/
def noShiftEOFb (T : PTables) : Bool :=
  (List.range T.action.size).all fun s =>
    match T.act s 1 with
    | some (.shift _) => false
    | _ => true

/-- the same tables without recovery states -/
def PTables.noRecovery (T : PTables) : PTables := { T with canRecover := #[] }

/-- the same parser without error recovery: no recovery states, no error terminal -/
def PCfg.noRecovery (cfg : PCfg) : PCfg :=
  { T := cfg.T.noRecovery, errTerm := 0, failAt := cfg.failAt }

end Gocc
