import Gocc.Model.Grammar
/-
Declarative (textbook) semantics of lexical patterns: the language of a pattern over runes (`Int`).
Shares NOTHING with the generator model or with the reference automaton of Spec/LexRef.lean: no items,
no positions, no ε-moves — only the abstract syntax of Model/Grammar.lean.

    pattern      a1 | … | an      some alternative matches
    alternative  t1 … tn          concatenation of matches of its terms
    'c'                           the one-rune string c
    'a'-'b'                       the one-rune strings c with a ≤ c ≤ b
    [ p ]                         the empty string, or p
    { p }                         concatenation of finitely many (zero or more) strings matched by p
    ( p )                         p

`.` and references to regular definitions `_r` match NOTHING here: the theorems about this semantics
(Props/C01Regex.lean) are stated for lexical parts without them (`noDots`, `noRefs`) — `.` has the
state-dependent fallback semantics of the property (not a regular-expression operator), references are
finding D1.
-/
namespace Gocc

mutual
  /-- some alternative matches -/
  inductive MatchPat : LPat → List Int → Prop
    | alt {alts : List LAlt} {a : LAlt} {w : List Int} :
        a ∈ alts → MatchAlt a w → MatchPat (.mk alts) w
  /-- the terms match consecutive pieces -/
  inductive MatchAlt : LAlt → List Int → Prop
    | mk {ts : List LTerm} {w : List Int} : MatchTerms ts w → MatchAlt (.mk ts) w
  inductive MatchTerms : List LTerm → List Int → Prop
    | nil : MatchTerms [] []
    | cons {t : LTerm} {ts : List LTerm} {u v : List Int} :
        MatchTerm t u → MatchTerms ts v → MatchTerms (t :: ts) (u ++ v)
  inductive MatchTerm : LTerm → List Int → Prop
    | lit (c : Int) : MatchTerm (.lit c) [c]
    | rng (lo hi c : Int) : lo ≤ c → c ≤ hi → MatchTerm (.rng lo hi) [c]
    | optNone (p : LPat) : MatchTerm (.opt p) []
    | optSome {p : LPat} {w : List Int} : MatchPat p w → MatchTerm (.opt p) w
    | repNil (p : LPat) : MatchTerm (.rep p) []
    | repCons {p : LPat} {u v : List Int} :
        MatchPat p u → MatchTerm (.rep p) v → MatchTerm (.rep p) (u ++ v)
    | grp {p : LPat} {w : List Int} : MatchPat p w → MatchTerm (.grp p) w
end

/-- no `.` anywhere in the pattern -/
def LPat.noDots : LPat → Bool
  | .mk alts => ndAlts alts
where
  ndAlts : List LAlt → Bool
    | [] => true
    | (.mk ts) :: rest => ndTerms ts && ndAlts rest
  ndTerms : List LTerm → Bool
    | [] => true
    | t :: rest => (match t with
        | .dot => false
        | .opt p | .rep p | .grp p => LPat.noDots p
        | _ => true) && ndTerms rest

/-- no `.` anywhere in the patterns of the lexical part -/
def noDots (prods : List LProd) : Bool := prods.all fun p => p.pat.noDots

/-- the patterns of the token productions have at least one alternative (the grammar of gocc allows no
    other pattern; the reference automaton reports a pattern without alternatives as matching the empty
    string) -/
def altToks (prods : List LProd) : Bool := prods.all fun p => p.kind == .reg || !p.pat.alts.isEmpty

/-- every sub-pattern matches some string: no `( )` / pattern without alternatives, no reversed range
    `'z'-'a'` (and no `.`, no reference: they match nothing here).  Side condition of the prefix
    property only. -/
def LPat.live : LPat → Bool
  | .mk alts => !alts.isEmpty && lvAlts alts
where
  lvAlts : List LAlt → Bool
    | [] => true
    | (.mk ts) :: rest => lvTerms ts && lvAlts rest
  lvTerms : List LTerm → Bool
    | [] => true
    | t :: rest => (match t with
        | .lit _ => true
        | .rng lo hi => decide (lo ≤ hi)
        | .opt p | .rep p | .grp p => LPat.live p
        | .dot | .ref _ => false) && lvTerms rest

/-- the patterns of the token productions (`reg` productions are never started) are `live` -/
def liveToks (prods : List LProd) : Bool := prods.all fun p => p.kind == .reg || p.pat.live

end Gocc
