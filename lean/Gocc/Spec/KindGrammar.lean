import Gocc.Model.Grammar
import Gocc.Spec.NCfg
/-
The numbered context-free grammar a gocc syntax part DENOTES, read BY KIND — the way its author
wrote it — and not by spelling, the way gocc's generator reads it (`ngrammarOf`, Model/Validate.lean,
which follows `Item.Len`, `symbols.IsTerminal`, … of the Go code).

  * a production id (`.prodId`) is the non-terminal of that name;
  * a token id (`.tokId`) and a string literal (`.strLit`) are the terminal of that spelling (gocc
    gives a token id and a string literal of the same spelling the same token type: that is C10's
    business);
  * an alternative is the empty alternative iff it consists of the keyword `empty` standing alone,
    i.e. its body is exactly `[⟨.tokId, "empty"⟩]` (the front end delivers the keyword as a token id
    spelled `empty`, Model/Grammar.lean).  In particular the string literal `"empty"` is an ordinary
    terminal, whatever follows it.

Numbering: terminal ↦ its index in `terminals` (token type), non-terminal ↦ its index in `nts` (column
of the goto table), as in the generated tables.  A name that is not in its list has no number; the
fallback 0 is a junk value (for a production id without production: excluded by
`SpellingsOk.prodIdDefined`, Proofs/KindGrammar.lean).  Nothing else of the generator is mentioned:
this file imports only the abstract syntax and the numbered grammars.
-/
namespace Gocc

/-- the numbered symbol an occurrence in a body denotes, by its KIND -/
def symSpec (terminals nts : List String) (s : SSym) : Sym :=
  match s.kind with
  | .prodId => Sym.nt ((nts.idxOf? s.name).getD 0)
  | .tokId => Sym.t ((terminals.idxOf? s.name).getD 0)
  | .strLit => Sym.t ((terminals.idxOf? s.name).getD 0)

/-- the empty alternative: the keyword `empty`, alone -/
def isEmptyAlt (p : SProd) : Bool := p.body == [⟨.tokId, "empty"⟩]

/-- the numbered grammar a syntax part denotes (symbols by kind) -/
def ngrammarSpec (prods : List SProd) (terminals nts : List String) : NGrammar :=
  { prods := (prods.map fun p =>
      ((nts.idxOf? p.head).getD 0,
       if isEmptyAlt p then [] else p.body.map (symSpec terminals nts))).toArray }

end Gocc
