import Gocc.Model.Scan
/-
Declarative reading of C01's second half ("Scan reads for as long as the text is still a prefix
of a lexeme, returns the token that text matches, skips ignored text as soon as it is complete,
returns unmatched text as one INVALID token that also consumes the offending character, and
returns end-of-input for ever after") over an arbitrary automaton `T`.  Nothing here mentions
the loop of `Scan`.
-/
namespace Gocc

/-- one automaton step on the rune that starts at offset `p` -/
def stepAt (T : LexTables) (src : List Nat) (s p : Nat) : Option (Nat × Nat) :=
  if p ≥ src.length then none
  else
    let dr := decodeRune (src.drop p)
    let n := T.trans s dr.1
    if n = -1 then none else some (n.toNat, p + dr.2)

/-- an ignore state: the text read so far is a complete ignored lexeme -/
def IsIgn (T : LexTables) (s : Nat) : Prop := T.accept s = -1

/-- `Run T src s p s' p'`: reading runes from offset `p` in state `s` the automaton reaches
    state `s'` at offset `p'`; every state *entered* on the way, including `s'`, is not an ignore state -/
inductive Run (T : LexTables) (src : List Nat) : Nat → Nat → Nat → Nat → Prop
  | refl (s p) : Run T src s p s p
  | step {s p s1 p1 s2 p2} : Run T src s p s1 p1 → stepAt T src s1 p1 = some (s2, p2) → ¬ IsIgn T s2 →
      Run T src s p s2 p2

/-- `[a, b)` is one ignored lexeme: a run from state 0 whose next step enters an ignore state at `b` -/
def IgnLexeme (T : LexTables) (src : List Nat) (a b : Nat) : Prop :=
  ∃ s p s2, Run T src 0 a s p ∧ stepAt T src s p = some (s2, b) ∧ IsIgn T s2

/-- `[a, b)` is a (possibly empty) sequence of ignored lexemes -/
inductive Skipped (T : LexTables) (src : List Nat) : Nat → Nat → Prop
  | nil (a) : Skipped T src a a
  | cons {a b c} : IgnLexeme T src a b → Skipped T src b c → Skipped T src a c

/-- what one call of `Scan` must return when the cursor is at offset `p0`:
    `typ`, the token's `offset`, the end `e` of the text it consumes (`e = offset` for end of input) -/
def ScanSpec (T : LexTables) (src : List Nat) (p0 : Nat) (typ : Int) (offset e : Nat) : Prop :=
  Skipped T src p0 offset ∧
  ( -- end of input (possibly after skipped text)
    (offset ≥ src.length ∧ typ = tokEOF ∧ e = offset) ∨
    -- a maximal run from state 0: it stops where no further step is possible
    (offset < src.length ∧ ∃ s q, Run T src 0 offset s q ∧ stepAt T src s q = none ∧
      ( -- the text read matches a token: exactly that text is consumed
        (q > offset ∧ T.accept s ≠ tokINVALID ∧ typ = T.accept s ∧ e = q) ∨
        -- it matches nothing: INVALID, which also consumes the rune that could not be matched (if any)
        ((q = offset ∨ T.accept s = tokINVALID) ∧ typ = tokINVALID ∧
          e = (if q < src.length then q + (decodeRune (src.drop q)).2 else q)))))

/-- behavioural equivalence of two automata (for comparing the generated one with a reference) -/
structure Bisim (T1 T2 : LexTables) (R : Nat → Nat → Prop) : Prop where
  start : R 0 0
  act : ∀ a b, R a b → T1.accept a = T2.accept b ∧ T1.ignore a = T2.ignore b
  dead : ∀ a b r, R a b → (T1.trans a r = -1 ↔ T2.trans b r = -1)
  live : ∀ a b r, R a b → T1.trans a r ≠ -1 → R (T1.trans a r).toNat (T2.trans b r).toNat

end Gocc
