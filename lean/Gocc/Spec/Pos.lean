import Gocc.Model.Scan
/-
Specification vocabulary for C08 / C16 (positions, tiling).

`ReachR src st rs`: offset `st.pos` is reached from offset 0 by reading the runes `rs`
one after the other (so it is a rune boundary of the sequential decoding of `src`), and
`st.line`, `st.col` are the line / column obtained by the property's rule
(line + 1 and column 1 after '\n', column 1 after '\r', + 4 for a tab, + 1 otherwise).
`lineOf` / `colOf` restate the rule without reference to the lexer:
line = 1 + number of '\n' read, column = 1 + advance since the last '\r' / '\n'.
-/
namespace Gocc

/-- read one rune at `st.pos` -/
def lcStep (src : List Nat) (st : LexSt) : LexSt :=
  let dr := decodeRune (src.drop st.pos)
  let lc := advLC dr.1 st.line st.col
  ⟨st.pos + dr.2, lc.1, lc.2⟩

inductive ReachR (src : List Nat) : LexSt → List Int → Prop
  | zero : ReachR src ⟨0, 1, 1⟩ []
  | step {st rs} : ReachR src st rs → st.pos < src.length →
      ReachR src (lcStep src st) (rs ++ [(decodeRune (src.drop st.pos)).1])

def Reach (src : List Nat) (st : LexSt) : Prop := ∃ rs, ReachR src st rs

def lineOf (rs : List Int) : Nat := 1 + rs.count 10

/-- advance since the last '\r' or '\n' -/
def colAdv (rs : List Int) : Nat :=
  rs.foldl (fun c r => if r = 10 ∨ r = 13 then 0 else if r = 9 then c + 4 else c + 1) 0

def colOf (rs : List Int) : Nat := 1 + colAdv rs

/-- tables as the generator emits them: `Accept = -1` only for ignore states -/
def TWF (T : LexTables) : Prop := ∀ s, T.accept s = -1 → T.ignore s = true

end Gocc
