/-
Context-free grammars over numbered symbols (the form in which generated tables speak about a
grammar): terminal `t i` is token type `i` (0 INVALID, 1 end of input), non-terminal `nt i` is
index `i` of the goto-table columns.  Production 0 is the augmented start `S' : Start`.
-/
namespace Gocc

inductive Sym where
  | t (i : Nat)
  | nt (i : Nat)
deriving DecidableEq, Repr, Inhabited, BEq

structure NGrammar where
  prods : Array (Nat × List Sym)      -- (head non-terminal index, body); `empty` alternatives have body []
deriving Inhabited

def NGrammar.head (G : NGrammar) (p : Nat) : Nat := (G.prods[p]?.map (·.1)).getD 0
def NGrammar.body (G : NGrammar) (p : Nat) : List Sym := (G.prods[p]?.map (·.2)).getD []

/-- `NDerives G α w`: the sentential form `α` derives the token-type string `w` -/
inductive NDerives (G : NGrammar) : List Sym → List Nat → Prop
  | nil : NDerives G [] []
  | term {a α w} : NDerives G α w → NDerives G (Sym.t a :: α) (a :: w)
  | nt {p α u v} : p < G.prods.size → NDerives G (G.body p) u → NDerives G α v →
      NDerives G (Sym.nt (G.head p) :: α) (u ++ v)

/-- `w` is a sentence: derivable from the body of production 0 -/
def NSentence (G : NGrammar) (w : List Nat) : Prop := NDerives G (G.body 0) w

def NViablePrefix (G : NGrammar) (u : List Nat) : Prop := ∃ v, NSentence G (u ++ v)

end Gocc
