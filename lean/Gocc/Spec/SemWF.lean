import Gocc.Model.SemCheck
/-
C14, semantic clauses of the property, read literally and independently of the code:
"uses an undefined syntax production or regular definition, defines a token, ignored token or
regular definition twice, or leaves an alternative empty".
A symbol is a syntax production name when the front end classified it as `prodId` (`SSym.kind`).
-/
namespace Gocc

structure SemWF (g : Grammar) (imports : List String) : Prop where
  /-- no token, ignored token or regular definition is defined twice -/
  noDup : (g.lex.map (·.id)).Nodup
  /-- no alternative is left empty -/
  noEmpty : ∀ p ∈ g.syn, p.body ≠ []
  /-- every syntax production used in a body is defined -/
  prodsDefined : ∀ p ∈ g.syn, ∀ s ∈ p.body, s.kind = .prodId → s.name ∈ g.syn.map (·.head)
  /-- every regular definition used in a pattern is defined (or imported) -/
  regDefsDefined : ∀ p ∈ g.lex, ∀ r ∈ p.pat.refs, r ∈ regDefIds g ∨ r ∈ imports

/-- the same, executable (the oracle of the C14 check) -/
def semWFb (g : Grammar) (imports : List String := []) : Bool :=
  decide (g.lex.map (·.id)).Nodup &&
  g.syn.all (fun p => !p.body.isEmpty) &&
  g.syn.all (fun p => p.body.all fun s => s.kind != .prodId || (g.syn.map (·.head)).contains s.name) &&
  g.lex.all (fun p => p.pat.refs.all fun r => (regDefIds g).contains r || imports.contains r)

theorem semWFb_iff (g : Grammar) (imports : List String) : semWFb g imports = true ↔ SemWF g imports := by
  unfold semWFb
  simp only [Bool.and_eq_true, decide_eq_true_eq, List.all_eq_true, Bool.not_eq_true', Bool.or_eq_true,
    bne_iff_ne, ne_eq, List.contains_iff_mem, List.isEmpty_eq_false_iff]
  constructor
  · rintro ⟨⟨⟨h1, h2⟩, h3⟩, h4⟩
    refine ⟨h1, h2, ?_, h4⟩
    intro p hp s hs hk
    rcases h3 p hp s hs with h | h
    · exact absurd hk h
    · exact h
  · rintro ⟨h1, h2, h3, h4⟩
    refine ⟨⟨⟨h1, h2⟩, ?_⟩, h4⟩
    intro p hp s hs
    by_cases hk : s.kind = .prodId
    · exact Or.inr (h3 p hp s hs hk)
    · exact Or.inl hk

end Gocc
