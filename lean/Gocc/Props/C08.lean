import Gocc.Proofs.Scan
/-
C08 — Token positions follow the position rule and lexemes tile the input.

Quantifier: all tables `T : LexTables`, all byte lists `src`, all lexer cursors `st`
(no bounds).  The only hypothesis on the tables is `TWF T` (`Accept = -1` only for ignore
states, which is how the generator emits `ActTab`); it is used exactly where a call of
`Scan` actually runs the automaton.  `Reach src st` says that `st = ⟨pos, line, col⟩` is
obtained from `⟨0, 1, 1⟩` by reading runes of `src` one after the other with the rule
"line + 1 and column 1 after '\n', column 1 after '\r', + 4 for a tab, + 1 otherwise";
`C08_position_rule` shows that this is the declarative rule (`lineOf`, `colOf`).

`scan T src st = (tok, st')` is one call of `Scan()`; `scanN T src k st` the first `k`
tokens; `scanStates T src k` the cursor of a new lexer after `k` calls and
`scanTokAt T src k` the token returned by call number `k` (from 0).
-/
namespace Gocc

/-- (P0) a reachable triple is: a rune boundary inside the input, line = 1 + number of '\n'
    read before it, column = 1 + advance since the last '\r' / '\n' (4 per tab, 1 per rune) -/
theorem C08_position_rule {src : List Nat} {st : LexSt} {rs : List Int} (h : ReachR src st rs) :
    st.line = lineOf rs ∧ st.col = colOf rs ∧ st.pos ≤ src.length :=
  ⟨(reachR_line_col h).1, (reachR_line_col h).2, reachR_pos_le h⟩

/-- (P0) line and column are a function of the offset: there is exactly one position-rule triple
    per rune boundary, so the triples of C08a are *the* line/column of the reported offset -/
theorem C08_position_unique {src : List Nat} {st st' : LexSt} (h : Reach src st) (h' : Reach src st')
    (hp : st.pos = st'.pos) : st = st' :=
  h.unique h' hp

/-- (C08a) every returned token (INVALID and EOF included) reports the position rule applied to
    the runes before its first byte, and the cursor after the call is again such a triple -/
theorem C08_positions {T : LexTables} (hT : TWF T) {src : List Nat} {st : LexSt} (h : Reach src st) :
    Reach src (scan T src st).2 ∧
    Reach src ⟨(scan T src st).1.offset, (scan T src st).1.line, (scan T src st).1.col⟩ :=
  ⟨(scan_spec hT h).1, (scan_spec hT h).2.1⟩

/-- (C08b) one call consumes `[st.pos, st'.pos)`: ignored text `[st.pos, tok.offset)`, then the
    literal, which is exactly `src[tok.offset : st'.pos]` -/
theorem C08_tiling {T : LexTables} (hT : TWF T) {src : List Nat} {st : LexSt} (h : Reach src st) :
    st.pos ≤ (scan T src st).1.offset ∧
    (scan T src st).1.offset ≤ (scan T src st).2.pos ∧
    (scan T src st).2.pos ≤ src.length ∧
    ((scan T src st).1.litStart < (scan T src st).1.litEnd →
        (scan T src st).1.litStart = (scan T src st).1.offset ∧
        (scan T src st).1.litEnd = (scan T src st).2.pos) ∧
    (¬ (scan T src st).1.litStart < (scan T src st).1.litEnd →
        (scan T src st).1.offset = (scan T src st).2.pos) := by
  obtain ⟨h1, _, h3, h4, h5, h6, _⟩ := scan_spec hT h
  exact ⟨h3, h4, h1.pos_le, h5, h6⟩

/-- each call before end of input consumes at least one byte -/
theorem C08_progress {T : LexTables} (hT : TWF T) {src : List Nat} {st : LexSt} (h : Reach src st)
    (hlt : st.pos < src.length) : st.pos < (scan T src st).2.pos :=
  (scan_spec hT h).2.2.2.2.2.2 hlt

/-- (C08c) at end of input `Scan` returns EOF at the cursor and does not move -/
theorem C08_eof_sticky (T : LexTables) (src : List Nat) (st : LexSt) (h : st.pos ≥ src.length) :
    scan T src st =
      ({ typ := tokEOF, litStart := 0, litEnd := 0, offset := st.pos, line := st.line, col := st.col }, st) :=
  scan_eof T src st h

/-- (C08c) ... and so does every later call -/
theorem C08_eof_sticky_scanN (T : LexTables) (src : List Nat) (st : LexSt) (h : st.pos ≥ src.length)
    (k : Nat) :
    scanN T src k st = List.replicate k
      { typ := tokEOF, litStart := 0, litEnd := 0, offset := st.pos, line := st.line, col := st.col } :=
  scanN_eof T src st h k

/-- (C08c) in the token stream of a new lexer: once call `k` is made at end of input, call `j ≥ k`
    finds the same cursor and returns the same EOF token -/
theorem C08_eof_sticky_stream (T : LexTables) (src : List Nat) (k : Nat)
    (h : (scanStates T src k).pos ≥ src.length) (j : Nat) (hj : k ≤ j) :
    scanStates T src j = scanStates T src k ∧
    scanTokAt T src j =
      { typ := tokEOF, litStart := 0, litEnd := 0, offset := (scanStates T src k).pos,
        line := (scanStates T src k).line, col := (scanStates T src k).col } := by
  obtain ⟨d, rfl⟩ := Nat.exists_eq_add_of_le hj
  have hs : scanStates T src (k + d) = scanStates T src k := by
    unfold scanStates
    rw [scanStatesFrom_add]; exact scanStatesFrom_eof T src _ h d
  refine ⟨hs, ?_⟩
  unfold scanTokAt; rw [hs, scan_eof T src _ h]

/-- `scanN` is the list of the tokens `scanTokAt 0, scanTokAt 1, ...` -/
theorem C08_scanN_stream (T : LexTables) (src : List Nat) (k i : Nat) (hi : i < k) :
    (scanN T src k newLexer)[i]? = some (scanTokAt T src i) :=
  scanN_getElem? T src k newLexer i hi

/-- (C08d) the whole token stream of a new lexer tiles the input: the stream starts at offset 0,
    every cursor is a position-rule triple, the cursors are monotone and bounded by the length,
    token `k` starts between cursor `k` and cursor `k+1` at a position-rule triple, and its
    literal (if any) is exactly `src[offset : cursor (k+1)]` -/
theorem C08_scanN_tiles {T : LexTables} (hT : TWF T) (src : List Nat) (k : Nat) :
    scanStates T src 0 = ⟨0, 1, 1⟩ ∧
    Reach src (scanStates T src k) ∧
    Reach src ⟨(scanTokAt T src k).offset, (scanTokAt T src k).line, (scanTokAt T src k).col⟩ ∧
    (scanStates T src k).pos ≤ (scanTokAt T src k).offset ∧
    (scanTokAt T src k).offset ≤ (scanStates T src (k + 1)).pos ∧
    (scanStates T src (k + 1)).pos ≤ src.length ∧
    ((scanTokAt T src k).litStart < (scanTokAt T src k).litEnd →
        (scanTokAt T src k).litStart = (scanTokAt T src k).offset ∧
        (scanTokAt T src k).litEnd = (scanStates T src (k + 1)).pos) ∧
    (¬ (scanTokAt T src k).litStart < (scanTokAt T src k).litEnd →
        (scanTokAt T src k).offset = (scanStates T src (k + 1)).pos) ∧
    ((scanStates T src k).pos < src.length →
        (scanStates T src k).pos < (scanStates T src (k + 1)).pos) := by
  have hr := scanStates_reach hT src k
  obtain ⟨h1, h2, h3, h4, h5, h6, h7⟩ := scan_spec hT hr
  exact ⟨rfl, hr, h2, h3, h4, h1.pos_le, h5, h6, h7⟩

/-- (C08d) cursors never move backwards and never pass the end of the input -/
theorem C08_cursor_mono {T : LexTables} (hT : TWF T) (src : List Nat) (k : Nat) :
    (scanStates T src k).pos ≤ (scanStates T src (k + 1)).pos ∧
    (scanStates T src (k + 1)).pos ≤ src.length := by
  obtain ⟨_, _, _, h3, h4, h5, _⟩ := C08_scanN_tiles hT src k
  exact ⟨Nat.le_trans h3 h4, h5⟩

/-- the stream reaches end of input after at most `src.length` calls -/
theorem C08_reaches_eof {T : LexTables} (hT : TWF T) (src : List Nat) :
    (scanStates T src src.length).pos = src.length := by
  have key : ∀ k, k ≤ src.length → k ≤ (scanStates T src k).pos := by
    intro k
    induction k with
    | zero => intro _; exact Nat.zero_le _
    | succ k ih =>
      intro hk
      have := ih (by omega)
      obtain ⟨_, _, _, h3, h4, _, _, _, h8⟩ := C08_scanN_tiles hT src k
      by_cases hlt : (scanStates T src k).pos < src.length
      · have := h8 hlt; omega
      · omega
  have h1 := key src.length (Nat.le_refl _)
  have h2 := (scanStates_reach hT src src.length).pos_le
  omega

/-! ### Non-vacuity: a concrete lexer -/

/-- tables of `x : 'a' ; !ws : ' ' ; y : 'a' 'b' ;` — S0 start, S1 after `a` (x, type 2),
    S2 after a blank (ignore), S3 after `ab` (y, type 3) -/
def exT : LexTables where
  trans s r :=
    if s = 0 ∧ r = 97 then 1 else if s = 0 ∧ r = 32 then 2 else if s = 1 ∧ r = 98 then 3 else -1
  accept s := if s = 1 then 2 else if s = 2 then -1 else if s = 3 then 3 else 0
  ignore s := s == 2

example : TWF exT := by
  intro s
  simp only [exT]
  repeat' split
  all_goals simp_all

/-- the hypothesis is not void state by state either -/
example : exT.accept 2 = -1 ∧ exT.ignore 2 = true ∧ exT.accept 0 = 0 ∧ exT.accept 1 = 2 := by decide

/-- "a ab\tb": x, (blank skipped) y, then an INVALID tab, an INVALID `b` at column 9, EOF -/
example : scanN exT [97, 32, 97, 98, 9, 98] 6 newLexer =
    [ { typ := 2, litStart := 0, litEnd := 1, offset := 0, line := 1, col := 1 },
      { typ := 3, litStart := 2, litEnd := 4, offset := 2, line := 1, col := 3 },
      { typ := 0, litStart := 4, litEnd := 5, offset := 4, line := 1, col := 5 },
      { typ := 0, litStart := 5, litEnd := 6, offset := 5, line := 1, col := 9 },
      { typ := 1, litStart := 0, litEnd := 0, offset := 6, line := 1, col := 10 },
      { typ := 1, litStart := 0, litEnd := 0, offset := 6, line := 1, col := 10 } ] := by
  rw [scanN_eq_scanNF]; decide

/-- "a\néa": a newline and a two-byte rune (both INVALID for these tables) -/
example : scanN exT [97, 10, 0xC3, 0xA9, 97] 5 newLexer =
    [ { typ := 2, litStart := 0, litEnd := 1, offset := 0, line := 1, col := 1 },
      { typ := 0, litStart := 1, litEnd := 2, offset := 1, line := 1, col := 2 },
      { typ := 0, litStart := 2, litEnd := 4, offset := 2, line := 2, col := 1 },
      { typ := 2, litStart := 4, litEnd := 5, offset := 4, line := 2, col := 2 },
      { typ := 1, litStart := 0, litEnd := 0, offset := 5, line := 2, col := 3 } ] := by
  rw [scanN_eq_scanNF]; decide

/-- "a  ": trailing ignored text, EOF comes out of the loop at offset 3 -/
example : scanN exT [97, 32, 32] 2 newLexer =
    [ { typ := 2, litStart := 0, litEnd := 1, offset := 0, line := 1, col := 1 },
      { typ := 1, litStart := 0, litEnd := 0, offset := 3, line := 1, col := 4 } ] := by
  rw [scanN_eq_scanNF]; decide

/-- `TWF` is needed: with a live state that neither accepts nor ignores (S2 below), on "abc"
    the call returns `a` and rewinds the cursor to offset 1, but line/column have already been
    advanced over `b`: the cursor `⟨1, 1, 3⟩` is not a position-rule triple (column 2 is) -/
def badT : LexTables where
  trans s r :=
    if s = 0 ∧ r = 97 then 1 else if s = 1 ∧ r = 98 then 2 else -1
  accept s := if s = 1 then 2 else if s = 2 then -1 else 0
  ignore _ := false

example : ¬ TWF badT := by
  intro h; exact absurd (h 2 (by decide)) (by decide)

example : (scan badT [97, 98, 99] newLexer).2 = ⟨1, 1, 3⟩ := by
  rw [scan_eq_scanF]; decide

example : ¬ Reach [97, 98, 99] ⟨1, 1, 3⟩ := by
  intro h
  have h1 : Reach [97, 98, 99] ⟨1, 1, 2⟩ := ⟨_, ReachR.step ReachR.zero (by decide)⟩
  exact absurd (C08_position_unique h h1 rfl) (by decide)

end Gocc
