import Gocc.Proofs.Numbering
/-
C10 — token numbering is one bijection.

Object: `newSymbols` / `PSymbols.addTokens` / `PSymbols.terminals` (Model/LR1: `symbols.NewSymbols`,
`Symbols.Add(tokenIds...)`, `ListTerminals()` = `TokenMap.TypeMap`), and the two lookups of the
generated `token.TokMap`, `tokId terms i` (`Id`, "unknown" out of range) and `tokType terms s`
(`Type`, Go map miss = 0), defined in Proofs/Numbering.

Quantifier: all production lists and all token id lists for which `NewSymbols` does not panic.
The table of terminals is then duplicate free with INVALID = 0 and ␚ (EOF) = 1, and on a
duplicate-free table `Id` and `Type` are inverse to each other, unknown names map to INVALID.
The action-table columns of the parser are the positions in the same list (`genParser` in
Model/LR1 iterates over `S.terminals`).
-/
namespace Gocc

/-- (h) `addNoDup` keeps a list duplicate free -/
theorem C10_addNoDup_nodup {l : List String} {s : String} (h : l.Nodup) :
    (addNoDup l s).Nodup := addNoDup_nodup h

theorem C10_mem_addNoDup {l : List String} {s x : String} :
    x ∈ addNoDup l s ↔ x ∈ l ∨ x = s := mem_addNoDup

/-- (h) the symbol table after `NewSymbols`: no duplicates, 0 = INVALID, 1 = ␚ -/
theorem C10_newSymbols_typeMap {prods : List SProd} {S : PSymbols}
    (h : newSymbols prods = .ok S) :
    S.typeMap.Nodup ∧ S.typeMap[0]? = some "INVALID" ∧ S.typeMap[1]? = some "␚" :=
  NumInv_get (newSymbols_inv h)

/-- (h) the same after adding the lexer's token ids -/
theorem C10_addTokens_typeMap {prods : List SProd} {S : PSymbols} (ids : List String)
    (h : newSymbols prods = .ok S) :
    (S.addTokens ids).typeMap.Nodup ∧ (S.addTokens ids).typeMap[0]? = some "INVALID" ∧
      (S.addTokens ids).typeMap[1]? = some "␚" :=
  NumInv_get (addTokens_inv ids (newSymbols_inv h))

/-- (h) every token id of the lexical part is in the table -/
theorem C10_addTokens_mem (S : PSymbols) (ids : List String) (x : String) :
    x ∈ (S.addTokens ids).typeMap ↔ x ∈ S.typeMap ∨ x ∈ ids :=
  mem_foldl_addNoDup ids S.typeMap x

/-- (i) the terminal table.  The two hypotheses hold unless a production is literally named
    `INVALID` or `␚` (then that name is a non-terminal and is filtered out of the terminal
    table, see the last example below); they are decidable for a given grammar. -/
theorem C10_numbering {prods : List SProd} {S : PSymbols} (ids : List String)
    (h : newSymbols prods = .ok S)
    (h0 : (S.addTokens ids).isTerminal "INVALID" = true)
    (h1 : (S.addTokens ids).isTerminal "␚" = true) :
    (S.addTokens ids).terminals[0]? = some "INVALID" ∧
    (S.addTokens ids).terminals[1]? = some "␚" ∧
    (S.addTokens ids).terminals.Nodup :=
  terminals_numbering _ (addTokens_inv ids (newSymbols_inv h)) h0 h1

/-- (j) `Id` and `Type` on a duplicate-free table -/
theorem C10_inverse_lookups (terms : List String) (h : terms.Nodup) :
    (∀ i, i < terms.length → tokType terms (tokId terms i) = i) ∧
    (∀ s, s ∈ terms → tokId terms (tokType terms s) = s) ∧
    (∀ s, s ∉ terms → tokType terms s = 0) ∧
    (∀ i, i ≥ terms.length → tokId terms i = "unknown") :=
  ⟨tokType_tokId terms h, tokId_tokType terms, tokType_unknown terms, tokId_out_of_range terms⟩

/-- (i)+(j) together, for the generated token map -/
theorem C10_token_map {prods : List SProd} {S : PSymbols} (ids : List String)
    (h : newSymbols prods = .ok S)
    (h0 : (S.addTokens ids).isTerminal "INVALID" = true)
    (h1 : (S.addTokens ids).isTerminal "␚" = true) :
    let terms := (S.addTokens ids).terminals
    tokId terms 0 = "INVALID" ∧ tokId terms 1 = "␚" ∧
    (∀ i, i < terms.length → tokType terms (tokId terms i) = i) ∧
    (∀ s, s ∈ terms → tokId terms (tokType terms s) = s) ∧
    (∀ s, s ∉ terms → tokType terms s = 0) := by
  obtain ⟨t0, t1, hn⟩ := C10_numbering ids h h0 h1
  obtain ⟨a, b, c, _⟩ := C10_inverse_lookups _ hn
  exact ⟨by simp [tokId, t0], by simp [tokId, t1], a, b, c⟩

/-! ### non-vacuity -/

/-- `S' : E ; E : E "+" T | T ; T : id` (augmented), token ids `id`, `num` -/
def exProds : List SProd :=
  [ { head := "S'", body := [⟨.prodId, "E"⟩] },
    { head := "E", body := [⟨.prodId, "E"⟩, ⟨.strLit, "+"⟩, ⟨.prodId, "T"⟩] },
    { head := "E", body := [⟨.prodId, "T"⟩] },
    { head := "T", body := [⟨.tokId, "id"⟩] } ]

example : (newSymbols exProds).toOption.map (·.typeMap) =
    some ["INVALID", "␚", "S'", "E", "+", "T", "id"] := by decide

example : (newSymbols exProds).toOption.map (fun S => (S.addTokens ["id", "num"]).terminals) =
    some ["INVALID", "␚", "+", "id", "num"] := by decide

example : (newSymbols exProds).toOption.map
    (fun S => ((S.addTokens ["id", "num"]).isTerminal "INVALID",
               (S.addTokens ["id", "num"]).isTerminal "␚")) = some (true, true) := by decide

/-- a string literal spelled like an earlier production name is refused -/
example : (newSymbols [{ head := "E", body := [⟨.strLit, "E"⟩] }]).toOption.map (·.typeMap) =
    none := by decide

example : tokType ["INVALID", "␚", "+", "id", "num"] "id" = 3 := by decide
example : tokId ["INVALID", "␚", "+", "id", "num"] 3 = "id" := by decide
example : tokType ["INVALID", "␚", "+", "id", "num"] "nope" = 0 := by decide
example : tokId ["INVALID", "␚", "+", "id", "num"] 5 = "unknown" := by decide
/-- the `Nodup` hypothesis of (j) is needed: with a duplicate, `Type (Id 2) ≠ 2` -/
example : tokType ["a", "b", "b"] (tokId ["a", "b", "b"] 2) ≠ 2 := by decide

/-- the hypotheses of (i) are needed: a production named `INVALID` is a non-terminal, so the
    terminal table starts with `␚` -/
example : (newSymbols [{ head := "INVALID", body := [⟨.tokId, "a"⟩] }]).toOption.map
    (fun S => ((S.addTokens []).isTerminal "INVALID", (S.addTokens []).terminals)) =
    some (false, ["␚", "a"]) := by decide

end Gocc
