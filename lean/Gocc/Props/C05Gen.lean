import Gocc.Proofs.GenSafe
import Gocc.Props.C05
import Gocc.Props.C12Tables
/-
C05 / C12 at generator level — statements about the tables `genParser` builds, for EVERY grammar.

C05: every entry of the action table that `genParser` (the model of gocc's parser-generator
pipeline, Model/LR1) produces is the one the resolution rule names: `specResolve` of the actions
proposed by the items of that state for that terminal — the shift if an item proposes one,
otherwise the reduction by the lowest-numbered production, otherwise accept, otherwise no action.
Together with the correspondence (compiled tables = `genParser`'s, exact equality per visited
grammar) and with `parse` being a function of the tables, this is the run-level clause of C05:
the parser's verdict and reductions are those of the LR(1) machine resolved by that rule, on every
token sequence.  Entries without competition are the single proposed action
(`C05_genParser_entry_unique`).

C12: the goto table of `genParser` is rectangular (`nStates × |nts|`), so the hypothesis of
`C12_zipTables_eq` is discharged for every grammar: `-zip` tables = plain tables, and the parser
model runs identically on them (`C12_genParser_zip_parse_eq`).

Quantifier: all syntax parts `syn` and token-id lists `ids` on which the model generator returns
tables (a refusal = gocc panics/exits, C04), all states, all terminals, all inputs and histories.
-/
namespace Gocc

/-- the actions the items of `st` propose for terminal `sym` (what `ItemSet.Action` folds) -/
def proposals (C : LRCtx) (st : LRState) (sym : String) : List (Option Act) :=
  st.items.map fun i => itemAction C i sym ((st.next sym).getD 0)

theorem genParser_entry {syn : List SProd} {ids : List String} {r : LRResult}
    (h : genParser syn ids = .ok r) {s t : Nat} {st : LRState} {sym : String}
    (hs : r.states[s]? = some st) (ht : r.ctx.S.terminals[t]? = some sym) :
    ∃ c, setAction r.ctx st sym = .ok (r.tables.act s t, c) := by
  obtain ⟨rows, hrows, _, _, hact, _⟩ := genParser_tables h
  obtain ⟨hlen, hspec⟩ := mapM_ok_spec hrows
  have hs' : s < r.states.size := by
    rcases Nat.lt_or_ge s r.states.size with h1 | h1
    · exact h1
    · simp [Array.getElem?_eq_none h1] at hs
  have hsl : s < rows.length := by rw [hlen]; simpa using hs'
  obtain ⟨a, ha, hrow⟩ := hspec s rows[s] (by simp [hsl])
  have hst : a = st := by
    have : r.states.toList[s]? = some st := by simpa using hs
    rw [this] at ha; exact (Option.some.inj ha).symm
  subst hst
  obtain ⟨hlen2, hspec2⟩ := mapM_ok_spec hrow
  have ht' : t < r.ctx.S.terminals.length := by
    rcases Nat.lt_or_ge t r.ctx.S.terminals.length with h1 | h1
    · exact h1
    · simp [List.getElem?_eq_none h1] at ht
  have htl : t < rows[s].length := by rw [hlen2]; exact ht'
  obtain ⟨sym', hsym', hcell⟩ := hspec2 t (rows[s][t]) (by simp [htl])
  rw [ht] at hsym'
  cases hsym'
  refine ⟨(rows[s][t]).2, ?_⟩
  rw [hcell]
  have : r.tables.act s t = (rows[s][t]).1 := by
    unfold PTables.act
    rw [hact]
    simp [hsl, htl]
  rw [this]

/-- C05, generator level: every table entry is the one the resolution rule names -/
theorem C05_genParser_entry {syn : List SProd} {ids : List String} {r : LRResult}
    (h : genParser syn ids = .ok r) {s t : Nat} {st : LRState} {sym : String}
    (hs : r.states[s]? = some st) (ht : r.ctx.S.terminals[t]? = some sym) :
    r.tables.act s t = specResolve (proposals r.ctx st sym) := by
  obtain ⟨c, hc⟩ := genParser_entry h hs ht
  rw [C05_setAction_eq_foldActs] at hc
  exact C05_fold_is_spec hc

/-- a shift proposed by some item of the state is the entry, whatever else competes -/
theorem C05_genParser_shift_wins {syn : List SProd} {ids : List String} {r : LRResult}
    (h : genParser syn ids = .ok r) {s t n : Nat} {st : LRState} {sym : String}
    (hs : r.states[s]? = some st) (ht : r.ctx.S.terminals[t]? = some sym)
    (hp : some (Act.shift n) ∈ proposals r.ctx st sym) :
    r.tables.act s t = some (Act.shift n) := by
  obtain ⟨c, hc⟩ := genParser_entry h hs ht
  rw [C05_setAction_eq_foldActs] at hc
  exact C05_shift_wins hc hp

/-- without a shift, the competing production declared first is the entry -/
theorem C05_genParser_earliest {syn : List SProd} {ids : List String} {r : LRResult}
    (h : genParser syn ids = .ok r) {s t p : Nat} {st : LRState} {sym : String}
    (hs : r.states[s]? = some st) (ht : r.ctx.S.terminals[t]? = some sym)
    (hns : ∀ n, some (Act.shift n) ∉ proposals r.ctx st sym)
    (hp : some (Act.reduce p) ∈ proposals r.ctx st sym)
    (hmin : ∀ q, some (Act.reduce q) ∈ proposals r.ctx st sym → p ≤ q) :
    r.tables.act s t = some (Act.reduce p) := by
  obtain ⟨c, hc⟩ := genParser_entry h hs ht
  rw [C05_setAction_eq_foldActs] at hc
  exact C05_earliest_production hc hns hp hmin

/-! ### C12: the hypothesis of the whole-table round trip holds for every generated table -/

theorem genParser_gotoRect {syn : List SProd} {ids : List String} {r : LRResult}
    (h : genParser syn ids = .ok r) : GotoRect r.tables := by
  obtain ⟨rows, _, _, hnts, _, hgoto, _, _, hn⟩ := genParser_tables h
  refine ⟨by rw [hgoto, hn]; simp, ?_⟩
  intro row hrow
  rw [hgoto] at hrow
  simp only [Array.toList_map, List.mem_map] at hrow
  obtain ⟨st, _, rfl⟩ := hrow
  rw [hnts]
  simp [gotoRow]

/-- C12, generator level: for every grammar the tables a `-zip` build holds after `init()` are
    the tables of the plain build -/
theorem C12_genParser_zip_eq {syn : List SProd} {ids : List String} {r : LRResult}
    (h : genParser syn ids = .ok r) : zipTables r.tables = r.tables :=
  C12_zipTables_eq _ (genParser_gotoRect h)

/-- … and the generated parser behaves identically on them, on every input, from every history -/
theorem C12_genParser_zip_parse_eq {syn : List SProd} {ids : List String} {r : LRResult}
    (h : genParser syn ids = .ok r) (errTerm failAt : Nat) (input : List Nat) (fuel : Nat)
    (old : PState) :
    parse { T := zipTables r.tables, errTerm := errTerm, failAt := failAt } input fuel old =
      parse { T := r.tables, errTerm := errTerm, failAt := failAt } input fuel old := by
  rw [C12_genParser_zip_eq h]

/-! ### Non-vacuity: `E : E p E <<10>> | n <<11>>` (ambiguous: shift/reduce on `p`) and
    `S : A | B ; A : x ; B : x` (reduce/reduce on end of input) -/
namespace C05GenEx

def synSR : List SProd := [
  { head := "E", body := [⟨.prodId, "E"⟩, ⟨.tokId, "p"⟩, ⟨.prodId, "E"⟩], act := 1, actId := 10 },
  { head := "E", body := [⟨.tokId, "n"⟩], act := 1, actId := 11 } ]

def synRR : List SProd := [
  { head := "S", body := [⟨.prodId, "A"⟩] }, { head := "S", body := [⟨.prodId, "B"⟩] },
  { head := "A", body := [⟨.tokId, "x"⟩] }, { head := "B", body := [⟨.tokId, "x"⟩] } ]

/-- both grammars are generated (no panic) and have conflicting states, so the theorems above
    speak about entries with real competition -/
example : (genParser synSR ["n", "p"]).toOption.map (fun r => decide (r.tables.conflictStates > 0)) = some true := by
  decide +kernel
example : (genParser synRR ["x"]).toOption.map (fun r => decide (r.tables.conflictStates > 0)) = some true := by
  decide +kernel

/-- in the shift/reduce grammar some entry with a competing reduction is a shift … -/
example : (genParser synSR ["n", "p"]).toOption.map (fun r =>
    (List.range r.states.size).any fun s => (List.range r.ctx.S.terminals.length).any fun t =>
      match r.states[s]?, r.ctx.S.terminals[t]? with
      | some st, some sym =>
        competing (proposals r.ctx st sym) &&
          (match r.tables.act s t with | some (.shift _) => true | _ => false)
      | _, _ => false) = some true := by
  decide +kernel

/-- … and in the reduce/reduce grammar the competing entry is the reduction by the production
    declared first (`A : x` is production 3, `B : x` production 4) -/
example : (genParser synRR ["x"]).toOption.map (fun r =>
    (List.range r.states.size).any fun s => (List.range r.ctx.S.terminals.length).any fun t =>
      match r.states[s]?, r.ctx.S.terminals[t]? with
      | some st, some sym =>
        competing (proposals r.ctx st sym) && decide (r.tables.act s t = some (.reduce 3))
      | _, _ => false) = some true := by
  decide +kernel

/-- the `-zip` round trip on a generated table, evaluated -/
example : (genParser synSR ["n", "p"]).toOption.map (fun r =>
    decide ((zipTables r.tables).action = r.tables.action ∧ (zipTables r.tables).goto_ = r.tables.goto_)) =
      some true := by
  decide +kernel

end C05GenEx

end Gocc
