import Gocc.Proofs.Md
/-
C19 — `md.loadMd` blanks everything outside ``` fences, keeps every newline, keeps the length.

Quantifier: all finite rune sequences `l : List Int` (no bound), `loadMd` being the model of
the Go function `loadMd` (in-place; the model returns the final slice contents).
Runes: 10 = '\n', 32 = ' ', 96 = '`'.

(a)–(c) hold for every input.  (d) is the functional specification on structured documents
`prose0 ``` code1 ``` prose1 ``` code2 ``` prose2 ...`; it needs a hypothesis because of a
quirk of the Go code (mirrored by the model): the rune directly after a fence is processed
without being tested for the start of another fence, and fences are matched greedily from the
left.
-/
namespace Gocc

/-- (a) the length is unchanged -/
theorem C19_length (l : List Int) : (loadMd l).length = l.length :=
  (loadMd_rel l).length_eq

/-- (b) every newline stays where it was, and no new newline appears -/
theorem C19_newlines_kept (l : List Int) (i : Nat) :
    (loadMd l)[i]? = some 10 ↔ l[i]? = some 10 := by
  rcases (loadMd_rel l).get i with ⟨h1, h2⟩ | ⟨a, b, h1, h2, h3⟩
  · simp [h1, h2]
  · simp only [h1, h2, Option.some.injEq]; omega

/-- (c) every rune is either kept or replaced by a blank -/
theorem C19_keep_or_blank (l : List Int) (i : Nat) (c : Int) (h : l[i]? = some c) :
    (loadMd l)[i]? = some c ∨ (loadMd l)[i]? = some 32 := by
  rcases (loadMd_rel l).get i with ⟨h1, _⟩ | ⟨a, b, h1, h2, h3⟩
  · simp [h1] at h
  · simp only [h1, Option.some.injEq] at h
    simp only [h2, Option.some.injEq]; omega

/-! ### (d) structured documents

A document is `prose0` followed by blocks `(code_i, prose_i)`.
`mdFence = [96,96,96]`, `mdBlank c = if c = 10 then 10 else 32` (model file). -/

/-- ```` ``` code_1 ``` prose_1 ``` code_2 ``` prose_2 ... ```` -/
def mdRenderBlocks : List (List Int × List Int) → List Int
  | [] => []
  | (code, prose) :: bs => mdFence ++ (code ++ (mdFence ++ (prose ++ mdRenderBlocks bs)))

def mdRender (prose0 : List Int) (bs : List (List Int × List Int)) : List Int :=
  prose0 ++ mdRenderBlocks bs

def mdExpectedBlocks : List (List Int × List Int) → List Int
  | [] => []
  | (code, prose) :: bs =>
    [32, 32, 32] ++ (code ++ ([32, 32, 32] ++ (prose.map mdBlank ++ mdExpectedBlocks bs)))

def mdExpected (prose0 : List Int) (bs : List (List Int × List Int)) : List Int :=
  prose0.map mdBlank ++ mdExpectedBlocks bs

/-- Hypothesis on the pieces (`hasFence`, `startOk`, `midOk`, `lastOk` are in `Proofs/Md.lean`):
    * a piece between two fences (`midOk`) is non-empty, and from its *second* rune on it
      contains no ``` and does not end in a back-quote;
    * the prose after the last fence (`lastOk`) may be empty, and from its second rune on it
      contains no ```. -/
def mdBlocksOk : List (List Int × List Int) → Bool
  | [] => true
  | (code, prose) :: bs =>
    midOk code && (if bs.isEmpty then lastOk prose else midOk prose) && mdBlocksOk bs

/-- * `prose0`, when a fence follows (`startOk`), contains no ``` and does not end in a
      back-quote (it may be empty); without any block it just contains no ```;
    * the blocks satisfy `mdBlocksOk`. -/
def mdDocOk (prose0 : List Int) (bs : List (List Int × List Int)) : Bool :=
  (if bs.isEmpty then !hasFence prose0 else startOk prose0) && mdBlocksOk bs

/-- the blocks part, started at a position where fences are recognised -/
theorem C19_blocks (bs : List (List Int × List Int)) (h : mdBlocksOk bs = true) :
    loadMdAux true 0 false (mdRenderBlocks bs) = mdExpectedBlocks bs := by
  induction bs with
  | nil => rfl
  | cons b bs ih =>
    obtain ⟨code, prose⟩ := b
    simp only [mdBlocksOk, Bool.and_eq_true] at h
    obtain ⟨⟨hc, hp⟩, hbs⟩ := h
    have ih' := ih hbs
    simp only [mdRenderBlocks, mdExpectedBlocks]
    rw [loadMdAux_fence, loadMdAux_mid _ _ _ hc, loadMdAux_fence]
    simp only [Bool.not_true, Bool.not_false, map_mdKeep_false]
    cases bs with
    | nil =>
      simp only [List.isEmpty_nil, if_true] at hp
      simp only [mdRenderBlocks, mdExpectedBlocks, List.append_nil, loadMdAux_last _ _ hp,
        map_mdKeep_true]
    | cons b' bs' =>
      obtain ⟨c', p'⟩ := b'
      simp only [List.isEmpty_cons, Bool.false_eq_true, if_false] at hp
      simp only [mdRenderBlocks] at ih' ⊢
      rw [loadMdAux_mid _ _ _ hp, map_mdKeep_true, ih']

/-- (d) on a structured document, prose (and the fences) are blanked except for newlines, and
    code is kept verbatim -/
theorem C19_document (prose0 : List Int) (bs : List (List Int × List Int))
    (h : mdDocOk prose0 bs = true) : loadMd (mdRender prose0 bs) = mdExpected prose0 bs := by
  simp only [mdDocOk, Bool.and_eq_true] at h
  obtain ⟨h0, hbs⟩ := h
  have hb := C19_blocks bs hbs
  unfold loadMd mdRender mdExpected
  cases bs with
  | nil =>
    simp only [List.isEmpty_nil, if_true, Bool.not_eq_true'] at h0
    simp only [mdRenderBlocks, mdExpectedBlocks, List.append_nil, loadMdAux_noFence _ _ h0,
      map_mdKeep_true]
  | cons b bs =>
    obtain ⟨c, p⟩ := b
    simp only [List.isEmpty_cons, Bool.false_eq_true, if_false] at h0
    simp only [mdRenderBlocks] at hb ⊢
    rw [loadMdAux_start _ _ _ h0, map_mdKeep_true, hb]

/-! ### non-vacuity -/

/-- "# T\nintro\n" -/
def exProse0 : List Int := [35, 32, 84, 10, 105, 110, 116, 114, 111, 10]
/-- "\nA : `b` c ;\n" (code with single back-quotes in the middle) -/
def exCode1 : List Int := [10, 65, 32, 58, 32, 96, 98, 96, 32, 99, 32, 59, 10]
/-- "\nsee `x`.\n" -/
def exProse1 : List Int := [10, 115, 101, 101, 32, 96, 120, 96, 46, 10]
/-- "\nB : 'y' ;\n" -/
def exCode2 : List Int := [10, 66, 32, 58, 32, 39, 121, 39, 32, 59, 10]
/-- "\nend\n" -/
def exProse2 : List Int := [10, 101, 110, 100, 10]

def exBlocks : List (List Int × List Int) := [(exCode1, exProse1), (exCode2, exProse2)]

example : mdDocOk exProse0 exBlocks = true := by decide

example : loadMd (mdRender exProse0 exBlocks) = mdExpected exProse0 exBlocks := by decide

/-- the same equation through the theorem -/
example : loadMd (mdRender exProse0 exBlocks) = mdExpected exProse0 exBlocks :=
  C19_document _ _ (by decide)

/-- a document that ends directly with the closing fence, and one without any fence -/
example : mdDocOk exProse0 [(exCode1, [])] = true := by decide
example : mdDocOk exProse0 [] = true := by decide

/-- the hypothesis is not vacuous the other way either: it rejects the quirk cases, and on
    them the equation really fails (empty code block; prose ending in a back-quote) -/
example : mdDocOk exProse0 [([], exProse1)] = false := by decide
example : loadMd (mdRender exProse0 [([], exProse1)]) ≠ mdExpected exProse0 [([], exProse1)] := by
  decide
example : mdDocOk [120, 96] [(exCode1, [])] = false := by decide
example : loadMd (mdRender [120, 96] [(exCode1, [])]) ≠ mdExpected [120, 96] [(exCode1, [])] := by
  decide

/-- (a)–(c) on a concrete input: "a\n```\nb`\n```c" -/
example : loadMd [97, 10, 96, 96, 96, 10, 98, 96, 10, 96, 96, 96, 99] =
    [32, 10, 32, 32, 32, 10, 98, 96, 10, 32, 32, 32, 32] := by decide

end Gocc
