import Gocc.Proofs.ScanSpec
import Gocc.Props.C08
/-
C01 (second half) — what one call of the generated `Scan` returns.

Quantifier: all tables `T : LexTables`, all byte lists `src`, all lexer cursors `st`
(no bounds, `st` need not be a reachable cursor except in `C01_literal_is_consumed_text`).
`scan T src st = (tok, st')` is one call of `Scan()`, `scanN T src k st` the first `k` tokens.
`ScanSpec T src p typ off e` (Gocc/Spec/ScanSpec.lean) is the declarative reading: `[p, off)` is a
sequence of complete ignored lexemes, each cut as soon as an ignore state is entered; then either
`off` is the end of the input and `typ = EOF`, or a run of the automaton from state 0 at `off`,
never entering an ignore state, stops at the first place `q` where no transition exists and
`typ` is the action of the last state entered with `e = q`, or INVALID with `e` = `q` plus the
rune that could not be matched.

The only hypothesis on the tables is `TWF T` (`Accept = -1` only for ignore states, which is how
the generator emits `ActTab`).
-/
namespace Gocc

/-- (A) every call of `Scan` meets the specification -/
theorem C01_scan_meets_spec {T : LexTables} (hT : TWF T) (src : List Nat) (st : LexSt) :
    ScanSpec T src st.pos (scan T src st).1.typ (scan T src st).1.offset (scan T src st).2.pos :=
  scan_meets_spec hT src st

/-- (B) the specification determines the token type, the token offset and the end of the
    consumed text -/
theorem C01_spec_unique {T : LexTables} {src : List Nat} {p off off' e e' : Nat} {typ typ' : Int}
    (h : ScanSpec T src p typ off e) (h' : ScanSpec T src p typ' off' e') :
    typ = typ' ∧ off = off' ∧ e = e' :=
  h.unique h'

/-- (A) + (B): `Scan` returns *the* result the specification describes -/
theorem C01_scan_is_the_spec {T : LexTables} (hT : TWF T) (src : List Nat) (st : LexSt)
    {typ : Int} {off e : Nat} (h : ScanSpec T src st.pos typ off e) :
    (scan T src st).1.typ = typ ∧ (scan T src st).1.offset = off ∧ (scan T src st).2.pos = e :=
  (C01_scan_meets_spec hT src st).unique h

/-- (B, ingredients) an ignored lexeme is not empty, lies inside the input and its end is
    determined by its start; no maximal non-ignored run starts where an ignored lexeme starts -/
theorem C01_ignLexeme {T : LexTables} {src : List Nat} {a b : Nat} (h : IgnLexeme T src a b) :
    a < b ∧ b ≤ src.length ∧ (∀ b', IgnLexeme T src a b' → b = b') ∧
    (∀ s q, Run T src 0 a s q → stepAt T src s q ≠ none) :=
  ⟨h.lt.1, h.lt.2.2, fun _ h' => h.unique h', fun _ _ hr hn => h.not_maximal hr hn⟩

/-- (B, ingredient) a maximal run is unique -/
theorem C01_maximal_run_unique {T : LexTables} {src : List Nat} {s p s1 p1 s2 p2 : Nat}
    (h1 : Run T src s p s1 p1) (n1 : stepAt T src s1 p1 = none)
    (h2 : Run T src s p s2 p2) (n2 : stepAt T src s2 p2 = none) : s1 = s2 ∧ p1 = p2 :=
  h1.maximal_unique n1 h2 n2

/-- (C) a non-empty literal is exactly the consumed text `src[tok.offset : st'.pos]`
    (re-export of `C08_tiling`) -/
theorem C01_literal_is_consumed_text {T : LexTables} (hT : TWF T) {src : List Nat} {st : LexSt}
    (h : Reach src st) :
    (scan T src st).1.litStart < (scan T src st).1.litEnd →
      (scan T src st).1.litStart = (scan T src st).1.offset ∧
      (scan T src st).1.litEnd = (scan T src st).2.pos :=
  (C08_tiling hT h).2.2.2.1

/-- (C) ... and when the literal is empty nothing was consumed after the skipped text (this is
    the end-of-input token) -/
theorem C01_no_literal_nothing_consumed {T : LexTables} (hT : TWF T) {src : List Nat} {st : LexSt}
    (h : Reach src st) :
    ¬ (scan T src st).1.litStart < (scan T src st).1.litEnd →
      (scan T src st).1.offset = (scan T src st).2.pos :=
  (C08_tiling hT h).2.2.2.2

/-- (D) end of input for ever after (re-export of `C08_eof_sticky_scanN`) -/
theorem C01_eof_forever (T : LexTables) (src : List Nat) (st : LexSt) (h : st.pos ≥ src.length)
    (k : Nat) :
    scanN T src k st = List.replicate k ⟨tokEOF, 0, 0, st.pos, st.line, st.col⟩ :=
  C08_eof_sticky_scanN T src st h k

/-- (E) bisimilar automata: every call of `Scan` returns the same token and leaves the same cursor -/
theorem C01_bisim_scan_eq {T1 T2 : LexTables} {R : Nat → Nat → Prop} (h : Bisim T1 T2 R)
    (src : List Nat) (st : LexSt) : scan T1 src st = scan T2 src st :=
  bisim_scan_eq h src st

/-- (E) ... and so the token streams are identical -/
theorem C01_bisim_scanN_eq {T1 T2 : LexTables} {R : Nat → Nat → Prop} (h : Bisim T1 T2 R)
    (src : List Nat) (k : Nat) (st : LexSt) : scanN T1 src k st = scanN T2 src k st :=
  bisim_scanN_eq h src k st

/-! ### Non-vacuity: the lexer `x : 'a' ; !ws : ' ' ; y : 'a' 'b' ;` (`exT` of Gocc.Props.C08) -/

theorem exT_twf : TWF exT := by
  intro s
  simp only [exT]
  repeat' split
  all_goals simp_all

/-- "a ab\tb" -/
def exSrc : List Nat := [97, 32, 97, 98, 9, 98]

/-- at offset 0: nothing skipped, the run `a` stops at 1 (a blank has no transition from S1), type 2 -/
example : ScanSpec exT exSrc 0 2 0 1 := by
  have h := C01_scan_meets_spec exT_twf exSrc ⟨0, 1, 1⟩
  have e : scan exT exSrc ⟨0, 1, 1⟩ = (⟨2, 0, 1, 0, 1, 1⟩, ⟨1, 1, 2⟩) := by
    rw [scan_eq_scanF]; decide
  rw [e] at h; exact h

/-- at offset 1: the blank `[1, 2)` is skipped, then `ab` is type 3 and ends at 4 -/
example : ScanSpec exT exSrc 1 3 2 4 := by
  have h := C01_scan_meets_spec exT_twf exSrc ⟨1, 1, 2⟩
  have e : scan exT exSrc ⟨1, 1, 2⟩ = (⟨3, 2, 4, 2, 1, 3⟩, ⟨4, 1, 5⟩) := by
    rw [scan_eq_scanF]; decide
  rw [e] at h; exact h

/-- at offset 4: the tab matches nothing: INVALID, consuming the tab -/
example : ScanSpec exT exSrc 4 tokINVALID 4 5 := by
  have h := C01_scan_meets_spec exT_twf exSrc ⟨4, 1, 5⟩
  have e : scan exT exSrc ⟨4, 1, 5⟩ = (⟨0, 4, 5, 4, 1, 5⟩, ⟨5, 1, 9⟩) := by
    rw [scan_eq_scanF]; decide
  rw [e] at h; exact h

/-- "ac": the run `a` (type 2) ... -/
example : ScanSpec exT [97, 99] 0 2 0 1 := by
  have h := C01_scan_meets_spec exT_twf [97, 99] ⟨0, 1, 1⟩
  have e : scan exT [97, 99] ⟨0, 1, 1⟩ = (⟨2, 0, 1, 0, 1, 1⟩, ⟨1, 1, 2⟩) := by
    rw [scan_eq_scanF]; decide
  rw [e] at h; exact h

/-- "a  ": trailing blanks `[1, 2)`, `[2, 3)` are skipped, then end of input at 3 -/
example : ScanSpec exT [97, 32, 32] 1 tokEOF 3 3 := by
  have h := C01_scan_meets_spec exT_twf [97, 32, 32] ⟨1, 1, 2⟩
  have e : scan exT [97, 32, 32] ⟨1, 1, 2⟩ = (⟨1, 0, 0, 3, 1, 4⟩, ⟨3, 1, 4⟩) := by
    rw [scan_eq_scanF]; decide
  rw [e] at h; exact h

/-- the same instance built by hand from the definitions (the specification is inhabited without
    reference to `scan`): skip `[1, 2)` (step S0 → S2 on the blank), run S0 → S1 → S3 over `ab`,
    no step on the tab -/
example : ScanSpec exT exSrc 1 3 2 4 := by
  have s1 : stepAt exT exSrc 0 1 = some (2, 2) := by decide
  have s2 : stepAt exT exSrc 0 2 = some (1, 3) := by decide
  have s3 : stepAt exT exSrc 1 3 = some (3, 4) := by decide
  have s4 : stepAt exT exSrc 3 4 = none := by decide
  have i2 : IsIgn exT 2 := by unfold IsIgn; decide
  have n1 : ¬ IsIgn exT 1 := by unfold IsIgn; decide
  have n3 : ¬ IsIgn exT 3 := by unfold IsIgn; decide
  refine ⟨Skipped.cons ⟨0, 1, 2, Run.refl _ _, s1, i2⟩ (Skipped.nil _),
    Or.inr ⟨by decide, 3, 4, ?_, s4, Or.inl ⟨by decide, by decide, by decide, rfl⟩⟩⟩
  exact Run.step (Run.step (Run.refl _ _) s2 n1) s3 n3

/-- by (B) no other result is allowed there: e.g. stopping after `a` with type 2 does not meet
    the specification -/
example : ¬ ScanSpec exT exSrc 1 2 2 3 := by
  intro h
  have h' := C01_scan_is_the_spec exT_twf exSrc ⟨1, 1, 2⟩ h
  have e : scan exT exSrc ⟨1, 1, 2⟩ = (⟨3, 2, 4, 2, 1, 3⟩, ⟨4, 1, 5⟩) := by
    rw [scan_eq_scanF]; decide
  rw [e] at h'
  exact absurd h'.1 (by decide)

/-! ### Non-vacuity of `Bisim`: `exT` with S1 and S3 exchanged and an extra, unreachable state S4
    (which has transitions and an action of its own) -/

def exT' : LexTables where
  trans s r :=
    if s = 0 ∧ r = 97 then 3 else if s = 0 ∧ r = 32 then 2 else if s = 3 ∧ r = 98 then 1
    else if s = 4 ∧ r = 97 then 4 else -1
  accept s := if s = 3 then 2 else if s = 2 then -1 else if s = 1 then 3 else if s = 4 then 7 else 0
  ignore s := s == 2

def exR (a b : Nat) : Prop := (a = 0 ∧ b = 0) ∨ (a = 1 ∧ b = 3) ∨ (a = 2 ∧ b = 2) ∨ (a = 3 ∧ b = 1)

/-- on any rune other than `a`, blank, `b` neither table has a transition -/
theorem exT_trans_other (s : Nat) (r : Int) (h1 : r ≠ 97) (h2 : r ≠ 32) (h3 : r ≠ 98) :
    exT.trans s r = -1 ∧ exT'.trans s r = -1 := by
  simp [exT, exT', h1, h2, h3]

theorem exT_bisim : Bisim exT exT' exR where
  start := Or.inl ⟨rfl, rfl⟩
  act := by
    intro a b h
    rcases h with ⟨rfl, rfl⟩ | ⟨rfl, rfl⟩ | ⟨rfl, rfl⟩ | ⟨rfl, rfl⟩ <;> decide
  dead := by
    intro a b r h
    by_cases h1 : r = 97
    · subst h1; rcases h with ⟨rfl, rfl⟩ | ⟨rfl, rfl⟩ | ⟨rfl, rfl⟩ | ⟨rfl, rfl⟩ <;> decide
    by_cases h2 : r = 32
    · subst h2; rcases h with ⟨rfl, rfl⟩ | ⟨rfl, rfl⟩ | ⟨rfl, rfl⟩ | ⟨rfl, rfl⟩ <;> decide
    by_cases h3 : r = 98
    · subst h3; rcases h with ⟨rfl, rfl⟩ | ⟨rfl, rfl⟩ | ⟨rfl, rfl⟩ | ⟨rfl, rfl⟩ <;> decide
    rw [(exT_trans_other a r h1 h2 h3).1, (exT_trans_other b r h1 h2 h3).2]
  live := by
    intro a b r h
    by_cases h1 : r = 97
    · subst h1
      rcases h with ⟨rfl, rfl⟩ | ⟨rfl, rfl⟩ | ⟨rfl, rfl⟩ | ⟨rfl, rfl⟩ <;> unfold exR <;> decide
    by_cases h2 : r = 32
    · subst h2
      rcases h with ⟨rfl, rfl⟩ | ⟨rfl, rfl⟩ | ⟨rfl, rfl⟩ | ⟨rfl, rfl⟩ <;> unfold exR <;> decide
    by_cases h3 : r = 98
    · subst h3
      rcases h with ⟨rfl, rfl⟩ | ⟨rfl, rfl⟩ | ⟨rfl, rfl⟩ | ⟨rfl, rfl⟩ <;> unfold exR <;> decide
    intro hne; exact absurd (exT_trans_other a r h1 h2 h3).1 hne

/-- the two tables are different functions (the relation is not the identity) ... -/
example : exT.trans 0 97 = 1 ∧ exT'.trans 0 97 = 3 ∧ exT.accept 4 = 0 ∧ exT'.accept 4 = 7 := by decide

/-- ... but produce the same tokens on every input, e.g. -/
example : scanN exT' exSrc 6 newLexer =
    [ { typ := 2, litStart := 0, litEnd := 1, offset := 0, line := 1, col := 1 },
      { typ := 3, litStart := 2, litEnd := 4, offset := 2, line := 1, col := 3 },
      { typ := 0, litStart := 4, litEnd := 5, offset := 4, line := 1, col := 5 },
      { typ := 0, litStart := 5, litEnd := 6, offset := 5, line := 1, col := 9 },
      { typ := 1, litStart := 0, litEnd := 0, offset := 6, line := 1, col := 10 },
      { typ := 1, litStart := 0, litEnd := 0, offset := 6, line := 1, col := 10 } ] := by
  rw [← C01_bisim_scanN_eq exT_bisim, scanN_eq_scanNF]; decide

example (src : List Nat) (k : Nat) : scanN exT src k newLexer = scanN exT' src k newLexer :=
  C01_bisim_scanN_eq exT_bisim src k newLexer

end Gocc
