import Gocc.Proofs.ActionFold
/-
C04 — a conflict is recorded exactly when two different actions compete; accept against
anything different (and shift against a different shift) is refused in every mode.

Object: `foldActs` (Model/ActionFold), the fold `ItemSet.Action(symbol)` performs over the actions
its items propose for one terminal; second component of the result = "a conflict was recorded
for this (state, terminal)"; `Except.error` = Go panic.  `setAction_eq_foldActs`
(Proofs/ActionFold, restated as `C05_setAction_eq_foldActs`) ties it to the item-set function.

Quantifier: all lists of proposed actions, no bounds.

`competing acts` (Model/ActionFold): the proposed non-error actions contain two different ones.
`panics acts` (Proofs/ActionFold): an accept together with a different action, or two different
shifts.
-/
namespace Gocc

/-- (c) the conflict flag is set exactly when two different non-error actions are proposed -/
theorem C04_conflict_flag {acts : List (Option Act)} {r : Option Act} {c : Bool}
    (h : foldActs acts = .ok (r, c)) : c = competing acts := by
  have hi := foldActs_inv acts
  rw [h] at hi
  rw [Bool.eq_iff_iff, competing_iff]
  exact hi.2.2

/-- (c, spelled out with membership) -/
theorem C04_conflict_iff {acts : List (Option Act)} {r : Option Act} {c : Bool}
    (h : foldActs acts = .ok (r, c)) :
    c = true ↔ ∃ x y, some x ∈ acts ∧ some y ∈ acts ∧ x ≠ y := by
  have hi := foldActs_inv acts
  rw [h] at hi
  exact hi.2.2

/-- (f) generation is refused exactly on `panics` -/
theorem C04_panic_iff (acts : List (Option Act)) :
    (foldActs acts).toOption = none ↔ panics acts = true := by
  rw [foldActs_toOption]
  cases panics acts <;> simp

/-- what `panics` means, with membership: accept together with a different action, or two
    different shifts -/
theorem C04_panics_iff_mem (acts : List (Option Act)) :
    panics acts = true ↔
      (some Act.accept ∈ acts ∧ ∃ x, some x ∈ acts ∧ x ≠ Act.accept) ∨
      ∃ s t, s ≠ t ∧ some (Act.shift s) ∈ acts ∧ some (Act.shift t) ∈ acts :=
  panics_iff acts

/-- the complete description of the fold: refused on `panics`, otherwise
    (specified entry, competition flag) -/
theorem C04_fold_total (acts : List (Option Act)) :
    (foldActs acts).toOption =
      if panics acts then none else some (specResolve acts, competing acts) :=
  foldActs_toOption acts

/-! ### non-vacuity -/

/-- shift/reduce/reduce: conflict recorded -/
example : foldActs [some (.reduce 3), none, some (.shift 7), some (.reduce 1)] =
    .ok (some (.shift 7), true) := by decide
example : competing [some (.reduce 3), none, some (.shift 7), some (.reduce 1)] = true := by
  decide

/-- reduce/reduce: conflict recorded -/
example : foldActs [some (.reduce 2), some (.reduce 5)] = .ok (some (.reduce 2), true) := by
  decide

/-- the same action proposed by several items is not a conflict -/
example : foldActs [some (.shift 4), none, some (.shift 4)] = .ok (some (.shift 4), false) := by
  decide
example : competing [some (.shift 4), none, some (.shift 4)] = false := by decide

/-- panicking lists: accept against reduce (either order), shift against another shift, also
    when something else was seen in between -/
example : panics [some .accept, some (.reduce 1)] = true := by decide
example : (foldActs [some .accept, some (.reduce 1)]).toOption = none := by decide
example : (foldActs [some (.reduce 1), some .accept]).toOption = none := by decide
example : foldActs [some (.reduce 1), some .accept] =
    .error "Impossible conflict: Reduce/Accept" := by decide
example : (foldActs [some (.shift 1), some (.reduce 0), some (.shift 2)]).toOption = none := by
  decide
example : panics [some (.shift 1), some (.reduce 0), some (.shift 2)] = true := by decide
example : panics [some (.reduce 3), none, some (.shift 7), some (.reduce 1)] = false := by decide

end Gocc
