import Gocc.Props.C10
import Gocc.Props.C05Gen
/-
C10 at generator level — "the generated parser's tables are indexed by exactly these numbers".

For EVERY grammar on which the generator model returns tables: the terminal list stored with the
tables is the symbol table's terminal list (the one `C10_numbering` / `C10_token_map` speak about,
which `GenToken` prints as `TokMap`); the action table has one row per state and every row has
exactly one column per terminal, so that column `t` of every row is the column of the terminal
numbered `t` (`C10_genParser_columns`); and what stands in row `s`, column `t` is the action for
the state `s` and the terminal NAMED `tokId terminals t` (`C10_genParser_entry_by_name`, through
`C05_genParser_entry`).  The goto table has one row per state and one column per non-terminal of
`ntList`, and `prodNT[p]` is the `ntList` index of the head of production `p`.

Quantifier: all syntax parts and token-id lists; all states; all terminal numbers.
-/
namespace Gocc

theorem C10_genParser_columns {syn : List SProd} {ids : List String} {r : LRResult}
    (h : genParser syn ids = .ok r) :
    r.tables.terminals = r.ctx.S.terminals ∧
    r.tables.action.size = r.tables.nStates ∧
    (∀ row ∈ r.tables.action.toList, row.size = r.tables.terminals.length) ∧
    r.tables.goto_.size = r.tables.nStates ∧
    (∀ row ∈ r.tables.goto_.toList, row.size = r.tables.nts.length) := by
  obtain ⟨rows, hrows, hterms, hnts, hact, hgoto, _, _, hn⟩ := genParser_tables h
  obtain ⟨hlen, hspec⟩ := mapM_ok_spec hrows
  have hg := genParser_gotoRect h
  refine ⟨hterms, ?_, ?_, hg.1, hg.2⟩
  · rw [hact, hn]; simp [hlen]
  · intro row hrow
    rw [hact] at hrow
    simp only [List.mem_map] at hrow
    obtain ⟨lrow, hl, rfl⟩ := hrow
    obtain ⟨i, hi, hget⟩ := List.getElem_of_mem hl
    obtain ⟨st, _, hst⟩ := hspec i lrow (by simp [hi, hget])
    obtain ⟨hlen2, _⟩ := mapM_ok_spec hst
    rw [hterms]; simp [hlen2]

/-- row `s`, column `t` holds the resolved action of state `s` for the terminal whose NAME the
    token map gives for number `t` -/
theorem C10_genParser_entry_by_name {syn : List SProd} {ids : List String} {r : LRResult}
    (h : genParser syn ids = .ok r) {s t : Nat} {st : LRState}
    (hs : r.states[s]? = some st) (ht : t < r.tables.terminals.length) :
    r.tables.act s t = specResolve (proposals r.ctx st (tokId r.tables.terminals t)) := by
  have hterms := (C10_genParser_columns h).1
  have ht' : t < r.ctx.S.terminals.length := by rw [← hterms]; exact ht
  have hget : r.ctx.S.terminals[t]? = some (tokId r.tables.terminals t) := by
    rw [hterms]; simp [tokId, ht']
  exact C05_genParser_entry h hs hget

/-! ### non-vacuity -/

/-- six states, four terminals (INVALID, end of input, `p`, `n`), every row four columns wide -/
example : (genParser C05GenEx.synSR ["n", "p"]).toOption.map (fun r =>
    decide (r.tables.terminals.length = 4 ∧ r.tables.action.size = r.tables.nStates ∧ 1 < r.tables.nStates ∧
      r.tables.action.toList.all (fun row => row.size == 4))) = some true := by
  decide +kernel

end Gocc
