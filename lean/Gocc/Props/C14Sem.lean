import Gocc.Spec.SemWF
/-
C14, semantic half — "uses an undefined syntax production or regular definition, defines a token,
ignored token or regular definition twice, or leaves an alternative empty".

Object: `semCheck` (Model/SemCheck.lean), the model of NewLexProdMap/NewLexPart, `consistent` and
`UndefinedRegDef`.  Spec: `SemWF` (Spec/SemWF.lean), the four clauses of the property read literally,
independently of the code (its executable form `semWFb` is the oracle of the C14 check).
Theorem: the checks pass exactly on the well-formed grammars, for every grammar value the front end can
produce (`KindsOk`); and each error names a real culprit.
Tie: the C14 check mutates grammar VALUES (reference renaming — also to names with a non-ASCII capital —,
definition duplication, harmless twins), lets spec and model give their verdicts and compares both with gocc.

History: the first version of this file stated the spec with the code's own ASCII test for "is a production
name"; the theorem was true and hid defect D14 (`S : a Äb ;` with `Äb` undefined exits 0).  The spec now uses the
front end's classification (`SSym.kind`), the defect was found by the check, fixed, and the model follows the fix.
-/
namespace Gocc

/-- what the front end guarantees about symbols it classifies as production names: they are not spelled
    like a token id or like the keywords `empty` / `error` (those start with a lower-case letter) -/
def KindsOk (g : Grammar) : Prop :=
  ∀ p ∈ g.syn, ∀ s ∈ p.body, s.kind = .prodId →
    s.name ∉ (g.lex.filter fun p => p.kind == .tok).map (·.id) ∧ s.name ≠ "empty" ∧ s.name ≠ "error"

instance (g : Grammar) : Decidable (KindsOk g) := by unfold KindsOk; infer_instance

/-- no reserved-name clash (fix D15; these are refused with their own message and are not among the property's
    clauses): `reservedUse g = none` -/
def NoReserved (g : Grammar) : Prop := reservedUse g = none ∧ reservedTok g = none

instance (g : Grammar) : Decidable (NoReserved g) := by unfold NoReserved; infer_instance

theorem firstDup_none {l : List String} : firstDup l = none ↔ l.Nodup := by
  induction l with
  | nil => simp [firstDup]
  | cons x rest ih =>
    simp only [firstDup, List.nodup_cons]
    by_cases h : rest.contains x
    · simp only [h, if_true]
      constructor
      · intro h'; cases h'
      · intro ⟨hn, _⟩; exact absurd (List.contains_iff_mem.1 h) hn
    · simp only [h, Bool.false_eq_true, if_false, ih]
      constructor
      · intro hr; exact ⟨fun hm => h (List.contains_iff_mem.2 hm), hr⟩
      · intro ⟨_, hr⟩; exact hr

theorem firstDup_some {l : List String} {x : String} (h : firstDup l = some x) :
    2 ≤ l.count x := by
  induction l with
  | nil => simp [firstDup] at h
  | cons y rest ih =>
    simp only [firstDup] at h
    by_cases hc : rest.contains y
    · simp only [hc, if_true, Option.some.injEq] at h
      subst h
      have : 1 ≤ rest.count y := List.count_pos_iff.2 (List.contains_iff_mem.1 hc)
      simp only [List.count_cons_self]; omega
    · simp only [hc, Bool.false_eq_true, if_false] at h
      have := ih h
      rw [List.count_cons]; omega

/-- (C14-sem) MAIN: the semantic checks pass exactly on the grammars that satisfy the property's clauses -/
theorem C14_semCheck_iff (g : Grammar) (imports : List String) (hk : KindsOk g) (hres : NoReserved g) :
    semCheck g imports = .ok () ↔ SemWF g imports := by
  unfold semCheck
  unfold NoReserved at hres
  simp only [hres.1, hres.2]
  constructor
  · intro h
    simp only [bind, Except.bind, pure, Except.pure, throw, throwThe, MonadExceptOf.throw] at h
    split at h
    · cases h
    rename_i hd
    split at h
    · cases h
    rename_i he
    split at h
    · cases h
    rename_i hu
    split at h
    · cases h
    rename_i hr
    refine ⟨firstDup_none.1 hd, ?_, ?_, ?_⟩
    · intro p hp hb
      have := List.find?_eq_none.1 he p hp
      simp [hb] at this
    · intro p hp s hs hkd
      have := List.find?_eq_none.1 hu s (List.mem_flatMap.2 ⟨p, hp, hs⟩)
      obtain ⟨k1, k2, k3⟩ := hk p hp s hs hkd
      simp only [undefinedUse, hkd, beq_self_eq_true, Bool.true_and, Bool.and_eq_true, bne_iff_ne, ne_eq,
        Bool.not_eq_true', not_and, Bool.not_eq_true] at this
      by_cases hc : (synDefs g).contains s.name
      · have hm := List.contains_iff_mem.1 hc
        unfold synDefs at hm
        rcases List.mem_append.1 hm with h1 | h1
        · exact absurd h1 k1
        · exact h1
      · have h1 : ((synDefs g).contains s.name = false ∧ ¬s.name = "empty") := ⟨by simpa using hc, k2⟩
        exact absurd (this h1) (by simpa using k3)
    · intro p hp r hr'
      have := List.find?_eq_none.1 hr (r, p.id)
        (List.mem_flatMap.2 ⟨p, hp, List.mem_map.2 ⟨r, hr', rfl⟩⟩)
      simp only [Bool.and_eq_true, Bool.not_eq_true', not_and, Bool.not_eq_false] at this
      by_cases hc : (regDefIds g).contains r
      · exact Or.inl (List.contains_iff_mem.1 hc)
      · exact Or.inr (List.contains_iff_mem.1 (this (by simpa using hc)))
  · intro ⟨hd, he, hu, hr⟩
    have h1 : firstDup (g.lex.map (·.id)) = none := firstDup_none.2 hd
    have h2 : g.syn.find? (fun p => p.body.isEmpty) = none := by
      apply List.find?_eq_none.2
      intro p hp
      have := he p hp
      simp [this]
    have h3 : (g.syn.flatMap (·.body)).find? (undefinedUse g) = none := by
      apply List.find?_eq_none.2
      intro s hs
      obtain ⟨p, hp, hs⟩ := List.mem_flatMap.1 hs
      by_cases hkd : s.kind = .prodId
      · have hm : s.name ∈ synDefs g := by
          unfold synDefs; exact List.mem_append.2 (Or.inr (hu p hp s hs hkd))
        simp only [undefinedUse]
        simp [hm]
      · simp [undefinedUse, hkd]
    have h4 : (g.lex.flatMap fun p => p.pat.refs.map fun r => (r, p.id)).find?
        (fun x => !(regDefIds g).contains x.1 && !imports.contains x.1) = none := by
      apply List.find?_eq_none.2
      intro x hx
      obtain ⟨p, hp, hx⟩ := List.mem_flatMap.1 hx
      obtain ⟨r, hr', rfl⟩ := List.mem_map.1 hx
      rcases hr p hp r hr' with h | h
      · simp [h]
      · simp [h]
    simp only [h1, h2, h3, h4, pure, Except.pure]

/-- the executable oracle of the check agrees with the model on everything the front end can produce -/
theorem C14_semCheck_iff_oracle (g : Grammar) (imports : List String) (hk : KindsOk g) (hres : NoReserved g) :
    semCheck g imports = .ok () ↔ semWFb g imports = true :=
  (C14_semCheck_iff g imports hk hres).trans (semWFb_iff g imports).symm

/-- a reserved-name clash is always refused (whatever else is wrong with the file, something is reported) -/
theorem C14_semCheck_reserved (g : Grammar) (imports : List String) (h : ¬ NoReserved g) :
    semCheck g imports ≠ .ok () := by
  unfold NoReserved at h
  unfold semCheck
  simp only [bind, Except.bind, pure, Except.pure, throw, throwThe, MonadExceptOf.throw]
  split
  · intro h'; cases h'
  split
  · intro h'; cases h'
  cases hr : reservedUse g with
  | some n => simp
  | none =>
    cases hr2 : reservedTok g with
    | some n => simp
    | none => exact absurd ⟨hr, hr2⟩ h

/-- each reported error has a culprit in the grammar -/
theorem C14_semCheck_culprit {g : Grammar} {im : List String} {e : SemErr}
    (h : semCheck g im = .error e) :
    match e with
    | .dupDef id => 2 ≤ (g.lex.map (·.id)).count id
    | .emptyAlt hd => ∃ p ∈ g.syn, p.head = hd ∧ p.body = []
    | .undefinedProd s => ∃ p ∈ g.syn, ∃ x ∈ p.body, x.kind = .prodId ∧ x.name = s ∧ s ∉ g.syn.map (·.head)
    | .undefinedRegDef r user => ∃ p ∈ g.lex, p.id = user ∧ r ∈ p.pat.refs ∧ r ∉ regDefIds g ∧ r ∉ im
    | .reserved _ => ¬ NoReserved g := by
  unfold semCheck at h
  simp only [bind, Except.bind, pure, Except.pure, throw, throwThe, MonadExceptOf.throw] at h
  split at h
  · rename_i id hf
    cases h
    exact firstDup_some hf
  split at h
  · rename_i p hf
    cases h
    have := List.find?_some hf
    exact ⟨p, List.mem_of_find?_eq_some hf, rfl, by simpa using this⟩
  split at h
  · rename_i n hf
    cases h
    show ¬ NoReserved g
    unfold NoReserved
    rw [hf]; intro h'; cases h'.1
  split at h
  · rename_i n hf
    cases h
    show ¬ NoReserved g
    unfold NoReserved
    rw [hf]; intro h'; cases h'.2
  split at h
  · rename_i s hf
    cases h
    have hs := List.mem_of_find?_eq_some hf
    obtain ⟨p, hp, hs⟩ := List.mem_flatMap.1 hs
    have := List.find?_some hf
    simp only [undefinedUse, Bool.and_eq_true, bne_iff_ne, ne_eq, Bool.not_eq_true', beq_iff_eq] at this
    refine ⟨p, hp, s, hs, this.1.1.1, rfl, ?_⟩
    intro hm
    have : s.name ∈ synDefs g := by unfold synDefs; exact List.mem_append.2 (Or.inr hm)
    have := List.contains_iff_mem.2 this
    simp_all
  split at h
  · rename_i x hf
    cases h
    have hs := List.mem_of_find?_eq_some hf
    obtain ⟨p, hp, hx⟩ := List.mem_flatMap.1 hs
    obtain ⟨r, hr, rfl⟩ := List.mem_map.1 hx
    have := List.find?_some hf
    simp only [Bool.and_eq_true, Bool.not_eq_true'] at this
    refine ⟨p, hp, rfl, hr, ?_, ?_⟩
    · intro hm; have := List.contains_iff_mem.2 hm; simp_all
    · intro hm; have := List.contains_iff_mem.2 hm; simp_all
  · cases h

/-! ### Non-vacuity -/
namespace C14SemEx
instance : DecidableEq (Except SemErr Unit) := fun a b =>
  match a, b with
  | .ok (), .ok () => isTrue rfl
  | .error x, .error y => if h : x = y then isTrue (by rw [h]) else isFalse (by intro h'; cases h'; exact h rfl)
  | .ok (), .error _ => isFalse (by intro h; cases h)
  | .error _, .ok () => isFalse (by intro h; cases h)
def lex : List LProd := [
  { kind := .reg, id := "_d", pat := .mk [.mk [.rng 48 57]] },
  { kind := .tok, id := "num", pat := .mk [.mk [.ref "_d", .rep (.mk [.mk [.ref "_d"]])]] },
  { kind := .ign, id := "!ws", pat := .mk [.mk [.lit 32]] } ]
def syn : List SProd := [
  { head := "E", body := [⟨.prodId, "E"⟩, ⟨.strLit, "+"⟩, ⟨.tokId, "num"⟩] },
  { head := "E", body := [⟨.tokId, "num"⟩] },
  { head := "E", body := [⟨.tokId, "undeclared_token"⟩] } ]   -- a warning only, as in gocc
def good : Grammar := { lex := lex, syn := syn }
example : KindsOk good := by decide
example : semCheck good = .ok () := by decide
example : NoReserved good := by decide
example : SemWF good [] := (C14_semCheck_iff good [] (by decide) (by decide)).1 (by decide)
/-- reference renaming, also to a name whose capital is not ASCII (defect D14) -/
example : semCheck { good with syn := syn ++ [{ head := "E", body := [⟨.prodId, "Undefined9"⟩] }] }
    = .error (.undefinedProd "Undefined9") := by decide
example : semCheck { good with syn := syn ++ [{ head := "E", body := [⟨.prodId, "Äb"⟩] }] }
    = .error (.undefinedProd "Äb") := by decide
example : semWFb { good with syn := syn ++ [{ head := "E", body := [⟨.prodId, "Äb"⟩] }] } = false := by decide
example : semCheck { good with lex := lex ++ [{ kind := .tok, id := "x", pat := .mk [.mk [.opt (.mk [.mk [.ref "_u"]])]] }] }
    = .error (.undefinedRegDef "_u" "x") := by decide
/-- … unless imported -/
example : semCheck { good with lex := lex ++ [{ kind := .tok, id := "x", pat := .mk [.mk [.ref "_u"]] }] } ["_u"]
    = .ok () := by decide
/-- definition duplication, of each kind -/
example : semCheck { good with lex := lex ++ [lex[0]!] } = .error (.dupDef "_d") := by decide
example : semCheck { good with lex := lex ++ [lex[1]!] } = .error (.dupDef "num") := by decide
example : semCheck { good with lex := lex ++ [lex[2]!] } = .error (.dupDef "!ws") := by decide
/-- reserved spellings (fix D15): refused with their own error -/
example : semCheck { good with syn := syn ++ [{ head := "E", body := [⟨.strLit, "INVALID"⟩] }] } = .error (.reserved "INVALID") := by decide
example : semCheck { good with syn := syn ++ [{ head := "E", body := [⟨.strLit, "␚"⟩, ⟨.tokId, "num"⟩] }] } = .error (.reserved "␚") := by decide
example : semCheck { good with syn := syn ++ [{ head := "INVALID", body := [⟨.tokId, "num"⟩] }] } = .error (.reserved "INVALID") := by decide
/-- a string literal spelled like a production declared LATER -/
example : semCheck { good with syn := [{ head := "A", body := [⟨.strLit, "B"⟩, ⟨.prodId, "B"⟩] }, { head := "B", body := [⟨.tokId, "num"⟩] }] }
    = .error (.reserved "B") := by decide
example : semCheck { good with syn := syn ++ [{ head := "E", body := [⟨.tokId, "num"⟩, ⟨.tokId, "empty"⟩] }] } = .error (.reserved "empty") := by decide
/-- `empty` alone, and the string literals "empty" / "error" (gocc's own grammar uses them), are not refused -/
example : semCheck { good with syn := syn ++ [{ head := "E", body := [⟨.tokId, "empty"⟩] }, { head := "E", body := [⟨.strLit, "error"⟩, ⟨.strLit, "empty"⟩] }] } = .ok () := by decide
/-- a string literal spelled like a token id, a lexical production called `error` (fix D21) -/
example : semCheck { good with syn := syn ++ [{ head := "E", body := [⟨.strLit, "num"⟩] }] } = .error (.reserved "num") := by decide
example : semCheck { good with lex := lex ++ [{ kind := .tok, id := "error", pat := .mk [.mk [.lit 101]] }] } = .error (.reserved "error") := by decide
/-- emptied alternative -/
example : semCheck { good with syn := syn ++ [{ head := "E", body := [] }] } = .error (.emptyAlt "E") := by decide
/-- `KindsOk` is needed: a "production name" spelled like a token id is found among `defs` by `consistent` -/
example : semCheck { good with syn := syn ++ [{ head := "E", body := [⟨.prodId, "num"⟩] }] } = .ok () ∧
    semWFb { good with syn := syn ++ [{ head := "E", body := [⟨.prodId, "num"⟩] }] } = false := by decide
end C14SemEx

end Gocc
