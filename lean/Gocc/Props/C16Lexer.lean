import Gocc.Proofs.Scan
/-
C16 (lexer half) — after `Reset` a lexer behaves like a freshly created one.

Quantifier: all tables `T`, all sources `src`, all cursors `st` (whatever was scanned
before), all numbers `k` of subsequent calls.  No hypothesis on the tables.

Why it is immediate: the only state of the lexer that `Scan` reads or writes is the cursor
`⟨pos, line, column⟩` (`src` and the tables are immutable), and `LexSt.reset` — the model of
`Lexer.Reset` after the D4 fix — restores all three fields to the values `NewLexer` sets
(`⟨0, 1, 1⟩`).  So `st.reset` and `newLexer` are the same value and every function of them
agrees.  (Before the fix `Reset` set only `pos = 0`; then the tokens were the same but
their line/column were offset by what had been scanned before.)
-/
namespace Gocc

/-- `Reset` restores all three cursor fields -/
theorem C16_lexer_reset_state (st : LexSt) : st.reset = newLexer := rfl

/-- after `Reset` the lexer returns the same tokens, with the same positions, as a new lexer
    on the same source -/
theorem C16_lexer_reset (T : LexTables) (src : List Nat) (st : LexSt) (k : Nat) :
    scanN T src k st.reset = scanN T src k newLexer := rfl

/-- ... and leaves the same cursor behind after any number of calls -/
theorem C16_lexer_reset_cursor (T : LexTables) (src : List Nat) (st : LexSt) (k : Nat) :
    scanStatesFrom T src st.reset k = scanStates T src k := rfl

/-- the statement is not void: a used lexer differs from a new one, and resetting only the
    offset (the behaviour before the fix) would not give the tokens of a new lexer -/
example : (⟨5, 2, 3⟩ : LexSt) ≠ newLexer := by decide

example : (⟨5, 2, 3⟩ : LexSt).reset = newLexer := rfl

example :
    scanN ⟨fun s r => if s = 0 ∧ r = 97 then 1 else -1, fun s => if s = 1 then 2 else 0, fun _ => false⟩
      [97] 1 ⟨0, 2, 3⟩ ≠
    scanN ⟨fun s r => if s = 0 ∧ r = 97 then 1 else -1, fun s => if s = 1 then 2 else 0, fun _ => false⟩
      [97] 1 newLexer := by
  rw [scanN_eq_scanNF, scanN_eq_scanNF]; decide

end Gocc
