import Gocc.Proofs.EmovesUniverse
import Gocc.Props.C09
/-
C09 (C), completed: the lexer-side ε-closure `emoves` (model of `Item.Emoves()`,
internal/lexer/items/item.go) is never cut by its fuel.

`C09_emoves_complete_partial` (Props/C09.lean) needed a finite `emoveStep`-closed universe `U` with
`1 + |U| * (D + 1) ≤ (C.fuel + 2)^2`, supplied by the caller.  Proofs/EmovesUniverse.lean constructs
it for an ARBITRARY `LexCtx` and an ARBITRARY start item `i`:
    U = i :: all dotted positions of the pattern tree of production `i.prod`
        (paths `q ++ [j]`, node at `q` exists, `j ≤ len`),         |U| ≤ 2 * size
    D = size            (a node has at most `size - 1` children, the step adds at most one item)
where `size = (C.prods[i.prod]).pat.size`; since `C.fuel ≥ 4 * size + 12`,
    1 + 2 size (size + 1)  ≤  (4 size + 14)^2  ≤  (C.fuel + 2)^2 .
So the statements below have NO hypothesis on `C` or on the start item: a start item that is not a
position of the tree (bad production index, path leaving the tree, position beyond the end) either
has no successors or only successors that are proper positions.
-/
namespace Gocc

/-- COMPLETENESS, unconditional: `emoves C i` contains every basic item that is ε-reachable from `i`
    (`EReach`: by `emoveStep` through non-basic items) — the fuel `(C.fuel + 2)^2` of the model is
    never exhausted, i.e. the model computes what the unbounded Go loop computes. -/
theorem C09_emoves_complete (C : LexCtx) (i : LItem) :
    ∀ y, EReach C i y → C.isBasic y = true → y ∈ emoves C i :=
  EmovesU.emoves_complete C i

/-- SOUNDNESS: `emoves C i` contains only basic items ε-reachable from `i`. -/
theorem C09_emoves_sound (C : LexCtx) (i : LItem) :
    ∀ y ∈ emoves C i, EReach C i y ∧ C.isBasic y = true :=
  EmovesU.emoves_sound C i

/-- exact characterisation of the result (as a set) -/
theorem C09_emoves_iff (C : LexCtx) (i y : LItem) :
    y ∈ emoves C i ↔ EReach C i y ∧ C.isBasic y = true :=
  EmovesU.mem_emoves_iff C i y

/-- `NewItem(id).Emoves()` (used by `initialItems`, `itemsSet0`).  No `k < C.prods.size` needed. -/
theorem C09_emoves_start_complete (C : LexCtx) (k : Nat) :
    ∀ y, EReach C ⟨k, [0]⟩ y → C.isBasic y = true → y ∈ emoves C ⟨k, [0]⟩ :=
  C09_emoves_complete C ⟨k, [0]⟩

/-- `Item.Move…()` = `emoves` of the item after the dot has moved over the expected symbol
    (used by `moveOn`, `moveDot`, `moveRef`) -/
theorem C09_emoves_moved_complete (C : LexCtx) (j : LItem) :
    ∀ y, EReach C { j with path := incLast j.path } y → C.isBasic y = true → y ∈ moved C j :=
  C09_emoves_complete C _

theorem C09_emoves_moved_iff (C : LexCtx) (j y : LItem) :
    y ∈ moved C j ↔ EReach C { j with path := incLast j.path } y ∧ C.isBasic y = true :=
  C09_emoves_iff C _ y

/-! ### Non-vacuity -/

/-- Bool check of an explicit ε-path `x → l[0] → l[1] → …` -/
def c09eChain (C : LexCtx) : LItem → List LItem → Bool
  | _, [] => true
  | x, y :: rest => !C.isBasic x && (emoveStep C x).contains y && c09eChain C y rest

theorem c09eChain_reach {C : LexCtx} {s : LItem} : ∀ (l : List LItem) (x : LItem),
    EReach C s x → c09eChain C x l = true → EReach C s ((x :: l).getLast (by simp))
  | [], x, h, _ => by simpa using h
  | y :: rest, x, h, hc => by
    simp only [c09eChain, Bool.and_eq_true, Bool.not_eq_eq_eq_not, Bool.not_true] at hc
    have hy : y ∈ emoveStep C x := by simpa using hc.1.2
    have := c09eChain_reach rest y (EReach.step h hc.1.1 hy) hc.2
    simpa using this

/-! #### 1. `t : { 'a' | [ 'b' ] } ;` (`c09LexC`): no universe supplied any more -/

example : ∀ y, EReach c09LexC ⟨0, [0]⟩ y → c09LexC.isBasic y = true → y ∈ emoves c09LexC ⟨0, [0]⟩ :=
  C09_emoves_start_complete c09LexC 0

/-- the hypotheses are satisfiable: `t : { 'a' | [ •'b' ] }` is basic and ε-reachable from `t : •…`
    (through pat, alt, `{ }`, alt, `[ ]`) … -/
theorem c09e_reach_b : EReach c09LexC ⟨0, [0]⟩ ⟨0, [0, 0, 1, 0, 0, 0]⟩ ∧
    c09LexC.isBasic ⟨0, [0, 0, 1, 0, 0, 0]⟩ = true :=
  ⟨c09eChain_reach [⟨0, [0, 0]⟩, ⟨0, [0, 0, 0]⟩, ⟨0, [0, 0, 1, 0]⟩, ⟨0, [0, 0, 1, 0, 0]⟩,
      ⟨0, [0, 0, 1, 0, 0, 0]⟩] _ .refl (by decide), by decide⟩

/-- … so the theorem puts it in the result (and the computed result agrees) -/
example : (⟨0, [0, 0, 1, 0, 0, 0]⟩ : LItem) ∈ emoves c09LexC ⟨0, [0]⟩ :=
  C09_emoves_complete _ _ _ c09e_reach_b.1 c09e_reach_b.2

/-- the ε-cycle that the visited set cuts: from the `{ }` node at its end position `[0,0,2]` through
    the nullable alternative `[ 'b' ]` back to `[0,0,2]` in five steps -/
example : c09eChain c09LexC ⟨0, [0, 0, 2]⟩ [⟨0, [0, 0, 1, 0]⟩, ⟨0, [0, 0, 1, 0, 0]⟩,
    ⟨0, [0, 0, 1, 1]⟩, ⟨0, [0, 0, 2]⟩] = true := by decide

/-- a start item produced by `Move`: after `'a'` (item `[0,0,0,0]` moved to `[0,0,0,1]`) the closure
    goes round the repetition: end of `t`, `'b'`, `'a'` again -/
example : moved c09LexC ⟨0, [0, 0, 0, 0]⟩ = [⟨0, [1]⟩, ⟨0, [0, 0, 1, 0, 0, 0]⟩, ⟨0, [0, 0, 0, 0]⟩] := by
  decide

example : (⟨0, [1]⟩ : LItem) ∈ moved c09LexC ⟨0, [0, 0, 0, 0]⟩ :=
  C09_emoves_moved_complete _ _ _
    (c09eChain_reach [⟨0, [0, 0, 2]⟩, ⟨0, [0, 1]⟩, ⟨0, [1]⟩] _ .refl (by decide)) (by decide)

/-- soundness used the other way round: a non-basic position is not returned -/
example : (⟨0, [0, 0, 1, 1]⟩ : LItem) ∉ emoves c09LexC ⟨0, [0]⟩ :=
  fun h => absurd (C09_emoves_sound _ _ _ h).2 (by decide)

/-- start items outside the tree are covered too (the statement has no well-formedness hypothesis):
    unknown production, and a position beyond the end of a `[ ]` node -/
example : emoves c09LexC ⟨7, [0]⟩ = [] ∧
    emoves c09LexC ⟨0, [0, 0, 1, 0, 5]⟩ = [⟨0, [1]⟩, ⟨0, [0, 0, 1, 0, 0, 0]⟩, ⟨0, [0, 0, 0, 0]⟩] := by
  decide

/-! #### 2. nesting depth 4, mixing `( )`, `{ }`, `[ ]`, alternatives, a regdef reference
```
u  : 'x' ( 'a' | { [ 'b' | ( 'c' | _r ) ] 'e' | [ 'f' ] } ) [ 'z' ] | . ;
_r : 'q' { 'q' } ;
```
-/

def c09eLexC : LexCtx :=
  { prods := #[
      { kind := .tok, id := "u",
        pat := .mk [
          .mk [.lit 120,
               .grp (.mk [
                 .mk [.lit 97],
                 .mk [.rep (.mk [
                   .mk [.opt (.mk [.mk [.lit 98], .mk [.grp (.mk [.mk [.lit 99], .mk [.ref "_r"]])]]),
                        .lit 101],
                   .mk [.opt (.mk [.mk [.lit 102]])]])]]),
               .opt (.mk [.mk [.lit 122]])],
          .mk [.dot]] },
      { kind := .reg, id := "_r", pat := .mk [.mk [.lit 113, .rep (.mk [.mk [.lit 113]])]] }] }

/-- the universe the proof builds for production `u` (46 positions + the start item) and the
    numbers in the fuel inequality: `1 + |U| * (D + 1) = 1 + 47 * 35 ≤ (C.fuel + 2)^2 = 182^2` -/
example : (EmovesU.univ c09eLexC 0).length = 46 ∧ EmovesU.univD c09eLexC 0 = 34 ∧
    c09eLexC.fuel = 180 := by decide

example : emoves c09eLexC ⟨0, [0]⟩ = [⟨0, [1, 0]⟩, ⟨0, [0, 0]⟩] := by decide

/-- after `'x'`: into the group, both alternatives, the repetition (its body and its exit),
    the option in front of `'e'` with its nested group, the nullable second alternative, … -/
theorem c09e_after_x : moved c09eLexC ⟨0, [0, 0]⟩ =
    [⟨0, [2]⟩,                                  -- end of u
     ⟨0, [0, 2, 0, 0]⟩,                         -- 'z'
     ⟨0, [0, 1, 1, 0, 0, 1]⟩,                   -- 'e'
     ⟨0, [0, 1, 1, 0, 0, 0, 1, 0, 1, 0]⟩,       -- _r
     ⟨0, [0, 1, 1, 0, 0, 0, 1, 0, 0, 0]⟩,       -- 'c'
     ⟨0, [0, 1, 1, 0, 0, 0, 0, 0]⟩,             -- 'b'
     ⟨0, [0, 1, 1, 0, 1, 0, 0, 0]⟩,             -- 'f'
     ⟨0, [0, 1, 0, 0]⟩] := by decide            -- 'a'

example : ∀ y, EReach c09eLexC ⟨0, [0, 1]⟩ y → c09eLexC.isBasic y = true →
    y ∈ moved c09eLexC ⟨0, [0, 0]⟩ :=
  C09_emoves_moved_complete c09eLexC ⟨0, [0, 0]⟩

/-- the deepest item (`_r` inside `( )` inside `[ ]` inside `{ }` inside `( )`) is reachable … -/
theorem c09e_reach_r : EReach c09eLexC ⟨0, [0, 1]⟩ ⟨0, [0, 1, 1, 0, 0, 0, 1, 0, 1, 0]⟩ :=
  c09eChain_reach [⟨0, [0, 1, 0]⟩, ⟨0, [0, 1, 1, 0]⟩, ⟨0, [0, 1, 1, 0, 0]⟩, ⟨0, [0, 1, 1, 0, 0, 0]⟩,
    ⟨0, [0, 1, 1, 0, 0, 0, 0]⟩, ⟨0, [0, 1, 1, 0, 0, 0, 1, 0]⟩, ⟨0, [0, 1, 1, 0, 0, 0, 1, 0, 0]⟩,
    ⟨0, [0, 1, 1, 0, 0, 0, 1, 0, 1, 0]⟩] _ .refl (by decide)

/-- … hence returned, by the theorem -/
example : (⟨0, [0, 1, 1, 0, 0, 0, 1, 0, 1, 0]⟩ : LItem) ∈ moved c09eLexC ⟨0, [0, 0]⟩ :=
  C09_emoves_moved_complete _ _ _ c09e_reach_r (by decide)

/-- the exit through the nullable alternative `[ 'f' ]` of the repetition reaches the end of `u`
    (pop out of `[ ]`, alt end, `{ }` end, alt end, `( )` end, skip `[ 'z' ]`, alt end → pat end) -/
example : (⟨0, [2]⟩ : LItem) ∈ emoves c09eLexC ⟨0, [0, 1, 1, 0, 1, 0, 0]⟩ :=
  C09_emoves_complete _ _ _
    (c09eChain_reach [⟨0, [0, 1, 1, 0, 1, 1]⟩, ⟨0, [0, 1, 1, 0, 2]⟩, ⟨0, [0, 1, 1, 1]⟩, ⟨0, [0, 1, 2]⟩,
      ⟨0, [0, 2]⟩, ⟨0, [0, 2, 0]⟩, ⟨0, [0, 3]⟩, ⟨0, [2]⟩] _ .refl (by decide)) (by decide)

/-- the second production (`_r : 'q' { 'q' }`) -/
example : emoves c09eLexC ⟨1, [0]⟩ = [⟨1, [0, 0]⟩] ∧
    moved c09eLexC ⟨1, [0, 0]⟩ = [⟨1, [1]⟩, ⟨1, [0, 1, 0, 0]⟩] := by decide

end Gocc
