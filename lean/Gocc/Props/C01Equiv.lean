import Gocc.Proofs.LexEquiv
/-
C01 (tie between the halves) — the verified equivalence checker.

`M : MDfa` is the automaton of the generator model (states of `genLexer` with their
(Accept, isIgnore) pairs), `R : RDfa` the reference automaton (`refDfa`) with the pairs of its
states; `M.tables` / `R.tables` are the `LexTables` the `Scan` model runs with
(Gocc/Model/LexEquiv.lean).  `equivCheck M R` is an executable Boolean: the classes of `M`
respect the elementary intervals of `R` (`boundsOk`) and the product walk from `(0, 0)` over the
interval starts closes without finding a difference.

Quantifier of the main statement: all `M`, all `R` (no well-formedness assumed: ill-formed
inputs are either rejected or the conclusion holds anyway), all byte lists `src`, all cursors `st`.

Runes: `Bisim` quantifies over all `r : Int`, but only the results of `utf8.DecodeRune` are ever
fed to the tables; `BisimOn P` restricts the transition clauses to runes satisfying `P`.  The
checker establishes `BisimOn IsRune` (`0 ≤ r ≤ 0x10FFFF`): the upper bound is needed because a
class ending at `0x10FFFF` has no interval start after it (`elemStarts` keeps starts `≤ 0x10FFFF`).
-/
namespace Gocc

/-- `DecodeRune` returns a rune in `[0, 0x10FFFF]` -/
theorem C01_decodeRune_isRune (l : List Nat) : IsRune (decodeRune l).1 :=
  decodeRune_isRune l

/-- (E') tables bisimilar on the non-negative runes: every call of `Scan` returns the same token
    and leaves the same cursor -/
theorem C01_bisimOn_scan_eq {T1 T2 : LexTables} {R : Nat → Nat → Prop}
    (h : BisimOn (fun r => 0 ≤ r) T1 T2 R) (src : List Nat) (st : LexSt) :
    scan T1 src st = scan T2 src st :=
  bisimOn_scan_eq h src st

/-- (E') the same for tables bisimilar on `[0, 0x10FFFF]` only -/
theorem C01_bisimOn_rune_scan_eq {T1 T2 : LexTables} {R : Nat → Nat → Prop}
    (h : BisimOn IsRune T1 T2 R) (src : List Nat) (st : LexSt) :
    scan T1 src st = scan T2 src st :=
  bisimOn_rune_scan_eq h src st

/-- (E') general form: any set of runes containing every result of `DecodeRune` -/
theorem C01_bisimOn_scan_eq_of {P : Int → Prop} (hP : ∀ l, P (decodeRune l).1)
    {T1 T2 : LexTables} {R : Nat → Nat → Prop} (h : BisimOn P T1 T2 R)
    (src : List Nat) (st : LexSt) : scan T1 src st = scan T2 src st :=
  bisimOn_scan_eq_of hP h src st

/-- `Bisim` is `BisimOn` for all runes -/
theorem C01_bisim_iff_bisimOn {T1 T2 : LexTables} {R : Nat → Nat → Prop} :
    Bisim T1 T2 R ↔ BisimOn (fun _ => True) T1 T2 R :=
  ⟨fun h => h.on _, fun h => ⟨h.start, h.act, fun a b r => h.dead a b r trivial,
    fun a b r => h.live a b r trivial⟩⟩

/-- `M.tables.trans` is, verbatim, the transition function of `Gocc.Driver.lexTablesOf`
    (class lookup first, then the `.` fallback when `matchAny`, else `-1`) -/
theorem C01_mdfa_tables_trans (M : MDfa) (s : Nat) (r : Int) : M.tables.trans s r =
    (match M.states[s]? with
      | none => -1
      | some st =>
        match (st.classes.zip st.trans).find? (fun (c, _) => c.lo ≤ r && r ≤ c.hi) with
        | some (_, t) => t
        | none => if st.matchAny then st.dotTrans else -1) :=
  M.tables_trans_eq_driver s r

/-- (F1) interval uniformity: under `boundsOk` every rune `r` in `[0, 0x10FFFF]` has an interval
    start `c` (the greatest start `≤ r`, which for the strictly increasing `starts` is
    `starts[elemIndex starts r]`, the next start being `> r`) on which both automata behave as on `r` -/
theorem C01_interval_uniform {M : MDfa} {R : RDfa} (hb : boundsOk M R.dfa.starts = true)
    {r : Int} (hr : IsRune r) :
    ∃ c, c ∈ R.dfa.starts ∧ c ≤ r ∧ (∀ s ∈ R.dfa.starts, s ≤ r → s ≤ c) ∧
      R.dfa.starts[elemIndex R.dfa.starts r]? = some c ∧
      (∀ d, R.dfa.starts[elemIndex R.dfa.starts r + 1]? = some d → r < d) ∧
      (∀ m, M.tables.trans m r = M.tables.trans m c) ∧
      (∀ s, R.tables.trans s r = R.tables.trans s c) := by
  have hso : startsOk R.dfa.starts = true := by
    simp only [boundsOk, Bool.and_eq_true] at hb; exact hb.1
  have hinc : strictInc R.dfa.starts = true := by
    cases hst : R.dfa.starts with
    | nil => rw [hst] at hso; simp [startsOk] at hso
    | cons a rest =>
      rw [hst] at hso
      simp only [startsOk, Bool.and_eq_true] at hso
      exact hso.2
  obtain ⟨c, hc⟩ := exists_elemRep hso hr.1
  exact ⟨c, hc.1, hc.2.1, hc.2.2, elemRep_getElem? hinc hc, fun d hd => elemRep_next hinc hc hd,
    fun m => mdfa_trans_rep hb m hc hr.2, fun s => rdfa_trans_rep R s hc⟩

/-- (F2) closure of the walk: a successful walk from `(0, 0)` yields a finite set of pairs
    containing `(0, 0)` in which every pair has equal acts and, on every interval start, both
    sides dead or both live with non-negative targets whose pair is in the set again -/
theorem C01_walk_closed {TM TR : LexTables} {starts : List Int} {fuel : Nat}
    (h : eqWalk TM TR starts fuel [(0, 0)] [] = true) :
    ∃ S : List (Nat × Nat), (0, 0) ∈ S ∧ ∀ p ∈ S,
      (TM.accept p.1 = TR.accept p.2 ∧ TM.ignore p.1 = TR.ignore p.2) ∧
      ∀ c ∈ starts, (TM.trans p.1 c = -1 ↔ TR.trans p.2 c = -1) ∧
        (TM.trans p.1 c ≠ -1 → 0 ≤ TM.trans p.1 c ∧ 0 ≤ TR.trans p.2 c ∧
          ((TM.trans p.1 c).toNat, (TR.trans p.2 c).toNat) ∈ S) :=
  eqWalk_sound h

/-- (F3) if the checker accepts, the generated tables and the reference tables are bisimilar on
    all runes -/
theorem C01_equivCheck_bisimOn {M : MDfa} {R : RDfa} (h : equivCheck M R = true) :
    ∃ Rel : Nat → Nat → Prop, BisimOn IsRune M.tables R.tables Rel :=
  equivCheck_bisimOn h

/-- (F) soundness of the checker: if it accepts, the automaton gocc generated (as mirrored by the
    model) and the reference automaton make `Scan` return the same token (type, literal,
    position) and leave the same cursor, on every byte string and from every cursor -/
theorem C01_equivCheck_sound {M : MDfa} {R : RDfa} (h : equivCheck M R = true)
    (src : List Nat) (st : LexSt) : scan M.tables src st = scan R.tables src st :=
  equivCheck_sound h src st

/-- (F) ... and so the token streams are identical -/
theorem C01_equivCheck_sound_scanN {M : MDfa} {R : RDfa} (h : equivCheck M R = true)
    (src : List Nat) (k : Nat) (st : LexSt) : scanN M.tables src k st = scanN R.tables src k st :=
  equivCheck_sound_scanN h src k st

/-! ### Non-vacuity: the lexer `x : 'a' 'b' ; !ws : ' ' ; y : 'a' . ;`
    (token types: INVALID 0, EOF 1, x 2, y 3)

    generated automaton: S0 -'a'-> S1, S0 -' '-> S2 (ignore), S1 -'b'-> S3 (x), S1 -.-> S4 (y)
    reference automaton: the same language with S3 and S4 numbered the other way round, over the
    elementary intervals [0,32) [32,33) [33,97) [97,98) [98,99) [99,∞) -/

def exM : MDfa where
  states := #[
    { items := [], classes := [⟨32, 32⟩, ⟨97, 97⟩], matchAny := false, trans := [2, 1] },
    { items := [], classes := [⟨98, 98⟩], matchAny := true, trans := [3], dotTrans := 4 },
    { items := [], classes := [], matchAny := false, trans := [] },
    { items := [], classes := [], matchAny := false, trans := [] },
    { items := [], classes := [], matchAny := false, trans := [] } ]
  acts := #[(0, false), (0, false), (-1, true), (2, false), (3, false)]

def exRef : RDfa where
  dfa := {
    states := #[[], [], [], [], []]
    starts := [0, 32, 33, 97, 98, 99]
    trans := #[
      [-1, 2, -1, 1, -1, -1],
      [3, 3, 3, 3, 4, 3],
      [-1, -1, -1, -1, -1, -1],
      [-1, -1, -1, -1, -1, -1],
      [-1, -1, -1, -1, -1, -1] ] }
  acts := #[(0, false), (0, false), (-1, true), (3, false), (2, false)]

example : equivCheck exM exRef = true := by decide

/-- hence the two automata scan every input alike, e.g. "ab a\xce\xbb" -/
example (src : List Nat) (k : Nat) :
    scanN exM.tables src k newLexer = scanN exRef.tables src k newLexer :=
  C01_equivCheck_sound_scanN (by decide) src k newLexer

example : scanN exRef.tables [97, 98, 32, 97, 0xCE, 0xBB] 3 newLexer =
    [ { typ := 2, litStart := 0, litEnd := 2, offset := 0, line := 1, col := 1 },
      { typ := 3, litStart := 3, litEnd := 6, offset := 3, line := 1, col := 4 },
      { typ := 1, litStart := 0, litEnd := 0, offset := 6, line := 1, col := 6 } ] := by
  rw [← C01_equivCheck_sound_scanN (M := exM) (R := exRef) (by decide), scanN_eq_scanNF]; decide

/-- negative: an act differs (reference state 4 accepts token 3 instead of 2) -/
def exRefBadAct : RDfa := { exRef with acts := #[(0, false), (0, false), (-1, true), (3, false), (3, false)] }
example : equivCheck exM exRefBadAct = false := by decide

/-- negative: a transition differs (the reference has no `.` fallback on the interval [33, 97)) -/
def exRefBadTrans : RDfa :=
  { exRef with dfa := { exRef.dfa with trans := exRef.dfa.trans.set! 1 [3, 3, -1, 3, 4, 3] } }
example : equivCheck exM exRefBadTrans = false := by decide

/-- negative: a class of the generated automaton does not respect the interval starts
    (`'b'-'c'` against starts without 100): rejected by `boundsOk` before any walk -/
def exBadState : LState :=
  { items := [], classes := [⟨98, 99⟩], matchAny := true, trans := [3], dotTrans := 4 }
def exMBadBounds : MDfa := { exM with states := exM.states.set! 1 exBadState }
example : boundsOk exMBadBounds exRef.dfa.starts = false := by decide
example : equivCheck exMBadBounds exRef = false := by decide

/-- negative: starts that are not strictly increasing from 0 are rejected -/
example : startsOk [0, 97, 97] = false ∧ startsOk [1, 2] = false ∧ startsOk [] = false := by decide

/-- and the difference the checker reports is real: on "ab" the two scans differ -/
example : (scan exM.tables [97, 98] newLexer).1.typ = 2 ∧
    (scan exRefBadAct.tables [97, 98] newLexer).1.typ = 3 := by
  rw [scan_eq_scanF, scan_eq_scanF]; decide

end Gocc
