import Gocc.Props.C02
/-
C03 — semantic actions: what a successful `Parse` returns, which actions it calls and in which
order; what happens when an action fails.

Hypotheses as in C02: validated tables (`safe`, `safeEnds`), no recovery state, no end-of-input
token inside `w`; `cfg` any harness configuration over the tables.

* `C03_result_is_tree_eval`: if Parse accepts (for ANY `failAt`; in particular `failAt = 0`),
  there is a parse tree `t` of the whole input (`t.wf G`, root = the start symbol, leaves = the
  tokens with their positions in the scanner's output) such that the returned value and the
  call log are `evalT T.prodKind t []`: post-order, kids left to right, each action once per
  node, a terminal's attribute is the token, an alternative without action yields its first
  symbol's attribute, an empty one nil (`Gocc/Spec/Eval.lean`).
* `C03_failing_action_stops` (any tables, no validator needed): with `failAt = k ≠ 0` the log
  has one entry per call, at most `k` calls are made, an action error is reported only for call
  `k` and carries the id of that call, and when `k` calls were made Parse has stopped there with
  that action error (or, for ill-formed tables only, a panic — see the next theorem).
* `C03_failing_action_is_reported` (validated tables): `k` calls were made iff the outcome is
  the action error.
* `C03_failing_run_is_prefix` (any tables): lock-step with the failure-free run — if that run
  makes at least `k` calls, the log of the failing run is exactly its first `k` entries
  (logs are most recent first, hence the reversals).
-/
namespace Gocc

/-- (C03-result) -/
theorem C03_result_is_tree_eval {G : NGrammar} {T : PTables} {cert : Cert}
    (hs : safe G T cert = true) (he : safeEnds T cert = true)
    (hr : ∀ s : Nat, T.canRecover[s]?.getD false = false)
    {w : List Nat} (hw : 1 ∉ w) {cfg : PCfg} (hT : cfg.T = T)
    {fuel : Nat} {old : PState} {r : Attr} {ps : PState}
    (h : parse cfg w fuel old = (Outcome.accept r, ps)) :
    ∃ t : PT, t.wf G ∧ G.body 0 = [t.sym G] ∧ t.yield = (List.range w.length).zip w ∧
      evalT T.prodKind t [] = some (r, ps.log) :=
  parse_accept (safeFacts_of hs he) hr hw hT h

/-- (C03-fail, part 1) -/
theorem C03_failing_action_stops {cfg : PCfg} {k : Nat} (hk : cfg.failAt = k) (hk0 : k ≠ 0)
    {w : List Nat} {fuel : Nat} {old : PState} {o : Outcome} {ps : PState}
    (h : parse cfg w fuel old = (o, ps)) :
    ps.log.length = ps.calls ∧ ps.calls ≤ k ∧
    (∀ id i t e s, o = Outcome.actErr id i t e s → ps.calls = k ∧ ps.log.head? = some id) ∧
    (ps.calls = k → (∃ id i t e s, o = Outcome.actErr id i t e s) ∨ ∃ why, o = Outcome.panic why) := by
  subst hk
  obtain ⟨h1, h2, h3⟩ := parseLoop_calls cfg w fuel _ rfl (Nat.pos_of_ne_zero hk0) o ps h
  have hcase : (∃ id i t e s, o = Outcome.actErr id i t e s) ∨ NotActErr o := by
    cases o with
    | actErr id i t e s => exact .inl ⟨_, _, _, _, _, rfl⟩
    | _ => exact .inr (by intro _ _ _ _ _ h; cases h)
  refine ⟨h1, ?_, h2, ?_⟩
  · rcases hcase with ⟨_, _, _, _, _, hc⟩ | hc
    · exact Nat.le_of_eq (h2 _ _ _ _ _ hc).1
    · rcases h3 hc with q | ⟨q, -⟩ <;> omega
  · intro hc
    rcases hcase with hc' | hc'
    · exact .inl hc'
    · rcases h3 hc' with q | ⟨-, q⟩
      · omega
      · exact .inr q

/-- (C03-fail, validated tables) the failing call is reported as an action error -/
theorem C03_failing_action_is_reported {G : NGrammar} {T : PTables} {cert : Cert}
    (hs : safe G T cert = true) (he : safeEnds T cert = true)
    (hr : ∀ s : Nat, T.canRecover[s]?.getD false = false)
    {w : List Nat} (hw : 1 ∉ w) {cfg : PCfg} (hT : cfg.T = T) {k : Nat} (hk : cfg.failAt = k)
    (hk0 : k ≠ 0) {fuel : Nat} {old : PState} {o : Outcome} {ps : PState}
    (h : parse cfg w fuel old = (o, ps)) :
    ps.calls = k ↔ ∃ id i t e s, o = Outcome.actErr id i t e s := by
  subst hk
  constructor
  · exact parseLoop_fail_actErr (safeFacts_of hs he) hr hw hT fuel _ (inv_init G T cert w)
      (Nat.pos_of_ne_zero hk0) o ps h
  · rintro ⟨id, i, t, e, s, ho⟩
    exact ((C03_failing_action_stops rfl hk0 h).2.2.1 _ _ _ _ _ ho).1

/-- (C03-fail, part 2: lock-step) -/
theorem C03_failing_run_is_prefix (cfg : PCfg) {k : Nat} (hk0 : k ≠ 0) (w : List Nat) (fuel : Nat)
    (old : PState) (h : k ≤ (parse { cfg with failAt := 0 } w fuel old).2.calls) :
    (parse { cfg with failAt := k } w fuel old).2.log =
      (((parse { cfg with failAt := 0 } w fuel old).2.log).reverse.take k).reverse := by
  have := parseLoop_lockstep cfg k w fuel
    { states := [0], attrs := [.nil], next := scanTok w 0, ntok := 1, log := [], calls := 0 }
    rfl (Nat.pos_of_ne_zero hk0) h
  simp only [parse]
  rw [List.take_reverse, List.reverse_reverse]
  exact this

/-! ### Non-vacuity (tables of `C02Ex`: `S' : S ; S : a S <<10>> | b <<11>>`) -/
namespace C03Ex
open C02Ex

/-- the tree of `a a b`, its evaluation, and the run of the model agree -/
example : ∃ t : PT, t.wf G ∧ G.body 0 = [t.sym G] ∧ t.yield = [(0, 2), (1, 2), (2, 3)] ∧
    evalT T.prodKind t [] =
      some (.node 10 [.tok 0 2, .node 10 [.tok 1 2, .node 11 [.tok 2 3]]], [10, 10, 11]) :=
  C03_result_is_tree_eval safe_ok safeEnds_ok noRecovery (w := [2, 2, 3]) (by decide) (cfg := cfg) rfl
    accepts

/-- the second call fails: action error with the id of that call, two log entries, which are the
    first two of the failure-free run (`accepts`: `[10, 10, 11]`, most recent first) -/
theorem fails : parse { cfg with failAt := 2 } [2, 2, 3] 20 default =
    (.actErr 10 3 1 [2, 3] 1,
      { states := [1, 0], attrs := [.tok 0 2, .nil], next := (3, 1), ntok := 4,
        log := [10, 11], calls := 2 }) := by
  rfl

example : (parse { cfg with failAt := 2 } [2, 2, 3] 20 default).2.log = [10, 11] :=
  (C03_failing_run_is_prefix cfg (k := 2) (by decide) [2, 2, 3] 20 default
    (by rw [show ({ cfg with failAt := 0 } : PCfg) = cfg from rfl, accepts]; decide)).trans
    (by rw [show ({ cfg with failAt := 0 } : PCfg) = cfg from rfl, accepts]; rfl)

end C03Ex

end Gocc
