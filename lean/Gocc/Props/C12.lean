import Gocc.Proofs.ActionFold
/-
C12 — the `-zip` encoding of an action-table row is lossless.

Object: `encodeRow` (generator side, `GenCompActionTable`: one `(Index, Action, Amount)` triple
per non-nil action of a row, in column order; Action 0 accept, 1 reduce, 2 shift) and `decodeRow`
(generated `init()`: the triples are written into a zero row of the given width), both in
Model/ActionFold.  The row itself is what is written as a Go literal without `-zip`.

Quantifier: all rows (any width, any state numbers / production indices).
-/
namespace Gocc

/-- (g) decoding the triples into a nil row of the same width gives back the row -/
theorem C12_zip_roundtrip (row : List (Option Act)) :
    decodeRow row.length (encodeRow row) = row :=
  decode_encodeRow row

/-- the general form: encoding from column `pre.length` on only touches the columns of `rest` -/
theorem C12_zip_roundtrip_from (pre rest : List (Option Act)) :
    (encodeRowFrom pre.length rest).foldl decodeStep
      (pre ++ List.replicate rest.length none) = pre ++ rest :=
  decode_encodeRowFrom rest pre

/-! ### non-vacuity -/

def exRow : List (Option Act) :=
  [none, some (.shift 3), none, none, some (.reduce 2), some .accept, none]

example : encodeRow exRow = [⟨1, 2, 3⟩, ⟨4, 1, 2⟩, ⟨5, 0, 0⟩] := by decide
example : decodeRow 7 [⟨1, 2, 3⟩, ⟨4, 1, 2⟩, ⟨5, 0, 0⟩] = exRow := by decide
example : decodeRow exRow.length (encodeRow exRow) = exRow := C12_zip_roundtrip exRow
/-- an all-nil row has no entries -/
example : encodeRow [none, none, none] = [] := by decide
example : decodeRow 3 [] = [none, none, none] := by decide
/-- the width matters: decoding into a narrower row drops entries (so the statement is not
    trivially true for every width) -/
example : decodeRow 4 (encodeRow exRow) ≠ exRow := by decide

end Gocc
