import Gocc.Proofs.Termination
/-
C09 — gocc always terminates: fuel adequacy of the two unbounded fixed-point loops of the parser
generator.

The Go loops `for again := true; again; { … }` in `first.GetFirstSets` and in
`items.ItemSet.Closure` have no iteration bound; the model (`Model/LR1.lean`) runs them on fuel
(`firstSets`: `|ntList| * (|typeMap| + 2) + 2` passes, `closure`: `maxItems + |items| + 1` steps).
The theorems below show that the fuel is never exhausted: both loops reach their own exit
condition, because a bounded measure strictly increases (FIRST: number of stored
(head, terminal) pairs ≤ `|ntList| * (|typeMap| + 1)`; closure: length of the duplicate-free work
list ≤ `|items| + |prods| * (|typeMap| + 1)` ≤ `maxItems + |items|`).

Hypotheses.
* `WFp S prods`: every production head is in `S.ntList` and every body symbol in `S.typeMap`;
  established by `NewSymbols` (`C09_newSymbols_WFp`), decidable.
* `WFc C items`: body symbols, FIRST-set elements and the look-aheads of the kernel `items` are
  in `"empty" :: C.S.typeMap`; holds for every closure `genParser` computes
  (`C09_genParser_init_WFc`, `C09_goto_WFc`), decidable.  The look-ahead clause is necessary:
  `C09_closure_la_hypothesis_needed` is a kernel with 34 foreign look-aheads whose closure the
  model's fuel truncates.
-/
namespace Gocc

/-! ### (A) FIRST sets -/

/-- `NewSymbols` followed by `Add(tokenIds)` yields a well-formed symbol table. -/
theorem C09_newSymbols_WFp {prods : List SProd} {S0 : PSymbols} (ids : List String)
    (h : newSymbols prods = .ok S0) : WFp (S0.addTokens ids) prods :=
  WFp_addTokens (newSymbols_WFp h) ids

/-- The result of `firstSets` is a fixed point: one more pass adds nothing, i.e. the Go loop
    `for again` has stopped by itself. -/
theorem C09_first_fixpoint {S : PSymbols} {prods : List SProd} (hW : WFp S prods) :
    (firstPass S prods (firstSets S prods)).2 = false := by
  unfold firstSets
  obtain ⟨n, _, _, _, h4, h5, _⟩ := firstSetsFuel_spec hW
    (S.ntList.length * (S.typeMap.length + 2) + 2) [] (FInv.nil S) (by
      have : S.ntList.length * (S.typeMap.length + 1) ≤ S.ntList.length * (S.typeMap.length + 2) :=
        Nat.mul_le_mul_left _ (by omega)
      simp only [fsSize, List.map_nil, List.sum_nil]
      omega)
  rw [h5]; exact h4

/-- Sharp form: the loop makes `n ≤ |ntList| * (|typeMap| + 1)` productive passes, pass `n+1`
    adds nothing, and `firstSets` is the state after those `n` passes. -/
theorem C09_first_terminates_sharp {S : PSymbols} {prods : List SProd} (hW : WFp S prods) :
    ∃ n, n ≤ S.ntList.length * (S.typeMap.length + 1) ∧
      (∀ k, k < n → (firstPass S prods (firstPassN S prods k [])).2 = true) ∧
      (firstPass S prods (firstPassN S prods n [])).2 = false ∧
      firstSets S prods = firstPassN S prods n [] := by
  unfold firstSets
  obtain ⟨n, h1, _, h3, h4, h5, _⟩ := firstSetsFuel_spec hW
    (S.ntList.length * (S.typeMap.length + 2) + 2) [] (FInv.nil S) (by
      have : S.ntList.length * (S.typeMap.length + 1) ≤ S.ntList.length * (S.typeMap.length + 2) :=
        Nat.mul_le_mul_left _ (by omega)
      simp only [fsSize, List.map_nil, List.sum_nil]
      omega)
  exact ⟨n, by simp only [fsSize, List.map_nil, List.sum_nil] at h1; omega, h3, h4, h5⟩

/-- The fuel `|ntList| * (|typeMap| + 2) + 2` is never exhausted: the first `n` passes each add
    something, pass `n + 1` adds nothing, and `n + 1` is at most the fuel minus one. -/
theorem C09_first_terminates {S : PSymbols} {prods : List SProd} (hW : WFp S prods) :
    ∃ n, n ≤ S.ntList.length * (S.typeMap.length + 2) + 1 ∧
      (∀ k, k < n → (firstPass S prods (firstPassN S prods k [])).2 = true) ∧
      (firstPass S prods (firstPassN S prods n [])).2 = false ∧
      firstSets S prods = firstPassN S prods n [] := by
  obtain ⟨n, h1, h2⟩ := C09_first_terminates_sharp hW
  refine ⟨n, ?_, h2⟩
  have : S.ntList.length * (S.typeMap.length + 1) ≤ S.ntList.length * (S.typeMap.length + 2) :=
    Nat.mul_le_mul_left _ (by omega)
  omega

/-- Any larger fuel gives the same FIRST sets (the model's fuel does not truncate). -/
theorem C09_first_fuel_irrelevant {S : PSymbols} {prods : List SProd} (hW : WFp S prods)
    (extra : Nat) :
    firstSetsFuel S prods (S.ntList.length * (S.typeMap.length + 2) + 2 + extra) [] =
      firstSets S prods :=
  firstSetsFuel_stable hW _ [] (FInv.nil S) (C09_first_fixpoint hW) extra

/-- Shape of the result: keys are distinct heads, each set is duplicate-free and contains only
    symbols of the table or "empty". -/
theorem C09_first_inv {S : PSymbols} {prods : List SProd} (hW : WFp S prods) :
    FInv S (firstSets S prods) := firstSets_inv hW

/-! ### (B) LR(1) closure -/

/-- General form: any fuel with `fuel ≥ |items| + |prods| * (|typeMap| + 1)` exhausts the work
    list — the returned list is closed under `closureStep`. -/
theorem C09_closureLoop_closed_of_fuel {C : LRCtx} {items : List Item} (hW : WFc C items)
    (fuel : Nat) (hf : closureBound C items ≤ fuel) :
    ∀ i ∈ closureLoop C fuel 0 (items.foldl addItem []),
      ∀ j ∈ closureStep C i, j ∈ closureLoop C fuel 0 (items.foldl addItem []) := by
  have h := closureLoop_spec hW fuel 0 _ (closure_init C items) (by omega)
  intro i hi j hj
  obtain ⟨idx, hidx, hget⟩ := List.mem_iff_getElem.1 hi
  exact h.done idx i hidx (by rw [List.getElem?_eq_getElem hidx, hget]) j hj

/-- The model's fuel `maxItems + |items| + 1` is at least the proved bound. -/
theorem C09_closure_fuel_adequate (C : LRCtx) (items : List Item) :
    closureBound C items ≤ C.maxItems + items.length :=
  closureBound_le_maxItems C items

/-- The closure returned by the model is closed under `closureStep`: the work list was exhausted,
    the fuel was sufficient. -/
theorem C09_closure_closed {C : LRCtx} {items : List Item} (hW : WFc C items) :
    ∀ i ∈ closure C items, ∀ j ∈ closureStep C i, j ∈ closure C items := by
  unfold closure
  exact C09_closureLoop_closed_of_fuel hW _ (by have := closureBound_le_maxItems C items; omega)

/-- the closure has no duplicates (no hypothesis needed) -/
theorem C09_closure_nodup (C : LRCtx) (items : List Item) : (closure C items).Nodup := by
  unfold closure
  exact (closureLoop_prefix_nodup C _ 0 _).2 ((foldl_addItem_spec items []).1 (by simp))

/-- the kernel is contained in its closure (no hypothesis needed) -/
theorem C09_closure_subset (C : LRCtx) (items : List Item) :
    ∀ i ∈ items, i ∈ closure C items := by
  intro i hi
  unfold closure
  exact (closureLoop_prefix_nodup C _ 0 _).1.subset
    (((foldl_addItem_spec items []).2.2 i).2 (Or.inr hi))

/-- the measure: the work list never grows beyond the bound, which the model's fuel dominates -/
theorem C09_closure_length_le {C : LRCtx} {items : List Item} (hW : WFc C items) :
    (closure C items).length ≤ items.length + C.prods.size * (C.S.typeMap.length + 1) ∧
    (closure C items).length ≤ C.maxItems + items.length :=
  ⟨(closure_inv hW).length_le,
   Nat.le_trans (closure_inv hW).length_le (closureBound_le_maxItems C items)⟩

/-- every item of the closure is a kernel item or `⟨p, 0, la⟩` with `p` a production index and
    `la` a symbol of the table or "empty"; in particular all look-aheads stay in the universe -/
theorem C09_closure_universe {C : LRCtx} {items : List Item} (hW : WFc C items) :
    ∀ i ∈ closure C items,
      (i ∈ items ∨ (i.p < C.prods.size ∧ i.d = 0 ∧ i.la ∈ firstU C.S)) ∧ i.la ∈ firstU C.S := by
  intro i hi
  refine ⟨?_, (closure_inv hW).la hW i hi⟩
  rcases (closure_inv hW).univ i hi with h | h
  · exact Or.inl h
  · exact Or.inr (mem_itemU.1 h)

/-- Any fuel at least the bound gives the same closure; in particular the last unit of the
    model's fuel is never consumed. -/
theorem C09_closure_fuel_irrelevant {C : LRCtx} {items : List Item} (hW : WFc C items)
    (fuel : Nat) (hf : closureBound C items ≤ fuel) :
    closureLoop C fuel 0 (items.foldl addItem []) = closure C items := by
  unfold closure
  exact closureLoop_fuel_irrel hW _ _ 0 _ (closure_init C items) (by omega)
    (by have := closureBound_le_maxItems C items; omega)

/-- the context and initial kernel `[S' : •S, ␚]` of `genParser` are well-formed -/
theorem C09_genParser_init_WFc {syn : List SProd} {S0 : PSymbols} (ids : List String)
    (h : newSymbols (augment syn) = .ok S0) :
    WFc { prods := (augment syn).toArray, S := S0.addTokens ids,
          fs := firstSets (S0.addTokens ids) (augment syn) } [⟨0, 0, "␚"⟩] := by
  apply WFc_of_WFp (C09_newSymbols_WFp ids h)
  intro i hi
  have : i = ⟨0, 0, "␚"⟩ := by simpa using hi
  subst this
  have h1 : "␚" ∈ S0.typeMap := (newSymbols_mono h).2 _ (by simp)
  exact List.mem_cons_of_mem _ (foldl_addNoDup_mem_iff.2 (Or.inl h1))

/-- `goto` kernels inherit well-formedness from a set whose look-aheads are in the universe
    (e.g. a closure, by `C09_closure_universe`) -/
theorem C09_goto_WFc {C : LRCtx} {K I : List Item} (hW : WFc C K)
    (hI : ∀ i ∈ I, i.la ∈ firstU C.S) (X : String) :
    WFc C ((I.filter fun i => i.d < C.len i && C.expected i == X).map
      fun i => { i with d := i.d + 1 }) :=
  hW.of_la (goto_kernel_la X hI)

/-- every `goto` set is closed under `closureStep` and keeps its look-aheads in the universe -/
theorem C09_goto_closed {C : LRCtx} {K I : List Item} (hW : WFc C K)
    (hI : ∀ i ∈ I, i.la ∈ firstU C.S) (X : String) :
    (∀ i ∈ goto C I X, ∀ j ∈ closureStep C i, j ∈ goto C I X) ∧
    (∀ i ∈ goto C I X, i.la ∈ firstU C.S) := by
  unfold goto
  dsimp only
  split
  · simp
  · exact ⟨C09_closure_closed (C09_goto_WFc hW hI X),
      fun i hi => (C09_closure_universe (C09_goto_WFc hW hI X) i hi).2⟩

/-- End to end: in every successful run of the parser-generator model, every LR(1) state is closed
    under `closureStep` (no `Closure` call was cut short by its fuel) and all look-aheads are
    symbols of the table. -/
theorem C09_genParser_states_closed {syn : List SProd} {ids : List String} {r : LRResult}
    (h : genParser syn ids = .ok r) :
    ∀ st ∈ r.states, (∀ i ∈ st.items, ∀ j ∈ closureStep r.ctx i, j ∈ st.items) ∧
      (∀ i ∈ st.items, i.la ∈ firstU r.ctx.S) := by
  obtain ⟨S0, hS0, hctx, hst⟩ := genParser_shape h
  have hW : WFc r.ctx [⟨0, 0, "␚"⟩] := by
    rw [hctx]; exact C09_genParser_init_WFc ids hS0
  have h0 : StatesOK r.ctx #[{ items := closure r.ctx [⟨0, 0, "␚"⟩] }] := by
    intro j hj
    have : j = 0 := by simp at hj; omega
    subst this
    exact closure_closedLA hW
  have hall := lrLoop_ok hW 4096 0 _ h0
  rw [← hst] at hall
  intro st hmem
  obtain ⟨idx, hidx, rfl⟩ := Array.mem_iff_getElem.1 hmem
  exact hall idx hidx

/-! ### Non-vacuity: a grammar with nullable chains
    `S : A B c ;  A : empty | a ;  B : empty | b A ;` -/

def c09Syn : List SProd := [
  { head := "S", body := [⟨.prodId, "A"⟩, ⟨.prodId, "B"⟩, ⟨.tokId, "c"⟩] },
  { head := "A", body := [⟨.tokId, "empty"⟩] },
  { head := "A", body := [⟨.tokId, "a"⟩] },
  { head := "B", body := [⟨.tokId, "empty"⟩] },
  { head := "B", body := [⟨.tokId, "b"⟩, ⟨.prodId, "A"⟩] } ]

def c09Prods : List SProd := augment c09Syn

def c09S : PSymbols :=
  { typeMap := ["INVALID", "␚", "S'", "S", "A", "B", "c", "empty", "a", "b"],
    ntList := ["S'", "S", "A", "B"], strLits := [] }

def c09C : LRCtx := { prods := c09Prods.toArray, S := c09S, fs := firstSets c09S c09Prods }

/-- `c09S` is what `NewSymbols` computes -/
example : (newSymbols c09Prods).toOption.map (fun s => (s.typeMap, s.ntList, s.strLits)) =
    some (c09S.typeMap, c09S.ntList, c09S.strLits) := by decide

example : WFp c09S c09Prods := by decide

/-- three productive passes (A,B ; then S ; then S'), the fourth adds nothing; fuel is 4*12+2 -/
example : firstSets c09S c09Prods =
    [("A", ["empty", "a"]), ("B", ["empty", "b"]), ("S", ["a", "b", "c"]), ("S'", ["a", "b", "c"])] := by
  decide

example : (List.range 5).map (fun k => (firstPass c09S c09Prods (firstPassN c09S c09Prods k [])).2) =
    [true, true, true, false, false] := by decide

example : firstPassN c09S c09Prods 2 [] =
    [("A", ["empty", "a"]), ("B", ["empty", "b"]), ("S", ["a", "b", "c"])] := by decide

/-- the fixed-point check, computed … -/
example : (firstPass c09S c09Prods (firstSets c09S c09Prods)).2 = false := by decide
/-- … and as an instance of the theorem -/
example : (firstPass c09S c09Prods (firstSets c09S c09Prods)).2 = false :=
  C09_first_fixpoint (by decide)

/-- with too little fuel the loop IS truncated and the result is not a fixed point -/
example : (firstPass c09S c09Prods (firstSetsFuel c09S c09Prods 2 [])).2 = true := by decide

example : WFc c09C [⟨0, 0, "␚"⟩] := by decide

/-- closure of the initial kernel `S' : •S, ␚` (look-aheads of `A : …` are FIRST(B c) = {b, c}) -/
example : closure c09C [⟨0, 0, "␚"⟩] =
    [⟨0, 0, "␚"⟩, ⟨1, 0, "␚"⟩, ⟨2, 0, "b"⟩, ⟨2, 0, "c"⟩, ⟨3, 0, "b"⟩, ⟨3, 0, "c"⟩] := by
  rw [closure_eq_I]; decide

/-- closure of the kernel `S : A •B c, ␚` -/
example : closure c09C [⟨1, 1, "␚"⟩] = [⟨1, 1, "␚"⟩, ⟨4, 0, "c"⟩, ⟨5, 0, "c"⟩] := by
  rw [closure_eq_I]; decide

/-- closedness, computed … -/
example : ∀ i ∈ closure c09C [⟨0, 0, "␚"⟩], ∀ j ∈ closureStep c09C i,
    j ∈ closure c09C [⟨0, 0, "␚"⟩] := by
  simp only [closure_eq_I, closureStep_eq_I]; decide
/-- … and as an instance of the theorem -/
example : ∀ i ∈ closure c09C [⟨0, 0, "␚"⟩], ∀ j ∈ closureStep c09C i,
    j ∈ closure c09C [⟨0, 0, "␚"⟩] :=
  C09_closure_closed (by decide)

/-- the theorem is not trivial: with one unit of fuel the work list is cut and the result is not
    closed (`S : •A B c, ␚` is in, its successor `A : •empty, b` is not) -/
example : closureLoop c09C 1 0 [⟨0, 0, "␚"⟩] = [⟨0, 0, "␚"⟩, ⟨1, 0, "␚"⟩] ∧
    (⟨2, 0, "b"⟩ : Item) ∈ closureStep c09C ⟨1, 0, "␚"⟩ := by
  simp only [closureLoop_eq_I, closureStep_eq_I]; decide

/-- the `goto` on `A` from the initial state, closed by `C09_goto_closed` -/
example : goto c09C (closure c09C [⟨0, 0, "␚"⟩]) "A" = [⟨1, 1, "␚"⟩, ⟨4, 0, "c"⟩, ⟨5, 0, "c"⟩] := by
  unfold goto; simp only [closure_eq_I]; decide

/-! ### The look-ahead clause of `WFc` is necessary
A kernel whose look-aheads are NOT symbols of the table can have a closure larger than the model's
fuel: 34 foreign look-aheads over the chain `S' : S ; S : A ; A : B ; B : c` give 4*34 = 136 items
but only `maxItems + 34 + 1 = 100` steps; item `A : •B, x33` is never processed.  `genParser`
never builds such a kernel (`C09_genParser_init_WFc`, `C09_goto_closed`). -/

def c09CxProds : List SProd := [
  { head := "S'", body := [⟨.prodId, "S"⟩] },
  { head := "S", body := [⟨.prodId, "A"⟩] },
  { head := "A", body := [⟨.prodId, "B"⟩] },
  { head := "B", body := [⟨.tokId, "c"⟩] } ]

def c09CxS : PSymbols :=
  { typeMap := ["INVALID", "␚", "S'", "S", "A", "B", "c"], ntList := ["S'", "S", "A", "B"] }

def c09CxC : LRCtx :=
  { prods := c09CxProds.toArray, S := c09CxS, fs := firstSets c09CxS c09CxProds }

def c09CxItems : List Item :=
  ["x00", "x01", "x02", "x03", "x04", "x05", "x06", "x07", "x08", "x09", "x10", "x11", "x12", "x13", "x14", "x15", "x16", "x17", "x18", "x19", "x20", "x21", "x22", "x23", "x24", "x25", "x26", "x27", "x28", "x29", "x30", "x31", "x32", "x33"].map fun t => ⟨0, 0, t⟩

example : WFp c09CxS c09CxProds ∧ c09CxC.maxItems + c09CxItems.length + 1 = 100 := by decide

set_option maxRecDepth 100000 in
theorem C09_closure_la_hypothesis_needed :
    ¬ (∀ i ∈ closure c09CxC c09CxItems, ∀ j ∈ closureStep c09CxC i,
        j ∈ closure c09CxC c09CxItems) := by
  intro h
  have h1 : (⟨2, 0, "x33"⟩ : Item) ∈ closure c09CxC c09CxItems ∧
      (⟨3, 0, "x33"⟩ : Item) ∈ closureStep c09CxC ⟨2, 0, "x33"⟩ ∧
      (⟨3, 0, "x33"⟩ : Item) ∉ closure c09CxC c09CxItems := by
    simp only [closure_eq_I, closureStep_eq_I]
    decide +kernel
  exact h1.2.2 (h _ h1.1 _ h1.2.1)

/-! ### (C) lexer-side ε-closure `emoves` — PARTIAL
Completeness of the depth-first work list relative to a supplied finite universe.  Missing for the
unconditional statement: for an arbitrary `LexCtx` and start item, the existence of an
`emoveStep`-closed universe `U` with `1 + |U| * (D + 1) ≤ (C.fuel + 2)^2` (a count of the positions
of the pattern tree against `LPat.size`).  For a concrete lexer `U` is checked by `decide`. -/

theorem C09_emoves_complete_partial {C : LexCtx} {i : LItem} {U : List LItem} {D : Nat}
    (hU : EUniv C U D) (hi : i ∈ U)
    (hfuel : 1 + U.length * (D + 1) ≤ (C.fuel + 2) * (C.fuel + 2)) :
    ∀ y, EReach C i y → C.isBasic y = true → y ∈ emoves C i :=
  emoves_complete_of_universe hU hi hfuel

/-- `t : { 'a' | [ 'b' ] } ;` — a repetition whose body has a nullable alternative (the ε-cycle
    that needs the visited set) -/
def c09LexC : LexCtx :=
  { prods := #[{ kind := .tok, id := "t",
                 pat := .mk [.mk [.rep (.mk [.mk [.lit 97], .mk [.opt (.mk [.mk [.lit 98]])]])]] }] }

def c09LexU : List LItem :=
  [⟨0, [0]⟩, ⟨0, [0, 0]⟩, ⟨0, [0, 0, 0]⟩, ⟨0, [0, 0, 0, 0]⟩, ⟨0, [0, 0, 1, 0]⟩, ⟨0, [0, 1]⟩,
   ⟨0, [0, 0, 1, 0, 0]⟩, ⟨0, [1]⟩, ⟨0, [0, 0, 1, 0, 0, 0]⟩, ⟨0, [0, 0, 1, 1]⟩, ⟨0, [0, 0, 2]⟩]

example : emoves c09LexC ⟨0, [0]⟩ = [⟨0, [1]⟩, ⟨0, [0, 0, 0, 0]⟩, ⟨0, [0, 0, 1, 0, 0, 0]⟩] := by decide

example : ∀ y, EReach c09LexC ⟨0, [0]⟩ y → c09LexC.isBasic y = true → y ∈ emoves c09LexC ⟨0, [0]⟩ :=
  C09_emoves_complete_partial (U := c09LexU) (D := 3) (by decide) (by decide) (by decide)

end Gocc
