import Gocc.Proofs.GenComplete
import Gocc.Props.C02Complete
import Gocc.Props.C02Gen
/-
C02 at the generator level, COMPLETENESS half — for EVERY grammar for which the generator model
records no LR(1) conflict, the generated tables pass the completeness validator, with certificates
read off the generator's own FIRST sets and item sets; hence the generated parser accepts every
sentence of the grammar, and (with `C02_genParser_safe`) accepts exactly the sentences.

Object: `genParser syn tokIds` (Model/LR1.lean), the validators `firstOk` / `complete`
(Model/ValidateC.lean), the numbered grammar `ngrammarOf (augment syn) terminals nts`, and the
certificates `fcOf r` / `claOf r` (Model/GenCert.lean: nullable / FIRST pairs from `r.ctx.fs`; the
items `(production, dot, look-ahead token type)` of `r.states`) — the arguments with which the model
driver runs the validator per grammar (`Driver/Gram.lean`, `opValidate`).

Quantifiers: all `syn`, all `tokIds`, all `r` with `genParser syn tokIds = .ok r`, under
  * `NamesOk syn tokIds` and `r.states.size ≤ 4096` — as for `C02_genParser_safe`
    (Props/C02Gen.lean); the bound says that `lrLoop` expanded every state, so every symbol with a
    non-empty `goto` set has its transition;
  * `r.tables.conflictStates = 0` — no fold of `setAction` recorded a conflict, so the action every
    item proposes is the table entry (`C02GenCompleteEx.conflict_*`: with a conflict `complete`
    answers `false`);
  * `CompleteNamesOk syn` (Proofs/GenComplete.lean, decidable):
        "INVALID" ∉ body symbols ∧ "empty" ∉ heads ∧
        ∀ p ∈ syn, prodLen p ≠ 0 → "empty" ∉ body symbols of p
    Why each clause is there (a rejected grammar for each is at the end of this file):
      - `INVALID` in a body: `itemAction` returns no action for the column `INVALID`, so an item
        expecting it has no shift entry (and a complete item with that look-ahead no reduce entry);
      - a production called `empty`: `prodLen` makes `A : empty` an empty alternative whereas
        `firstPass` takes FIRST of the non-terminal `empty` — `A` is nullable in the grammar but has
        no marker `empty` in its FIRST set (`firstOk` fails);
      - `empty` inside a non-empty alternative (`S : B empty`): `firstS` reads the terminal's FIRST
        set `{empty}` as "nullable", so the look-aheads of `B : …` in the closure lack the terminal
        `empty` (K1 fails; and the generated parser does reject `b empty`).
    The clauses are sufficient, not necessary, for the individual grammar: `S : a empty` passes
    (no non-terminal is followed by `empty`), as does `S : a empty ; empty : b`.
    NOT needed: anything about `error` (recovery plays no role: along the run of a sentence an
    action entry is never missing), `empty` among the token ids, `empty` as first symbol followed by
    other symbols (`A : empty b` is an empty alternative for every component of the model).

Proof (Proofs/GenCompleteFirst.lean, GenCompleteItems.lean, GenComplete.lean):
  FIRST  the fixed point `C09_first_fixpoint`, unfolded production by production, says that
         `firstS` of every body is contained in the set of the head; `firstS` contains everything
         reachable through nullable prefixes; elements of the sets are `empty` or terminals other
         than `INVALID`;
  K0     state 0 is `closure [S' : •Start, ␚]` (`LRInv`);
  K1     every state is closed under `closureStep` (`C09_genParser_states_closed`), and
         `firstOfSeq (fcOf r)` is covered by `first1`; look-aheads are terminals `≠ empty, INVALID`
         (an invariant of all items of all states, proved along `lrLoop` / `closureLoop`);
  K2     `Expanded` gives the transition, the target has the same items as the `goto` set
         (`sameItems` + no duplicates ⇒ inclusion in both directions), the shift entry is what the
         item proposes (no conflict recorded), the goto entry is `st.next`;
  K3     a complete item proposes `reduce p` / `accept` on its look-ahead; items of production 0
         have look-ahead `␚` (same invariant).
-/
namespace Gocc

/-- (C02-gen-complete) MAIN THEOREM: for every grammar without recorded conflict, the generated
    tables pass the completeness validator with the generator's own certificates. -/
theorem C02_genParser_complete (syn : List SProd) (tokIds : List String) (r : LRResult)
    (h : genParser syn tokIds = .ok r) (hn : NamesOk syn tokIds) (hsz : r.states.size ≤ 4096)
    (hc : r.tables.conflictStates = 0) (hx : CompleteNamesOk syn) :
    firstOk (ngrammarOf (augment syn) r.tables.terminals r.tables.nts) (fcOf r) = true ∧
    complete (ngrammarOf (augment syn) r.tables.terminals r.tables.nts) r.tables (fcOf r)
      (claOf r) = true :=
  GenComplete.genParser_complete h hn hsz hc hx

/-- the FIRST half holds with or without conflicts, whatever the number of states -/
theorem C02_genParser_firstOk (syn : List SProd) (tokIds : List String) (r : LRResult)
    (h : genParser syn tokIds = .ok r) (hn : NamesOk syn tokIds) (hx : CompleteNamesOk syn) :
    firstOk (ngrammarOf (augment syn) r.tables.terminals r.tables.nts) (fcOf r) = true :=
  GenComplete.genParser_firstOk h hn hx

/-- (C02-gen-complete, parser) for every grammar without conflict: the parser running the
    GENERATED tables accepts every sentence of the grammar, for some (hence every larger,
    `C02_accept_fuel_mono`) fuel — `C02_sentence_accepted` instantiated with the generator's
    output.  `ActsOk cfg`: the semantic actions never fail (`C02_actsOk_of_kindsTotal`). -/
theorem C02_generated_sentence_accepted {syn : List SProd} {tokIds : List String} {r : LRResult}
    (h : genParser syn tokIds = .ok r) (hn : NamesOk syn tokIds) (hsz : r.states.size ≤ 4096)
    (hc : r.tables.conflictStates = 0) (hx : CompleteNamesOk syn)
    {cfg : PCfg} (hA : ActsOk cfg) (hT : cfg.T = r.tables) {w : List Nat}
    (hs : NSentence (ngrammarOf (augment syn) r.tables.terminals r.tables.nts) w) (old : PState) :
    ∃ fuel res, (parse cfg w fuel old).1 = Outcome.accept res :=
  C02_sentence_accepted (C02_genParser_complete syn tokIds r h hn hsz hc hx).1
    (C02_genParser_complete syn tokIds r h hn hsz hc hx).2 hA hT hs old

/-- (C02-gen, both directions) for every grammar without conflict and without `error`
    alternative: the generated parser accepts exactly the sentences of the grammar
    (`C02_accept_iff_sentence` with `C02_genParser_safe` and `C02_genParser_complete`). -/
theorem C02_generated_accept_iff_sentence {syn : List SProd} {tokIds : List String} {r : LRResult}
    (h : genParser syn tokIds = .ok r) (hn : NamesOk syn tokIds) (hsz : r.states.size ≤ 4096)
    (hc : r.tables.conflictStates = 0) (hx : CompleteNamesOk syn)
    (hr : ∀ s : Nat, r.tables.canRecover[s]?.getD false = false)
    {cfg : PCfg} (hA : ActsOk cfg) (hT : cfg.T = r.tables) {w : List Nat} (hw : 1 ∉ w)
    (old : PState) :
    (∃ fuel res, (parse cfg w fuel old).1 = Outcome.accept res) ↔
      NSentence (ngrammarOf (augment syn) r.tables.terminals r.tables.nts) w :=
  C02_accept_iff_sentence (C02_genParser_safe syn tokIds r h hn hsz).1
    (C02_genParser_safe syn tokIds r h hn hsz).2
    (C02_genParser_complete syn tokIds r h hn hsz hc hx).1
    (C02_genParser_complete syn tokIds r h hn hsz hc hx).2 hr hA hT hw old

/-! ### Non-vacuity: `S : a S b <<10>> | c <<11>>` (`C02GenEx.syn`, `C02GenEx.ids`) -/
namespace C02GenCompleteEx

open C02GenEx (syn ids)

/-- the side conditions are decided -/
example : NamesOk syn ids := by decide
example : CompleteNamesOk syn := by decide

/-- … and not trivially true -/
example : ¬ CompleteNamesOk [{ head := "S", body := [⟨.tokId, "a"⟩, ⟨.tokId, "INVALID"⟩] }] := by
  decide
example : ¬ CompleteNamesOk [{ head := "S", body := [⟨.prodId, "empty"⟩] },
    { head := "empty", body := [⟨.tokId, "b"⟩] }] := by decide
example : ¬ CompleteNamesOk [{ head := "S", body := [⟨.prodId, "B"⟩, ⟨.tokId, "empty"⟩] },
    { head := "B", body := [⟨.tokId, "b"⟩] }] := by decide

/-- what the hypotheses of the theorems need to know about a run -/
structure Facts where
  nStates : Nat
  conflicts : Nat
  terminals : List String
  nts : List String
  kindsTotal : Bool
  noRecovery : Bool
deriving DecidableEq

def facts (r : LRResult) : Facts :=
  { nStates := r.states.size, conflicts := r.tables.conflictStates,
    terminals := r.tables.terminals, nts := r.tables.nts, kindsTotal := Gocc.kindsTotal r.tables,
    noRecovery := r.tables.canRecover.toList.all (fun b => !b) }

/-- kernel evaluation of the model: 10 states, no conflict, the numbering, total actions, no
    recovery state -/
theorem run2 : (genParser syn ids).toOption.map facts =
    some { nStates := 10, conflicts := 0, terminals := ["INVALID", "␚", "a", "b", "c"],
           nts := ["S'", "S"], kindsTotal := true, noRecovery := true } := by
  decide +kernel

theorem run2_facts {r : LRResult} (h : genParser syn ids = .ok r) :
    r.states.size = 10 ∧ r.tables.conflictStates = 0 ∧
    r.tables.terminals = ["INVALID", "␚", "a", "b", "c"] ∧ r.tables.nts = ["S'", "S"] ∧
    kindsTotal r.tables = true ∧ (r.tables.canRecover.toList.all (fun b => !b)) = true := by
  have hrun := run2
  rw [h] at hrun
  simp only [Except.toOption, Option.map_some, Option.some.injEq, facts, Facts.mk.injEq] at hrun
  exact hrun

/-- the theorem applies: the generated tables pass the completeness validator (no validator run
    involved) -/
example (r : LRResult) (h : genParser syn ids = .ok r) :
    firstOk (ngrammarOf (augment syn) r.tables.terminals r.tables.nts) (fcOf r) = true ∧
    complete (ngrammarOf (augment syn) r.tables.terminals r.tables.nts) r.tables (fcOf r)
      (claOf r) = true :=
  C02_genParser_complete syn ids r h (by decide) (by rw [(run2_facts h).1]; decide)
    (run2_facts h).2.1 (by decide)

/-- for comparison, the validator evaluated directly on the generated tables -/
example : (genParser syn ids).toOption.map (fun r =>
      (firstOk (ngrammarOf (augment syn) r.tables.terminals r.tables.nts) (fcOf r),
       complete (ngrammarOf (augment syn) r.tables.terminals r.tables.nts) r.tables (fcOf r)
         (claOf r))) = some (true, true) := by
  decide +kernel

/-- the numbered grammar of the run: `S' : S ;  S : a S b | c` with `a b c` = 2 3 4 -/
def Gex : NGrammar :=
  { prods := #[(0, [Sym.nt 1]), (1, [Sym.t 2, Sym.nt 1, Sym.t 3]), (1, [Sym.t 4])] }

theorem gex_eq : ngrammarOf (augment syn) ["INVALID", "␚", "a", "b", "c"] ["S'", "S"] = Gex := by
  have : (ngrammarOf (augment syn) ["INVALID", "␚", "a", "b", "c"] ["S'", "S"]).prods =
      Gex.prods := by decide +kernel
  exact congrArg NGrammar.mk this

/-- `a a c b b` is a sentence — by a derivation, not by running the parser -/
theorem sentence_aacbb : NSentence Gex [2, 2, 4, 3, 3] := by
  have h1 : NDerives Gex [Sym.t 2, Sym.nt 1, Sym.t 3] [2, 4, 3] :=
    .term (NDerives.nt (G := Gex) (p := 2) (α := [Sym.t 3]) (u := [4]) (v := [3]) (by decide)
      (.term .nil) (.term .nil))
  have h2 : NDerives Gex [Sym.t 2, Sym.nt 1, Sym.t 3] [2, 2, 4, 3, 3] :=
    .term (NDerives.nt (G := Gex) (p := 1) (α := [Sym.t 3]) (u := [2, 4, 3]) (v := [3])
      (by decide) h1 (.term .nil))
  exact NDerives.nt (G := Gex) (p := 1) (α := []) (u := [2, 2, 4, 3, 3]) (v := []) (by decide)
    h2 .nil

/-- hence, THROUGH THE GENERATOR-LEVEL THEOREM (no evaluation of `parse`, no validator run), the
    parser with the generated tables accepts `a a c b b`, from any previous parser state -/
theorem accepted_aacbb (r : LRResult) (h : genParser syn ids = .ok r) (old : PState) :
    ∃ fuel res, (parse { T := r.tables, errTerm := 0, failAt := 0 } [2, 2, 4, 3, 3] fuel old).1 =
      Outcome.accept res := by
  obtain ⟨f1, f2, f3, f4, f5, -⟩ := run2_facts h
  refine C02_generated_sentence_accepted h (by decide) (by rw [f1]; decide) f2 (by decide)
    (cfg := { T := r.tables, errTerm := 0, failAt := 0 })
    (C02_actsOk_of_kindsTotal rfl f5) rfl ?_ old
  rw [f3, f4, gex_eq]
  exact sentence_aacbb

/-- … and the run exists -/
example : ∃ r, genParser syn ids = .ok r := C02GenEx.run_ok

/-- for this grammar the generated parser decides membership (both generator-level theorems) -/
example (r : LRResult) (h : genParser syn ids = .ok r) {w : List Nat} (hw : 1 ∉ w)
    (old : PState) :
    (∃ fuel res, (parse { T := r.tables, errTerm := 0, failAt := 0 } w fuel old).1 =
      Outcome.accept res) ↔
      NSentence (ngrammarOf (augment syn) r.tables.terminals r.tables.nts) w := by
  obtain ⟨f1, f2, -, -, f5, f6⟩ := run2_facts h
  exact C02_generated_accept_iff_sentence h (by decide) (by rw [f1]; decide) f2 (by decide)
    (noRecovery_of_all f6) (cfg := { T := r.tables, errTerm := 0, failAt := 0 })
    (C02_actsOk_of_kindsTotal rfl f5) rfl hw old

/-! ### the hypotheses matter
(`firstOk`, `complete`, recorded conflicts, number of states) of the tables generated for a grammar
— kernel evaluation of the model and of the validator. -/

def verdictC (syn : List SProd) (ids : List String) : Option (Bool × Bool × Nat × Nat) :=
  (genParser syn ids).toOption.map fun r =>
    (firstOk (ngrammarOf (augment syn) r.tables.terminals r.tables.nts) (fcOf r),
     complete (ngrammarOf (augment syn) r.tables.terminals r.tables.nts) r.tables (fcOf r)
       (claOf r),
     r.tables.conflictStates, r.states.size)

/-- `hc` is needed — shift/reduce: `E : E + E | x` is generated without panic (the conflict is
    resolved in favour of shift), one state records a conflict, and `complete` answers `false`
    (the item `E : E + E •, +` has no reduce entry) -/
def ambig : List SProd :=
  [{ head := "E", body := [⟨.prodId, "E"⟩, ⟨.tokId, "+"⟩, ⟨.prodId, "E"⟩] },
   { head := "E", body := [⟨.tokId, "x"⟩] }]
example : NamesOk ambig ["+", "x"] ∧ CompleteNamesOk ambig := by decide
theorem conflict_shift_reduce : verdictC ambig ["+", "x"] = some (true, false, 1, 5) := by
  decide +kernel

/-- dangling else `S : i S | i S e S | x` -/
def dangling : List SProd :=
  [{ head := "S", body := [⟨.tokId, "i"⟩, ⟨.prodId, "S"⟩] },
   { head := "S", body := [⟨.tokId, "i"⟩, ⟨.prodId, "S"⟩, ⟨.tokId, "e"⟩, ⟨.prodId, "S"⟩] },
   { head := "S", body := [⟨.tokId, "x"⟩] }]
example : NamesOk dangling ["e", "i", "x"] ∧ CompleteNamesOk dangling := by decide
theorem conflict_dangling_else : verdictC dangling ["e", "i", "x"] = some (true, false, 1, 12) := by
  decide +kernel

/-- reduce/reduce: `S : A | B ; A : a ; B : a` -/
def rr : List SProd :=
  [{ head := "S", body := [⟨.prodId, "A"⟩] }, { head := "S", body := [⟨.prodId, "B"⟩] },
   { head := "A", body := [⟨.tokId, "a"⟩] }, { head := "B", body := [⟨.tokId, "a"⟩] }]
example : NamesOk rr ["a"] ∧ CompleteNamesOk rr := by decide
theorem conflict_reduce_reduce : verdictC rr ["a"] = some (true, false, 1, 5) := by
  decide +kernel

/-! the clauses of `CompleteNamesOk`: grammars that satisfy `NamesOk`, violate one clause, are
generated without panic and without conflict, and are rejected by the validator -/

/-- `INVALID` in a body: `S : a INVALID` -/
def gInvalid : List SProd := [{ head := "S", body := [⟨.tokId, "a"⟩, ⟨.tokId, "INVALID"⟩] }]
example : NamesOk gInvalid ["a"] ∧ ¬ CompleteNamesOk gInvalid := by decide
theorem invalid_in_body : verdictC gInvalid ["a"] = some (true, false, 0, 4) := by decide +kernel

/-- a production called `empty`: `S : A ; A : empty ; empty : b` — rejected by the `firstOk` half
    (`A` is nullable in the grammar, not in the generator's FIRST sets).  `complete` itself answers
    `true` here, and no witness with `complete = false` is to be expected for this clause: (K1) is
    checked against the same certificate the generator used for its closures, so the two agree;
    what is lost is `firstOk`, without which `C02_sentence_accepted` does not apply. -/
def gEmptyHead : List SProd :=
  [{ head := "S", body := [⟨.prodId, "A"⟩] }, { head := "A", body := [⟨.prodId, "empty"⟩] },
   { head := "empty", body := [⟨.tokId, "b"⟩] }]
example : NamesOk gEmptyHead ["b"] ∧ ¬ CompleteNamesOk gEmptyHead := by decide
theorem empty_as_head : verdictC gEmptyHead ["b"] = some (false, true, 0, 3) := by decide +kernel

/-- `empty` inside a non-empty alternative: `S : B empty ; B : b` -/
def gEmptyMid : List SProd :=
  [{ head := "S", body := [⟨.prodId, "B"⟩, ⟨.tokId, "empty"⟩] },
   { head := "B", body := [⟨.tokId, "b"⟩] }]
example : NamesOk gEmptyMid ["b"] ∧ ¬ CompleteNamesOk gEmptyMid := by decide
theorem empty_in_body : verdictC gEmptyMid ["b"] = some (true, false, 0, 5) := by decide +kernel

/-- the clauses are sufficient, not necessary: `S : a empty` violates the third one and passes -/
example : ¬ CompleteNamesOk [{ head := "S", body := [⟨.tokId, "a"⟩, ⟨.tokId, "empty"⟩] }] := by
  decide
example : verdictC [{ head := "S", body := [⟨.tokId, "a"⟩, ⟨.tokId, "empty"⟩] }] ["a"] =
    some (true, true, 0, 4) := by decide +kernel

/-- not excluded, and fine: `empty` alternatives, `empty` followed by other symbols, `error`,
    `empty` / `error` among the token ids, `S'` as a later head.  (The grammar is kept small for the
    kernel: `first1` sorts the look-aheads with `List.mergeSort`, whose well-founded recursion the
    kernel only unfolds for lists of at most two elements.) -/
def fine : List SProd := [
  { head := "S", body := [⟨.prodId, "A"⟩, ⟨.tokId, "c"⟩] },
  { head := "A", body := [⟨.tokId, "empty"⟩, ⟨.tokId, "b"⟩] },
  { head := "A", body := [⟨.tokId, "error"⟩, ⟨.tokId, "a"⟩] },
  { head := "S'", body := [⟨.tokId, "a"⟩] } ]
example : NamesOk fine ["a", "b", "c", "empty", "error"] ∧ CompleteNamesOk fine := by decide
example : (verdictC fine ["a", "b", "c", "empty", "error"]).map (fun v => (v.1, v.2.1, v.2.2.1)) =
    some (true, true, 0) := by decide +kernel

end C02GenCompleteEx

end Gocc
