import Gocc.Proofs.FScan
/-
C13 — The token stream of a grammar file does not depend on layout.

Model: `Gocc/Model/FScan.lean`, a line-by-line model of the hand-written front-end scanner
(`internal/frontend/scanner/scanner.go`); `fscanAll u src` are the tokens up to and including the
first end-of-input token.  Quantifier: every `u : UnicodeOracle` (`unicode.IsLetter/IsDigit/IsUpper`
on runes ≥ 0x80 are parameters of the model), every text built as below.

Vocabulary (all in `Gocc.FScan`):
* `tokStream u src` — the list of (type, literal bytes) of `fscanAll u src`.
* `render ts seps` — `t₁ s₁ t₂ s₂ … tₙ`, token spellings interleaved with separators.
* `WsRun w` — `w` consists of the bytes space, tab, CR, LF.
* `ScansAs u t ty` — in every scanner state positioned at `t ++ x`, where `x` is empty or begins
  with white space, the body of `Scan` returns one token of type `ty ≠ EOF` with literal `t` and
  stops at `x` (and `t` is non-empty and does not begin with white space).
  `ScansAsOne u t := ∃ ty, ScansAs u t ty`.  Inhabitants (`scansAs_punct`, `scansAs_ident`,
  `scansAs_charLit`, `scansAs_charLit_esc`, `scansAs_stringLit`, `scansAs_sdtLit`): the one-byte tokens,
  ASCII identifiers, `'c'`, `'\n'`, `"…"` and `<< … >>` over plain ASCII.
* `IsGap g` — `g` is a concatenation of white-space runs, `/* body */` comments whose body does not
  contain `*/`, and `// body ⏎` comments (arbitrary bytes otherwise, invalid UTF-8 included);
  `IsSep g` — a gap that begins with a white-space byte.
* `Runes src o rs`, `lineOf`, `colOf` — the position rule: `o` is a rune boundary of `src`, `rs` the
  runes before it; line = 1 + newlines in `rs`, column = 1 + runes since the last newline.
-/
namespace Gocc
open FScan

/-- (C13a, explicit form) the stream of `lead t₁ s₁ t₂ … tₙ trail` is `t₁ … tₙ` with their types,
    then end of input — whatever the gaps are -/
theorem C13_stream_of_rendering (u : UnicodeOracle) (tts : List (List Nat × Int))
    (seps : List (List Nat)) (lead trail : List Nat)
    (htts : ∀ p ∈ tts, ScansAs u p.1 p.2) (hseps : ∀ s ∈ seps, IsSep s)
    (hlen : seps.length = tts.length - 1) (hlead : IsGap lead)
    (htrail : IsGap trail ∧ FollowOK trail) :
    tokStream u (lead ++ render (tts.map (·.1)) seps ++ trail)
      = tts.map (fun p => (p.2, p.1)) ++ [(0, [])] :=
  tokStream_render u tts seps lead trail htts hseps hlen hlead htrail.1 htrail.2

/-- (C13a) White-space invariance: the (type, literal) stream is unchanged when every run of white
    space between two tokens is replaced by any other non-empty run of white space, and when white
    space is added or removed at the very beginning or end of the file. -/
theorem C13_whitespace_invariant (u : UnicodeOracle) (ts : List (List Nat))
    (lead lead' trail trail' : List Nat) (seps seps' : List (List Nat))
    (hts : ∀ t ∈ ts, ScansAsOne u t)
    (hseps : ∀ s ∈ seps, WsRun s ∧ s ≠ []) (hseps' : ∀ s ∈ seps', WsRun s ∧ s ≠ [])
    (hlen : seps.length = ts.length - 1) (hlen' : seps'.length = ts.length - 1)
    (hlead : WsRun lead) (hlead' : WsRun lead') (htrail : WsRun trail) (htrail' : WsRun trail') :
    tokStream u (lead ++ render ts seps ++ trail) = tokStream u (lead' ++ render ts seps' ++ trail') :=
  tokStream_layout_invariant u ts lead lead' trail trail' seps seps' hts
    (fun s hs => isSep_ws (hseps s hs).1 (hseps s hs).2)
    (fun s hs => isSep_ws (hseps' s hs).1 (hseps' s hs).2) hlen hlen'
    (isGap_ws hlead) (isGap_ws hlead') ⟨isGap_ws htrail, followOK_ws htrail⟩
    ⟨isGap_ws htrail', followOK_ws htrail'⟩

/-- (C13a, core lemma) `skipWhitespace` absorbs any white-space run: from a state positioned at
    `w ++ rest` it leads to a state positioned at `rest` (same look-ahead rune, same remaining
    input), `w.length` bytes further. -/
theorem C13_skipWhitespace_absorbs {w rest : List Nat} (hw : WsRun w) (hrest : NoWsHead rest)
    {s : FSt} (h : At (w ++ rest) s) :
    At rest (skipWhitespace s) ∧ (skipWhitespace s).pos = s.pos + w.length :=
  skipWhitespace_at hw hrest h

/-- (C13b) Comments are white space: separators may be arbitrary gaps that begin with a white-space
    byte (`IsSep`), e.g. `ws ++ /* … */ ++ ws'` and `ws ++ // … ⏎ ++ ws'` (`C13_sep_block`,
    `C13_sep_line`), the leading gap may be any gap, and the trailing gap any gap that is empty or
    begins with white space; the (type, literal) stream is the same for all of them. -/
theorem C13_comment_is_whitespace (u : UnicodeOracle) (ts : List (List Nat))
    (lead lead' trail trail' : List Nat) (seps seps' : List (List Nat))
    (hts : ∀ t ∈ ts, ScansAsOne u t)
    (hseps : ∀ s ∈ seps, IsSep s) (hseps' : ∀ s ∈ seps', IsSep s)
    (hlen : seps.length = ts.length - 1) (hlen' : seps'.length = ts.length - 1)
    (hlead : IsGap lead) (hlead' : IsGap lead')
    (htrail : IsGap trail ∧ FollowOK trail) (htrail' : IsGap trail' ∧ FollowOK trail') :
    tokStream u (lead ++ render ts seps ++ trail) = tokStream u (lead' ++ render ts seps' ++ trail') :=
  tokStream_layout_invariant u ts lead lead' trail trail' seps seps' hts hseps hseps' hlen hlen'
    hlead hlead' htrail htrail'

/-- a non-empty white-space run is a separator -/
theorem C13_sep_ws {w : List Nat} (hw : WsRun w) (hne : w ≠ []) : IsSep w := isSep_ws hw hne

/-- `ws ++ /* body */ ++ ws'` is a separator when `body` does not contain `*/` -/
theorem C13_sep_block {w w' body : List Nat} (hw : WsRun w) (hne : w ≠ [])
    (hb : ¬ [42, 47] <:+: body) (hw' : WsRun w') :
    IsSep (w ++ (47 :: 42 :: (body ++ [42, 47])) ++ w') :=
  isSep_block hw hne hb hw'

/-- `ws ++ // body ⏎ ++ ws'` is a separator when `body` does not contain a newline -/
theorem C13_sep_line {w w' body : List Nat} (hw : WsRun w) (hne : w ≠ [])
    (hb : ∀ c ∈ body, c ≠ 10) (hw' : WsRun w') :
    IsSep (w ++ (47 :: 47 :: (body ++ [10])) ++ w') :=
  isSep_line hw hne hb hw'

/-- (C13b, single replacement) replacing the white-space separator number `i` by
    `ws ++ /* body */ ++ ws'` does not change the stream -/
theorem C13_block_comment_in_separator (u : UnicodeOracle) (ts : List (List Nat))
    (lead trail : List Nat) (seps : List (List Nat)) (i : Nat) (w w' body : List Nat)
    (hts : ∀ t ∈ ts, ScansAsOne u t) (hseps : ∀ s ∈ seps, WsRun s ∧ s ≠ [])
    (hlen : seps.length = ts.length - 1) (hlead : WsRun lead) (htrail : WsRun trail)
    (hw : WsRun w) (hne : w ≠ []) (hb : ¬ [42, 47] <:+: body) (hw' : WsRun w') :
    tokStream u (lead ++ render ts (seps.set i (w ++ (47 :: 42 :: (body ++ [42, 47])) ++ w')) ++ trail)
      = tokStream u (lead ++ render ts seps ++ trail) :=
  tokStream_layout_invariant u ts lead lead trail trail _ seps hts
    (fun s hs => by
      rcases List.mem_or_eq_of_mem_set hs with h | h
      · exact isSep_ws (hseps s h).1 (hseps s h).2
      · rw [h]; exact isSep_block hw hne hb hw')
    (fun s hs => isSep_ws (hseps s hs).1 (hseps s hs).2) (by simpa using hlen) hlen
    (isGap_ws hlead) (isGap_ws hlead) ⟨isGap_ws htrail, followOK_ws htrail⟩
    ⟨isGap_ws htrail, followOK_ws htrail⟩

/-- (C13b, single replacement) the same for `ws ++ // body ⏎ ++ ws'` -/
theorem C13_line_comment_in_separator (u : UnicodeOracle) (ts : List (List Nat))
    (lead trail : List Nat) (seps : List (List Nat)) (i : Nat) (w w' body : List Nat)
    (hts : ∀ t ∈ ts, ScansAsOne u t) (hseps : ∀ s ∈ seps, WsRun s ∧ s ≠ [])
    (hlen : seps.length = ts.length - 1) (hlead : WsRun lead) (htrail : WsRun trail)
    (hw : WsRun w) (hne : w ≠ []) (hb : ∀ c ∈ body, c ≠ 10) (hw' : WsRun w') :
    tokStream u (lead ++ render ts (seps.set i (w ++ (47 :: 47 :: (body ++ [10])) ++ w')) ++ trail)
      = tokStream u (lead ++ render ts seps ++ trail) :=
  tokStream_layout_invariant u ts lead lead trail trail _ seps hts
    (fun s hs => by
      rcases List.mem_or_eq_of_mem_set hs with h | h
      · exact isSep_ws (hseps s h).1 (hseps s h).2
      · rw [h]; exact isSep_line hw hne hb hw')
    (fun s hs => isSep_ws (hseps s hs).1 (hseps s hs).2) (by simpa using hlen) hlen
    (isGap_ws hlead) (isGap_ws hlead) ⟨isGap_ws htrail, followOK_ws htrail⟩
    ⟨isGap_ws htrail, followOK_ws htrail⟩

/-- (C13c) Positions track the layout.  In a text without `//line ` every token that starts inside
    the text (all but the end-of-input token) reports the position rule on the actual text: its
    offset is a rune boundary, its line is 1 + the number of newline bytes before it, its column is
    1 + the number of runes since the last newline (tabs count 1).  Its literal is
    `src[start:stop]`. -/
theorem C13_positions_track_layout (u : UnicodeOracle) (src : List Nat)
    (hm : ¬ [47, 47, 108, 105, 110, 101, 32] <:+: src) :
    ∀ tok ∈ (fscanAll u src).1,
      tok.lit = (src.drop tok.start).take (tok.stop - tok.start) ∧
      (tok.start < src.length →
        ∃ rs, Runes src tok.start rs ∧ tok.line = lineOf rs ∧ tok.col = colOf rs ∧
          tok.line = 1 + (src.take tok.start).count 10) := by
  intro tok htok
  obtain ⟨s1, ty, s2, h1, rfl⟩ := fscanAll_posInv_lines u src hm tok htok
  obtain ⟨hlit, hpos⟩ := posInv_tok h1 ty s2
  refine ⟨hlit, fun hlt => ?_⟩
  obtain ⟨rs, hr, hl, hcol⟩ := hpos hlt
  exact ⟨rs, hr, hl trivial, hcol, by rw [hl trivial, hr.lineOf_eq]⟩

/-- (C13c, columns) With or without `//line` directives the column of every token is that of the
    position rule (a `//line` directive changes the line only), and the literal is
    `src[start:stop]`. -/
theorem C13_columns_track_layout (u : UnicodeOracle) (src : List Nat) :
    ∀ tok ∈ (fscanAll u src).1,
      tok.lit = (src.drop tok.start).take (tok.stop - tok.start) ∧
      (tok.start < src.length → ∃ rs, Runes src tok.start rs ∧ tok.col = colOf rs) := by
  intro tok htok
  obtain ⟨s1, ty, s2, h1, rfl⟩ := fscanAll_posInv_cols u src tok htok
  obtain ⟨hlit, hpos⟩ := posInv_tok h1 ty s2
  refine ⟨hlit, fun hlt => ?_⟩
  obtain ⟨rs, hr, _, hcol⟩ := hpos hlt
  exact ⟨rs, hr, hcol⟩

/-! ### the hypothesis `ScansAsOne` is satisfiable: token classes that scan as one token -/

/-- the one-byte tokens `- { } : ; , [ ] ( ) | . / <` -/
theorem C13_scansAs_punct (u : UnicodeOracle) {c : Nat} {ty : Int} (h : punctType c = some ty) :
    ScansAs u [c] ty := scansAs_punct u h

/-- ASCII identifiers of every class (`!x`, `_x`, `Abc`, `abc`, and `import`, which is ILLEGAL) -/
theorem C13_scansAs_ident (u : UnicodeOracle) {b : Nat} {r : List Nat}
    (hb : isIdentStart b = true) (hr : ∀ c ∈ r, isIdentByte c = true) :
    ScansAs u (b :: r) (identType b (b :: r)) := scansAs_ident u hb hr

/-- `'c'` -/
theorem C13_scansAs_charLit (u : UnicodeOracle) {c : Nat} (h0 : 0 < c) (h1 : c < 0x80)
    (hq : c ≠ 39) (hb : c ≠ 92) (hn : c ≠ 10) : ScansAs u [39, c, 39] 9 :=
  scansAs_charLit u h0 h1 hq hb hn

/-- `'\e'` for a simple escape `e` (one of `a b f n r t v \ ' "`) -/
theorem C13_scansAs_charLit_esc (u : UnicodeOracle) {e : Nat}
    (he : e = 97 ∨ e = 98 ∨ e = 102 ∨ e = 110 ∨ e = 114 ∨ e = 116 ∨ e = 118 ∨ e = 92 ∨ e = 39 ∨
      e = 34) : ScansAs u [39, 92, e, 39] 9 := scansAs_charLit_esc u he

/-- `"body"` -/
theorem C13_scansAs_stringLit (u : UnicodeOracle) {body : List Nat}
    (hb : ∀ c ∈ body, 0 < c ∧ c < 0x80 ∧ c ≠ 34 ∧ c ≠ 92 ∧ c ≠ 10) :
    ScansAs u (34 :: (body ++ [34])) 21 := scansAs_stringLit u hb

/-- `<< body >>` -/
theorem C13_scansAs_sdtLit (u : UnicodeOracle) {body : List Nat}
    (hb : ∀ c ∈ body, 0 < c ∧ c < 0x80 ∧ c ≠ 62) :
    ScansAs u (60 :: 60 :: (body ++ [62, 62])) 18 := scansAs_sdtLit u hb

/-! ### non-vacuity: a small grammar text in two layouts -/

/-- `a : 'x' ; /* c */ B : a "s" << X >> ;` -/
def C13_ex1 : List Nat :=
  [97, 32, 58, 32, 39, 120, 39, 32, 59, 32, 47, 42, 32, 99, 32, 42, 47, 32, 66, 32, 58, 32, 97, 32,
   34, 115, 34, 32, 60, 60, 32, 88, 32, 62, 62, 32, 59]

/-- the same tokens, other layout: `⏎⇥a⏎:⇥'x'  ;⏎// c⏎B⏎  :  a⏎"s"⇥<< X >>⏎;⏎` -/
def C13_ex2 : List Nat :=
  [10, 9, 97, 10, 58, 9, 39, 120, 39, 32, 32, 59, 10, 47, 47, 32, 99, 10, 66, 10, 32, 32, 58, 32, 32,
   97, 10, 34, 115, 34, 9, 60, 60, 32, 88, 32, 62, 62, 13, 10, 59, 10]

set_option maxRecDepth 100000 in
theorem C13_example_show1 : fscanShow C13_ex1 =
    "2:61@0:1:1 3:3a@2:1:3 9:277827@4:1:5 4:3b@8:1:9 17:42@18:1:19 3:3a@20:1:21 2:61@22:1:23 21:227322@24:1:25 18:3c3c2058203e3e@28:1:29 4:3b@36:1:37 0:@37:1:37 errs=0" := by
  decide

set_option maxRecDepth 100000 in
theorem C13_example_show2 : fscanShow C13_ex2 =
    "2:61@2:2:2 3:3a@4:3:1 9:277827@6:3:3 4:3b@11:3:8 17:42@18:5:1 3:3a@22:6:3 2:61@25:6:6 21:227322@27:7:1 18:3c3c2058203e3e@31:7:5 4:3b@40:8:1 0:@42:8:2 errs=0" := by
  decide

theorem C13_example_same_stream :
    tokStream UnicodeOracle.ascii C13_ex1 = tokStream UnicodeOracle.ascii C13_ex2 := by
  decide

theorem C13_example_stream : tokStream UnicodeOracle.ascii C13_ex1 =
    [(2, [97]), (3, [58]), (9, [39, 120, 39]), (4, [59]), (17, [66]), (3, [58]), (2, [97]),
     (21, [34, 115, 34]), (18, [60, 60, 32, 88, 32, 62, 62]), (4, [59]), (0, [])] := by
  decide

/-- the first example is an instance of `C13_stream_of_rendering`: its tokens satisfy `ScansAs` -/
theorem C13_example_is_rendering :
    C13_ex1 = [] ++ render ([[97], [58], [39, 120, 39], [59], [66], [58], [97], [34, 115, 34],
        [60, 60, 32, 88, 32, 62, 62], [59]])
      [[32], [32], [32], [32, 47, 42, 32, 99, 32, 42, 47, 32], [32], [32], [32], [32], [32]] ++ [] := by
  decide

/-- the token spellings of the example with their types -/
def C13_exToks : List (List Nat × Int) :=
  [([97], 2), ([58], 3), ([39, 120, 39], 9), ([59], 4), ([66], 17), ([58], 3), ([97], 2),
   ([34, 115, 34], 21), ([60, 60, 32, 88, 32, 62, 62], 18), ([59], 4)]

theorem C13_exToks_scan (u : UnicodeOracle) : ∀ p ∈ C13_exToks, ScansAs u p.1 p.2 := by
  intro p hp
  simp only [C13_exToks, List.mem_cons, List.not_mem_nil, or_false] at hp
  rcases hp with rfl | rfl | rfl | rfl | rfl | rfl | rfl | rfl | rfl | rfl
  · exact scansAs_ident u (b := 97) (r := []) (by decide) (by simp)
  · exact scansAs_punct u (c := 58) rfl
  · exact scansAs_charLit u (c := 120) (by decide) (by decide) (by decide) (by decide) (by decide)
  · exact scansAs_punct u (c := 59) rfl
  · exact scansAs_ident u (b := 66) (r := []) (by decide) (by simp)
  · exact scansAs_punct u (c := 58) rfl
  · exact scansAs_ident u (b := 97) (r := []) (by decide) (by simp)
  · exact scansAs_stringLit u (body := [115]) (by simp)
  · exact scansAs_sdtLit u (body := [32, 88, 32]) (by simp)
  · exact scansAs_punct u (c := 59) rfl

/-- for every oracle and EVERY layout (gaps of white space and comments) the example grammar has
    the same stream — the hypotheses of `C13_stream_of_rendering` are satisfiable -/
theorem C13_example_any_layout (u : UnicodeOracle) (seps : List (List Nat)) (lead trail : List Nat)
    (hseps : ∀ s ∈ seps, IsSep s) (hlen : seps.length = 9) (hlead : IsGap lead)
    (htrail : IsGap trail ∧ FollowOK trail) :
    tokStream u (lead ++ render (C13_exToks.map (·.1)) seps ++ trail)
      = [(2, [97]), (3, [58]), (9, [39, 120, 39]), (4, [59]), (17, [66]), (3, [58]), (2, [97]),
         (21, [34, 115, 34]), (18, [60, 60, 32, 88, 32, 62, 62]), (4, [59]), (0, [])] :=
  C13_stream_of_rendering u C13_exToks seps lead trail (C13_exToks_scan u) hseps hlen hlead htrail

end Gocc
