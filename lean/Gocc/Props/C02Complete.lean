import Gocc.Proofs.ValidateC
import Gocc.Props.C02
/-
C02 (completeness half) — a parser whose tables pass the completeness validator accepts every
sentence.

Quantifiers: every numbered grammar `G`, every `T : PTables`, every nullable/FIRST certificate
`fc` with `firstOk G fc = true`, every LR(1) certificate `c` (items with look-aheads per state)
with `complete G T fc c = true` (Model/ValidateC.lean), every harness configuration `cfg` over
these tables whose semantic actions never fail or panic (`ActsOk cfg`), every token-type sequence
`w`, every previous parser state `old`:

      w is a sentence of G   ⟹   for some fuel, Parse accepts w.

DEVIATIONS from the requested statement (both make the theorem stronger):
  * no hypothesis `∀ s, T.canRecover[s]?.getD false = false`: along the run of a sentence the
    action entry is never missing, so `Error` is never called, whatever the recovery table says;
  * no hypothesis `1 ∉ w` (nor `0 ∉ w`): the run follows the derivation; a token of type 1 inside
    `w` is treated like any other terminal of the grammar.
`C02_accept_iff_sentence` combines both validators under the union of the hypotheses.

`complete` checks, besides (K0)–(K3) and "production table = grammar":
  * no action row is wider than `T.numSymbols` (this, not the range of the terminals of `G`, is
    what rules out the "index out of range (token type)" panic: an existing entry has an index
    inside its row); `T.numSymbols > 1` and "terminals of `G` are `< T.numSymbols`" are checked
    too, as requested, but the proof does not use them;
  * `S'` (the head of production 0) occurs in no body — otherwise (K3) would demand `accept`
    where a reduce by production 0 is needed.
-/
namespace Gocc

/-- (C02-complete) every sentence is accepted -/
theorem C02_sentence_accepted {G : NGrammar} {T : PTables} {fc : FirstCert} {c : CertLA}
    (hf : firstOk G fc = true) (hc : complete G T fc c = true)
    {cfg : PCfg} (hA : ActsOk cfg) (hT : cfg.T = T)
    {w : List Nat} (hs : NSentence G w) (old : PState) :
    ∃ fuel r, (parse cfg w fuel old).1 = Outcome.accept r :=
  parse_accepts hf hc hA hT hs old

/-- more fuel does not change the verdict: acceptance with `fuel` is acceptance with any larger
    fuel (so "for some fuel" is "for all sufficiently large fuel") -/
theorem C02_accept_fuel_mono {cfg : PCfg} {w : List Nat} {fuel : Nat} {old : PState} {r : Attr}
    (h : (parse cfg w fuel old).1 = Outcome.accept r) (k : Nat) :
    (parse cfg w (fuel + k) old).1 = Outcome.accept r := by
  unfold parse at h ⊢
  rw [parseLoop_fuel_mono (by rw [h]; intro h'; cases h') k]
  exact h

/-- (FIRST lemma) a closed nullable/FIRST certificate is sound for look-ahead computation: if
    `β` derives `v`, then the token following in `v post` (1 = end of input when there is none)
    is in `firstOfSeq fc β a`, where `a` is the token following in `post` -/
theorem C02_firstOfSeq_sound {G : NGrammar} {fc : FirstCert} (hf : firstOk G fc = true)
    {β : List Sym} {v : List Nat} (hd : NDerives G β v) (post : List Nat) :
    (v ++ post).head?.getD 1 ∈ firstOfSeq fc β (post.head?.getD 1) :=
  mem_firstOfSeq_of_derives hf hd post

/-- `ActsOk` is satisfiable: it follows from a decidable condition on the production kinds -/
theorem C02_actsOk_of_kindsTotal {cfg : PCfg} (h0 : cfg.failAt = 0)
    (hk : kindsTotal cfg.T = true) : ActsOk cfg :=
  actsOk_of_kindsTotal h0 hk

/-- both validators together: Parse decides membership -/
theorem C02_accept_iff_sentence {G : NGrammar} {T : PTables} {cert : Cert} {fc : FirstCert}
    {c : CertLA} (hs : safe G T cert = true) (he : safeEnds T cert = true)
    (hf : firstOk G fc = true) (hc : complete G T fc c = true)
    (hr : ∀ s : Nat, T.canRecover[s]?.getD false = false)
    {cfg : PCfg} (hA : ActsOk cfg) (hT : cfg.T = T) {w : List Nat} (hw : 1 ∉ w) (old : PState) :
    (∃ fuel r, (parse cfg w fuel old).1 = Outcome.accept r) ↔ NSentence G w :=
  ⟨fun ⟨_, _, h⟩ => C02_accept_sound hs he hr hw hT h,
   fun h => C02_sentence_accepted hf hc hA hT h old⟩

/-! ### Non-vacuity: `S' : S ;  S : a S | b` (grammar, tables and `cfg` of `C02Ex`) -/
namespace C02Ex

/-- LR(1) item sets of the five states, look-ahead 1 (end of input) everywhere -/
def certLA : CertLA :=
  #[[(0, 0, 1), (1, 0, 1), (2, 0, 1)], [(1, 1, 1), (1, 0, 1), (2, 0, 1)], [(2, 1, 1)],
    [(0, 1, 1)], [(1, 2, 1)]]

/-- nothing is nullable; FIRST(S') = FIRST(S) = {a, b} -/
def fc : FirstCert := { nullable := [], first := [(0, 2), (0, 3), (1, 2), (1, 3)] }

theorem firstOk_ok : firstOk G fc = true := by decide
theorem complete_ok : complete G T fc certLA = true := by decide

/-- the actions of `cfg` never fail: production 0 has the default action on a body of length 1,
    the others `Mk` actions -/
theorem actsOk : ActsOk cfg := C02_actsOk_of_kindsTotal rfl (by decide)

/-- the same tables with an `Mk` action (`RKind.user 1 _`) on every production -/
def cfgU : PCfg :=
  { T := { T with prodKind := #[.user 1 9, .user 1 10, .user 1 11] }, errTerm := 0, failAt := 0 }

theorem actsOkU : ActsOk cfgU := C02_actsOk_of_kindsTotal rfl (by decide)

/-- `a a b` is a sentence (by a derivation, not by running the parser) -/
theorem sentence_aab : NSentence G [2, 2, 3] := by
  have hb : NDerives G [Sym.nt 1] [3] :=
    NDerives.nt (G := G) (p := 2) (α := []) (u := [3]) (v := []) (by decide) (.term .nil) .nil
  have hab : NDerives G [Sym.nt 1] [2, 3] :=
    NDerives.nt (G := G) (p := 1) (α := []) (u := [2, 3]) (v := []) (by decide) (.term hb) .nil
  exact NDerives.nt (G := G) (p := 1) (α := []) (u := [2, 2, 3]) (v := []) (by decide)
    (.term hab) .nil

/-- hence, through the theorem, `a a b` is accepted -/
theorem accepted_aab (old : PState) :
    ∃ fuel r, (parse cfg [2, 2, 3] fuel old).1 = Outcome.accept r :=
  C02_sentence_accepted firstOk_ok complete_ok actsOk rfl sentence_aab old

/-- … also with user actions everywhere (the checks do not look at `prodKind`) -/
example (old : PState) : ∃ fuel r, (parse cfgU [2, 2, 3] fuel old).1 = Outcome.accept r :=
  C02_sentence_accepted (T := cfgU.T) (c := certLA) firstOk_ok (by decide) actsOkU rfl
    sentence_aab old

/-- for this grammar Parse decides membership, for every input without an end-of-input token -/
theorem decides {w : List Nat} (hw : 1 ∉ w) (old : PState) :
    (∃ fuel r, (parse cfg w fuel old).1 = Outcome.accept r) ↔ NSentence G w :=
  C02_accept_iff_sentence safe_ok safeEnds_ok firstOk_ok complete_ok noRecovery actsOk rfl hw old

/-- the validator rejects incomplete tables: without the reduce entry of state 2 … -/
def Tbad : PTables :=
  { T with action := #[
      #[none, none, some (.shift 1), some (.shift 2)],
      #[none, none, some (.shift 1), some (.shift 2)],
      #[none, none, none, none],
      #[none, some .accept, none, none],
      #[none, some (.reduce 1), none, none]] }
example : complete G Tbad fc certLA = false := by decide
/-- … and a FIRST certificate that is not closed is rejected -/
example : firstOk G { nullable := [], first := [(1, 2), (1, 3)] } = false := by decide

end C02Ex

end Gocc
