import Gocc.Proofs.LitConv
/-
C20 — Rune literal conversion agrees with the Go language specification.

Quantifier: ALL valid Go rune literals (`GoRuneLit` with `valid = true`, see
Gocc/Spec/GoRuneLit.lean): every raw Unicode scalar other than `'`, `\`, newline; the nine
named escapes; `\xhh`; `\ooo` (<= 255); `\uhhhh` (no surrogate); `\Uhhhhhhhh` (<= 0x10FFFF, no
surrogate); hex digits in either case.  No bound on anything.  `l.spell` is the byte string of
the literal including both quotes, `l.value` the code point the Go spec assigns.

`litToRune` models `util.LitToRune` (internal/util/litconv.go, used when gocc reads a grammar);
`runeValue` models `util.RuneValue` (template in internal/util/gen/golang/litconv.go, shipped in
generated code).  `Except.ok` means "returned without panicking".
-/
namespace Gocc

/-- the generator's copy returns the Go-spec value on every valid rune literal -/
theorem C20_litToRune (l : GoRuneLit) (h : l.valid = true) : litToRune l.spell = .ok l.value :=
  litToRune_valid l h

/-- the generated copy and the generator's copy are the same function on ALL byte strings
    (valid literal or not, including where both panic) -/
theorem C20_copies_agree (lit : List Nat) : runeValue lit = litToRune lit :=
  runeValue_eq_litToRune lit

/-- the generated copy returns the Go-spec value on every valid rune literal -/
theorem C20_runeValue (l : GoRuneLit) (h : l.valid = true) : runeValue l.spell = .ok l.value := by
  rw [C20_copies_agree]; exact C20_litToRune l h

-- Non-vacuity: one concrete valid literal per constructor; its spelling is the expected byte
-- string, it is valid, its spec value is the expected code point, and both functions return it.
section
open GoRuneLit
private def hx (v : Fin 16) : HexDigit := ⟨v, false⟩   -- 0-9 a-f
private def hX (v : Fin 16) : HexDigit := ⟨v, true⟩    -- 0-9 A-F
private def oc (v : Fin 8) : OctDigit := ⟨v⟩

-- 'a'
example : (raw 97).spell = [39, 97, 39] ∧ (raw 97).valid = true ∧ (raw 97).value = 97 := by decide
example : litToRune [39, 97, 39] = .ok 97 ∧ runeValue [39, 97, 39] = .ok 97 := ⟨rfl, rfl⟩
-- '€' (U+20AC, three bytes)
example : (raw 0x20AC).spell = [39, 226, 130, 172, 39] ∧ (raw 0x20AC).valid = true ∧
    (raw 0x20AC).value = 8364 := by decide
example : litToRune [39, 226, 130, 172, 39] = .ok 8364 ∧
    runeValue [39, 226, 130, 172, 39] = .ok 8364 := ⟨rfl, rfl⟩
-- 'é' (two bytes) and '😀' (four bytes)
example : (raw 0xE9).spell = [39, 195, 169, 39] ∧ (raw 0xE9).valid = true := by decide
example : (raw 0x1F600).spell = [39, 240, 159, 152, 128, 39] ∧ (raw 0x1F600).valid = true := by decide
example : litToRune [39, 240, 159, 152, 128, 39] = .ok 0x1F600 := rfl
-- '\n'
example : (named .n).spell = [39, 92, 110, 39] ∧ (named .n).valid = true ∧
    (named .n).value = 10 := by decide
example : litToRune [39, 92, 110, 39] = .ok 10 ∧ runeValue [39, 92, 110, 39] = .ok 10 := ⟨rfl, rfl⟩
-- '\''
example : (named .quote).spell = [39, 92, 39, 39] ∧ (named .quote).value = 39 := by decide
-- '\x41'
example : (hex2 (hx 4) (hx 1)).spell = [39, 92, 120, 52, 49, 39] ∧
    (hex2 (hx 4) (hx 1)).valid = true ∧ (hex2 (hx 4) (hx 1)).value = 65 := by decide
example : litToRune [39, 92, 120, 52, 49, 39] = .ok 65 ∧
    runeValue [39, 92, 120, 52, 49, 39] = .ok 65 := ⟨rfl, rfl⟩
-- '\xfF'
example : (hex2 (hx 15) (hX 15)).spell = [39, 92, 120, 102, 70, 39] ∧
    (hex2 (hx 15) (hX 15)).value = 255 := by decide
-- '\101'
example : (oct3 (oc 1) (oc 0) (oc 1)).spell = [39, 92, 49, 48, 49, 39] ∧
    (oct3 (oc 1) (oc 0) (oc 1)).valid = true ∧ (oct3 (oc 1) (oc 0) (oc 1)).value = 65 := by decide
example : litToRune [39, 92, 49, 48, 49, 39] = .ok 65 ∧
    runeValue [39, 92, 49, 48, 49, 39] = .ok 65 := ⟨rfl, rfl⟩
-- '€' (mixed-case hex)
example : (u4 (hx 2) (hx 0) (hx 10) (hX 12)).spell = [39, 92, 117, 50, 48, 97, 67, 39] ∧
    (u4 (hx 2) (hx 0) (hx 10) (hX 12)).valid = true ∧
    (u4 (hx 2) (hx 0) (hx 10) (hX 12)).value = 8364 := by decide
example : litToRune [39, 92, 117, 50, 48, 97, 67, 39] = .ok 8364 ∧
    runeValue [39, 92, 117, 50, 48, 97, 67, 39] = .ok 8364 := ⟨rfl, rfl⟩
-- '\U0001F600'
example : (U8 (hx 0) (hx 0) (hx 0) (hx 1) (hX 15) (hx 6) (hx 0) (hx 0)).spell =
      [39, 92, 85, 48, 48, 48, 49, 70, 54, 48, 48, 39] ∧
    (U8 (hx 0) (hx 0) (hx 0) (hx 1) (hX 15) (hx 6) (hx 0) (hx 0)).valid = true ∧
    (U8 (hx 0) (hx 0) (hx 0) (hx 1) (hX 15) (hx 6) (hx 0) (hx 0)).value = 128512 := by decide
example : litToRune [39, 92, 85, 48, 48, 48, 49, 70, 54, 48, 48, 39] = .ok 128512 ∧
    runeValue [39, 92, 85, 48, 48, 48, 49, 70, 54, 48, 48, 39] = .ok 128512 := ⟨rfl, rfl⟩

-- `valid` discriminates: shapes the Go spec rejects are not valid
-- (''' , '\' , newline, a surrogate, '\777', '\uD800', '\U00110000')
example : (raw 39).valid = false ∧ (raw 92).valid = false ∧ (raw 10).valid = false ∧
    (raw 0xD800).valid = false ∧ (raw 0x110000).valid = false ∧
    (oct3 (oc 7) (oc 7) (oc 7)).valid = false ∧
    (u4 (hX 13) (hx 8) (hx 0) (hx 0)).valid = false ∧
    (U8 (hx 0) (hx 0) (hx 1) (hx 1) (hx 0) (hx 0) (hx 0) (hx 0)).valid = false := by decide
end

end Gocc
