import Gocc.Props.C12
import Gocc.Model.Parse
/-
C12 — `-zip` at the level of whole tables and of the parser that runs on them.

Object: `zipTables T` = what the `init()` functions of the `-zip` action and goto tables leave in
`actionTab` / `gotoTab` when the generator had the tables `T` in hand:

 * action table (actiontable.go `GenCompActionTable` / `actionCompTableSrc`): per state the
   `CanRecover` flag is carried over as it is and the row is `decodeRow width (encodeRow row)`
   (the gob+gzip layer is Go's library and is trusted to be lossless, see DESIGN §5);
 * goto table (gototable.go `GenCompGotoTable` / `gotoTableCompSrc`): `[][]int` rows are copied
   cell by cell, `for i < numStates { for j < numNTSymbols { gotoTab[i][j] = tab[i][j] } }`,
   into a zero table of `numStates` rows and `numNTSymbols` columns (`copyGoto`).

Quantifier: every table value `T` (any number of states, any widths, any entries) for the action
part; for the goto part every table with `nStates` rows of `nts.length` cells (what
`GenCompGotoTable` builds: `make([][]int, itemSets.Size())`, rows `make([]int, numNTSymbols)`).

Consequence (`C12_zip_parse_eq`): the model of the generated `Parse` (Model/Parse, the same
template text is emitted with and without `-zip`) returns the same outcome, the same final state,
hence the same reductions, action log, error and expected list, and makes the same number of Scan
calls, on every input, for every fuel and every history.
-/
namespace Gocc

/-- the goto table has the shape `GenCompGotoTable` builds -/
def GotoRect (T : PTables) : Prop :=
  T.goto_.size = T.nStates ∧ ∀ r ∈ T.goto_.toList, r.size = T.nts.length

theorem zipAction_eq (a : Array (Array (Option Act))) :
    (a.map fun row => (decodeRow row.size (encodeRow row.toList)).toArray) = a := by
  have h : (fun row : Array (Option Act) =>
      (decodeRow row.size (encodeRow row.toList)).toArray) = id := by
    funext row
    have := C12_zip_roundtrip row.toList
    simp only [Array.length_toList] at this
    simp [this]
  rw [h]; simp

theorem list_range_map_getD {α} (l : List α) (d : α) :
    ((List.range l.length).map fun j => (l[j]?).getD d) = l := by
  apply List.ext_getElem
  · simp
  · intro i h1 h2
    simp at h1
    simp [h1]

theorem copyGoto_eq (n m : Nat) (tab : Array (Array Int))
    (hn : tab.size = n) (hm : ∀ r ∈ tab.toList, r.size = m) : copyGoto n m tab = tab := by
  unfold copyGoto
  apply Array.ext
  · simp [hn]
  · intro i h1 h2
    simp at h1
    simp only [List.getElem_toArray, List.getElem_map, List.getElem_range]
    have hi : i < tab.size := h2
    have hr : tab[i].size = m := hm _ (by simp)
    simp only [Array.getElem?_eq_getElem hi, Option.bind_some]
    apply Array.ext
    · simp [hr]
    · intro j g1 g2
      simp at g1
      simp [Array.getElem?_eq_getElem g2]

/-- (g, whole tables) decoding what the `-zip` generator encoded gives back the tables -/
theorem C12_zipTables_eq (T : PTables) (h : GotoRect T) : zipTables T = T := by
  unfold zipTables
  rw [zipAction_eq, copyGoto_eq _ _ _ h.1 h.2]

/-- the action part needs no hypothesis at all -/
theorem C12_zipTables_action (T : PTables) : (zipTables T).action = T.action := zipAction_eq _

/-- look-ups agree entry by entry -/
theorem C12_zip_act_eq (T : PTables) (s t : Nat) : (zipTables T).act s t = T.act s t := by
  unfold PTables.act; rw [C12_zipTables_action]

/-- (g, run level) the generated parser behaves identically on the `-zip` tables: same outcome
    (result / error with token and expected list / action failure), same final stack, same
    action log and same number of Scan calls, on every input and from every earlier state -/
theorem C12_zip_parse_eq (cfg : PCfg) (h : GotoRect cfg.T) (input : List Nat) (fuel : Nat)
    (old : PState) :
    parse { cfg with T := zipTables cfg.T } input fuel old = parse cfg input fuel old := by
  rw [C12_zipTables_eq cfg.T h]

/-! ### non-vacuity -/

def exZipT : PTables :=
  { terminals := ["INVALID", "␚", "a"], nts := ["S'", "S"],
    action := #[#[none, none, some (.shift 2)], #[none, some .accept, none],
                #[none, some (.reduce 1), none]],
    goto_ := #[#[-1, 1], #[-1, -1], #[-1, -1]],
    canRecover := #[false, false, false],
    prodNT := #[0, 1], prodLen := #[1, 1], prodKind := #[.dflt, .dflt],
    conflictStates := 0, nStates := 3, numSymbols := 3 }

example : GotoRect exZipT := by
  refine ⟨rfl, ?_⟩
  intro r hr
  simp [exZipT] at hr
  rcases hr with rfl | rfl <;> rfl

example : (zipTables exZipT).goto_ = exZipT.goto_ := by decide
/-- a table that is too short is NOT reproduced (the hypothesis is not decoration) -/
example : copyGoto 2 2 #[#[5, 6]] ≠ #[#[5, 6]] := by decide

end Gocc
