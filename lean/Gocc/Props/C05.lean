import Gocc.Proofs.ActionFold
/-
C05 — automatic conflict resolution: shift wins, otherwise the earliest production.

Object: `foldActs : List (Option Act) → Except String (Option Act × Bool)` (Model/ActionFold),
the fold of `ResolveConflict` that `ItemSet.Action(symbol)` performs over the actions proposed by
the items of a state for one terminal (`none` = action.ERROR, `Except.error` = Go panic).
`C05_setAction_eq_foldActs` ties it to the item-set function `setAction` of Model/LR1.

Quantifier: all lists of proposed actions (no bound on length, state numbers or production
indices), in every order.

`specResolve` (Model/ActionFold) is the order-free specification: the shift if some item
proposes a shift, otherwise the reduce with the smallest production index, otherwise accept if
proposed, otherwise nothing.  `panics` (Proofs/ActionFold) = accept together with a different
action, or two different shifts; those inputs are refused in every mode (C04).
-/
namespace Gocc

/-- (a) the fold inside `ItemSet.Action` is exactly `foldActs` over the items' proposals -/
theorem C05_setAction_eq_foldActs (C : LRCtx) (st : LRState) (sym : String) :
    setAction C st sym =
      foldActs (st.items.map fun i => itemAction C i sym ((st.next sym).getD 0)) :=
  setAction_eq_foldActs C st sym

/-- (b) whenever generation does not panic, the table entry is the specified one -/
theorem C05_fold_is_spec {acts : List (Option Act)} {r : Option Act} {c : Bool}
    (h : foldActs acts = .ok (r, c)) : r = specResolve acts := by
  have hi := foldActs_inv acts
  rw [h] at hi
  exact SpecP_unique hi.1 hi.2.1 (specResolve_spec acts)

/-- (b, spelled out) a proposed shift always wins -/
theorem C05_shift_wins {acts : List (Option Act)} {r : Option Act} {c : Bool} {s : Nat}
    (h : foldActs acts = .ok (r, c)) (hs : some (Act.shift s) ∈ acts) :
    r = some (Act.shift s) := by
  have hi := foldActs_inv acts
  rw [h] at hi
  exact SpecP_unique hi.1 hi.2.1 (by simpa [SpecP] using hs)

/-- (b, spelled out) without a shift, the reduce with the smallest production index wins -/
theorem C05_earliest_production {acts : List (Option Act)} {r : Option Act} {c : Bool} {p : Nat}
    (h : foldActs acts = .ok (r, c)) (hns : ∀ s, some (Act.shift s) ∉ acts)
    (hp : some (Act.reduce p) ∈ acts) (hmin : ∀ q, some (Act.reduce q) ∈ acts → p ≤ q) :
    r = some (Act.reduce p) := by
  have hi := foldActs_inv acts
  rw [h] at hi
  exact SpecP_unique hi.1 hi.2.1 (by simpa [SpecP] using ⟨hp, hns, hmin⟩)

/-- (d) result, conflict flag and the panic / no-panic verdict do not depend on the order in
    which the items are visited -/
theorem C05_order_independent {acts acts' : List (Option Act)} (h : acts.Perm acts') :
    (foldActs acts).toOption = (foldActs acts').toOption := by
  rw [foldActs_toOption, foldActs_toOption, ← panics_perm h, ← competing_perm h]
  cases hp : panics acts with
  | true => rfl
  | false => simp [specResolve_perm h hp]

/-- (e) an entry for which only one action is proposed is that action, without conflict -/
theorem C05_no_competition {acts : List (Option Act)} {x : Act}
    (h : ∀ a ∈ acts, a = none ∨ a = some x) (hx : some x ∈ acts) :
    foldActs acts = .ok (some x, false) := by
  have hp : ¬PanicsP acts := by unfold PanicsP; grind
  have hpn : panics acts = false := by rw [← Bool.not_eq_true, panics_iff]; exact hp
  have hs : specResolve acts = some x := by
    refine SpecP_unique hp (specResolve_spec acts) ?_
    cases x <;> simp only [SpecP] <;> grind
  have hc : competing acts = false := by
    rw [← Bool.not_eq_true, competing_iff]; unfold CompP; grind
  rw [foldActs_ok_of_not_panics acts hpn, hs, hc]

/-- (e) an entry for which nothing is proposed stays empty (error entry), without conflict -/
theorem C05_no_action {acts : List (Option Act)} (h : ∀ a ∈ acts, a = none) :
    foldActs acts = .ok (none, false) := by
  have hp : ¬PanicsP acts := by unfold PanicsP; grind
  have hpn : panics acts = false := by rw [← Bool.not_eq_true, panics_iff]; exact hp
  have hs : specResolve acts = none := by
    refine SpecP_unique hp (specResolve_spec acts) ?_
    simp only [SpecP]; grind
  have hc : competing acts = false := by
    rw [← Bool.not_eq_true, competing_iff]; unfold CompP; grind
  rw [foldActs_ok_of_not_panics acts hpn, hs, hc]

/-! ### non-vacuity -/

/-- shift/reduce/reduce competition: the shift wins, a conflict is recorded -/
example : foldActs [some (.reduce 3), none, some (.shift 7), some (.reduce 1)] =
    .ok (some (.shift 7), true) := by decide
example : specResolve [some (.reduce 3), none, some (.shift 7), some (.reduce 1)] =
    some (.shift 7) := by decide

/-- reduce/reduce: the earliest production wins, whatever the order -/
example : foldActs [some (.reduce 3), some (.reduce 1), none, some (.reduce 2)] =
    .ok (some (.reduce 1), true) := by decide
example : foldActs [some (.reduce 2), some (.reduce 3), none, some (.reduce 1)] =
    .ok (some (.reduce 1), true) := by decide
example : specResolve [some (.reduce 3), some (.reduce 1), none, some (.reduce 2)] =
    some (.reduce 1) := by decide

/-- the same through the theorems -/
example : ∀ r c, foldActs [some (.reduce 3), none, some (.shift 7), some (.reduce 1)] = .ok (r, c) →
    r = some (.shift 7) := fun _ _ h => C05_shift_wins h (by decide)

/-- a permutation of the first list gives the same verdict -/
example : (foldActs [some (.reduce 1), some (.shift 7), none, some (.reduce 3)]).toOption =
    (foldActs [some (.reduce 3), none, some (.shift 7), some (.reduce 1)]).toOption := by decide

/-- no competition: repeated identical proposals and error entries only -/
example : foldActs [none, some (.reduce 4), none, some (.reduce 4)] =
    .ok (some (.reduce 4), false) := C05_no_competition (by decide) (by decide)
example : foldActs [none, none] = .ok (none, false) := by decide
example : foldActs [some .accept, some .accept] = .ok (some .accept, false) := by decide

/-- `specResolve` alone is order dependent on lists with two different shifts (it takes the
    first); these lists panic, so `C05_order_independent` is not affected -/
example : specResolve [some (.shift 1), some (.shift 2)] ≠
    specResolve [some (.shift 2), some (.shift 1)] := by decide
example : (foldActs [some (.shift 1), some (.shift 2)]).toOption = none := by decide
example : (foldActs [some (.shift 2), some (.shift 1)]).toOption = none := by decide

end Gocc
