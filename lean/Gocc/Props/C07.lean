import Gocc.Proofs.Recover
/-
C07 — Error recovery of the generated parser (`Parser.Error`, `popNonRecoveryStates`,
`firstRecoveryState` in `internal/parser/gen/golang/parser.go`).

Quantifier: ALL tables `T : PTables`, inputs, parser states, fuel (no bounds).  Model:
`recover` / `parseLoop` / `parse` (Model/Parse.lean); specification: Spec/Recover.lean
(`RecWF`, `topRecovery`, `firstAcceptable`, `RecoverSpec`, `attrToks`, `TokInv`, `NoShiftEOF`,
`PCfg.noRecovery`); proofs: Proofs/Recover.lean.

  (a) `C07_recover_spec`            one call of `Error` is exactly `RecoverSpec` (under `RecWF`);
      `C07_recover_spec_unique`     ... which determines the result;
      `C07_recover_never_panics`, `C07_recover_no_recovery_state`, `C07_recover_to_recovery_state`
                                    the same, spelled out
  (b) `C07_no_panic_in_recovery`    under `RecWF` the `action.(shift)` assertion never fails;
      `C07_recovered_action_exists` "Error recovery led to invalid action" is dead code (any tables);
      `C07_panics`                  the complete list of run-time errors of `Parse`
  (c) `C07_tokInv_init`, `C07_tokInv_step`, `C07_tokens_in_order_any` (any tables),
      `C07_tokens_in_order` (tables that never shift end of input)
  (d) `C07_inert_without_errors`, `C07_inert_parse`, `C07_canRecover_irrelevant`,
      `C07_first_failed_lookup`
  non-vacuity: the tables of `S' : L ; L : L Stmt | Stmt ; Stmt : id ";" | error ";"`.

`ps.attrs.length = ps.states.length` is not needed anywhere: `recover` pops both stacks with
`take`/`drop`, which are total.
-/
namespace Gocc

/-! ### the specification functions are what they should be -/

theorem C07_recWFb_iff (T : PTables) (errTerm : Nat) : recWFb T errTerm = true ↔ RecWF T errTerm :=
  recWFb_iff T errTerm

/-- `topRecovery = some k`: entry `k` (from the top) can recover, no entry above it can -/
theorem C07_topRecovery_some {T : PTables} {states : List Nat} {k : Nat}
    (h : topRecovery T states = some k) :
    ∃ r rest, states.drop k = r :: rest ∧ T.canRecover[r]?.getD false = true ∧
      ∀ s ∈ states.take k, T.canRecover[s]?.getD false = false :=
  topRecovery_some h

theorem C07_topRecovery_none {T : PTables} {states : List Nat} (h : topRecovery T states = none) :
    ∀ s ∈ states, T.canRecover[s]?.getD false = false :=
  topRecovery_none h

/-- the look-ahead stream contains an end-of-input token; `firstEOF` is the number of the first -/
theorem C07_firstEOF (input : List Nat) (tok : Nat × Nat) (ntok : Nat) :
    (lookAhead input tok ntok (firstEOF input tok ntok)).2 = 1 ∧
    ∀ i, i < firstEOF input tok ntok → (lookAhead input tok ntok i).2 ≠ 1 :=
  (firstEOF_spec input tok ntok).2

/-- `firstAcceptable = some (j, t)` iff `t` is token number `j` of the look-ahead stream, it has
    an action in state `s`, no earlier token has one and no earlier token is end of input -/
theorem C07_firstAcceptable_some {T : PTables} {input : List Nat} {s : Nat} {tok : Nat × Nat}
    {ntok j : Nat} {t : Nat × Nat} :
    firstAcceptable T input s tok ntok = some (j, t) ↔
      t = lookAhead input tok ntok j ∧ (T.act s t.2).isSome = true ∧
      ∀ i, i < j → T.act s (lookAhead input tok ntok i).2 = none ∧ (lookAhead input tok ntok i).2 ≠ 1 :=
  firstAcceptable_eq_some_iff

/-- `firstAcceptable = none` iff no token up to and including the first end of input has an action -/
theorem C07_firstAcceptable_none {T : PTables} {input : List Nat} {s : Nat} {tok : Nat × Nat}
    {ntok : Nat} :
    firstAcceptable T input s tok ntok = none ↔
      ∀ i, i ≤ firstEOF input tok ntok → T.act s (lookAhead input tok ntok i).2 = none :=
  firstAcceptable_eq_none_iff

/-! ### (a) one call of `Error` -/

/-- (a) Under `RecWF`, on a non-empty stack, `Error` never panics and its result is the one
    described by `RecoverSpec` (Spec/Recover.lean). -/
theorem C07_recover_spec {T : PTables} {errTerm : Nat} (hwf : RecWF T errTerm) (input : List Nat)
    {ps : PState} (hne : ps.states ≠ []) :
    ∃ recovered errTok ps', recover T errTerm input ps = .ok (recovered, errTok, ps') ∧
      RecoverSpec T errTerm input ps recovered errTok ps' :=
  recover_spec hwf input hne

/-- `RecoverSpec` is a complete characterisation: it determines the result -/
theorem C07_recover_spec_unique {T : PTables} {errTerm : Nat} {input : List Nat} {ps : PState}
    {b1 b2 : Bool} {t1 t2 : Nat × Nat} {p1 p2 : PState}
    (h1 : RecoverSpec T errTerm input ps b1 t1 p1) (h2 : RecoverSpec T errTerm input ps b2 t2 p2) :
    b1 = b2 ∧ t1 = t2 ∧ p1 = p2 :=
  h1.unique h2

/-- no Go panic: the type assertion `action.(shift)` in `Error` is safe -/
theorem C07_recover_never_panics {T : PTables} {errTerm : Nat} (hwf : RecWF T errTerm)
    (input : List Nat) {ps : PState} (hne : ps.states ≠ []) (why : String) :
    recover T errTerm input ps ≠ .error why := by
  obtain ⟨b, tok, ps', h, -⟩ := recover_spec hwf input hne
  rw [h]
  intro h'
  cases h'

/-- no state on the stack can recover: "not recovered", nothing popped, no token consumed
    (any tables) -/
theorem C07_recover_no_recovery_state {T : PTables} {errTerm : Nat} {input : List Nat} {ps : PState}
    (hne : ps.states ≠ []) (htr : topRecovery T ps.states = none) :
    recover T errTerm input ps = .ok (false, ps.next, ps) :=
  recover_none htr hne

/-- some state can recover, `k` entries above the topmost such state `r` -/
theorem C07_recover_to_recovery_state {T : PTables} {errTerm : Nat} (hwf : RecWF T errTerm)
    (input : List Nat) {ps : PState} {k : Nat} (htr : topRecovery T ps.states = some k) :
    ∃ r rest s' recovered ps',
      ps.states.drop k = r :: rest ∧ T.act r errTerm = some (.shift s') ∧
      recover T errTerm input ps = .ok (recovered, ps.next, ps') ∧
      ps'.states = s' :: ps.states.drop k ∧
      ps'.attrs = Attr.err ps.next.1 ps.next.2 (ps.attrs.take k).reverse (T.rowExpected r) ::
        ps.attrs.drop k ∧
      ps'.log = ps.log ∧ ps'.calls = ps.calls ∧
      match firstAcceptable T input s' ps.next ps.ntok with
      | some (j, t) => recovered = true ∧ ps'.next = t ∧ ps'.ntok = ps.ntok + j
      | none => recovered = false ∧
          ps'.next = lookAhead input ps.next ps.ntok (firstEOF input ps.next ps.ntok) ∧
          ps'.next.2 = 1 ∧ ps'.ntok = ps.ntok + firstEOF input ps.next ps.ntok := by
  have hne : ps.states ≠ [] := by
    intro h
    rw [h] at htr
    cases htr
  obtain ⟨b, tok, ps', h, hs⟩ := recover_spec hwf input hne
  unfold RecoverSpec at hs
  rw [htr] at hs
  obtain ⟨rfl, h1, h2, r, rest, s', h3, h4, h5, h6, h7⟩ := hs
  refine ⟨r, rest, s', b, ps', h3, h4, h, h5, h6, h1, h2, ?_⟩
  rcases hf : firstAcceptable T input s' ps.next ps.ntok with _ | ⟨j, t⟩
  · rw [hf] at h7
    obtain ⟨g1, g2, g3⟩ := h7
    exact ⟨g1, g2, by rw [g2]; exact (firstEOF_spec input ps.next ps.ntok).2.1, g3⟩
  · rw [hf] at h7
    exact h7

/-! ### (b) no panic in recovery -/

/-- (b) with well-formed recovery flags `Parse` never dies of the `action.(shift)` assertion,
    and never of "Error recovery led to invalid action" -/
theorem C07_no_panic_in_recovery {cfg : PCfg} (hwf : RecWF cfg.T cfg.errTerm) (w : List Nat)
    (fuel : Nat) (ps : PState) :
    (parseLoop cfg w fuel ps).1 ≠
        Outcome.panic "interface conversion: parser.action is not parser.shift" ∧
    (parseLoop cfg w fuel ps).1 ≠ Outcome.panic "Error recovery led to invalid action" := by
  constructor
  · intro h
    rcases parseLoop_panic cfg w fuel ps _ h with h1 | ⟨-, h1⟩
    · revert h1; decide
    · exact h1 hwf
  · intro h
    rcases parseLoop_panic cfg w fuel ps _ h with h1 | ⟨h1, -⟩
    · revert h1; decide
    · revert h1; decide

/-- for ANY tables: `recovered = true` means the action exists — the panic
    "Error recovery led to invalid action" in `Parse` is dead code -/
theorem C07_recovered_action_exists (cfg : PCfg) (w : List Nat) (fuel : Nat) (ps : PState) :
    (parseLoop cfg w fuel ps).1 ≠ Outcome.panic "Error recovery led to invalid action" := by
  intro h
  rcases parseLoop_panic cfg w fuel ps _ h with h1 | ⟨h1, -⟩
  · revert h1; decide
  · revert h1; decide

/-- all run-time errors of `Parse`, for any tables: the ones of `stepPanics` (empty stack, index
    errors of ill-formed tables, errors inside the user actions) and the failed `action.(shift)`
    assertion, which needs tables violating `RecWF` -/
theorem C07_panics (cfg : PCfg) (w : List Nat) (fuel : Nat) (ps : PState) (why : String)
    (h : (parseLoop cfg w fuel ps).1 = Outcome.panic why) :
    why ∈ stepPanics ∨
      (why = "interface conversion: parser.action is not parser.shift" ∧ ¬ RecWF cfg.T cfg.errTerm) :=
  parseLoop_panic cfg w fuel ps why h

/-! ### (c) token conservation -/

theorem C07_tokInv_init (w : List Nat) :
    TokInv { states := [0], attrs := [.nil], next := scanTok w 0, ntok := 1, log := [], calls := 0 } :=
  tokInv_init w

/-- (c) `TokInv` is preserved by every iteration of the `Parse` loop (`step`,
    `parseLoop_succ : parseLoop cfg w (fuel + 1) ps = (step cfg w ps).run (parseLoop cfg w fuel)`),
    with or without error recovery, for arbitrary tables; on acceptance the tokens inside the
    result are in order and have been scanned -/
theorem C07_tokInv_step (cfg : PCfg) (w : List Nat) {ps : PState} (hI : TokInv ps) :
    match step cfg w ps with
    | .cont ps' => TokInv ps'
    | .done (.accept r) ps' => (attrToks r).Pairwise (· < ·) ∧ ∀ i ∈ attrToks r, i + 1 < ps'.ntok
    | .done _ _ => True := by
  have := step_tokInv cfg w hI
  rcases hs : step cfg w ps with ⟨o, ps'⟩ | ps'
  · rw [hs] at this
    cases o <;> exact this
  · rw [hs] at this
    exact this

/-- (c) for ARBITRARY tables: the tokens inside an accepted result are strictly increasing
    (every token reaches the result, and hence the actions, at most once and in input order,
    whatever errors were recovered from) and all of them precede the final look-ahead -/
theorem C07_tokens_in_order_any {cfg : PCfg} {w : List Nat} {fuel : Nat} {old ps : PState}
    {r : Attr} (h : parse cfg w fuel old = (Outcome.accept r, ps)) :
    (attrToks r).Pairwise (· < ·) ∧ ∀ i ∈ attrToks r, i + 1 < ps.ntok :=
  parse_tokens_any h

/-- (c) for tables that never shift the end-of-input token: moreover every token inside the
    result is a token of the input -/
theorem C07_tokens_in_order {cfg : PCfg} (hT : NoShiftEOF cfg.T) {w : List Nat} {fuel : Nat}
    {old ps : PState} {r : Attr} (h : parse cfg w fuel old = (Outcome.accept r, ps)) :
    (attrToks r).Pairwise (· < ·) ∧ ∀ i ∈ attrToks r, i < w.length :=
  parse_tokens hT h

theorem C07_noShiftEOFb {T : PTables} (h : noShiftEOFb T = true) : NoShiftEOF T :=
  noShiftEOF_of_b h

/-! ### (d) recovery is inert without errors -/

/-- (d) Lock-step with the same parser without recovery states and without error terminal
    (`cfg.noRecovery`): unless that parser stops with a syntax error — which it does exactly at
    the first failed action lookup, `C07_first_failed_lookup` — the two runs agree completely
    (outcome, result, final state, call log). -/
theorem C07_inert_without_errors (cfg : PCfg) (w : List Nat) (fuel : Nat) (ps : PState)
    (h : ∀ i t e s, (parseLoop cfg.noRecovery w fuel ps).1 ≠ Outcome.synErr i t e s) :
    parseLoop cfg w fuel ps = parseLoop cfg.noRecovery w fuel ps :=
  parseLoop_noRecovery cfg w fuel ps h

theorem C07_inert_parse (cfg : PCfg) (w : List Nat) (fuel : Nat) (old : PState)
    (h : ∀ i t e s, (parse cfg.noRecovery w fuel old).1 ≠ Outcome.synErr i t e s) :
    parse cfg w fuel old = parse cfg.noRecovery w fuel old :=
  parseLoop_noRecovery cfg w fuel _ h

/-- tables that differ only in `canRecover` (and parsers that differ only in those flags and in
    the error terminal) behave identically on every input on which no action lookup fails -/
theorem C07_canRecover_irrelevant (cfg : PCfg) (canRecover' : Array Bool) (errTerm' : Nat)
    (w : List Nat) (fuel : Nat) (old : PState)
    (h : ∀ i t e s, (parse cfg.noRecovery w fuel old).1 ≠ Outcome.synErr i t e s) :
    parse { cfg with T := { cfg.T with canRecover := canRecover' }, errTerm := errTerm' } w fuel old =
      parse cfg w fuel old := by
  have h1 := C07_inert_parse cfg w fuel old h
  have h2 := C07_inert_parse
    { cfg with T := { cfg.T with canRecover := canRecover' }, errTerm := errTerm' } w fuel old h
  rw [h1, h2]
  rfl

/-- one iteration: either it is the iteration of the parser without recovery (the lookup
    succeeded; `recover` is not called), or the lookup failed and the parser without recovery
    stops there with a syntax error -/
theorem C07_first_failed_lookup (cfg : PCfg) (w : List Nat) (ps : PState) :
    step cfg w ps = step cfg.noRecovery w ps ∨
    ∃ top rest, ps.states = top :: rest ∧ cfg.T.act top ps.next.2 = none ∧
      step cfg.noRecovery w ps =
        .done (.synErr ps.next.1 ps.next.2 (cfg.T.rowExpected top) top) ps :=
  step_noRecovery cfg w ps

/-! ### non-vacuity -/

namespace C07Toy

/-- hand-made LR(1) tables of
      0 `S' : L`   1 `L : L Stmt`   2 `L : Stmt`   3 `Stmt : id ";"`   4 `Stmt : error ";"`
    terminals 0 INVALID, 1 ␚, 2 id, 3 ";", 4 error; states 0 and 1 hold `Stmt : •error ";"` -/
def T : PTables :=
  { terminals := ["INVALID", "␚", "id", ";", "error"]
    nts := ["S'", "L", "Stmt"]
    action := #[
      #[none, none, some (.shift 3), none, some (.shift 4)],
      #[none, some .accept, some (.shift 3), none, some (.shift 4)],
      #[none, some (.reduce 2), some (.reduce 2), none, some (.reduce 2)],
      #[none, none, none, some (.shift 6), none],
      #[none, none, none, some (.shift 7), none],
      #[none, some (.reduce 1), some (.reduce 1), none, some (.reduce 1)],
      #[none, some (.reduce 3), some (.reduce 3), none, some (.reduce 3)],
      #[none, some (.reduce 4), some (.reduce 4), none, some (.reduce 4)]]
    goto_ := #[#[-1, 1, 2], #[-1, -1, 5], #[-1, -1, -1], #[-1, -1, -1], #[-1, -1, -1],
      #[-1, -1, -1], #[-1, -1, -1], #[-1, -1, -1]]
    canRecover := #[true, true, false, false, false, false, false, false]
    prodNT := #[0, 1, 1, 2, 2]
    prodLen := #[1, 2, 1, 2, 2]
    prodKind := #[.dflt, .user 1 1, .user 1 2, .user 1 3, .user 1 4]
    conflictStates := 0
    nStates := 8
    numSymbols := 5 }

def cfg : PCfg := { T := T, errTerm := 4, failAt := 0 }

/-- `id ; id id ; id ;` — the second statement is broken (token 3 is unexpected) -/
def w : List Nat := [2, 3, 2, 2, 3, 2, 3]

example : recWFb T 4 = true := by decide
example : RecWF T 4 := (C07_recWFb_iff T 4).mp (by decide)
example : NoShiftEOF T := C07_noShiftEOFb (by decide)

/-- the parser state at the error: `L id` on the stack, look-ahead token 3 (`id`) -/
def atErr : PState :=
  { states := [3, 1, 0]
    attrs := [.tok 2 2, .node 2 [.node 3 [.tok 0 2, .tok 1 3]], .nil]
    next := (3, 2), ntok := 4, log := [2, 3], calls := 2 }

example : topRecovery T atErr.states = some 1 := by decide
example : firstAcceptable T w 4 atErr.next atErr.ntok = some (1, (4, 3)) := by decide

/-- what the specification says about this call … -/
example : RecoverSpec T 4 w atErr true (3, 2)
    { atErr with states := [4, 1, 0]
                 attrs := [.err 3 2 [.tok 2 2] [1, 2, 4], .node 2 [.node 3 [.tok 0 2, .tok 1 3]], .nil]
                 next := (4, 3), ntok := 5 } := by
  refine ⟨rfl, rfl, rfl, ?_⟩
  have h1 : topRecovery T atErr.states = some 1 := by decide
  rw [h1]
  refine ⟨1, [0], 4, rfl, by decide, rfl, ?_, ?_⟩
  · have : T.rowExpected 1 = [1, 2, 4] := by decide
    simp only [this]
    rfl
  · have h2 : firstAcceptable T w 4 atErr.next atErr.ntok = some (1, (4, 3)) := by decide
    rw [h2]
    exact ⟨rfl, rfl, rfl⟩

/-- the comparable part of a result of `recover` (for the examples) -/
structure View where
  recovered : Bool
  errTok : Nat × Nat
  states : List Nat
  toks : List (List Nat)
  next : Nat × Nat
  ntok : Nat
deriving DecidableEq

def view (r : Except String (Bool × (Nat × Nat) × PState)) : Option View :=
  match r with
  | .ok (b, tok, ps') => some ⟨b, tok, ps'.states, ps'.attrs.map attrToks, ps'.next, ps'.ntok⟩
  | .error _ => none

/-- … and what the code does: pops `id` (token 2) into the error attribute, shifts `error`
    (state 4), skips the offending token 3, continues with token 4 (`;`) -/
example : view (recover T 4 w atErr) =
    some ⟨true, (3, 2), [4, 1, 0], [[2], [0, 1], []], (4, 3), 5⟩ := by decide +kernel

/-- tokens inside an accepted result (for the examples) -/
def acceptedToks (o : Outcome × PState) : Option (List Nat) :=
  match o.1 with
  | .accept r => some (attrToks r)
  | _ => none

/-- a run that recovers: the result holds tokens 0 1 2 4 5 6 in order; the skipped token 3
    reaches no action (it is recorded in the error attribute only) -/
example : acceptedToks (parse cfg w 30 default) = some [0, 1, 2, 4, 5, 6] := by decide +kernel

/-- without recovery states the same input is a syntax error at token 3 … -/
example : (match (parse cfg.noRecovery w 30 default).1 with
    | .synErr i t _ _ => some (i, t)
    | _ => none) = some (3, 2) := by decide +kernel

/-- … and an input without errors is parsed with and without recovery states alike -/
example : acceptedToks (parse cfg [2, 3, 2, 3] 30 default) = some [0, 1, 2, 3] ∧
    acceptedToks (parse cfg.noRecovery [2, 3, 2, 3] 30 default) = some [0, 1, 2, 3] := by
  decide +kernel

/-- `NoShiftEOF` is needed for "index `< input.length`": tables that shift end of input -/
def Tshift : PTables :=
  { T with action := #[#[none, some (.shift 1)], #[none, some .accept]], canRecover := #[], numSymbols := 2 }

example : acceptedToks (parse { T := Tshift, errTerm := 0, failAt := 0 } [] 5 default) = some [0] := by
  decide +kernel

end C07Toy

end Gocc
