import Gocc.Props.C04
import Gocc.Props.C05Gen
/-
C04 at generator level — what gocc ANNOUNCES.

`genParser` (Model/LR1) counts, as `main` does through `GenActionTable`'s `conflicts` map, the
rows of the action table in which `ItemSet.Action` raised the conflict flag for some terminal
(`conflictStates`, the number gocc prints as "N LR-1 conflicts").  For EVERY grammar on which the
generator model returns tables this number is exactly the number of LR(1) states of the model's
collection in which some terminal is proposed two different actions by the state's items
(`C04_genParser_conflict_count`), hence zero conflicts are announced iff no state has such a
terminal (`C04_genParser_no_conflict_iff`).  With `C04_no_conflict_unambiguous` (no conflict ⇒
unambiguous) and the exact table/announcement correspondence of the checks this is the "exactly
when" of the property, on the model side, without a bound on the grammar.

Quantifier: all syntax parts and token-id lists; all states; all terminals.
-/
namespace Gocc

/-- some terminal is proposed two different actions in `st` -/
def stateConflicts (C : LRCtx) (st : LRState) : Bool :=
  C.S.terminals.any fun sym => competing (proposals C st sym)

theorem mapM_filter_length {α β : Type} {f : α → Except String β} {P : β → Bool} {Q : α → Bool}
    (hPQ : ∀ a b, f a = .ok b → P b = Q a) :
    ∀ {l : List α} {r : List β}, l.mapM f = .ok r → (r.filter P).length = (l.filter Q).length := by
  intro l
  induction l with
  | nil =>
    intro r h
    simp only [List.mapM_nil, pure, Except.pure, Except.ok.injEq] at h
    subst h; rfl
  | cons x xs ih =>
    intro r h
    rw [List.mapM_cons] at h
    simp only [bind, Except.bind] at h
    split at h
    · cases h
    · rename_i b hb
      split at h
      · cases h
      · rename_i bs hbs
        simp only [pure, Except.pure, Except.ok.injEq] at h
        subst h
        have h1 := ih hbs
        have h2 := hPQ x b hb
        simp only [List.filter_cons, h2]
        split <;> simp [h1]

theorem mapM_any {α β : Type} {f : α → Except String β} {P : β → Bool} {Q : α → Bool}
    (hPQ : ∀ a b, f a = .ok b → P b = Q a) :
    ∀ {l : List α} {r : List β}, l.mapM f = .ok r → r.any P = l.any Q := by
  intro l
  induction l with
  | nil =>
    intro r h
    simp only [List.mapM_nil, pure, Except.pure, Except.ok.injEq] at h
    subst h; rfl
  | cons x xs ih =>
    intro r h
    rw [List.mapM_cons] at h
    simp only [bind, Except.bind] at h
    split at h
    · cases h
    · rename_i b hb
      split at h
      · cases h
      · rename_i bs hbs
        simp only [pure, Except.pure, Except.ok.injEq] at h
        subst h
        simp [ih hbs, hPQ x b hb]

/-- the flag `ItemSet.Action` raises is `competing` of the proposals -/
theorem setAction_flag {C : LRCtx} {st : LRState} {sym : String} {b : Option Act × Bool}
    (h : setAction C st sym = .ok b) : b.2 = competing (proposals C st sym) := by
  rw [C05_setAction_eq_foldActs] at h
  exact C04_conflict_flag (r := b.1) (c := b.2) h

/-- the conflict count of a successful `genParser` run, as the model computes it -/
theorem genParser_conflictStates {syn : List SProd} {ids : List String} {r : LRResult}
    (h : genParser syn ids = .ok r) :
    ∃ rows, r.states.toList.mapM (fun st => r.ctx.S.terminals.mapM (setAction r.ctx st)) = .ok rows ∧
      r.tables.conflictStates = (rows.filter fun row => row.any (·.2)).length := by
  unfold genParser at h
  simp only [bind, Except.bind] at h
  split at h
  · cases h
  · rename_i S0 hS0
    split at h
    · cases h
    · rename_i rows hrows
      simp only [pure, Except.pure] at h
      cases h
      exact ⟨rows, hrows, rfl⟩

/-- C04, generator level: the announced number is the number of states in which some terminal
    is proposed two different actions -/
theorem C04_genParser_conflict_count {syn : List SProd} {ids : List String} {r : LRResult}
    (h : genParser syn ids = .ok r) :
    r.tables.conflictStates = (r.states.toList.filter (stateConflicts r.ctx)).length := by
  obtain ⟨rows, hrows, hc⟩ := genParser_conflictStates h
  rw [hc]
  refine mapM_filter_length (f := fun st => r.ctx.S.terminals.mapM (setAction r.ctx st))
    (P := fun row => row.any (·.2)) (Q := stateConflicts r.ctx) ?_ hrows
  intro st row hrow
  unfold stateConflicts
  exact mapM_any (f := setAction r.ctx st) (P := (·.2))
    (Q := fun sym => competing (proposals r.ctx st sym)) (fun sym b hb => setAction_flag hb) hrow

/-- no conflict is announced iff no state has a terminal with two different proposed actions -/
theorem C04_genParser_no_conflict_iff {syn : List SProd} {ids : List String} {r : LRResult}
    (h : genParser syn ids = .ok r) :
    r.tables.conflictStates = 0 ↔
      ∀ st ∈ r.states.toList, ∀ sym ∈ r.ctx.S.terminals, competing (proposals r.ctx st sym) = false := by
  rw [C04_genParser_conflict_count h, List.length_eq_zero_iff, List.filter_eq_nil_iff]
  constructor
  · intro hh st hst sym hsym
    have := hh st hst
    simp only [stateConflicts, List.any_eq_true, not_exists, not_and, Bool.not_eq_true] at this
    exact this sym hsym
  · intro hh st hst
    simp only [stateConflicts, List.any_eq_true, not_exists, not_and, Bool.not_eq_true]
    exact fun sym hsym => hh st hst sym hsym

/-! ### non-vacuity (the grammars of Props/C05Gen) -/

/-- the shift/reduce grammar announces exactly the states the right-hand side counts, and that
    number is not zero -/
example : (genParser C05GenEx.synSR ["n", "p"]).toOption.map (fun r =>
    decide (r.tables.conflictStates = (r.states.toList.filter (stateConflicts r.ctx)).length ∧
      r.tables.conflictStates = 1)) = some true := by
  decide +kernel

/-- an LR(1) grammar announces none -/
example : (genParser [{ head := "S", body := [⟨.tokId, "a"⟩, ⟨.prodId, "S"⟩, ⟨.tokId, "b"⟩] },
      { head := "S", body := [⟨.tokId, "c"⟩] }] ["a", "b", "c"]).toOption.map
    (fun r => r.tables.conflictStates) = some 0 := by
  decide +kernel

end Gocc
