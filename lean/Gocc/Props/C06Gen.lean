import Gocc.Proofs.GenValid
import Gocc.Props.C06
import Gocc.Props.C02GenComplete
/-
C06 at the generator level — for EVERY grammar whose non-terminals are productive, the tables
computed by the generator model pass the VALIDITY validator `validItems` (Model/ValidateV.lean: the
tables hold no action that is not justified by a derivation), with certificates computed from the
generator's own output; hence the error-reporting theorems of Props/C06.lean hold for the generated
parser of every conflict-free, error-free grammar with productive non-terminals — no per-grammar
validator run is involved.

Object: `genParser syn tokIds` (Model/LR1.lean), the validator `validItems`, the numbered grammar
`G = ngrammarOf (augment syn) terminals nts`, the LR(1) certificate `claOf r` (Model/GenCert.lean:
the item lists of the generator's states IN THE GENERATOR'S ORDER, look-aheads numbered,
duplicates erased) and the derivation certificate `vcertOf G` (Model/GenVCert.lean: productive /
nullable / FIRST facts of the numbered grammar, computed by a TOTAL fuel-bounded loop — it replaces
the opaque, non-total recursions `genProd` / `genNull` / `genFirst` / `genVCert` of Driver/Gram.lean).

Quantifiers of `C06_genParser_validItems`: all `syn`, all `tokIds`, all `r` with
`genParser syn tokIds = .ok r`, under
  * `NamesOk syn tokIds`, `r.states.size ≤ 4096` — as for `C02_genParser_safe` (Props/C02Gen.lean).
    The bound is used for (V2): an unexpanded state would get `shift 0` entries, and no edge may
    enter state 0.  (V5) "no body holds terminal 1" is the clause `␚ ∉ bodies` of `NamesOk`.
  * `CompleteNamesOk syn` (Proofs/GenComplete.lean, Props/C02GenComplete.lean):
      - `INVALID` in no body: (V5) "no body holds terminal 0" — witness `C06GenEx.invalid_in_body`;
      - `empty` inside no non-empty alternative: the generator's `firstS` reads the terminal's
        FIRST set `{empty}` as "nullable", so `first1` hands out look-aheads that are not in the
        exact FIRST set — witness `C06GenEx.empty_in_body` (`validItems = false`);
      - no production called `empty`: used by the proof (the FIRST sets of the generator and of the
        numbered grammar are compared production by production; `A : empty` is an empty alternative
        for one and a reference to the non-terminal `empty` for the other).  For the witness of
        Props/C02GenComplete.lean (`S : A ; A : empty ; empty : b`) `validItems` still answers
        `true` (`C06GenEx.empty_as_head`): sufficient, not necessary, for the individual grammar.
  * `hp : bodyNTsProductive G = true` (Model/GenVCert.lean, decidable): every non-terminal that
    occurs in a body has an entry in `(vcertOf G).prod`, i.e. derives a terminal string.  This is
    check (V4) itself; it is what makes "viable prefix" mean "prefix of a sentence".  It implies
    that EVERY non-terminal with a production is productive (`C06_heads_productive`: the list is
    closed under the rule "body non-terminals productive ⟹ head productive").
    Witness: `C06GenEx.unproductive` (`S : a A ; A : b A`): `hp` fails, `validItems = false`, and
    the generated parser does report `b` as expected after `a` although no sentence exists.
  NOT needed: `conflictStates = 0` — conflict resolution only removes actions
  (`C06GenEx.conflict_valid`: `E : E + E | x` passes); anything about `error`.

The corollaries (A)–(D) instantiate Props/C06.lean with `C02_genParser_complete` (which needs
`conflictStates = 0`) and `C06_genParser_validItems`; `hr` = no recovery state (no `error`
alternative), `ActsOk cfg` = the semantic actions never fail.

Proof (Proofs/GenValidCert.lean, GenValidFirst.lean, GenValidItems.lean, GenValid.lean):
  cert    `vcertOf` prepends, as long as there is one, a fact that is justified by the facts
          already listed and whose key is new; so the lists pass `prodListOk` / `nullListOk` /
          `firstListOk`.  The fuel exceeds the number of possible keys, the keys in a list are
          pairwise different, so (pigeonhole) the loop stops because no candidate is new: the
          nullable and FIRST lists are CLOSED under the grammar rules.
  FIRST   every element of the generator's FIRST sets (`firstSets`: an iteration of `firstPass`
          from the empty sets) is in the closed lists — induction over the passes and, inside a
          pass, over the productions (`firstS` is bounded from above by "reachable through a prefix
          of symbols that hold the marker `empty`").  Hence `first1 ⊆ firstOfSeq (vcertOf G).fc`.
  (V0/V1) `closureLoop` is a work list: an item is a kernel item or sits behind the item whose
          `closureStep` appended it; kernel items are the start item (state 0) or have the dot
          advanced; numbering and `eraseDups` keep first occurrences in order.
  (V2)    a recorded transition leads to a state `≠ 0` whose items are in the `goto` set (`LRInv`),
          i.e. advanced items of the source (same look-ahead) or items with the dot at the start.
  (V3)    the action kept by the fold of `setAction` is proposed by an item (`resolve` returns one
          of its arguments), as for `C02_genParser_safe`; accept items have look-ahead `␚`.
-/
namespace Gocc

/-- (C06-gen) MAIN THEOREM: the tables generated for any grammar whose body non-terminals are
    productive pass the validity validator, with or without LR(1) conflicts. -/
theorem C06_genParser_validItems (syn : List SProd) (tokIds : List String) (r : LRResult)
    (h : genParser syn tokIds = .ok r) (hn : NamesOk syn tokIds) (hx : CompleteNamesOk syn)
    (hsz : r.states.size ≤ 4096)
    (hp : bodyNTsProductive (ngrammarOf (augment syn) r.tables.terminals r.tables.nts) = true) :
    validItems (ngrammarOf (augment syn) r.tables.terminals r.tables.nts) r.tables (claOf r)
      (vcertOf (ngrammarOf (augment syn) r.tables.terminals r.tables.nts)) = true :=
  GenValid.genParser_validItems h hn hx hsz hp

/-- the derivation certificate is sound for every numbered grammar (each entry is justified by the
    entries after it) … -/
theorem C06_vcertOf_sound (G : NGrammar) :
    prodListOk G (vcertOf G).prod = true ∧ nullListOk G (vcertOf G).null = true ∧
    firstListOk G (vcertOf G).null (vcertOf G).first = true :=
  ⟨GenValid.prodListOk_vcert G, GenValid.nullListOk_vcert G, GenValid.firstListOk_vcert G⟩

/-- … and complete: its nullable and FIRST lists are closed under the grammar rules (the fuel of
    the loop is never exhausted) -/
theorem C06_vcertOf_closed (G : NGrammar) {p : Nat} (hp : p < G.prods.size) :
    ((G.body p).all (nullSym (vcertOf G).null) = true →
      hasNT (vcertOf G).null (G.head p) = true) ∧
    (∀ i, ((G.body p).take i).all (nullSym (vcertOf G).null) = true →
      (∀ b, (G.body p)[i]? = some (Sym.t b) → (G.head p, b) ∈ (vcertOf G).fc.first) ∧
      (∀ B b, (G.body p)[i]? = some (Sym.nt B) → (B, b) ∈ (vcertOf G).fc.first →
        (G.head p, b) ∈ (vcertOf G).fc.first)) :=
  ⟨GenValid.null_closed G hp, fun _ hc =>
    ⟨fun _ hb => GenValid.first_closed_t G hp hc hb,
     fun _ _ hb hB => GenValid.first_closed_nt G hp hc hb hB⟩⟩

/-- `hp` says that every non-terminal is productive: if all body non-terminals are, so is every
    head of a production -/
theorem C06_heads_productive (G : NGrammar) (h : bodyNTsProductive G = true) :
    headsProductive G = true :=
  GenValid.heads_of_body G h

/-- (A, generated) along any run of the parser with the GENERATED tables: the consumed input is a
    prefix of a sentence, and an action entry of the top state on any terminal `a` is justified by
    a sentence (`C06_action_implies_viable` instantiated) -/
theorem C06_generated_action_implies_viable {syn : List SProd} {tokIds : List String}
    {r : LRResult} (h : genParser syn tokIds = .ok r) (hn : NamesOk syn tokIds)
    (hx : CompleteNamesOk syn) (hsz : r.states.size ≤ 4096)
    (hc : r.tables.conflictStates = 0)
    (hp : bodyNTsProductive (ngrammarOf (augment syn) r.tables.terminals r.tables.nts) = true)
    (hr : ∀ s : Nat, r.tables.canRecover[s]?.getD false = false) {cfg : PCfg}
    (hT : cfg.T = r.tables) {w : List Nat} {ps : PState} (hrun : Steps cfg w (initPS w) ps)
    {top : Nat} {rest : List Nat} (hst : ps.states = top :: rest) :
    ∃ k, k ≤ w.length ∧ ps.ntok = k + 1 ∧ ps.next = scanTok w k ∧
      NViablePrefix (ngrammarOf (augment syn) r.tables.terminals r.tables.nts) (w.take k) ∧
      ∀ a act, r.tables.act top a = some act →
        (a ≠ 1 → ∃ v, NSentence (ngrammarOf (augment syn) r.tables.terminals r.tables.nts)
          (w.take k ++ a :: v)) ∧
        (a = 1 → NSentence (ngrammarOf (augment syn) r.tables.terminals r.tables.nts)
          (w.take k)) :=
  C06_action_implies_viable (C02_genParser_complete syn tokIds r h hn hsz hc hx).2
    (C06_genParser_validItems syn tokIds r h hn hx hsz hp) hr hT hrun hst

/-- (B, generated) for every conflict-free grammar without `error` alternative whose body
    non-terminals are productive: a syntax error of the GENERATED parser names the first token
    that cannot continue a sentence (`C06_error_token_is_first_offending` instantiated) -/
theorem C06_generated_error_token_is_first_offending {syn : List SProd} {tokIds : List String}
    {r : LRResult} (h : genParser syn tokIds = .ok r) (hn : NamesOk syn tokIds)
    (hx : CompleteNamesOk syn) (hsz : r.states.size ≤ 4096)
    (hc : r.tables.conflictStates = 0)
    (hp : bodyNTsProductive (ngrammarOf (augment syn) r.tables.terminals r.tables.nts) = true)
    (hr : ∀ s : Nat, r.tables.canRecover[s]?.getD false = false)
    {cfg : PCfg} (hA : ActsOk cfg) (hT : cfg.T = r.tables) {w : List Nat} {fuel : Nat}
    {old : PState} {i typ : Nat} {exp : List Nat} {top : Nat}
    (he : (parse cfg w fuel old).1 = Outcome.synErr i typ exp top) :
    NViablePrefix (ngrammarOf (augment syn) r.tables.terminals r.tables.nts) (w.take i) ∧
    i ≤ w.length ∧ typ = (w[i]?).getD 1 ∧
    (typ ≠ 1 → ¬ ∃ v, NSentence (ngrammarOf (augment syn) r.tables.terminals r.tables.nts)
      (w.take i ++ typ :: v)) ∧
    (typ = 1 → ¬ NSentence (ngrammarOf (augment syn) r.tables.terminals r.tables.nts)
      (w.take i)) :=
  C06_error_token_is_first_offending (C02_genParser_complete syn tokIds r h hn hsz hc hx).1
    (C02_genParser_complete syn tokIds r h hn hsz hc hx).2
    (C06_genParser_validItems syn tokIds r h hn hx hsz hp) hr hA hT he

/-- (C, generated) … and its expected-token list is exactly the set of terminals (1 = end of
    input) that can follow the consumed input in a sentence, in strictly increasing order
    (`C06_expected_set_exact` instantiated) -/
theorem C06_generated_expected_set_exact {syn : List SProd} {tokIds : List String}
    {r : LRResult} (h : genParser syn tokIds = .ok r) (hn : NamesOk syn tokIds)
    (hx : CompleteNamesOk syn) (hsz : r.states.size ≤ 4096)
    (hc : r.tables.conflictStates = 0)
    (hp : bodyNTsProductive (ngrammarOf (augment syn) r.tables.terminals r.tables.nts) = true)
    (hr : ∀ s : Nat, r.tables.canRecover[s]?.getD false = false)
    {cfg : PCfg} (hA : ActsOk cfg) (hT : cfg.T = r.tables) {w : List Nat} {fuel : Nat}
    {old : PState} {i typ : Nat} {exp : List Nat} {top : Nat}
    (he : (parse cfg w fuel old).1 = Outcome.synErr i typ exp top) :
    (∀ a, a ∈ exp ↔
      (a ≠ 1 ∧ ∃ v, NSentence (ngrammarOf (augment syn) r.tables.terminals r.tables.nts)
        (w.take i ++ a :: v)) ∨
      (a = 1 ∧ NSentence (ngrammarOf (augment syn) r.tables.terminals r.tables.nts)
        (w.take i))) ∧
    exp.Pairwise (· < ·) :=
  C06_expected_set_exact (C02_genParser_complete syn tokIds r h hn hsz hc hx).1
    (C02_genParser_complete syn tokIds r h hn hsz hc hx).2
    (C06_genParser_validItems syn tokIds r h hn hx hsz hp) hr hA hT he

/-- (D, generated) … and the parser made no move with the offending token as look-ahead: on
    `w.take i ++ [INVALID]` it stops in exactly the same configuration
    (`C06_no_reduction_on_bad_lookahead` instantiated) -/
theorem C06_generated_no_reduction_on_bad_lookahead {syn : List SProd} {tokIds : List String}
    {r : LRResult} (h : genParser syn tokIds = .ok r) (hn : NamesOk syn tokIds)
    (hx : CompleteNamesOk syn) (hsz : r.states.size ≤ 4096)
    (hc : r.tables.conflictStates = 0)
    (hp : bodyNTsProductive (ngrammarOf (augment syn) r.tables.terminals r.tables.nts) = true)
    (hr : ∀ s : Nat, r.tables.canRecover[s]?.getD false = false)
    {cfg : PCfg} (hA : ActsOk cfg) (hT : cfg.T = r.tables) {w : List Nat} {fuel : Nat}
    {old : PState} {i typ : Nat} {exp : List Nat} {top : Nat}
    (he : (parse cfg w fuel old).1 = Outcome.synErr i typ exp top) :
    ∃ fuel', parse cfg (w.take i ++ [0]) fuel' old =
      (Outcome.synErr i 0 exp top, { (parse cfg w fuel old).2 with next := (i, 0) }) :=
  C06_no_reduction_on_bad_lookahead (C02_genParser_complete syn tokIds r h hn hsz hc hx).1
    (C02_genParser_complete syn tokIds r h hn hsz hc hx).2
    (C06_genParser_validItems syn tokIds r h hn hx hsz hp) hr hA hT he

/-! ### Non-vacuity: `S : a S b <<10>> | c <<11>>` (`C02GenEx.syn`, `C02GenEx.ids`) -/
namespace C06GenEx

open C02GenEx (syn ids)
open C02GenCompleteEx (Gex gex_eq run2_facts)

/-- the side conditions are decided -/
example : NamesOk syn ids ∧ CompleteNamesOk syn := by decide

/-- the derivation certificate of the numbered grammar `S' : S ; S : a S b | c`: `S` is productive
    by `S : c`, then `S'`; nothing is nullable; FIRST(S) ∋ c, a, FIRST(S') likewise -/
example : ((vcertOf Gex).prod, (vcertOf Gex).null, (vcertOf Gex).first) =
    ([(0, 0), (1, 2)], [],
     [(0, 4, 0, 0), (1, 4, 2, 0), (0, 2, 0, 0), (1, 2, 1, 0)]) := by decide

theorem productive : bodyNTsProductive Gex = true := by decide

/-- all hypotheses of the corollaries, for any successful run on the grammar -/
theorem hyps {r : LRResult} (h : genParser syn ids = .ok r) :
    r.states.size ≤ 4096 ∧ r.tables.conflictStates = 0 ∧
    bodyNTsProductive (ngrammarOf (augment syn) r.tables.terminals r.tables.nts) = true ∧
    (∀ s : Nat, r.tables.canRecover[s]?.getD false = false) ∧
    ActsOk { T := r.tables, errTerm := 0, failAt := 0 } ∧
    ngrammarOf (augment syn) r.tables.terminals r.tables.nts = Gex := by
  obtain ⟨f1, f2, f3, f4, f5, f6⟩ := run2_facts h
  refine ⟨by rw [f1]; decide, f2, ?_, noRecovery_of_all f6,
    C02_actsOk_of_kindsTotal rfl f5, by rw [f3, f4, gex_eq]⟩
  rw [f3, f4, gex_eq]
  exact productive

/-- the theorem applies: the generated tables pass the validity validator (no validator run) -/
example (r : LRResult) (h : genParser syn ids = .ok r) :
    validItems (ngrammarOf (augment syn) r.tables.terminals r.tables.nts) r.tables (claOf r)
      (vcertOf (ngrammarOf (augment syn) r.tables.terminals r.tables.nts)) = true :=
  C06_genParser_validItems syn ids r h (by decide) (by decide) (hyps h).1 (hyps h).2.2.1

/-- for comparison, the validator evaluated directly on the generated tables -/
example : (genParser syn ids).toOption.map (fun r =>
      validItems (ngrammarOf (augment syn) r.tables.terminals r.tables.nts) r.tables (claOf r)
        (vcertOf (ngrammarOf (augment syn) r.tables.terminals r.tables.nts))) = some true := by
  decide +kernel

/-- the data of a syntax error -/
def errOf : Outcome → Option (Nat × Nat × List Nat × Nat)
  | .synErr i typ exp top => some (i, typ, exp, top)
  | _ => none

theorem errOf_eq {o : Outcome} {i typ top : Nat} {exp : List Nat}
    (h : errOf o = some (i, typ, exp, top)) : o = Outcome.synErr i typ exp top := by
  cases o <;> simp only [errOf, Option.some.injEq, Prod.mk.injEq, reduceCtorEq] at h
  obtain ⟨rfl, rfl, rfl, rfl⟩ := h
  rfl

/-- kernel evaluation of the generated parser on `a c` (token types 2 4): syntax error at token
    index 2 = end of input (type 1), expected `b` (type 3), in state 6 -/
theorem err_ac : (genParser syn ids).toOption.map (fun r =>
    errOf (parse { T := r.tables, errTerm := 0, failAt := 0 } [2, 4] 50 default).1) =
      some (some (2, 1, [3], 6)) := by
  decide +kernel

theorem err_ac' {r : LRResult} (h : genParser syn ids = .ok r) :
    (parse { T := r.tables, errTerm := 0, failAt := 0 } [2, 4] 50 default).1 =
      Outcome.synErr 2 1 [3] 6 := by
  have := err_ac
  rw [h] at this
  simp only [Except.toOption, Option.map_some, Option.some.injEq] at this
  exact errOf_eq this

/-- (B) THROUGH THE GENERATOR-LEVEL THEOREM: `a c` is a prefix of a sentence, but not a sentence -/
theorem ac_prefix_not_sentence : NViablePrefix Gex [2, 4] ∧ ¬ NSentence Gex [2, 4] := by
  obtain ⟨r, h⟩ := C02GenEx.run_ok
  obtain ⟨h1, h2, h3, h4, h5, h6⟩ := hyps h
  have := C06_generated_error_token_is_first_offending h (by decide) (by decide) h1 h2 h3 h4
    (cfg := { T := r.tables, errTerm := 0, failAt := 0 }) h5 rfl (err_ac' h)
  rw [h6] at this
  exact ⟨this.1, this.2.2.2.2 rfl⟩

/-- (C) THROUGH THE GENERATOR-LEVEL THEOREM: after `a c` exactly `b` can follow — `a c b …` is a
    prefix of a sentence; `a c x …` is not, for every other terminal `x`; `a c` is no sentence -/
theorem ac_expected_exact : (∃ v, NSentence Gex (2 :: 4 :: 3 :: v)) ∧
    (∀ a, a ≠ 3 → a ≠ 1 → ¬ ∃ v, NSentence Gex (2 :: 4 :: a :: v)) := by
  obtain ⟨r, h⟩ := C02GenEx.run_ok
  obtain ⟨h1, h2, h3, h4, h5, h6⟩ := hyps h
  have := (C06_generated_expected_set_exact h (by decide) (by decide) h1 h2 h3 h4
    (cfg := { T := r.tables, errTerm := 0, failAt := 0 }) h5 rfl (err_ac' h)).1
  rw [h6] at this
  constructor
  · rcases (this 3).1 (by simp) with ⟨-, hv⟩ | ⟨h', -⟩
    · exact hv
    · cases h'
  · intro a ha3 ha1 hv
    have := (this a).2 (.inl ⟨ha1, hv⟩)
    simp at this
    exact ha3 this

/-- (D) THROUGH THE GENERATOR-LEVEL THEOREM: on `a c INVALID` the generated parser stops in the same
    configuration as on `a c` -/
example (r : LRResult) (h : genParser syn ids = .ok r) :
    ∃ fuel', parse { T := r.tables, errTerm := 0, failAt := 0 } [2, 4, 0] fuel' default =
      (Outcome.synErr 2 0 [3] 6,
       { (parse { T := r.tables, errTerm := 0, failAt := 0 } [2, 4] 50 default).2 with
         next := (2, 0) }) := by
  obtain ⟨h1, h2, h3, h4, h5, -⟩ := hyps h
  exact C06_generated_no_reduction_on_bad_lookahead h (by decide) (by decide) h1 h2 h3 h4
    (cfg := { T := r.tables, errTerm := 0, failAt := 0 }) h5 rfl (err_ac' h)

/-! ### the hypotheses matter
(`bodyNTsProductive`, `validItems`, recorded conflicts, number of states) of the tables generated for
a grammar — kernel evaluation of the model, of `vcertOf` and of the validator. -/

def verdictV (syn : List SProd) (ids : List String) : Option (Bool × Bool × Nat × Nat) :=
  (genParser syn ids).toOption.map fun r =>
    (bodyNTsProductive (ngrammarOf (augment syn) r.tables.terminals r.tables.nts),
     validItems (ngrammarOf (augment syn) r.tables.terminals r.tables.nts) r.tables (claOf r)
       (vcertOf (ngrammarOf (augment syn) r.tables.terminals r.tables.nts)),
     r.tables.conflictStates, r.states.size)

example : verdictV syn ids = some (true, true, 0, 10) := by decide +kernel

/-- `hp` is needed: `S : a A ; A : b A` — `A` derives no terminal string.  The grammar is
    generated without panic and without conflict, `hp` fails and `validItems` answers `false` … -/
def gUnprod : List SProd :=
  [{ head := "S", body := [⟨.tokId, "a"⟩, ⟨.prodId, "A"⟩] },
   { head := "A", body := [⟨.tokId, "b"⟩, ⟨.prodId, "A"⟩] }]
example : NamesOk gUnprod ["a", "b"] ∧ CompleteNamesOk gUnprod := by decide
theorem unproductive : verdictV gUnprod ["a", "b"] = some (false, false, 0, 6) := by
  decide +kernel
/-- … rightly: after `a` (token type 2) the generated parser expects `b` (type 3) although the
    grammar has no sentence at all -/
example : (genParser gUnprod ["a", "b"]).toOption.map (fun r =>
    errOf (parse { T := r.tables, errTerm := 0, failAt := 0 } [2] 50 default).1) =
      some (some (1, 1, [3], 2)) := by
  decide +kernel

/-- `conflictStates = 0` is NOT needed for validity: `E : E + E | x` (one state with a
    shift/reduce conflict, resolved in favour of shift) and the dangling else pass -/
theorem conflict_valid : verdictV C02GenCompleteEx.ambig ["+", "x"] = some (true, true, 1, 5) := by
  decide +kernel
example : verdictV C02GenCompleteEx.dangling ["e", "i", "x"] = some (true, true, 1, 12) := by
  decide +kernel

/-- the clauses of `CompleteNamesOk`: `INVALID` in a body — (V5) fails -/
theorem invalid_in_body : verdictV C02GenCompleteEx.gInvalid ["a"] = some (true, false, 0, 4) := by
  decide +kernel
/-- `empty` inside a non-empty alternative (`S : B empty ; B : b`): the look-ahead `␚` of
    `B : • b` is not in the exact FIRST set of `empty ␚` -/
theorem empty_in_body : verdictV C02GenCompleteEx.gEmptyMid ["b"] = some (true, false, 0, 5) := by
  decide +kernel
/-- a production called `empty` (`S : A ; A : empty ; empty : b`): excluded by the hypotheses (the
    proof compares the two FIRST computations), but this grammar passes -/
theorem empty_as_head : verdictV C02GenCompleteEx.gEmptyHead ["b"] = some (true, true, 0, 3) := by
  decide +kernel
/-- a clause of `NamesOk`: `␚` in a body — (V5) fails -/
example : verdictV [{ head := "S", body := [⟨.tokId, "a"⟩, ⟨.tokId, "␚"⟩] }] ["a"] =
    some (true, false, 0, 4) := by decide +kernel

/-- nullable non-terminals, `empty` alternatives, `error`, unreachable non-terminals are fine -/
def fine : List SProd := [
  { head := "S", body := [⟨.prodId, "A"⟩, ⟨.tokId, "c"⟩] },
  { head := "A", body := [⟨.tokId, "empty"⟩] },
  { head := "A", body := [⟨.tokId, "error"⟩, ⟨.tokId, "a"⟩] },
  { head := "U", body := [⟨.tokId, "a"⟩, ⟨.prodId, "S"⟩, ⟨.prodId, "A"⟩] } ]
example : NamesOk fine ["a", "c", "error"] ∧ CompleteNamesOk fine := by decide
example : (verdictV fine ["a", "c", "error"]).map (fun v => (v.1, v.2.1, v.2.2.1)) =
    some (true, true, 0) := by decide +kernel

end C06GenEx

end Gocc
