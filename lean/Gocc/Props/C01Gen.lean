import Gocc.Proofs.LexGenCorrect
/-
C01 (tie between the halves), proved ONCE AND FOR ALL for lexical parts without references to
regular definitions: the automaton the lexer generator builds (`genLexer`, model of
`internal/lexer/items`) and the reference automaton (`refDfa`, Gocc/Spec/LexRef.lean) are bisimilar
on every rune `utf8.DecodeRune` can return, hence `Scan` returns the same token (type, literal,
position) and leaves the same cursor with either table, on every byte string and from every cursor.
Until now this tie was established per grammar at run time by the verified checker `equivCheck`
(Gocc/Props/C01Equiv.lean).

Quantifier: ALL lists of lexical productions `prods` (any kinds `tok` / `ign` / `reg`, any ids —
duplicate or empty ids included —, any `strLit` flags, any patterns including empty alternatives,
empty groups, reversed ranges `'z'-'a'`, runes outside `[0, 0x10FFFF]`), ALL maps `f` from actions to
`(Accept, isIgnore)` pairs.

Hypotheses (all decidable):
  * `h   : genLexer prods = .ok states` — the generator succeeded (it is total without references;
           the hypothesis only names its result);
  * `hn  : noRefs prods = true` — no `LTerm.ref` anywhere in the patterns.  NEEDED: with references
           the statement is false (known finding D1: gocc shares regular definitions between use sites
           instead of expanding them); `c01gD1_equivCheck_false` below is a three-production lexical
           part on which the verified checker evaluates to `false` and the two scans differ on `aay`;
  * `hsz : states.size < 100000` — the fuel of `lexLoop` was not exhausted (otherwise the model stops
           with unexpanded states; the Go loop has no such bound);
  * `hrs : (refDfa prods).states.size < 20000` — the fuel of `refDfaLoop` was not exhausted.
NOT needed (examined, see the examples at the end): well-formed ranges (a reversed range matches no
class in `Item.match` and no rune in `termHas`: both sides ignore it), runes in `[0, 0x10FFFF]` in
literals (the classes of the generator are exact, the reference's elementary intervals only have to
separate the runes in `[0, 0x10FFFF]`), distinct production ids, restrictions on `strLit` or on
never-referenced `reg` productions (they are in no start set on either side).

The proof (Gocc/Proofs/LexGenCorrect*.lean), milestones re-exported below:
  (M1) `C01_closureL_id`, `C01_depClosure_id`, `C01_nextSet_eq`, `C01_nextDot_eq`;
  (M2) `C01_step_class`, `C01_step_dot`;
  (M3) `C01_lexAction_congr`, `C01_act_agree`;
  (M4) `C01_genLexer_spec`, `C01_refDfa_spec`, `C01_genLexer_bisim`, `C01_genLexer_scan_eq_ref`.
-/
namespace Gocc

open LexGenC

/-! ### (M1) without references the closure operations of the generator do nothing -/

/-- `ItemList.Closure` is the identity, for every item list -/
theorem C01_closureL_id {prods : List LProd} (hn : noRefs prods = true) (l : List LItem) :
    closureL { prods := prods.toArray } l = .ok l :=
  closureL_id (noRefC_of_noRefs hn) l

/-- `ItemSet.dependentsClosure` is the identity, for every pair of item lists -/
theorem C01_depClosure_id {prods : List LProd} (hn : noRefs prods = true) (prev l : List LItem) :
    depClosure { prods := prods.toArray } prev l = l :=
  depClosure_id (noRefC_of_noRefs hn) prev l

/-- `ItemSet.Next(rng)` is the deduplicated union of the `moved` items of the items whose expected
    term matches the class -/
theorem C01_nextSet_eq {prods : List LProd} (hn : noRefs prods = true) (prev : List LItem) (c : CR) :
    nextSet { prods := prods.toArray } prev c = .ok (moveSet { prods := prods.toArray } prev c) ∧
    (moveSet { prods := prods.toArray } prev c).Nodup ∧
    ∀ y, y ∈ moveSet { prods := prods.toArray } prev c ↔
      ∃ i ∈ prev, ∃ t, LexCtx.expected { prods := prods.toArray } i = some t ∧
        termMatch t c = true ∧ y ∈ moved { prods := prods.toArray } i :=
  ⟨nextSet_eq (noRefC_of_noRefs hn) prev c, nodup_moveSet _ prev c, fun _ => mem_moveSet⟩

/-- `ItemSet.NextDot()` is the deduplicated union of the `moved` items of the items expecting `.` -/
theorem C01_nextDot_eq {prods : List LProd} (hn : noRefs prods = true) (prev : List LItem) :
    nextDot { prods := prods.toArray } prev = .ok (dotSet { prods := prods.toArray } prev) ∧
    (dotSet { prods := prods.toArray } prev).Nodup ∧
    ∀ y, y ∈ dotSet { prods := prods.toArray } prev ↔
      ∃ i ∈ prev, LexCtx.expected { prods := prods.toArray } i = some .dot ∧
        y ∈ moved { prods := prods.toArray } i :=
  ⟨nextDot_eq (noRefC_of_noRefs hn) prev, nodup_dotSet _ prev, fun _ => mem_dotSet⟩

/-! ### (M2) the per-state transition lemma

`SetRel items S`: the item list and the position list are the same set under `i ↦ [i]`.
`S.length ≤ C.fuel` holds for every state of the reference automaton (`GoodX.length_le`). -/

/-- a rune `r` of the class `c` of the state: `Next(c)` and the reference step on `r` are the same set -/
theorem C01_step_class {prods : List LProd} (hn : noRefs prods = true) {items : List LItem}
    {S : List XPos} (hrel : SetRel items S)
    (hlen : S.length ≤ LexCtx.fuel { prods := prods.toArray }) {c : CR}
    (hc : c ∈ (symbolClasses { prods := prods.toArray } items).1) {r : Int}
    (hlo : c.lo ≤ r) (hhi : r ≤ c.hi) :
    SetRel (moveSet { prods := prods.toArray } items c) (xStep { prods := prods.toArray } S r) :=
  step_class (noRefC_of_noRefs hn) hrel hlen hc hlo hhi

/-- a rune `r` in no class of the state: `NextDot()` and the reference step on `r` are the same set
    (both empty when no item expects `.`) -/
theorem C01_step_dot {prods : List LProd} (hn : noRefs prods = true) {items : List LItem}
    {S : List XPos} (hrel : SetRel items S)
    (hlen : S.length ≤ LexCtx.fuel { prods := prods.toArray }) {r : Int}
    (hno : ∀ c ∈ (symbolClasses { prods := prods.toArray } items).1, ¬ (c.lo ≤ r ∧ r ≤ c.hi)) :
    SetRel (dotSet { prods := prods.toArray } items) (xStep { prods := prods.toArray } S r) :=
  step_dot (noRefC_of_noRefs hn) hrel hlen hno

/-- (M2) in the form "state built from `items`" / "reference step on `items.map ([·])`": for a
    duplicate-free list of dotted positions (`Pos`; every item list of the generator is one) and
    every rune `r`: if `r` lies in the class `c` of the state, `Next(c)` is `xStep` on `r`; if it lies
    in no class, `NextDot()` is -/
theorem C01_step_map {prods : List LProd} (hn : noRefs prods = true) {items : List LItem}
    (hnd : items.Nodup) (hpos : ∀ i ∈ items, Pos { prods := prods.toArray } i) (r : Int) :
    (∀ c ∈ (symbolClasses { prods := prods.toArray } items).1, c.lo ≤ r → r ≤ c.hi →
      SetRel (moveSet { prods := prods.toArray } items c)
        (xStep { prods := prods.toArray } (items.map fun i => [i]) r)) ∧
    ((∀ c ∈ (symbolClasses { prods := prods.toArray } items).1, ¬ (c.lo ≤ r ∧ r ≤ c.hi)) →
      SetRel (dotSet { prods := prods.toArray } items)
        (xStep { prods := prods.toArray } (items.map fun i => [i]) r)) := by
  have hrel : SetRel items (items.map fun i => [i]) := by
    intro x
    rw [List.mem_map]
    exact ⟨fun ⟨i, hi, e⟩ => ⟨i, hi, e.symm⟩, fun ⟨i, hi, e⟩ => ⟨i, hi, e.symm⟩⟩
  have hlen : (items.map fun i => ([i] : XPos)).length ≤ LexCtx.fuel { prods := prods.toArray } := by
    have h1 := List.Nodup.length_le_of_subset hnd (fun i hi => pos_mem_allPos (hpos i hi))
    have h2 := allPos_length { prods := prods.toArray }
    simp only [List.length_map]
    omega
  exact ⟨fun c hc hlo hhi => C01_step_class hn hrel hlen hc hlo hhi,
    fun hno => C01_step_dot hn hrel hlen hno⟩

/-- the start states are the same set -/
theorem C01_start_rel {prods : List LProd} (hn : noRefs prods = true) :
    SetRel (itemsSet0 { prods := prods.toArray }) (xStart { prods := prods.toArray }) :=
  start_rel (noRefC_of_noRefs hn)

/-! ### (M3) actions

`ItemSet.Action()` is NOT a function of the set of completed items on arbitrary lists (a completed
string-literal production replaces the current choice unconditionally, so the last one in list
order wins; see `c01g_action_order_dependent`).  It is one on lists ordered by production index,
and all item lists of the generator and all position lists of the reference are so ordered. -/

theorem C01_lexAction_congr (C : LexCtx) {l1 l2 : List LItem} (h1 : ProdSorted l1)
    (h2 : ProdSorted l2) (hq : ∀ i, qual C i = true → (i ∈ l1 ↔ i ∈ l2)) :
    lexAction C l1 = lexAction C l2 :=
  lexAction_congr h1 h2 hq

theorem C01_act_agree (C : LexCtx) {items : List LItem} {S : List XPos} (hrel : SetRel items S)
    (hs : ProdSorted items) (hS : GoodX C S) : lexAction C items = xVerdict C S :=
  act_agree hrel hs hS

/-- the fold of `Action()` depends on the order: two completed string-literal productions -/
theorem c01g_action_order_dependent :
    let C : LexCtx := { prods := #[
      { kind := .tok, id := "a", pat := .mk [.mk [.lit 120]], strLit := true },
      { kind := .tok, id := "b", pat := .mk [.mk [.lit 120]], strLit := true }] }
    lexAction C [⟨0, [1]⟩, ⟨1, [1]⟩] = .accept "b" ∧ lexAction C [⟨1, [1]⟩, ⟨0, [1]⟩] = .accept "a" := by
  decide

/-! ### (M4) the loop invariants and the bisimulation -/

/-- what the generator has computed: every state is well-formed, state 0 is `ItemsSet0`, every
    state is expanded (each class / `.` target is `-1` for an empty successor set and otherwise the
    index of a state with the same item set) -/
theorem C01_genLexer_spec {prods : List LProd} {states : Array LState}
    (h : genLexer prods = .ok states) (hn : noRefs prods = true) (hsz : states.size < 100000) :
    GenSpec { prods := prods.toArray } states :=
  genLexer_spec h hn hsz

/-- what the reference construction has computed -/
theorem C01_refDfa_spec {prods : List LProd} (hn : noRefs prods = true)
    (hrs : (refDfa prods).states.size < 20000) :
    RefSpec { prods := prods.toArray } (refDfa prods) (elemStarts prods) :=
  refDfa_spec hn hrs

/-- without references the generator never fails -/
theorem C01_genLexer_total {prods : List LProd} (hn : noRefs prods = true) :
    ∃ states, genLexer prods = .ok states :=
  ⟨_, genLexer_eq (noRefC_of_noRefs hn)⟩

/-- MAIN: the generated automaton and the reference automaton are bisimilar on all runes.
    The relation is explicit: the item set of the generated state and the position set of the
    reference state are the same set under `i ↦ [i]`. -/
theorem C01_genLexer_bisim (prods : List LProd) (states : Array LState)
    (h : genLexer prods = .ok states) (hn : noRefs prods = true)
    (hsz : states.size < 100000)
    (hrs : (refDfa prods).states.size < 20000)
    (f : LAct → Int × Bool) :
    let C : LexCtx := { prods := prods.toArray }
    let M : MDfa := { states := states, acts := states.map fun s => f (lexAction C s.items) }
    let R : RDfa := { dfa := refDfa prods, acts := (refDfa prods).states.map fun S => f (xVerdict C S) }
    ∃ Rel, BisimOn IsRune M.tables R.tables Rel :=
  ⟨GRel states (refDfa prods), genLexer_bisimOn h hn hsz hrs f⟩

/-- MAIN, consequence: `Scan` with the generated tables and `Scan` with the reference tables are the
    same function -/
theorem C01_genLexer_scan_eq_ref (prods : List LProd) (states : Array LState)
    (h : genLexer prods = .ok states) (hn : noRefs prods = true)
    (hsz : states.size < 100000)
    (hrs : (refDfa prods).states.size < 20000)
    (f : LAct → Int × Bool) :
    let C : LexCtx := { prods := prods.toArray }
    let M : MDfa := { states := states, acts := states.map fun s => f (lexAction C s.items) }
    let R : RDfa := { dfa := refDfa prods, acts := (refDfa prods).states.map fun S => f (xVerdict C S) }
    ∀ (src : List Nat) (st : LexSt), scan M.tables src st = scan R.tables src st := by
  intro C M R src st
  exact bisimOn_rune_scan_eq (genLexer_bisimOn h hn hsz hrs f) src st

/-- ... and so are the token streams -/
theorem C01_genLexer_scanN_eq_ref (prods : List LProd) (states : Array LState)
    (h : genLexer prods = .ok states) (hn : noRefs prods = true)
    (hsz : states.size < 100000)
    (hrs : (refDfa prods).states.size < 20000)
    (f : LAct → Int × Bool) :
    let C : LexCtx := { prods := prods.toArray }
    let M : MDfa := { states := states, acts := states.map fun s => f (lexAction C s.items) }
    let R : RDfa := { dfa := refDfa prods, acts := (refDfa prods).states.map fun S => f (xVerdict C S) }
    ∀ (src : List Nat) (k : Nat) (st : LexSt), scanN M.tables src k st = scanN R.tables src k st := by
  intro C M R src k st
  exact scanN_eq_of_scan_eq (C01_genLexer_scan_eq_ref prods states h hn hsz hrs f src) k st

/-- `Array.map` is defined by well-founded recursion and does not reduce by `decide`; this is the
    form that does (used only by the closed examples below) -/
theorem c01g_map_eq {α β : Type} (a : Array α) (f : α → β) : a.map f = (a.toList.map f).toArray := by
  apply Array.toList_inj.1; simp

/-! ### Non-vacuity

```
id   : 'a'-'z' { 'a'-'z' } ;      two tokens with overlapping ranges,
x    : 'c'-'f' . ;                a `.`,
!ws  : ' ' ;                      an ignored token,
"if" : 'i' 'f' ;                  one string-literal production (added by `UpdateStringLitTokens`)
```
-/

def c01gLex : List LProd :=
  [ { kind := .tok, id := "id",
      pat := .mk [.mk [.rng 97 122, .rep (.mk [.mk [.rng 97 122]])]] },
    { kind := .tok, id := "x", pat := .mk [.mk [.rng 99 102, .dot]] },
    { kind := .ign, id := "ws", pat := .mk [.mk [.lit 32]] },
    { kind := .tok, id := "if", pat := .mk [.mk [.lit 105, .lit 102]], strLit := true } ]

def c01gStates : Array LState :=
  match genLexer c01gLex with
  | .ok s => s
  | .error _ => #[]

theorem c01g_noRefs : noRefs c01gLex = true := by decide

theorem c01g_gen : genLexer c01gLex = .ok c01gStates := by
  obtain ⟨s, hs⟩ := C01_genLexer_total c01g_noRefs
  simp only [c01gStates, hs]

theorem c01g_hsz : c01gStates.size < 100000 := by decide +kernel

/-- the elementary interval starts of the example (`mergeSort` does not reduce in the kernel) -/
theorem c01g_elemStarts : elemStarts c01gLex = [0, 32, 33, 97, 99, 102, 103, 105, 106, 123] := by
  refine elemStarts_eq_of (by decide) ?_
  intro x
  have e : (c01gLex.flatMap fun p => boundsOfPat p.pat) =
      [97, 123, 97, 123, 99, 103, 32, 33, 105, 106, 102, 103] := by decide
  rw [e]
  simp only [List.mem_cons, List.not_mem_nil, or_false]
  omega

theorem c01g_hrs : (refDfa c01gLex).states.size < 20000 := by
  unfold refDfa
  simp only [c01g_elemStarts]
  decide +kernel

/-- token types as `gocc` numbers them: INVALID 0, EOF 1, then the tokens; ignored: `(-1, true)` -/
def c01gAct : LAct → Int × Bool
  | .none => (0, false)
  | .accept "id" => (2, false)
  | .accept "x" => (3, false)
  | .accept "if" => (4, false)
  | .accept _ => (0, false)
  | .ignore _ => (-1, true)

/-- the main theorem on the concrete lexical part, all hypotheses discharged -/
theorem c01g_scan_eq (src : List Nat) (st : LexSt) :
    scan (MDfa.tables {
        states := c01gStates,
        acts := c01gStates.map fun s => c01gAct (lexAction { prods := c01gLex.toArray } s.items) })
      src st =
    scan (RDfa.tables {
        dfa := refDfa c01gLex,
        acts := (refDfa c01gLex).states.map fun S =>
          c01gAct (xVerdict { prods := c01gLex.toArray } S) })
      src st :=
  C01_genLexer_scan_eq_ref c01gLex c01gStates c01g_gen c01g_noRefs c01g_hsz c01g_hrs c01gAct src st

/-- e.g. the token stream of `if c.i` : "if" (string literal first), ws skipped, `x` ('c' then `.`;
    on `cd` it would be `id`, the earlier declaration), `id` -/
example : scanN (MDfa.tables {
        states := c01gStates,
        acts := c01gStates.map fun s => c01gAct (lexAction { prods := c01gLex.toArray } s.items) })
      [105, 102, 32, 99, 46, 105] 4 newLexer =
    [ { typ := 4, litStart := 0, litEnd := 2, offset := 0, line := 1, col := 1 },
      { typ := 3, litStart := 3, litEnd := 5, offset := 3, line := 1, col := 4 },
      { typ := 2, litStart := 5, litEnd := 6, offset := 5, line := 1, col := 6 },
      { typ := 1, litStart := 0, litEnd := 0, offset := 6, line := 1, col := 7 } ] := by
  rw [scanN_eq_scanNF, c01g_map_eq]; decide +kernel

/-! ### `noRefs` is needed: known finding D1

`_r : 'a' 'a' ; t1 : _r 'x' ; t2 : 'a' _r 'y' ;` — gocc shares the regular definition `_r` between
the two use sites; after `aa` the generated automaton still has the item of `t2` that has only
entered `_r`, so `aay` is lexed as `t2` (type 3) although it is not in the language of `t2`
(`a a a y`); the reference (macro expansion) returns INVALID.  The verified checker rejects. -/

def c01gD1 : List LProd :=
  [ { kind := .reg, id := "_r", pat := .mk [.mk [.lit 97, .lit 97]] },
    { kind := .tok, id := "t1", pat := .mk [.mk [.ref "_r", .lit 120]] },
    { kind := .tok, id := "t2", pat := .mk [.mk [.lit 97, .ref "_r", .lit 121]] } ]

def c01gD1Act : LAct → Int × Bool
  | .none => (0, false)
  | .accept "t1" => (2, false)
  | .accept "t2" => (3, false)
  | .accept _ => (0, false)
  | .ignore _ => (-1, true)

def c01gD1States : Array LState :=
  match genLexer c01gD1 with
  | .ok s => s
  | .error _ => #[]

def c01gD1M : MDfa :=
  { states := c01gD1States,
    acts := c01gD1States.map fun s => c01gD1Act (lexAction { prods := c01gD1.toArray } s.items) }

/-- the generator does succeed on it -/
theorem c01gD1_gen : (match genLexer c01gD1 with
    | .ok s => s.size
    | .error _ => 0) = 5 := by
  decide +kernel

/-- the reference automaton over the given elementary starts -/
def c01gRefWith (prods : List LProd) (starts : List Int) (f : LAct → Int × Bool) : RDfa :=
  let C : LexCtx := { prods := prods.toArray }
  let d := refDfaLoop C starts 20000 0 { states := #[xStart C], trans := #[], starts := starts }
  { dfa := d, acts := d.states.map fun S => f (xVerdict C S) }

theorem c01gRefWith_eq (prods : List LProd) (f : LAct → Int × Bool) :
    c01gRefWith prods (elemStarts prods) f =
      { dfa := refDfa prods,
        acts := (refDfa prods).states.map fun S => f (xVerdict { prods := prods.toArray } S) } := rfl

theorem c01gD1_elemStarts : elemStarts c01gD1 = [0, 97, 98, 120, 121, 122] := by
  refine elemStarts_eq_of (by decide) ?_
  intro x
  have e : (c01gD1.flatMap fun p => boundsOfPat p.pat) =
      [97, 98, 97, 98, 120, 121, 97, 98, 121, 122] := by decide
  rw [e]
  simp only [List.mem_cons, List.not_mem_nil, or_false]
  omega

theorem c01gD1_noRefs : noRefs c01gD1 = false := by decide

/-- the generator succeeds, both automata are small, and the verified checker finds a difference -/
theorem c01gD1_equivCheck_false :
    equivCheck c01gD1M {
      dfa := refDfa c01gD1,
      acts := (refDfa c01gD1).states.map fun S =>
        c01gD1Act (xVerdict { prods := c01gD1.toArray } S) } = false := by
  rw [← c01gRefWith_eq, c01gD1_elemStarts]
  simp only [c01gD1M, c01gRefWith, c01g_map_eq]
  decide +kernel

/-- the difference is real: on `aay` the generated automaton returns `t2`, the reference INVALID -/
theorem c01gD1_scan_differs :
    (scan c01gD1M.tables [97, 97, 121] newLexer).1.typ = 3 ∧
    (scan (RDfa.tables {
      dfa := refDfa c01gD1,
      acts := (refDfa c01gD1).states.map fun S =>
        c01gD1Act (xVerdict { prods := c01gD1.toArray } S) }) [97, 97, 121] newLexer).1.typ = 0 := by
  rw [← c01gRefWith_eq, c01gD1_elemStarts, scan_eq_scanF, scan_eq_scanF]
  simp only [c01gD1M, c01gRefWith, c01g_map_eq]
  decide +kernel

/-! ### the side conditions that are NOT needed

```
a   : 'z'-'a' | '\u{-5}' | '\U00110050'-'\U00110118' ;   reversed range, runes outside [0, 0x10FFFF]
_r  : 'q' ;                                              a `reg` production nobody references
a   : . ( ) | 'b' | ;                                    same id again, dead end `( )`, empty alternative
```
The run-time checker rejects this lexical part (`boundsOk`: the class `[-5,-5]` of the generated
automaton begins below rune 0) although the automata ARE equivalent on all runes; the theorem
covers it. -/

def c01gOdd : List LProd :=
  [ { kind := .tok, id := "a",
      pat := .mk [.mk [.rng 122 97], .mk [.lit (-5)], .mk [.rng 1114000 1114200]] },
    { kind := .reg, id := "_r", pat := .mk [.mk [.lit 113]] },
    { kind := .tok, id := "a", pat := .mk [.mk [.dot, .grp (.mk [])], .mk [.lit 98], .mk []] } ]

def c01gOddStates : Array LState :=
  match genLexer c01gOdd with
  | .ok s => s
  | .error _ => #[]

theorem c01gOdd_noRefs : noRefs c01gOdd = true := by decide

theorem c01gOdd_gen : genLexer c01gOdd = .ok c01gOddStates := by
  obtain ⟨s, hs⟩ := C01_genLexer_total c01gOdd_noRefs
  simp only [c01gOddStates, hs]

theorem c01gOdd_elemStarts : elemStarts c01gOdd = [0, 98, 99, 113, 114, 122, 1114000] := by
  refine elemStarts_eq_of (by decide) ?_
  intro x
  have e : (c01gOdd.flatMap fun p => boundsOfPat p.pat) =
      [122, 98, -5, -4, 1114000, 1114201, 113, 114, 98, 99] := by decide
  rw [e]
  simp only [List.mem_cons, List.not_mem_nil, or_false]
  omega

theorem c01gOdd_hsz : c01gOddStates.size < 100000 := by decide +kernel

theorem c01gOdd_hrs : (refDfa c01gOdd).states.size < 20000 := by
  unfold refDfa
  simp only [c01gOdd_elemStarts]
  decide +kernel

theorem c01gOdd_scan_eq (f : LAct → Int × Bool) (src : List Nat) (st : LexSt) :
    scan (MDfa.tables {
        states := c01gOddStates,
        acts := c01gOddStates.map fun s => f (lexAction { prods := c01gOdd.toArray } s.items) })
      src st =
    scan (RDfa.tables {
        dfa := refDfa c01gOdd,
        acts := (refDfa c01gOdd).states.map fun S => f (xVerdict { prods := c01gOdd.toArray } S) })
      src st :=
  C01_genLexer_scan_eq_ref c01gOdd c01gOddStates c01gOdd_gen c01gOdd_noRefs c01gOdd_hsz c01gOdd_hrs
    f src st

/-- ... while `equivCheck` says `false` here (its `boundsOk` precondition fails) -/
theorem c01gOdd_equivCheck_false :
    equivCheck {
        states := c01gOddStates,
        acts := c01gOddStates.map fun s => c01gAct (lexAction { prods := c01gOdd.toArray } s.items) }
      {
        dfa := refDfa c01gOdd,
        acts := (refDfa c01gOdd).states.map fun S =>
          c01gAct (xVerdict { prods := c01gOdd.toArray } S) } = false := by
  rw [← c01gRefWith_eq, c01gOdd_elemStarts]
  simp only [c01gRefWith, c01g_map_eq]
  decide +kernel

end Gocc
