import Gocc.Proofs.Range
/-
C18 — Rune classes of a lexer state form an exact disjoint partition.

Quantifier: all finite sequences `rs` of closed rune intervals (any order, adjacent,
nested, overlapping, duplicate, single runes).  `classesOf rs` is the model of
`ItemSet.getSymbolClasses` (a fold of `DisjunctRangeSet.AddRange`).
Intervals with `lo > hi` add nothing (the Go loop guard `from <= to`), so the
"every added range is a union of classes" clause is stated for the non-empty ones.
-/
namespace Gocc

/-- sorted, pairwise disjoint, non-empty -/
theorem C18_sorted_disjoint_nonempty (rs : List CR) : ∃ b, WF b (classesOf rs) :=
  (classesOf_inv rs).wf

/-- the union of the classes is exactly the union of the added ranges -/
theorem C18_union_exact (rs : List CR) (x : Int) :
    (∃ c ∈ classesOf rs, c.lo ≤ x ∧ x ≤ c.hi) ↔ (∃ r ∈ rs, r.lo ≤ x ∧ x ≤ r.hi) := by
  rw [← cover_iff_mem]; exact (classesOf_inv rs).cov x

/-- every added (non-empty) range is exactly a union of classes: each class lies inside
    it or is disjoint from it -/
theorem C18_range_is_union_of_classes (rs : List CR) (r : CR) (hr : r ∈ rs) (hne : r.lo ≤ r.hi)
    (c : CR) (hc : c ∈ classesOf rs) :
    (r.lo ≤ c.lo ∧ c.hi ≤ r.hi) ∨ (c.hi < r.lo ∨ r.hi < c.lo) :=
  (classesOf_inv rs).ref r hr hne c hc

/-- each rune selects at most one transition -/
theorem C18_at_most_one_class (rs : List CR) (c d : CR) (hc : c ∈ classesOf rs)
    (hd : d ∈ classesOf rs) (x : Int) (hxc : c.lo ≤ x ∧ x ≤ c.hi) (hxd : d.lo ≤ x ∧ x ≤ d.hi) :
    c = d := by
  obtain ⟨b, h⟩ := C18_sorted_disjoint_nonempty rs
  exact WF_unique h hc hd hxc hxd

/-- an item expecting the range `r` matches a whole class or none of it:
    `Item.match` is true iff *some* rune of the class is in `r` iff *every* rune is -/
theorem C18_match_range_all_or_nothing (rs : List CR) (r : CR) (hr : r ∈ rs) (hne : r.lo ≤ r.hi)
    (c : CR) (hc : c ∈ classesOf rs) :
    (matchRange r.lo r.hi c = true ↔ ∃ x, c.lo ≤ x ∧ x ≤ c.hi ∧ r.lo ≤ x ∧ x ≤ r.hi) ∧
    (matchRange r.lo r.hi c = true ↔ ∀ x, c.lo ≤ x → x ≤ c.hi → r.lo ≤ x ∧ x ≤ r.hi) := by
  obtain ⟨b, h⟩ := C18_sorted_disjoint_nonempty rs
  have hne' := (WF_mem h c hc).2
  have := C18_range_is_union_of_classes rs r hr hne c hc
  simp only [matchRange, Bool.and_eq_true, decide_eq_true_eq]
  refine ⟨⟨fun h => ⟨c.lo, by omega⟩, fun ⟨x, hx⟩ => by omega⟩, ⟨fun h x _ _ => by omega, fun h => ?_⟩⟩
  have h1 := h c.lo (by omega) hne'
  have h2 := h c.hi hne' (by omega)
  omega

/-- the same for an item expecting the single rune `v` (added as `[v,v]`) -/
theorem C18_match_lit_all_or_nothing (rs : List CR) (v : Int) (hr : (⟨v, v⟩ : CR) ∈ rs)
    (c : CR) (hc : c ∈ classesOf rs) :
    (matchLit v c = true ↔ ∃ x, c.lo ≤ x ∧ x ≤ c.hi ∧ x = v) ∧
    (matchLit v c = true ↔ ∀ x, c.lo ≤ x → x ≤ c.hi → x = v) := by
  obtain ⟨b, h⟩ := C18_sorted_disjoint_nonempty rs
  have hne' := (WF_mem h c hc).2
  have := C18_range_is_union_of_classes rs ⟨v, v⟩ hr (by dsimp only; omega) c hc
  dsimp only at this
  simp only [matchLit, Bool.and_eq_true, decide_eq_true_eq]
  refine ⟨⟨fun h => ⟨c.lo, by omega⟩, fun ⟨x, hx⟩ => by omega⟩, ⟨fun h x _ _ => by omega, fun h => ?_⟩⟩
  have h1 := h c.lo (by omega) hne'
  have h2 := h c.hi hne' (by omega)
  omega

/-- an empty interval (`lo > hi`) adds nothing -/
theorem C18_empty_adds_nothing (l : List CR) (f t : Int) (h : t < f) : addRange l f t = l :=
  addRange_empty l f t (by omega)

-- Non-vacuity: a concrete overlapping / nested / adjacent / duplicate sequence, its classes,
-- and the hypotheses of the theorems above instantiated on it.
example : classesOf [⟨97, 122⟩, ⟨99, 101⟩, ⟨48, 57⟩, ⟨122, 130⟩, ⟨99, 99⟩, ⟨58, 58⟩, ⟨99, 101⟩] =
    [⟨48, 57⟩, ⟨58, 58⟩, ⟨97, 98⟩, ⟨99, 99⟩, ⟨100, 101⟩, ⟨102, 121⟩, ⟨122, 122⟩, ⟨123, 130⟩] := by
  decide
example : (⟨99, 101⟩ : CR) ∈ [(⟨97, 122⟩ : CR), ⟨99, 101⟩] ∧ (99 : Int) ≤ 101 := by decide

end Gocc
