import Gocc.Proofs.ValidateV
import Gocc.Props.C02Complete
/-
C06 — error reporting of the generated parser.  For a conflict-free grammar without error
alternatives whose non-terminals are all productive: when `Parse` fails with a syntax error, the
error identifies the FIRST input token `t_i` such that `t_1 … t_i` is not a prefix of any sentence,
and the error's expected-token list is EXACTLY the set of terminals (or end of input) `a` for which
`t_1 … t_(i-1) a` is a prefix of a sentence.

Quantifiers: every numbered grammar `G`, every `T : PTables`, every nullable/FIRST certificate
`fc` with `firstOk G fc`, every LR(1) certificate `c` with `complete G T fc c` (Model/ValidateC),
every derivation certificate `vc` with `validItems G T c vc` (Model/ValidateV: the tables contain
no action that is not justified by a derivation; all non-terminals productive; terminals 0 and 1
occur in no body), no recovery state (`hr`: the grammar has no error alternative), every harness
configuration `cfg` over these tables whose semantic actions never fail (`ActsOk cfg`), every
token-type sequence `w`, every fuel, every previous parser state `old`.

  (A) `C06_action_implies_viable`   in every configuration the parser reaches on `w`, having
        consumed `w.take k`: the consumed input is a prefix of a sentence, and an action entry of
        the top state on ANY terminal `a` implies that `w.take k ++ [a]` is a prefix of a sentence
        (that `w.take k` is a sentence, for `a` = 1 = end of input);
  (B) `C06_error_token_is_first_offending`   the reported token is token `i` of the input (end of
        input when `i = |w|`), `w.take i` is a prefix of a sentence, `w.take (i+1)` is not;
  (C) `C06_expected_set_exact`   the expected list is strictly increasing and contains exactly the
        terminals that can continue `w.take i`;
  (D) `C06_no_reduction_on_bad_lookahead`   the parser made no move (in particular no reduction,
        no action call) with the offending token as look-ahead: the input `w.take i ++ [INVALID]`
        ends in exactly the same configuration (same stack, attributes, call log, call count), with
        the same error except for the reported token type.

DEVIATIONS from the requested statements (all make the theorems stronger):
  * no hypotheses `safe G T cert`, `safeEnds T cert`: the symbol-stack invariant needs only the
    edge checks of `validItems` (which include "no edge enters state 0");
  * no hypothesis `1 ∉ w` (nor `0 ∉ w`): a token of type 1 inside `w` is reported like end of input
    (`typ = 1`), and the statements remain true as written;
  * (A) is stated for every terminal `a`, not only for the current look-ahead;
  * (A), (B)(i), (B)(ii) and the direction "expected ⟹ viable" of (C) do not need `firstOk`,
    `ActsOk`; they are proved under the full hypotheses only where stated.
-/
namespace Gocc

/-- (A) along any run of the parser on `w` from the initial configuration: `k` tokens have been
    consumed, they are a prefix of a sentence, the look-ahead is token `k`, and every existing
    action of the top state is justified by a sentence -/
theorem C06_action_implies_viable {G : NGrammar} {T : PTables} {fc : FirstCert} {c : CertLA}
    {vc : VCert} (hc : complete G T fc c = true) (hv : validItems G T c vc = true)
    (hr : ∀ s : Nat, T.canRecover[s]?.getD false = false) {cfg : PCfg} (hT : cfg.T = T)
    {w : List Nat} {ps : PState} (hrun : Steps cfg w (initPS w) ps)
    {top : Nat} {rest : List Nat} (hst : ps.states = top :: rest) :
    ∃ k, k ≤ w.length ∧ ps.ntok = k + 1 ∧ ps.next = scanTok w k ∧ NViablePrefix G (w.take k) ∧
      ∀ a act, T.act top a = some act →
        (a ≠ 1 → ∃ v, NSentence G (w.take k ++ a :: v)) ∧ (a = 1 → NSentence G (w.take k)) := by
  have VF := validFacts_of hv
  obtain ⟨γ, m, hS, hu, hnt, hnx, hle, hvp⟩ :=
    hrun.vinv VF (completeFacts_of hc) hr hT (vinv_init VF w)
  rw [hst] at hS
  exact ⟨m, hle, hnt, hnx, hvp, fun a act ha => act_viable VF hS hu ha⟩

/-- the runs of (A) are the runs of `Parse`: `Parse` starts in `initPS w`, and a run of `n` loop
    iterations can be cut off any `parseLoop` -/
theorem C06_parse_run (cfg : PCfg) (w : List Nat) (fuel : Nat) (old : PState) :
    parse cfg w fuel old = parseLoop cfg w fuel (initPS w) := rfl

/-- (B) the reported token is the first one that cannot continue a sentence -/
theorem C06_error_token_is_first_offending {G : NGrammar} {T : PTables} {fc : FirstCert}
    {c : CertLA} {vc : VCert} (hf : firstOk G fc = true) (hc : complete G T fc c = true)
    (hv : validItems G T c vc = true) (hr : ∀ s : Nat, T.canRecover[s]?.getD false = false)
    {cfg : PCfg} (hA : ActsOk cfg) (hT : cfg.T = T) {w : List Nat} {fuel : Nat} {old : PState}
    {i typ : Nat} {exp : List Nat} {top : Nat}
    (h : (parse cfg w fuel old).1 = Outcome.synErr i typ exp top) :
    NViablePrefix G (w.take i) ∧ i ≤ w.length ∧ typ = (w[i]?).getD 1 ∧
    (typ ≠ 1 → ¬ ∃ v, NSentence G (w.take i ++ typ :: v)) ∧
    (typ = 1 → ¬ NSentence G (w.take i)) := by
  have VF := validFacts_of hv
  obtain ⟨ps, rest, γ, -, hrun, hst, ha, hnx, -, -, -, -, hnt, hsc, hle, hvp⟩ :=
    synErr_state VF (completeFacts_of hc) hr hT h
  have ha' : T.act top ps.next.2 = none := by rw [hnx]; exact ha
  have hnx' : ps.next = scanTok w i := by rw [hnx, hsc]
  have hty : typ = (w[i]?).getD 1 := by
    have := congrArg Prod.snd hsc
    simp only [scanTok] at this
    rw [this]
    rcases w[i]? with _ | x <;> rfl
  refine ⟨hvp, hle, hty, ?_, ?_⟩
  · rintro - ⟨v, hv'⟩
    exact stuck_ext hf hc hr hA hT hrun hst ha' hnt hnx' hle (x := typ :: v) (by simp [hnx]) hv'
  · intro h1 hs
    exact stuck_ext hf hc hr hA hT hrun hst ha' hnt hnx' hle (x := []) (by simp [hnx, h1])
      (by simpa using hs)

/-- (C) the expected-token list is exactly the set of terminals (1 = end of input) that can
    follow the consumed input in a sentence, in strictly increasing order -/
theorem C06_expected_set_exact {G : NGrammar} {T : PTables} {fc : FirstCert}
    {c : CertLA} {vc : VCert} (hf : firstOk G fc = true) (hc : complete G T fc c = true)
    (hv : validItems G T c vc = true) (hr : ∀ s : Nat, T.canRecover[s]?.getD false = false)
    {cfg : PCfg} (hA : ActsOk cfg) (hT : cfg.T = T) {w : List Nat} {fuel : Nat} {old : PState}
    {i typ : Nat} {exp : List Nat} {top : Nat}
    (h : (parse cfg w fuel old).1 = Outcome.synErr i typ exp top) :
    (∀ a, a ∈ exp ↔
      (a ≠ 1 ∧ ∃ v, NSentence G (w.take i ++ a :: v)) ∨ (a = 1 ∧ NSentence G (w.take i))) ∧
    exp.Pairwise (· < ·) := by
  have VF := validFacts_of hv
  obtain ⟨ps, rest, γ, -, hrun, hst, ha, hnx, hexp, -, hS, hu, hnt, hsc, hle, -⟩ :=
    synErr_state VF (completeFacts_of hc) hr hT h
  have ha' : T.act top ps.next.2 = none := by rw [hnx]; exact ha
  have hnx' : ps.next = scanTok w i := by rw [hnx, hsc]
  subst hexp
  refine ⟨fun a => ⟨fun hm => ?_, fun hs => ?_⟩, rowExpected_sorted T top⟩
  · -- an existing action is justified
    rcases hact : T.act top a with _ | act
    · rw [mem_rowExpected, hact] at hm; cases hm
    · have := act_viable VF hS hu hact
      by_cases h1 : a = 1
      · exact .inr ⟨h1, this.2 h1⟩
      · exact .inl ⟨h1, this.1 h1⟩
  · -- a possible continuation has its action: the same stack is reached on the continuation
    obtain ⟨x, hx, hsx⟩ : ∃ x : List Nat, x.head?.getD 1 = a ∧ NSentence G (w.take i ++ x) := by
      rcases hs with ⟨-, v, hv'⟩ | ⟨h1, hs⟩
      · exact ⟨a :: v, rfl, hv'⟩
      · exact ⟨[], by simp [h1], by simpa using hs⟩
    have hrun' := err_state_fresh VF hf hc hr hA hT hrun hst ha' hnt hnx' hle (w.take i ++ x)
      (fun j hj => scanTok_take_append x hj hle)
    rw [scanTok_take_at x hle, hx] at hrun'
    rw [mem_rowExpected]
    rcases hact : T.act top a with _ | act
    · exact absurd hsx (stuck_not_sentence hf hc hr hA hT hrun' (top := top) (rest := rest) hst hact)
    · rfl

/-- (D) no move is made with the offending token as look-ahead: on `w.take i ++ [0]` (token type
    0 = INVALID, which has no action anywhere) `Parse` ends in exactly the same configuration —
    same stack, attributes, call log and call count — reporting the same error with token type 0 -/
theorem C06_no_reduction_on_bad_lookahead {G : NGrammar} {T : PTables} {fc : FirstCert}
    {c : CertLA} {vc : VCert} (hf : firstOk G fc = true) (hc : complete G T fc c = true)
    (hv : validItems G T c vc = true) (hr : ∀ s : Nat, T.canRecover[s]?.getD false = false)
    {cfg : PCfg} (hA : ActsOk cfg) (hT : cfg.T = T) {w : List Nat} {fuel : Nat} {old : PState}
    {i typ : Nat} {exp : List Nat} {top : Nat}
    (h : (parse cfg w fuel old).1 = Outcome.synErr i typ exp top) :
    ∃ fuel', parse cfg (w.take i ++ [0]) fuel' old =
      (Outcome.synErr i 0 exp top, { (parse cfg w fuel old).2 with next := (i, 0) }) := by
  have VF := validFacts_of hv
  obtain ⟨ps, rest, γ, hps, hrun, hst, ha, hnx, hexp, -, hS, hu, hnt, hsc, hle, -⟩ :=
    synErr_state VF (completeFacts_of hc) hr hT h
  have ha' : T.act top ps.next.2 = none := by rw [hnx]; exact ha
  have hnx' : ps.next = scanTok w i := by rw [hnx, hsc]
  have hr' : ∀ s : Nat, cfg.T.canRecover[s]?.getD false = false := by rw [hT]; exact hr
  have hrun' := err_state_fresh VF hf hc hr hA hT hrun hst ha' hnt hnx' hle (w.take i ++ [0])
    (fun j hj => scanTok_take_append [0] hj hle)
  rw [scanTok_take_at [0] hle] at hrun'
  simp only [List.head?_cons, Option.getD_some] at hrun'
  -- INVALID has no action
  have h0 : T.act top 0 = none := by
    rcases hact : T.act top 0 with _ | act
    · rfl
    · obtain ⟨v, hv'⟩ := (act_viable VF hS hu hact).1 (by omega)
      exact absurd (by simp) (sentence_no_eof VF (.inl rfl) hv')
  have hlt : (0 : Nat) < T.numSymbols := by have := complete_numSymbols hc; omega
  subst hT
  have hstep := step_noact hr' (w.take i ++ [0]) (ps := { ps with next := (i, 0) }) hst hlt h0
  obtain ⟨n, hn⟩ := hrun'.parseLoop
  refine ⟨n + 1, ?_⟩
  rw [C06_parse_run, hn 1, parseLoop_succ, hstep, ← hps, hexp]
  rfl

/-! ### Non-vacuity: `S' : S ;  S : a S | b` (grammar, tables, `cfg`, `certLA`, `fc` of `C02Ex`) -/
namespace C06Ex
open C02Ex

/-- derivation certificate: `S'` is productive by production 0 because `S` (later in the list) is,
    by production 2 (`S : b`); nothing is nullable; FIRST(S') ∋ a, b by production 0 position 0
    because FIRST(S) ∋ a (production 1, position 0), b (production 2, position 0) -/
def vc : VCert :=
  { prod := [(0, 0), (1, 2)], null := [],
    first := [(0, 2, 0, 0), (0, 3, 0, 0), (1, 2, 1, 0), (1, 3, 2, 0)] }

theorem validItems_ok : validItems G T certLA vc = true := by decide

/-- `a a`: error at end of input (token index 2, type 1), expected `a` or `b`, in state 1 -/
theorem err_aa : (parse cfg [2, 2] 20 default).1 = Outcome.synErr 2 1 [2, 3] 1 := rfl

/-- `b b`: the second `b` (token index 1, type 3) is reported, expected end of input, in state 2 -/
theorem err_bb : (parse cfg [3, 3] 20 default).1 = Outcome.synErr 1 3 [1] 2 := rfl

/-- (B) on `a a`: `a a` is a prefix of a sentence but not a sentence -/
example : NViablePrefix G [2, 2] ∧ ¬ NSentence G [2, 2] := by
  have := C06_error_token_is_first_offending firstOk_ok complete_ok validItems_ok noRecovery
    actsOk rfl err_aa
  exact ⟨this.1, this.2.2.2.2 rfl⟩

/-- (C) on `a a`: `a a a …` and `a a b …` are prefixes of sentences, nothing else is -/
example : (∃ v, NSentence G (2 :: 2 :: 2 :: v)) ∧ (∃ v, NSentence G (2 :: 2 :: 3 :: v)) ∧
    ∀ a, a ≠ 2 → a ≠ 3 → a ≠ 1 → ¬ ∃ v, NSentence G (2 :: 2 :: a :: v) := by
  have := (C06_expected_set_exact firstOk_ok complete_ok validItems_ok noRecovery actsOk rfl
    err_aa).1
  refine ⟨?_, ?_, ?_⟩
  · rcases (this 2).1 (by simp) with ⟨-, h⟩ | ⟨h, -⟩
    · exact h
    · cases h
  · rcases (this 3).1 (by simp) with ⟨-, h⟩ | ⟨h, -⟩
    · exact h
    · cases h
  · intro a h2 h3 h1 hv
    have := (this a).2 (.inl ⟨h1, hv⟩)
    simp at this
    omega

/-- (B) on `b b`: `b` is a prefix of a sentence, `b b …` is not -/
example : NViablePrefix G [3] ∧ ¬ ∃ v, NSentence G (3 :: 3 :: v) := by
  have := C06_error_token_is_first_offending firstOk_ok complete_ok validItems_ok noRecovery
    actsOk rfl err_bb
  exact ⟨this.1, this.2.2.2.1 (by decide)⟩

/-- (C) on `b b`: after `b` only end of input is possible — `b` is a sentence, `b a …` is not -/
example : NSentence G [3] ∧ ¬ ∃ v, NSentence G (3 :: 2 :: v) := by
  have := (C06_expected_set_exact firstOk_ok complete_ok validItems_ok noRecovery actsOk rfl
    err_bb).1
  constructor
  · rcases (this 1).1 (by simp) with ⟨h, -⟩ | ⟨-, h⟩
    · exact absurd rfl h
    · exact h
  · intro hv
    have := (this 2).2 (.inl ⟨by decide, hv⟩)
    simp at this

/-- (A) on the run of `a a` that ends in the error state: the action `shift` on `b` of state 1
    is justified by a sentence `a a b …` -/
example : ∃ v, NSentence G (2 :: 2 :: 3 :: v) := by
  have hrun : Steps cfg [2, 2] (initPS [2, 2])
      { states := [1, 1, 0], attrs := [.tok 1 2, .tok 0 2, .nil], next := (2, 1), ntok := 3,
        log := [], calls := 0 } :=
    .head (ps1 := { states := [1, 0], attrs := [.tok 0 2, .nil], next := (1, 2), ntok := 2,
                    log := [], calls := 0 }) rfl (.head rfl (.refl _))
  obtain ⟨k, -, hk, -, -, hact⟩ :=
    C06_action_implies_viable complete_ok validItems_ok noRecovery (cfg := cfg) rfl hrun
      (top := 1) (rest := [1, 0]) rfl
  have : k = 2 := by simpa using hk.symm
  subst this
  exact (hact 3 (.shift 2) rfl).1 (by decide)

/-- (D) on `a a`: with INVALID instead of end of input the parser stops in the same configuration -/
example : ∃ fuel', parse cfg [2, 2, 0] fuel' default =
    (Outcome.synErr 2 0 [2, 3] 1, { (parse cfg [2, 2] 20 default).2 with next := (2, 0) }) :=
  C06_no_reduction_on_bad_lookahead firstOk_ok complete_ok validItems_ok noRecovery actsOk rfl
    err_aa

/-- the validator rejects an unjustified action: state 2 (`S : b •`, look-ahead end of input)
    with an extra reduce on `a` … -/
def Tbad : PTables :=
  { T with action := #[
      #[none, none, some (.shift 1), some (.shift 2)],
      #[none, none, some (.shift 1), some (.shift 2)],
      #[none, some (.reduce 2), some (.reduce 2), none],
      #[none, some .accept, none, none],
      #[none, some (.reduce 1), none, none]] }
example : validItems G Tbad certLA vc = false := by decide
/-- … also when the certificate claims the item `(S : b •, a)`: it has no justified predecessor -/
example : validItems G Tbad
    #[[(0, 0, 1), (1, 0, 1), (2, 0, 1)], [(1, 1, 1), (1, 0, 1), (2, 0, 1)], [(2, 1, 1), (2, 1, 2)],
      [(0, 1, 1)], [(1, 2, 1)]] vc = false := by decide
/-- … and with the predecessors `(S : • b, a)` added: their look-ahead `a` is not in the exact
    FIRST set of what follows `S` in `S' : • S` / `S : a • S` -/
example : validItems G Tbad
    #[[(0, 0, 1), (1, 0, 1), (2, 0, 1), (2, 0, 2)], [(1, 1, 1), (1, 0, 1), (2, 0, 1), (2, 0, 2)],
      [(2, 1, 1), (2, 1, 2)], [(0, 1, 1)], [(1, 2, 1)]] vc = false := by decide
/-- … and a FIRST claim without derivation (`a ∈ FIRST(S)` "because" `S : b`) is rejected -/
example : validItems G T certLA { vc with first := (1, 2, 2, 0) :: vc.first } = false := by decide
/-- the order of the item lists matters: a closure item must come after the item it stems from -/
example : validItems G T
    #[[(0, 0, 1), (1, 0, 1), (2, 0, 1)], [(2, 0, 1), (1, 0, 1), (1, 1, 1)], [(2, 1, 1)],
      [(0, 1, 1)], [(1, 2, 1)]] vc = false := by decide

end C06Ex

end Gocc
