import Gocc.Proofs.RegexSemAlive
/-
C01 (last link): the REFERENCE AUTOMATON of Spec/LexRef.lean against a DECLARATIVE regular-expression
semantics.

The chain for C01 ("the generated lexer returns exactly the tokens the lexical rules define") ended at
the reference automaton `xStart` / `xStep` / `xVerdict` — executable, but operational, and it shares the
navigation helpers `emoveStep`, `isReduce`, `expected` with the generator model.  Here it is tied to the
textbook semantics `MatchPat` of Spec/RegexSem.lean (an inductive definition over the abstract syntax
that mentions no item, position or ε-move), for lexical parts without references and without `.`:

  (M1+M2) `C01_ref_accepts_iff_matches` — after reading `w` the state contains the completed item of
          production `k` iff the pattern of `k` matches `w`  (`C01_ref_accepts_sound`,
          `C01_ref_accepts_complete` are the two directions; `C01_ref_done_iff` names the item);
  (M3)    `C01_ref_verdict_eq`, `C01_ref_verdict_none` / `_strLit` / `_first` — the verdict is
          `Action()` of the matching productions: none if nothing matches, the (last declared) matching
          string-literal production if there is one, otherwise the earliest declared matching production;
  (M4)    `C01_ref_alive_iff_prefix` — the automaton is alive after `w` iff `w` is a prefix of a string
          matched by some token;  `C01_ref_residual` — for EVERY dotted position the strings leading
          to the completed item are a language (`RegexS.Cont`) defined from the semantics alone.

Quantifier: ALL lists `prods` of lexical productions (any kinds, ids, `strLit` flags; empty alternatives,
empty `[ ]` / `{ }`, nullable bodies of `{ }`, nested `{ [ … ] }`, reversed ranges, runes outside
`[0, 0x10FFFF]`), ALL rune strings `w`.

Hypotheses (all decidable), with the witnesses that they are needed:
  * `noRefs prods` — finding D1 territory; the reference automaton expands references, `MatchPat`
    gives them no string (a semantics with references needs the environment of definitions).
  * `noDots prods` — `.` in the property is NOT a regular-expression operator: it applies only when no
    literal / range of the WHOLE state has the rune.
  * `p.pat.alts ≠ []` (resp. `altToks prods` for the verdict) — FINDING (`c01rx_empty_pattern`): for a
    pattern without alternatives the start item `⟨k,[0]⟩` is already "completed" (`pos ≥ len = 0`), the
    reference automaton (and the generator model, which shares `isReduce`) reports the EMPTY string as a
    token; the declarative semantics matches nothing.  Not reachable from a parsed grammar (`LexPattern`
    has at least one `LexAlt`).  Only the soundness direction needs it.  Empty `( )` INSIDE a pattern is
    fine (dead end on both sides).
  * `liveToks prods` — for "alive ⟹ prefix" only (`c01rx_dead_alive`): after `'a'` in `'a' 'z'-'a'` or
    `'a' 'b' ( )` the automaton is still alive although no continuation can match (a reversed range /
    an empty group match nothing).  "prefix ⟹ alive" holds without it.
NOT needed: well-formed ranges, distinct ids, anything about `reg` productions (never started).

Proof (Gocc/Proofs/RegexSem*.lean): runs `Run C i w f` of ε- and rune steps characterise `xRun`
(`mem_xRun_iff`, using the exactness of `xClosure` — `mem_xClosure_iff` — and `goodX_xStep`);
SOUNDNESS by the invariant `Cont` (continuation language of an item, from `rem` / `after` of the nodes
on its stack) preserved backwards by every step (`cont_step`, `cont_rune`); COMPLETENESS by induction
on the size of the pattern (`cPass`), `Star` induction for `{ }`.
-/
namespace Gocc

open RegexS LexGenC

/-- what `ItemSet.Action()` returns for a chosen production -/
def tokAct (p : LProd) : LAct :=
  match p.kind with
  | .tok => .accept p.id
  | .ign => .ignore p.id
  | .reg => .none

/-- the completed item of production `k` with pattern `p` -/
def doneItem (k : Nat) (p : LProd) : LItem := ⟨k, [p.pat.alts.length]⟩

/-! ### (M1, M2) acceptance -/

/-- (M2) COMPLETENESS: a matched string is accepted — no side condition on the pattern -/
theorem C01_ref_accepts_complete (prods : List LProd) (hr : noRefs prods = true)
    (hd : noDots prods = true) (k : Nat) (p : LProd) (hk : prods[k]? = some p) (hkind : p.kind ≠ .reg)
    (w : List Int) (hm : MatchPat p.pat w) :
    [doneItem k p] ∈ xRun { prods := prods.toArray } w ∧
      LexCtx.isReduce { prods := prods.toArray } (doneItem k p) = true := by
  have hP : (LexCtx.prods { prods := prods.toArray })[k]? = some p := by simpa using hk
  have hred : LexCtx.isReduce { prods := prods.toArray } (doneItem k p) = true := by
    unfold doneItem; rw [isReduce_root hP]; simp
  refine ⟨(mem_xRun_iff (noRefC_of_noRefs hr) (noDotC_of_noDots hd) w _).2
    ⟨k, p, _, hP, hkind, rfl, run_of_den hP ((matchPat_iff_den _ _).1 hm), ?_⟩, hred⟩
  simp [LexCtx.isBasic, hred]

/-- (M1) SOUNDNESS: an accepted string is matched -/
theorem C01_ref_accepts_sound (prods : List LProd) (hr : noRefs prods = true)
    (hd : noDots prods = true) (k : Nat) (p : LProd) (hk : prods[k]? = some p) (hkind : p.kind ≠ .reg)
    (hne : p.pat.alts ≠ []) (w : List Int) (top : LItem)
    (hin : [top] ∈ xRun { prods := prods.toArray } w) (hprod : top.prod = k)
    (hred : LexCtx.isReduce { prods := prods.toArray } top = true) : MatchPat p.pat w := by
  have hP : (LexCtx.prods { prods := prods.toArray })[k]? = some p := by simpa using hk
  exact (matchPat_iff_den _ _).2 ((accept_iff (noRefC_of_noRefs hr) (noDotC_of_noDots hd) hP hkind hne
    w).1 ⟨top, hin, hprod, hred⟩)

/-- (M1+M2) the reference automaton accepts `w` for production `k` iff the pattern of `k` matches `w` -/
theorem C01_ref_accepts_iff_matches (prods : List LProd) (hr : noRefs prods = true)
    (hd : noDots prods = true) (k : Nat) (p : LProd) (hk : prods[k]? = some p) (hkind : p.kind ≠ .reg)
    (hne : p.pat.alts ≠ []) (w : List Int) :
    (∃ top, [top] ∈ xRun { prods := prods.toArray } w ∧ top.prod = k ∧
      LexCtx.isReduce { prods := prods.toArray } top = true) ↔ MatchPat p.pat w := by
  have hP : (LexCtx.prods { prods := prods.toArray })[k]? = some p := by simpa using hk
  rw [matchPat_iff_den]
  exact accept_iff (noRefC_of_noRefs hr) (noDotC_of_noDots hd) hP hkind hne w

theorem topNE_of_altToks {prods : List LProd} (h : altToks prods = true) :
    TopNE { prods := prods.toArray } := by
  intro k P hP hk
  simp only [altToks, List.all_eq_true] at h
  have hmem : P ∈ prods := by
    have : prods[k]? = some P := by simpa using hP
    exact List.mem_of_getElem? this
  have := h P hmem
  intro he
  cases hkk : P.kind <;> simp_all

/-- the completed items of the state after `w`: exactly the items `doneItem k p` of the non-`reg`
    productions whose pattern matches `w` -/
theorem C01_ref_done_iff (prods : List LProd) (hr : noRefs prods = true) (hd : noDots prods = true)
    (ha : altToks prods = true) (w : List Int) (i : LItem) :
    ([i] ∈ xRun { prods := prods.toArray } w ∧ LexCtx.isReduce { prods := prods.toArray } i = true) ↔
      ∃ (k : Nat) (p : LProd), prods[k]? = some p ∧ p.kind ≠ .reg ∧ i = doneItem k p ∧
        MatchPat p.pat w := by
  rw [done_iff (noRefC_of_noRefs hr) (noDotC_of_noDots hd) (topNE_of_altToks ha)]
  constructor
  · rintro ⟨k, P, hP, hk, hi, hw⟩
    exact ⟨k, P, by simpa using hP, hk, hi, (matchPat_iff_den _ _).2 hw⟩
  · rintro ⟨k, P, hP, hk, hi, hw⟩
    exact ⟨k, P, by simpa using hP, hk, hi, (matchPat_iff_den _ _).1 hw⟩

/-! ### (M3) the verdict -/

/-- (M3) the verdict after `w` is `Action()` of ANY production-sorted list enumerating the completed
    items of the matching non-`reg` productions -/
theorem C01_ref_verdict_eq (prods : List LProd) (hr : noRefs prods = true) (hd : noDots prods = true)
    (ha : altToks prods = true) (w : List Int) (l : List LItem)
    (hs : l.Pairwise (fun a b => a.prod ≤ b.prod))
    (hl : ∀ i, i ∈ l ↔ ∃ (k : Nat) (p : LProd), prods[k]? = some p ∧ p.kind ≠ .reg ∧
      i = doneItem k p ∧ MatchPat p.pat w) :
    xVerdict { prods := prods.toArray } (xRun { prods := prods.toArray } w) =
      lexAction { prods := prods.toArray } l := by
  refine verdict_eq (noRefC_of_noRefs hr) (noDotC_of_noDots hd) (topNE_of_altToks ha) w l hs ?_
  intro i
  rw [hl]
  constructor
  · rintro ⟨k, P, hP, hk, hi, hw⟩
    exact ⟨k, P, by simpa using hP, hk, hi, (matchPat_iff_den _ _).1 hw⟩
  · rintro ⟨k, P, hP, hk, hi, hw⟩
    exact ⟨k, P, by simpa using hP, hk, hi, (matchPat_iff_den _ _).2 hw⟩

theorem actOfProd_eq {C : LexCtx} {k : Nat} {p : LProd} (hP : C.prods[k]? = some p) :
    actOfProd C k = tokAct p := by
  simp only [actOfProd, hP, tokAct]
  cases p.kind <;> rfl

/-- nothing matches: no token -/
theorem C01_ref_verdict_none (prods : List LProd) (hr : noRefs prods = true) (hd : noDots prods = true)
    (ha : altToks prods = true) (w : List Int)
    (hno : ∀ (k : Nat) (p : LProd), prods[k]? = some p → p.kind ≠ .reg → ¬ MatchPat p.pat w) :
    xVerdict { prods := prods.toArray } (xRun { prods := prods.toArray } w) = .none := by
  refine verdict_none (noRefC_of_noRefs hr) (noDotC_of_noDots hd) (topNE_of_altToks ha) w ?_
  intro k P hP hk hw
  exact hno k P (by simpa using hP) hk ((matchPat_iff_den _ _).2 hw)

/-- a string-literal production matches (the last declared, if several do): it is the token -/
theorem C01_ref_verdict_strLit (prods : List LProd) (hr : noRefs prods = true)
    (hd : noDots prods = true) (ha : altToks prods = true) (w : List Int) (k : Nat) (p : LProd)
    (hk : prods[k]? = some p) (hkind : p.kind ≠ .reg) (hm : MatchPat p.pat w) (hstr : p.strLit = true)
    (hlast : ∀ (k' : Nat) (p' : LProd), prods[k']? = some p' → p'.kind ≠ .reg → p'.strLit = true →
      MatchPat p'.pat w → k' ≤ k) :
    xVerdict { prods := prods.toArray } (xRun { prods := prods.toArray } w) = tokAct p := by
  have hP : (LexCtx.prods { prods := prods.toArray })[k]? = some p := by simpa using hk
  rw [← actOfProd_eq hP]
  refine verdict_strLit (noRefC_of_noRefs hr) (noDotC_of_noDots hd) (topNE_of_altToks ha) w hP hkind
    ((matchPat_iff_den _ _).1 hm) hstr ?_
  intro k' P' hP' hk' hs' hw'
  exact hlast k' P' (by simpa using hP') hk' hs' ((matchPat_iff_den _ _).2 hw')

/-- no string-literal production matches: the earliest declared matching production is the token -/
theorem C01_ref_verdict_first (prods : List LProd) (hr : noRefs prods = true)
    (hd : noDots prods = true) (ha : altToks prods = true) (w : List Int) (k : Nat) (p : LProd)
    (hk : prods[k]? = some p) (hkind : p.kind ≠ .reg) (hm : MatchPat p.pat w)
    (hfirst : ∀ (k' : Nat) (p' : LProd), prods[k']? = some p' → p'.kind ≠ .reg → MatchPat p'.pat w →
      p'.strLit = false ∧ k ≤ k') :
    xVerdict { prods := prods.toArray } (xRun { prods := prods.toArray } w) = tokAct p := by
  have hP : (LexCtx.prods { prods := prods.toArray })[k]? = some p := by simpa using hk
  rw [← actOfProd_eq hP]
  refine verdict_first (noRefC_of_noRefs hr) (noDotC_of_noDots hd) (topNE_of_altToks ha) w hP hkind
    ((matchPat_iff_den _ _).1 hm) ?_
  intro k' P' hP' hk' hw'
  exact hfirst k' P' (by simpa using hP') hk' ((matchPat_iff_den _ _).2 hw')

/-! ### (M4) aliveness = prefix of a match; residual languages -/

/-- a prefix of a matched string keeps the automaton alive (no side condition on the patterns) -/
theorem C01_ref_alive_of_prefix (prods : List LProd) (hr : noRefs prods = true)
    (hd : noDots prods = true) (w : List Int) (k : Nat) (p : LProd) (v : List Int)
    (hk : prods[k]? = some p) (hkind : p.kind ≠ .reg) (hm : MatchPat p.pat (w ++ v)) :
    xRun { prods := prods.toArray } w ≠ [] :=
  alive_of_prefix (noRefC_of_noRefs hr) (noDotC_of_noDots hd) (P := p) (k := k) (by simpa using hk)
    hkind ((matchPat_iff_den _ _).1 hm)

/-- (M4) the automaton is alive after `w` iff `w` is a prefix of a string matched by some token -/
theorem C01_ref_alive_iff_prefix (prods : List LProd) (hr : noRefs prods = true)
    (hd : noDots prods = true) (hl : liveToks prods = true) (w : List Int) :
    xRun { prods := prods.toArray } w ≠ [] ↔
      ∃ (k : Nat) (p : LProd) (v : List Int), prods[k]? = some p ∧ p.kind ≠ .reg ∧
        MatchPat p.pat (w ++ v) := by
  rw [alive_iff (noRefC_of_noRefs hr) (noDotC_of_noDots hd) (liveC_of_liveToks hl)]
  constructor
  · rintro ⟨k, P, v, hP, hk, hw⟩
    exact ⟨k, P, v, by simpa using hP, hk, (matchPat_iff_den _ _).2 hw⟩
  · rintro ⟨k, P, v, hP, hk, hw⟩
    exact ⟨k, P, v, by simpa using hP, hk, (matchPat_iff_den _ _).1 hw⟩

/-- the residual language of EVERY dotted position `y` of a production (not only of the positions the
    automaton reaches): the strings read by a run from `y` to the completed item are the continuation
    language `Cont C y`, which is defined from the declarative semantics alone (`RegexS.rem`,
    `RegexS.after`, `RegexS.up` in Proofs/RegexSemSound.lean) -/
theorem C01_ref_residual (C : LexCtx) (y : LItem) (p : LProd) (hp : C.prods[y.prod]? = some p)
    (hne : p.pat.alts ≠ []) (hy : Pos C y) (v : List Int) :
    Run C y v (doneItem y.prod p) ↔ Cont C y v :=
  residual_iff hp hne hy v

/-! ### Non-vacuity

```
t    : { [ 'b' | ( 'c' 'd' ) ] 'e' | 'f'-'h' } ;     nesting: { } around [ ] around ( ), a range
!ws  : ' ' ;
"be" : 'b' 'e' ;                                      string literal of the syntax part
```
-/

def c01rxBody : LPat :=
  .mk [ .mk [.opt (.mk [.mk [.lit 98], .mk [.grp (.mk [.mk [.lit 99, .lit 100]])]]), .lit 101],
        .mk [.rng 102 104] ]

def c01rxLex : List LProd :=
  [ { kind := .tok, id := "t", pat := .mk [.mk [.rep c01rxBody]] },
    { kind := .ign, id := "ws", pat := .mk [.mk [.lit 32]] },
    { kind := .tok, id := "be", pat := .mk [.mk [.lit 98, .lit 101]], strLit := true } ]

theorem c01rx_side : noRefs c01rxLex = true ∧ noDots c01rxLex = true ∧ altToks c01rxLex = true ∧
    liveToks c01rxLex = true := by decide

/-- one round of the `{ }`: a string of the body -/
theorem c01rx_body_cde : MatchPat c01rxBody [99, 100, 101] :=
  .alt (a := .mk [.opt (.mk [.mk [.lit 98], .mk [.grp (.mk [.mk [.lit 99, .lit 100]])]]), .lit 101])
    (by simp)
    (.mk (.cons (u := [99, 100]) (v := [101])
      (.optSome (.alt (a := .mk [.grp (.mk [.mk [.lit 99, .lit 100]])]) (by simp)
        (.mk (.cons (u := [99, 100]) (v := [])
          (.grp (.alt (a := .mk [.lit 99, .lit 100]) (by simp)
            (.mk (.cons (u := [99]) (v := [100]) (.lit 99)
              (.cons (u := [100]) (v := []) (.lit 100) .nil)))))
          .nil))))
      (.cons (u := [101]) (v := []) (.lit 101) .nil)))

theorem c01rx_body_g : MatchPat c01rxBody [103] :=
  .alt (a := .mk [.rng 102 104]) (by simp)
    (.mk (.cons (u := [103]) (v := []) (.rng 102 104 103 (by decide) (by decide)) .nil))

theorem c01rx_body_be : MatchPat c01rxBody [98, 101] :=
  .alt (a := .mk [.opt (.mk [.mk [.lit 98], .mk [.grp (.mk [.mk [.lit 99, .lit 100]])]]), .lit 101])
    (by simp)
    (.mk (.cons (u := [98]) (v := [101])
      (.optSome (.alt (a := .mk [.lit 98]) (by simp)
        (.mk (.cons (u := [98]) (v := []) (.lit 98) .nil))))
      (.cons (u := [101]) (v := []) (.lit 101) .nil)))

/-- `cdeg` ∈ `t` : two rounds, `cde` then `g`, by an explicit derivation -/
theorem c01rx_match_cdeg : MatchPat (.mk [.mk [.rep c01rxBody]]) [99, 100, 101, 103] :=
  .alt (a := .mk [.rep c01rxBody]) (by simp)
    (.mk (.cons (u := [99, 100, 101, 103]) (v := [])
      (.repCons (u := [99, 100, 101]) (v := [103]) c01rx_body_cde
        (.repCons (u := [103]) (v := []) c01rx_body_g (.repNil _)))
      .nil))

/-- `be` ∈ `t` (one round through `[ 'b' ] 'e'`) and `be` ∈ `"be"` -/
theorem c01rx_match_be_t : MatchPat (.mk [.mk [.rep c01rxBody]]) [98, 101] :=
  .alt (a := .mk [.rep c01rxBody]) (by simp)
    (.mk (.cons (u := [98, 101]) (v := [])
      (.repCons (u := [98, 101]) (v := []) c01rx_body_be (.repNil _)) .nil))

theorem c01rx_match_be_lit : MatchPat (.mk [.mk [.lit 98, .lit 101]]) [98, 101] :=
  .alt (a := .mk [.lit 98, .lit 101]) (by simp)
    (.mk (.cons (u := [98]) (v := [101]) (.lit 98) (.cons (u := [101]) (v := []) (.lit 101) .nil)))

/-- through the theorem: the reference automaton accepts `cdeg` for `t` … -/
theorem c01rx_accepts_cdeg :
    [doneItem 0 c01rxLex[0]] ∈ xRun { prods := c01rxLex.toArray } [99, 100, 101, 103] :=
  (C01_ref_accepts_complete c01rxLex c01rx_side.1 c01rx_side.2.1 0 _ rfl (by decide) _
    c01rx_match_cdeg).1

/-- … and the computed state agrees (the completed item `⟨0,[1]⟩` is in it) -/
example : xRun { prods := c01rxLex.toArray } [99, 100, 101, 103] =
    [[⟨0, [0, 0, 0, 0, 0, 0]⟩], [⟨0, [0, 0, 0, 0, 1, 0, 0, 0]⟩], [⟨0, [0, 0, 0, 1]⟩],
     [⟨0, [0, 0, 1, 0]⟩], [⟨0, [1]⟩]] := by decide +kernel

/-- `be`: `t` and the string literal `"be"` both match; the verdict is the string literal, by (M3) -/
theorem c01rx_verdict_be :
    xVerdict { prods := c01rxLex.toArray } (xRun { prods := c01rxLex.toArray } [98, 101]) =
      .accept "be" := by
  refine C01_ref_verdict_strLit c01rxLex c01rx_side.1 c01rx_side.2.1 c01rx_side.2.2.1 _ 2 _ rfl
    (by decide) c01rx_match_be_lit rfl ?_
  intro k' p' hk' _ _ _
  have : k' < c01rxLex.length := (List.getElem?_eq_some_iff.1 hk').1
  simp only [c01rxLex, List.length_cons, List.length_nil] at this
  omega

example : xVerdict { prods := c01rxLex.toArray } (xRun { prods := c01rxLex.toArray } [98, 101]) =
    .accept "be" := by decide +kernel

/-- `cd` is NOT in `t`: the automaton side of the theorem decides it (no completed item of `t` after
    `cd`), the theorem transports it to the declarative semantics -/
theorem c01rx_not_match_cd : ¬ MatchPat (.mk [.mk [.rep c01rxBody]]) [99, 100] := by
  intro hm
  have h := (C01_ref_accepts_complete c01rxLex c01rx_side.1 c01rx_side.2.1 0 _ rfl (by decide) _ hm).1
  have hno : (xRun { prods := c01rxLex.toArray } [99, 100]).contains [doneItem 0 c01rxLex[0]] = false := by
    decide +kernel
  rw [List.contains_eq_mem, decide_eq_false_iff_not] at hno
  exact hno h

/-- … but `cd` is a prefix of a match (`cde`), so the automaton is alive after it, by (M4) -/
theorem c01rx_alive_cd : xRun { prods := c01rxLex.toArray } [99, 100] ≠ [] :=
  C01_ref_alive_of_prefix c01rxLex c01rx_side.1 c01rx_side.2.1 [99, 100] 0 _ [101] rfl (by decide)
    (.alt (a := .mk [.rep c01rxBody]) (by simp)
      (.mk (.cons (u := [99, 100, 101]) (v := [])
        (.repCons (u := [99, 100, 101]) (v := []) c01rx_body_cde (.repNil _)) .nil)))

/-- `x` is a prefix of nothing: the automaton is dead after it; by (M4) no token matches any
    extension of `x` -/
theorem c01rx_dead_x (v : List Int) (k : Nat) (p : LProd) (hk : c01rxLex[k]? = some p)
    (hkind : p.kind ≠ .reg) : ¬ MatchPat p.pat ([120] ++ v) := by
  intro hm
  have hdead : xRun { prods := c01rxLex.toArray } [120] = [] := by decide +kernel
  exact C01_ref_alive_of_prefix c01rxLex c01rx_side.1 c01rx_side.2.1 [120] k p v hk hkind hm hdead

/-! ### the side conditions are needed -/

/-- FINDING: a pattern without alternatives.  The reference automaton (and the generator model: same
    `isReduce`) reports the empty string as the token `t`; the declarative semantics matches nothing. -/
theorem c01rx_empty_pattern :
    let prods : List LProd := [{ kind := .tok, id := "t", pat := .mk [] }]
    noRefs prods = true ∧ noDots prods = true ∧ altToks prods = false ∧
    xRun { prods := prods.toArray } [] = [[⟨0, [0]⟩]] ∧
    LexCtx.isReduce { prods := prods.toArray } ⟨0, [0]⟩ = true ∧
    xVerdict { prods := prods.toArray } (xRun { prods := prods.toArray } []) = .accept "t" ∧
    lexAction { prods := prods.toArray } (itemsSet0 { prods := prods.toArray }) = .accept "t" ∧
    ¬ MatchPat (.mk []) [] := by
  refine ⟨by decide, by decide, by decide, by decide +kernel, by decide, by decide +kernel,
    by decide +kernel, ?_⟩
  intro h
  rw [matchPat_iff_den, denPat_mk, denAlts_nil] at h
  exact h

/-- `liveToks` is needed for "alive ⟹ prefix": after `a` in `'a' 'z'-'a'` the automaton is alive (it
    waits for a rune of the reversed range) but nothing can follow -/
theorem c01rx_dead_alive :
    let prods : List LProd := [{ kind := .tok, id := "t", pat := .mk [.mk [.lit 97, .rng 122 97]] }]
    noRefs prods = true ∧ noDots prods = true ∧ altToks prods = true ∧ liveToks prods = false ∧
    xRun { prods := prods.toArray } [97] ≠ [] ∧
    ∀ v, ¬ MatchPat (.mk [.mk [.lit 97, .rng 122 97]]) ([97] ++ v) := by
  refine ⟨by decide, by decide, by decide, by decide, by decide +kernel, ?_⟩
  intro v h
  rw [matchPat_iff_den, denPat_mk, denAlts_cons, denAlts_nil, denAlt_mk, denTerms_cons] at h
  rcases h with ⟨u1, v1, _, _, h2⟩ | h
  · rw [denTerms_cons] at h2
    obtain ⟨u2, v2, _, h3, _⟩ := h2
    rw [denTerm_rng] at h3
    obtain ⟨c, _, h4, h5⟩ := h3
    omega
  · exact h

/-- the same with an empty group: `'a' 'b' ( )` -/
theorem c01rx_dead_alive_grp :
    let prods : List LProd :=
      [{ kind := .tok, id := "t", pat := .mk [.mk [.lit 97, .lit 98, .grp (.mk [])]] }]
    liveToks prods = false ∧ xRun { prods := prods.toArray } [97] ≠ [] ∧
    ∀ v, ¬ MatchPat (.mk [.mk [.lit 97, .lit 98, .grp (.mk [])]]) ([97] ++ v) := by
  refine ⟨by decide, by decide +kernel, ?_⟩
  intro v h
  rw [matchPat_iff_den, denPat_mk, denAlts_cons, denAlts_nil, denAlt_mk, denTerms_cons] at h
  rcases h with ⟨u1, v1, _, _, h2⟩ | h
  · rw [denTerms_cons] at h2
    obtain ⟨u2, v2, _, _, h3⟩ := h2
    rw [denTerms_cons] at h3
    obtain ⟨u3, v3, _, h4, _⟩ := h3
    rw [denTerm_grp, denPat_mk, denAlts_nil] at h4
    exact h4
  · exact h

/-- shapes that need NO side condition: nullable body of `{ }`, `{ [ 'a' ] }`, empty alternative, empty
    `[ ]`, a dead `( )` in one alternative, a reversed range — covered by the theorems above; e.g. the
    empty string and `aa` are tokens of `{ [ 'a' ] | } 'z'-'a' | ( ) 'q' | [ ]` … -/
def c01rxOdd : List LProd :=
  [ { kind := .tok, id := "o",
      pat := .mk [ .mk [.rep (.mk [.mk [.opt (.mk [.mk [.lit 97]])], .mk []]), .rng 122 97],
                   .mk [.grp (.mk []), .lit 113],
                   .mk [.opt (.mk [])],
                   .mk [.rep (.mk [.mk [.opt (.mk [.mk [.lit 97]])]])] ] } ]

theorem c01rxOdd_side : noRefs c01rxOdd = true ∧ noDots c01rxOdd = true ∧ altToks c01rxOdd = true := by
  decide

theorem c01rxOdd_aa : MatchPat c01rxOdd[0].pat [97, 97] := by
  have hbody : MatchPat (.mk [.mk [.opt (.mk [.mk [.lit 97]])]]) [97] :=
    .alt (a := .mk [.opt (.mk [.mk [.lit 97]])]) (by simp)
      (.mk (.cons (u := [97]) (v := [])
        (.optSome (.alt (a := .mk [.lit 97]) (by simp)
          (.mk (.cons (u := [97]) (v := []) (.lit 97) .nil)))) .nil))
  exact .alt (a := .mk [.rep (.mk [.mk [.opt (.mk [.mk [.lit 97]])]])]) (by simp)
    (.mk (.cons (u := [97, 97]) (v := [])
      (.repCons (u := [97]) (v := [97]) hbody (.repCons (u := [97]) (v := []) hbody (.repNil _)))
      .nil))

example : xVerdict { prods := c01rxOdd.toArray } (xRun { prods := c01rxOdd.toArray } [97, 97]) =
    .accept "o" :=
  C01_ref_verdict_first c01rxOdd c01rxOdd_side.1 c01rxOdd_side.2.1 c01rxOdd_side.2.2 _ 0 _ rfl
    (by decide) c01rxOdd_aa (by
      intro k' p' hk' _ _
      have : k' < c01rxOdd.length := (List.getElem?_eq_some_iff.1 hk').1
      simp only [c01rxOdd, List.length_cons, List.length_nil] at this
      have h0 : k' = 0 := by omega
      subst h0
      simp only [c01rxOdd, List.getElem?_cons_zero, Option.some.injEq] at hk'
      subst hk'
      exact ⟨rfl, Nat.le_refl _⟩)

/-- `q` is not a token of it (the `( )` in front is a dead end), `az` neither (reversed range) -/
example : xVerdict { prods := c01rxOdd.toArray } (xRun { prods := c01rxOdd.toArray } [113]) = .none ∧
    xVerdict { prods := c01rxOdd.toArray } (xRun { prods := c01rxOdd.toArray } [97, 122]) = .none := by
  decide +kernel

end Gocc
