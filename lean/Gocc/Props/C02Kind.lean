import Gocc.Proofs.KindGrammar
import Gocc.Proofs.KindGrammarSem
import Gocc.Props.C07Term
/-
The generator-level theorems, stated against a specification that does NOT read the grammar the way
the generator does.

`ngrammarOf` (Model/Validate.lean), over which C02/C03/C06/C07 at the generator level are stated,
reads a syntax part BY SPELLING, exactly like gocc's generator: a body symbol is a non-terminal iff
its spelling is a head, and an alternative is empty iff its first symbol is SPELLED `empty`
(`prodLen`, i.e. `Item.Len`).  For `S : "empty" a | b ;` that is not the grammar the author wrote,
and the generated parser really is wrong for it (known finding D16) — the theorems over `ngrammarOf`
are true of it and say nothing about the defect.

`ngrammarSpec` (Spec/KindGrammar.lean) reads the syntax part BY KIND: `.prodId` = non-terminal,
`.tokId` / `.strLit` = terminal, the empty alternative = the keyword `empty` alone.

  * `ngrammarSpec_eq_ngrammarOf` (Proofs/KindGrammar.lean): under the decidable side condition
    `SpellingsOk syn tokIds` (clauses `prodIdDefined`, `terminalNotHead`, `emptyAlone`) the two
    grammars are EQUAL for the tables of every successful `genParser` run.
  * below: every headline generator-level theorem restated over `ngrammarSpec`, with the extra
    hypothesis `SpellingsOk syn tokIds` (statements copied from the originals, `ngrammarOf` replaced
    by `ngrammarSpec`; proofs: rewrite with the equality).
  * `spellingsOk_of_semCheck` (Proofs/KindGrammarSem.lean): gocc's front end (`semCheck`) enforces
    `SpellingsOk` except for: token ids spelled like heads (excluded by the scanner) and an
    alternative that begins with the STRING LITERAL `"empty"` — not refused, D16.
  * `C02_D16_literal_empty_violates`: D16 as a proved negative.  For `S : "empty" a | b ;` all the
    side conditions of the old theorems hold (`NamesOk`, `CompleteNamesOk`, no conflict, no recovery
    state), `SpellingsOk` fails, the two grammars differ, and the generated parser accepts a
    non-sentence and rejects a sentence of the grammar as written.
  * non-vacuity: `C02GenEx.syn` (`S : a S b | c`) and `C07GenEx.syn` (with an `error` alternative)
    satisfy `SpellingsOk`; the `_kind` theorems are instantiated on them.
-/
namespace Gocc

/-! ### C02 -/

/-- (C02-gen-sound, by kind) whatever the generated parser accepts is a sentence of the grammar as
    written (`C02_generated_parser_sound`) -/
theorem C02_generated_parser_sound_kind {syn : List SProd} {tokIds : List String} {r : LRResult}
    (h : genParser syn tokIds = .ok r) (hn : NamesOk syn tokIds) (hs : SpellingsOk syn tokIds)
    (hsz : r.states.size ≤ 4096)
    (hr : ∀ s : Nat, r.tables.canRecover[s]?.getD false = false)
    {w : List Nat} (hw : 1 ∉ w) {cfg : PCfg} (hT : cfg.T = r.tables)
    {fuel : Nat} {old : PState} {res : Attr}
    (hacc : (parse cfg w fuel old).1 = Outcome.accept res) :
    NSentence (ngrammarSpec (augment syn) r.tables.terminals r.tables.nts) w := by
  rw [ngrammarSpec_eq_ngrammarOf h hs]
  exact C02_generated_parser_sound h hn hsz hr hw hT hacc

/-- (C02-gen-complete, by kind) the generated parser accepts every sentence of the grammar as
    written (`C02_generated_sentence_accepted`) -/
theorem C02_generated_sentence_accepted_kind {syn : List SProd} {tokIds : List String}
    {r : LRResult} (h : genParser syn tokIds = .ok r) (hn : NamesOk syn tokIds)
    (hs : SpellingsOk syn tokIds) (hsz : r.states.size ≤ 4096)
    (hc : r.tables.conflictStates = 0) (hx : CompleteNamesOk syn)
    {cfg : PCfg} (hA : ActsOk cfg) (hT : cfg.T = r.tables) {w : List Nat}
    (hsen : NSentence (ngrammarSpec (augment syn) r.tables.terminals r.tables.nts) w)
    (old : PState) :
    ∃ fuel res, (parse cfg w fuel old).1 = Outcome.accept res := by
  rw [ngrammarSpec_eq_ngrammarOf h hs] at hsen
  exact C02_generated_sentence_accepted h hn hsz hc hx hA hT hsen old

/-- (C02-gen, both directions, by kind) for every grammar without conflict and without `error`
    alternative whose spellings are in order: the generated parser accepts exactly the sentences of
    the grammar AS WRITTEN (`C02_generated_accept_iff_sentence`) -/
theorem C02_generated_accept_iff_sentence_kind {syn : List SProd} {tokIds : List String}
    {r : LRResult} (h : genParser syn tokIds = .ok r) (hn : NamesOk syn tokIds)
    (hs : SpellingsOk syn tokIds) (hsz : r.states.size ≤ 4096)
    (hc : r.tables.conflictStates = 0) (hx : CompleteNamesOk syn)
    (hr : ∀ s : Nat, r.tables.canRecover[s]?.getD false = false)
    {cfg : PCfg} (hA : ActsOk cfg) (hT : cfg.T = r.tables) {w : List Nat} (hw : 1 ∉ w)
    (old : PState) :
    (∃ fuel res, (parse cfg w fuel old).1 = Outcome.accept res) ↔
      NSentence (ngrammarSpec (augment syn) r.tables.terminals r.tables.nts) w := by
  rw [ngrammarSpec_eq_ngrammarOf h hs]
  exact C02_generated_accept_iff_sentence h hn hsz hc hx hr hA hT hw old

/-- (C02-term, generated, by kind) `C02_generated_parse_terminates` -/
theorem C02_generated_parse_terminates_kind {syn : List SProd} {tokIds : List String}
    {r : LRResult} (h : genParser syn tokIds = .ok r) (hn : NamesOk syn tokIds)
    (hs : SpellingsOk syn tokIds) (hx : CompleteNamesOk syn)
    (hsz : r.states.size ≤ 4096) (hc : r.tables.conflictStates = 0)
    (hp : bodyNTsProductive (ngrammarSpec (augment syn) r.tables.terminals r.tables.nts) = true)
    (hr : ∀ s : Nat, r.tables.canRecover[s]?.getD false = false)
    {cfg : PCfg} (hA : ActsOk cfg) (hT : cfg.T = r.tables) (w : List Nat) (old : PState) :
    ∃ fuel o ps, o ≠ Outcome.outOfFuel ∧
      (∀ fuel', fuel ≤ fuel' → parse cfg w fuel' old = (o, ps)) ∧
      ((∃ res, o = Outcome.accept res) ↔
        ∃ i, i ≤ w.length ∧ (w[i]?).getD 1 = 1 ∧
          NSentence (ngrammarSpec (augment syn) r.tables.terminals r.tables.nts) (w.take i)) ∧
      ((∃ res, o = Outcome.accept res) ∨
       (∃ i exp top, o = Outcome.synErr i ((w[i]?).getD 1) exp top ∧ i ≤ w.length ∧
          NViablePrefix (ngrammarSpec (augment syn) r.tables.terminals r.tables.nts) (w.take i) ∧
          ∀ j, i < j → j ≤ w.length →
            ¬ NViablePrefix (ngrammarSpec (augment syn) r.tables.terminals r.tables.nts)
                (w.take j)) ∨
       (o = Outcome.panic "index out of range (token type)" ∧
          ∃ t, t ∈ w ∧ r.tables.numSymbols ≤ t)) := by
  rw [ngrammarSpec_eq_ngrammarOf h hs] at hp ⊢
  exact C02_generated_parse_terminates h hn hx hsz hc hp hr hA hT w old

/-- (C02, generated, decision procedure, by kind) on inputs without a token of type 1 whose token
    types are inside the tables the generated parser returns `accept` for the sentences of the
    grammar AS WRITTEN and a syntax error for everything else (`C02_generated_parse_decides`) -/
theorem C02_generated_parse_decides_kind {syn : List SProd} {tokIds : List String} {r : LRResult}
    (h : genParser syn tokIds = .ok r) (hn : NamesOk syn tokIds) (hs : SpellingsOk syn tokIds)
    (hx : CompleteNamesOk syn)
    (hsz : r.states.size ≤ 4096) (hc : r.tables.conflictStates = 0)
    (hp : bodyNTsProductive (ngrammarSpec (augment syn) r.tables.terminals r.tables.nts) = true)
    (hr : ∀ s : Nat, r.tables.canRecover[s]?.getD false = false)
    {cfg : PCfg} (hA : ActsOk cfg) (hT : cfg.T = r.tables) {w : List Nat} (hw : 1 ∉ w)
    (hrange : ∀ t, t ∈ w → t < r.tables.numSymbols) (old : PState) :
    ∃ fuel o ps, (∀ fuel', fuel ≤ fuel' → parse cfg w fuel' old = (o, ps)) ∧
      ((∃ res, o = Outcome.accept res) ↔
        NSentence (ngrammarSpec (augment syn) r.tables.terminals r.tables.nts) w) ∧
      ((∃ i typ exp top, o = Outcome.synErr i typ exp top) ↔
        ¬ NSentence (ngrammarSpec (augment syn) r.tables.terminals r.tables.nts) w) := by
  rw [ngrammarSpec_eq_ngrammarOf h hs] at hp ⊢
  exact C02_generated_parse_decides h hn hx hsz hc hp hr hA hT hw hrange old

/-! ### C03 -/

/-- (C03-gen, by kind) value and call log of an accepting run are the evaluation of a parse tree —
    of the grammar as written — of the whole input (`C03_generated_result_is_tree_eval`) -/
theorem C03_generated_result_is_tree_eval_kind {syn : List SProd} {tokIds : List String}
    {r : LRResult} (h : genParser syn tokIds = .ok r) (hn : NamesOk syn tokIds)
    (hs : SpellingsOk syn tokIds) (hsz : r.states.size ≤ 4096)
    (hr : ∀ s : Nat, r.tables.canRecover[s]?.getD false = false)
    {w : List Nat} (hw : 1 ∉ w) {cfg : PCfg} (hT : cfg.T = r.tables)
    {fuel : Nat} {old : PState} {res : Attr} {ps : PState}
    (hacc : parse cfg w fuel old = (Outcome.accept res, ps)) :
    ∃ t : PT, t.wf (ngrammarSpec (augment syn) r.tables.terminals r.tables.nts) ∧
      (ngrammarSpec (augment syn) r.tables.terminals r.tables.nts).body 0 =
        [t.sym (ngrammarSpec (augment syn) r.tables.terminals r.tables.nts)] ∧
      t.yield = (List.range w.length).zip w ∧
      evalT r.tables.prodKind t [] = some (res, ps.log) := by
  rw [ngrammarSpec_eq_ngrammarOf h hs]
  exact C03_generated_result_is_tree_eval h hn hsz hr hw hT hacc

/-! ### C06 -/

/-- (C06 B, generated, by kind) a syntax error of the generated parser names the first token that
    cannot continue a sentence of the grammar as written
    (`C06_generated_error_token_is_first_offending`) -/
theorem C06_generated_error_token_is_first_offending_kind {syn : List SProd}
    {tokIds : List String} {r : LRResult} (h : genParser syn tokIds = .ok r)
    (hn : NamesOk syn tokIds) (hs : SpellingsOk syn tokIds)
    (hx : CompleteNamesOk syn) (hsz : r.states.size ≤ 4096)
    (hc : r.tables.conflictStates = 0)
    (hp : bodyNTsProductive (ngrammarSpec (augment syn) r.tables.terminals r.tables.nts) = true)
    (hr : ∀ s : Nat, r.tables.canRecover[s]?.getD false = false)
    {cfg : PCfg} (hA : ActsOk cfg) (hT : cfg.T = r.tables) {w : List Nat} {fuel : Nat}
    {old : PState} {i typ : Nat} {exp : List Nat} {top : Nat}
    (he : (parse cfg w fuel old).1 = Outcome.synErr i typ exp top) :
    NViablePrefix (ngrammarSpec (augment syn) r.tables.terminals r.tables.nts) (w.take i) ∧
    i ≤ w.length ∧ typ = (w[i]?).getD 1 ∧
    (typ ≠ 1 → ¬ ∃ v, NSentence (ngrammarSpec (augment syn) r.tables.terminals r.tables.nts)
      (w.take i ++ typ :: v)) ∧
    (typ = 1 → ¬ NSentence (ngrammarSpec (augment syn) r.tables.terminals r.tables.nts)
      (w.take i)) := by
  rw [ngrammarSpec_eq_ngrammarOf h hs] at hp ⊢
  exact C06_generated_error_token_is_first_offending h hn hx hsz hc hp hr hA hT he

/-- (C06 C, generated, by kind) the expected-token list of a syntax error is exactly the set of
    terminals that can follow the consumed input in a sentence of the grammar as written, in
    strictly increasing order (`C06_generated_expected_set_exact`) -/
theorem C06_generated_expected_set_exact_kind {syn : List SProd} {tokIds : List String}
    {r : LRResult} (h : genParser syn tokIds = .ok r) (hn : NamesOk syn tokIds)
    (hs : SpellingsOk syn tokIds)
    (hx : CompleteNamesOk syn) (hsz : r.states.size ≤ 4096)
    (hc : r.tables.conflictStates = 0)
    (hp : bodyNTsProductive (ngrammarSpec (augment syn) r.tables.terminals r.tables.nts) = true)
    (hr : ∀ s : Nat, r.tables.canRecover[s]?.getD false = false)
    {cfg : PCfg} (hA : ActsOk cfg) (hT : cfg.T = r.tables) {w : List Nat} {fuel : Nat}
    {old : PState} {i typ : Nat} {exp : List Nat} {top : Nat}
    (he : (parse cfg w fuel old).1 = Outcome.synErr i typ exp top) :
    (∀ a, a ∈ exp ↔
      (a ≠ 1 ∧ ∃ v, NSentence (ngrammarSpec (augment syn) r.tables.terminals r.tables.nts)
        (w.take i ++ a :: v)) ∨
      (a = 1 ∧ NSentence (ngrammarSpec (augment syn) r.tables.terminals r.tables.nts)
        (w.take i))) ∧
    exp.Pairwise (· < ·) := by
  rw [ngrammarSpec_eq_ngrammarOf h hs] at hp ⊢
  exact C06_generated_expected_set_exact h hn hx hsz hc hp hr hA hT he

/-! ### C07 -/

/-- (C07 1a, by kind) a sentence of the grammar as written is accepted by the generated parser —
    recovery states and error terminal included — by the run of the parser without recovery
    (`C07_generated_sentence_accepted_inert`) -/
theorem C07_generated_sentence_accepted_inert_kind {syn : List SProd} {tokIds : List String}
    {r : LRResult} (h : genParser syn tokIds = .ok r) (hn : NamesOk syn tokIds)
    (hs : SpellingsOk syn tokIds)
    (hsz : r.states.size ≤ 4096) (hc : r.tables.conflictStates = 0) (hx : CompleteNamesOk syn)
    {cfg : PCfg} (hA : ActsOk cfg) (hT : cfg.T = r.tables) {w : List Nat}
    (hsen : NSentence (ngrammarSpec (augment syn) r.tables.terminals r.tables.nts) w)
    (old : PState) :
    ∃ fuel₀ res ps, ∀ fuel, fuel₀ ≤ fuel →
      parse cfg w fuel old = (Outcome.accept res, ps) ∧
      parse cfg.noRecovery w fuel old = (Outcome.accept res, ps) := by
  rw [ngrammarSpec_eq_ngrammarOf h hs] at hsen
  exact C07_generated_sentence_accepted_inert h hn hsz hc hx hA hT hsen old

/-- (C07 1, by kind) `w` is a sentence of the grammar as written iff the real parser accepts `w` by
    a run that coincides with the run of the parser without recovery
    (`C07_generated_inert_accept_iff`) -/
theorem C07_generated_inert_accept_iff_kind {syn : List SProd} {tokIds : List String}
    {r : LRResult} (h : genParser syn tokIds = .ok r) (hn : NamesOk syn tokIds)
    (hs : SpellingsOk syn tokIds)
    (hsz : r.states.size ≤ 4096) (hc : r.tables.conflictStates = 0) (hx : CompleteNamesOk syn)
    {cfg : PCfg} (hA : ActsOk cfg) (hT : cfg.T = r.tables) {w : List Nat} (hw : 1 ∉ w)
    (old : PState) :
    (∃ fuel res, (parse cfg w fuel old).1 = Outcome.accept res ∧
        parse cfg w fuel old = parse cfg.noRecovery w fuel old) ↔
      NSentence (ngrammarSpec (augment syn) r.tables.terminals r.tables.nts) w := by
  rw [ngrammarSpec_eq_ngrammarOf h hs]
  exact C07_generated_inert_accept_iff h hn hsz hc hx hA hT hw old

/-- (C07-term, generated, by kind) error alternatives allowed: the generated parser, with the
    generated recovery flags, ends on every input (`C07_generated_parse_terminates`; the grammar
    occurs only in the productivity hypothesis) -/
theorem C07_generated_parse_terminates_kind {syn : List SProd} {tokIds : List String}
    {r : LRResult} (h : genParser syn tokIds = .ok r) (hn : NamesOk syn tokIds)
    (hs : SpellingsOk syn tokIds) (hx : CompleteNamesOk syn)
    (hsz : r.states.size ≤ 4096) (hc : r.tables.conflictStates = 0)
    (hp : bodyNTsProductive (ngrammarSpec (augment syn) r.tables.terminals r.tables.nts) = true)
    {cfg : PCfg} (hA : ActsOk cfg) (hT : cfg.T = r.tables) (w : List Nat) (old : PState) :
    ∃ fuel o ps, o ≠ Outcome.outOfFuel ∧
      ∀ fuel', fuel ≤ fuel' → parse cfg w fuel' old = (o, ps) := by
  rw [ngrammarSpec_eq_ngrammarOf h hs] at hp
  exact C07_generated_parse_terminates h hn hx hsz hc hp hA hT w old

/-! ### Non-vacuity: `S : a S b | c` (`C02GenEx`), `L : St | L semi St ; St : id | error` (`C07GenEx`) -/
namespace C02KindEx

/-- the side condition is decided … -/
example : SpellingsOk C02GenEx.syn C02GenEx.ids := by decide
example : SpellingsOk C07GenEx.syn C07GenEx.ids := by decide
/-- … the assumptions on the input of `spellingsOk_of_semCheck` too … -/
example : TokIdsNotHeads C02GenEx.syn ∧ NoLiteralEmptyFirst C02GenEx.syn := by decide

/-- … and not trivially true: one grammar per clause, violating only this clause -/
def gUndefined : List SProd := [{ head := "S", body := [⟨.prodId, "B"⟩] }]
def gLitHead : List SProd :=
  [{ head := "S", body := [⟨.strLit, "A"⟩] }, { head := "A", body := [⟨.tokId, "b"⟩] }]
def gTokHead : List SProd :=
  [{ head := "S", body := [⟨.tokId, "A"⟩] }, { head := "A", body := [⟨.tokId, "b"⟩] }]
def gEmptyThen : List SProd :=
  [{ head := "S", body := [⟨.tokId, "empty"⟩, ⟨.tokId, "a"⟩] }]
def gLitEmpty : List SProd := [{ head := "S", body := [⟨.strLit, "empty"⟩] }]

open KindG (ProdIdDefined TerminalNotHead EmptyAlone) in
example :
    (¬ ProdIdDefined (augment gUndefined) ∧ TerminalNotHead (augment gUndefined) ∧
      EmptyAlone (augment gUndefined)) ∧
    (ProdIdDefined (augment gLitHead) ∧ ¬ TerminalNotHead (augment gLitHead) ∧
      EmptyAlone (augment gLitHead)) ∧
    (ProdIdDefined (augment gTokHead) ∧ ¬ TerminalNotHead (augment gTokHead) ∧
      EmptyAlone (augment gTokHead)) ∧
    (ProdIdDefined (augment gEmptyThen) ∧ TerminalNotHead (augment gEmptyThen) ∧
      ¬ EmptyAlone (augment gEmptyThen)) ∧
    (ProdIdDefined (augment gLitEmpty) ∧ TerminalNotHead (augment gLitEmpty) ∧
      ¬ EmptyAlone (augment gLitEmpty)) := by decide

example : ¬ SpellingsOk gUndefined ["b"] := by decide
example : ¬ SpellingsOk gLitHead ["b"] := by decide
example : ¬ SpellingsOk gTokHead ["b"] := by decide
example : ¬ SpellingsOk gEmptyThen ["a"] := by decide
example : ¬ SpellingsOk gLitEmpty [] := by decide

/-- do the two readings give the same productions for the tables the generator computes? -/
def agree (syn : List SProd) (ids : List String) : Option Bool :=
  (genParser syn ids).toOption.map fun r =>
    decide ((ngrammarSpec (augment syn) r.tables.terminals r.tables.nts).prods =
      (ngrammarOf (augment syn) r.tables.terminals r.tables.nts).prods)

/-- each clause is needed: these grammars are generated without panic and the readings differ
    (kernel evaluation of the generator model) -/
theorem clauses_needed :
    agree gUndefined ["b"] = some false ∧ agree gLitHead ["b"] = some false ∧
    agree gTokHead ["b"] = some false ∧ agree gEmptyThen ["a"] = some false ∧
    agree gLitEmpty [] = some false := by
  decide +kernel

/-- the positive cases, evaluated directly for comparison with `ngrammarSpec_eq_ngrammarOf` -/
example : agree C02GenEx.syn C02GenEx.ids = some true := by decide +kernel
example : agree C07GenEx.syn C07GenEx.ids = some true := by decide +kernel

/-- not excluded, and read alike: `empty` after other symbols, `error`, the literal `"error"`, an
    alternative with an empty body -/
def fine : List SProd := [
  { head := "S", body := [⟨.prodId, "A"⟩, ⟨.tokId, "empty"⟩] },
  { head := "A", body := [⟨.strLit, "error"⟩, ⟨.tokId, "a"⟩] },
  { head := "A", body := [⟨.tokId, "error"⟩] },
  { head := "A", body := [] } ]
example : SpellingsOk fine ["a"] := by decide

open C02GenEx (syn ids)
open C02GenCompleteEx (Gex gex_eq run2_facts sentence_aacbb)

/-- the grammar of `S : a S b | c` read by kind, over the tables of the run -/
theorem spec_eq_gex {r : LRResult} (h : genParser syn ids = .ok r) :
    ngrammarSpec (augment syn) r.tables.terminals r.tables.nts = Gex := by
  obtain ⟨-, -, f3, f4, -⟩ := run2_facts h
  rw [ngrammarSpec_eq_ngrammarOf h (by decide), f3, f4, gex_eq]

/-- `_kind` theorems instantiated: the generated parser decides membership in the grammar as
    written … -/
example (r : LRResult) (h : genParser syn ids = .ok r) {w : List Nat} (hw : 1 ∉ w)
    (old : PState) :
    (∃ fuel res, (parse { T := r.tables, errTerm := 0, failAt := 0 } w fuel old).1 =
      Outcome.accept res) ↔
      NSentence (ngrammarSpec (augment syn) r.tables.terminals r.tables.nts) w := by
  obtain ⟨f1, f2, -, -, f5, f6⟩ := run2_facts h
  exact C02_generated_accept_iff_sentence_kind h (by decide) (by decide) (by rw [f1]; decide) f2
    (by decide) (noRecovery_of_all f6) (cfg := { T := r.tables, errTerm := 0, failAt := 0 })
    (C02_actsOk_of_kindsTotal rfl f5) rfl hw old

/-- … in particular it accepts `a a c b b` (derivation `sentence_aacbb`, no evaluation of `parse`) -/
example (r : LRResult) (h : genParser syn ids = .ok r) (old : PState) :
    ∃ fuel res, (parse { T := r.tables, errTerm := 0, failAt := 0 } [2, 2, 4, 3, 3] fuel old).1 =
      Outcome.accept res := by
  obtain ⟨f1, f2, -, -, f5, -⟩ := run2_facts h
  refine C02_generated_sentence_accepted_kind h (by decide) (by decide) (by rw [f1]; decide) f2
    (by decide) (cfg := { T := r.tables, errTerm := 0, failAt := 0 })
    (C02_actsOk_of_kindsTotal rfl f5) rfl ?_ old
  rw [spec_eq_gex h]
  exact sentence_aacbb

theorem numSymbols_run :
    (genParser syn ids).toOption.map (fun r => r.tables.numSymbols) = some 7 := by
  decide +kernel

/-- … and ends with a verdict on every input over `a b c` -/
example (r : LRResult) (h : genParser syn ids = .ok r) {w : List Nat}
    (hw : ∀ t, t ∈ w → t = 2 ∨ t = 3 ∨ t = 4) (old : PState) :
    ∃ fuel o ps, (∀ fuel', fuel ≤ fuel' →
        parse { T := r.tables, errTerm := 0, failAt := 0 } w fuel' old = (o, ps)) ∧
      ((∃ res, o = Outcome.accept res) ↔
        NSentence (ngrammarSpec (augment syn) r.tables.terminals r.tables.nts) w) ∧
      ((∃ i typ exp top, o = Outcome.synErr i typ exp top) ↔
        ¬ NSentence (ngrammarSpec (augment syn) r.tables.terminals r.tables.nts) w) := by
  obtain ⟨h1, h2, h3, h4, h5, -⟩ := C06GenEx.hyps h
  have hnum : r.tables.numSymbols = 7 := by
    have := numSymbols_run
    rw [h] at this
    simpa [Except.toOption] using this
  refine C02_generated_parse_decides_kind h (by decide) (by decide) (by decide) h1 h2
    (by rw [ngrammarSpec_eq_ngrammarOf h (by decide)]; exact h3) h4
    (cfg := { T := r.tables, errTerm := 0, failAt := 0 }) h5 rfl
    (fun h1' => by have := hw 1 h1'; omega)
    (fun t ht => by rw [hnum]; rcases hw t ht with rfl | rfl | rfl <;> omega) old

end C02KindEx

/-! ### D16 as a proved negative: `S : "empty" a | b ;` -/
namespace C02KindD16

/-- `S : "empty" a | b ;` — the first alternative begins with the STRING LITERAL `"empty"` -/
def syn : List SProd := [
  { head := "S", body := [⟨.strLit, "empty"⟩, ⟨.tokId, "a"⟩] },
  { head := "S", body := [⟨.tokId, "b"⟩] } ]

def ids : List String := ["a", "b"]

/-- as written: `S' : S ;  S : empty a | b` with the terminals `empty a b` = 2 3 4 -/
def Gspec : NGrammar := { prods := #[(0, [Sym.nt 1]), (1, [Sym.t 2, Sym.t 3]), (1, [Sym.t 4])] }
/-- as the generator reads it: `S' : S ;  S : ε | b` -/
def Gof : NGrammar := { prods := #[(0, [Sym.nt 1]), (1, []), (1, [Sym.t 4])] }

theorem spec_eq : ngrammarSpec (augment syn) ["INVALID", "␚", "empty", "a", "b"] ["S'", "S"] =
    Gspec := by
  have : (ngrammarSpec (augment syn) ["INVALID", "␚", "empty", "a", "b"] ["S'", "S"]).prods =
      Gspec.prods := by decide +kernel
  exact congrArg NGrammar.mk this

theorem of_eq : ngrammarOf (augment syn) ["INVALID", "␚", "empty", "a", "b"] ["S'", "S"] =
    Gof := by
  have : (ngrammarOf (augment syn) ["INVALID", "␚", "empty", "a", "b"] ["S'", "S"]).prods =
      Gof.prods := by decide +kernel
  exact congrArg NGrammar.mk this

theorem spec_ne_of : Gspec ≠ Gof := by
  intro h
  have : Gspec.prods = Gof.prods := congrArg NGrammar.prods h
  exact absurd this (by decide)

/-- what we look at in the run -/
structure Facts where
  nStates : Nat
  conflicts : Nat
  terminals : List String
  nts : List String
  action : List (List (Option Act))
  kindsTotal : Bool
  noRecovery : Bool
  acceptsEmpty : Bool                            -- outcome on `[]` is `accept`
  errOnEmptyA : Option (Nat × Nat × List Nat × Nat)   -- the syntax error on `empty a`
deriving DecidableEq

def facts (r : LRResult) : Facts :=
  { nStates := r.states.size, conflicts := r.tables.conflictStates,
    terminals := r.tables.terminals, nts := r.tables.nts,
    action := r.tables.action.toList.map (·.toList),
    kindsTotal := Gocc.kindsTotal r.tables,
    noRecovery := r.tables.canRecover.toList.all (fun b => !b),
    acceptsEmpty :=
      match (parse { T := r.tables, errTerm := 0, failAt := 0 } [] 50 default).1 with
      | .accept _ => true
      | _ => false,
    errOnEmptyA :=
      C06GenEx.errOf (parse { T := r.tables, errTerm := 0, failAt := 0 } [2, 3] 50 default).1 }

/-- kernel evaluation of the generator model and of the generated parser: 3 states, no conflict, no
    recovery state; state 0 REDUCES by `S : "empty" a` (production 1, popping 0 symbols) on end of
    input and has no action on the terminal `empty` (column 2); `[]` is accepted; on `empty a` the
    parser stops with a syntax error at token 0 (type 2 = `empty`), expecting end of input or `b` -/
theorem run : (genParser syn ids).toOption.map facts =
    some { nStates := 3, conflicts := 0, terminals := ["INVALID", "␚", "empty", "a", "b"],
           nts := ["S'", "S"],
           action := [[none, some (.reduce 1), none, none, some (.shift 2)],
                      [none, some .accept, none, none, none],
                      [none, some (.reduce 2), none, none, none]],
           kindsTotal := true, noRecovery := true, acceptsEmpty := true,
           errOnEmptyA := some (0, 2, [1, 4], 0) } := by
  decide +kernel

theorem run_ok : ∃ r, genParser syn ids = .ok r := by
  have h := run
  cases hg : genParser syn ids with
  | error e => rw [hg] at h; cases h
  | ok r => exact ⟨r, rfl⟩

theorem run_facts {r : LRResult} (h : genParser syn ids = .ok r) :
    facts r =
      { nStates := 3, conflicts := 0, terminals := ["INVALID", "␚", "empty", "a", "b"],
        nts := ["S'", "S"],
        action := [[none, some (.reduce 1), none, none, some (.shift 2)],
                   [none, some .accept, none, none, none],
                   [none, some (.reduce 2), none, none, none]],
        kindsTotal := true, noRecovery := true, acceptsEmpty := true,
        errOnEmptyA := some (0, 2, [1, 4], 0) } := by
  have hrun := run
  rw [h] at hrun
  simpa only [Except.toOption, Option.map_some, Option.some.injEq] using hrun

/-- nothing derived from a form that begins with a terminal is empty -/
theorem derives_t_ne_nil {G : NGrammar} {a : Nat} {α : List Sym} {w : List Nat}
    (h : NDerives G (Sym.t a :: α) w) : w ≠ [] := by
  cases h
  simp

/-- the empty input is NOT a sentence of the grammar as written -/
theorem nil_not_sentence : ¬ NSentence Gspec [] := by
  have key : ∀ α w, NDerives Gspec α w → α = [Sym.nt 1] → w ≠ [] := by
    intro α w h hα
    cases h with
    | nil => cases hα
    | term _ => cases hα
    | @nt p α' u v hp hu hv =>
      simp only [List.cons.injEq, Sym.nt.injEq] at hα
      obtain ⟨hh, rfl⟩ := hα
      have hsz : Gspec.prods.size = 3 := rfl
      rw [hsz] at hp
      have hu' : u ≠ [] := by
        match p, hp, hh, hu with
        | 1, _, _, hu => exact derives_t_ne_nil (show NDerives Gspec (Sym.t 2 :: [Sym.t 3]) u from hu)
        | 2, _, _, hu => exact derives_t_ne_nil (show NDerives Gspec (Sym.t 4 :: []) u from hu)
      intro hnil
      exact hu' (List.append_eq_nil_iff.1 hnil).1
  intro h
  exact key _ _ h rfl rfl

/-- `empty a` (token types 2 3) IS a sentence of the grammar as written: `S' ⇒ S ⇒ empty a` -/
theorem emptyA_sentence : NSentence Gspec [2, 3] :=
  NDerives.nt (G := Gspec) (p := 1) (α := []) (u := [2, 3]) (v := []) (by decide)
    (.term (.term .nil)) .nil

/-- … whereas the generator's reading says the opposite on both inputs -/
theorem nil_sentence_of : NSentence Gof [] :=
  NDerives.nt (G := Gof) (p := 1) (α := []) (u := []) (v := []) (by decide) .nil .nil

end C02KindD16

open C02KindD16 in
/-- KNOWN FINDING D16 of /verif/known_findings.json (`D16-literal-empty-error`; replay
    corpus/C02/d16_literal_empty.json) as a proved negative: `S : "empty" a | b ;`, token ids `a b`.

    Every side condition of the generator-level theorems over `ngrammarOf` holds (`NamesOk`,
    `CompleteNamesOk`; the generator succeeds with 3 states, no conflict, no recovery state, total
    actions) — but `SpellingsOk` fails (clause `emptyAlone`), the grammar as written differs from the
    grammar the generator computes with, and the GENERATED PARSER IS WRONG for the grammar as written:
    it accepts the empty input, which is not a sentence, and rejects (for every fuel, from every
    previous state) `empty a` = token types `2 3` of the generated token map, which is a sentence
    (derivation `C02KindD16.emptyA_sentence`).  So `SpellingsOk` cannot be dropped from
    `C02_generated_accept_iff_sentence_kind` / `C02_generated_parse_decides_kind`, and gocc does not
    refuse this grammar (`semCheck` passes: `C02_D16_not_refused`). -/
theorem C02_D16_literal_empty_violates :
    NamesOk syn ids ∧ CompleteNamesOk syn ∧ ¬ SpellingsOk syn ids ∧
    ∃ r, genParser syn ids = .ok r ∧
      r.states.size = 3 ∧ r.tables.conflictStates = 0 ∧
      (∀ s : Nat, r.tables.canRecover[s]?.getD false = false) ∧
      ActsOk { T := r.tables, errTerm := 0, failAt := 0 } ∧
      r.tables.terminals = ["INVALID", "␚", "empty", "a", "b"] ∧ r.tables.nts = ["S'", "S"] ∧
      ngrammarSpec (augment syn) r.tables.terminals r.tables.nts ≠
        ngrammarOf (augment syn) r.tables.terminals r.tables.nts ∧
      -- accepts a non-sentence
      (∀ old, ∃ fuel res,
        (parse { T := r.tables, errTerm := 0, failAt := 0 } [] fuel old).1 = Outcome.accept res) ∧
      ¬ NSentence (ngrammarSpec (augment syn) r.tables.terminals r.tables.nts) [] ∧
      -- rejects a sentence
      (∀ old fuel res,
        (parse { T := r.tables, errTerm := 0, failAt := 0 } [2, 3] fuel old).1 ≠
          Outcome.accept res) ∧
      (∀ old, (parse { T := r.tables, errTerm := 0, failAt := 0 } [2, 3] 50 old).1 =
        Outcome.synErr 0 2 [1, 4] 0) ∧
      NSentence (ngrammarSpec (augment syn) r.tables.terminals r.tables.nts) [2, 3] := by
  refine ⟨by decide, by decide, by decide, ?_⟩
  obtain ⟨r, h⟩ := run_ok
  have hf := run_facts h
  simp only [facts, Facts.mk.injEq] at hf
  obtain ⟨f1, f2, f3, f4, -, f6, f7, f8, f9⟩ := hf
  have herr : ∀ old, (parse { T := r.tables, errTerm := 0, failAt := 0 } [2, 3] 50 old).1 =
      Outcome.synErr 0 2 [1, 4] 0 := fun old => C06GenEx.errOf_eq f9
  refine ⟨r, h, f1, f2, noRecovery_of_all f7, C02_actsOk_of_kindsTotal rfl f6, f3, f4, ?_, ?_, ?_,
    ?_, herr, ?_⟩
  · rw [f3, f4, spec_eq, of_eq]
    exact spec_ne_of
  · intro old
    split at f8
    · rename_i res hres
      exact ⟨50, res, hres⟩
    · cases f8
  · rw [f3, f4, spec_eq]
    exact nil_not_sentence
  · intro old fuel res hacc
    -- more fuel changes neither answer
    have h1 := C02_parse_fuel_mono (cfg := { T := r.tables, errTerm := 0, failAt := 0 })
      (w := [2, 3]) (fuel := fuel) (old := old) (by rw [hacc]; intro hh; cases hh) 50
    have h2 := C02_parse_fuel_mono (cfg := { T := r.tables, errTerm := 0, failAt := 0 })
      (w := [2, 3]) (fuel := 50) (old := old) (by rw [herr old]; intro hh; cases hh) fuel
    have : (parse { T := r.tables, errTerm := 0, failAt := 0 } [2, 3] (fuel + 50) old).1 =
        Outcome.synErr 0 2 [1, 4] 0 := by
      rw [Nat.add_comm, h2, herr old]
    rw [h1, hacc] at this
    cases this
  · rw [f3, f4, spec_eq]
    exact emptyA_sentence

/-- gocc's front end does not refuse the grammar of D16: with the lexical part `a : 'a' ; b : 'b'`
    (as written: the token for the literal is added by `UpdateStringLitTokens` only after the checks) `semCheck` passes, and
    every assumption of `spellingsOk_of_semCheck` but `NoLiteralEmptyFirst` holds -/
theorem C02_D16_not_refused :
    semCheck { lex := [⟨.tok, "a", .mk [.mk [.lit 97]], false⟩, ⟨.tok, "b", .mk [.mk [.lit 98]], false⟩],
               syn := C02KindD16.syn } = .ok () ∧
    KindsOk { lex := [⟨.tok, "a", .mk [.mk [.lit 97]], false⟩, ⟨.tok, "b", .mk [.mk [.lit 98]], false⟩],
              syn := C02KindD16.syn } ∧
    TokIdsNotHeads C02KindD16.syn ∧ ¬ NoLiteralEmptyFirst C02KindD16.syn := by
  decide

end Gocc
