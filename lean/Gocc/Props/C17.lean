import Gocc.Model.Scan
import Gocc.Model.Parse
/-
C17 — independent lexer/parser instances used concurrently.

Abstract memory model: thread `i` owns a private state `st i` (its lexer cursor / parser stack);
all threads read a shared store `sh` (the generated tables `TransTab`, `ActTab`, `actionTab`,
`gotoTab`, `productionsTable`, `TokMap`) that NO step writes.  A schedule is any list of thread
ids; `runSched` performs one step of the scheduled thread at a time.  Whatever the interleaving,
every thread ends in the state its solo run of the same number of steps reaches.

The premise "no step writes the shared store" is not a Lean fact: it is re-extracted on every run
from the generated packages (assignments to package-level variables outside init()), and the Go
memory model (data-race-free programs are sequentially consistent) is trusted.
-/
namespace Gocc

/-- `iterN f n x` = `f` applied `n` times to `x` (the solo run of one thread) -/
def iterN {σ : Type} (f : σ → σ) : Nat → σ → σ
  | 0, x => x
  | n + 1, x => iterN f n (f x)

def updAt {σ : Type} (st : Nat → σ) (i : Nat) (v : σ) : Nat → σ := fun j => if j = i then v else st j

/-- interleaved execution: `step i sh` is thread i's step function over the read-only store `sh` -/
def runSched {S σ : Type} (step : Nat → S → σ → σ) (sh : S) : List Nat → (Nat → σ) → (Nat → σ)
  | [], st => st
  | i :: rest, st => runSched step sh rest (updAt st i (step i sh (st i)))

theorem C17_interleaving_projects {S σ : Type} (step : Nat → S → σ → σ) (sh : S) (sched : List Nat)
    (st : Nat → σ) (i : Nat) :
    runSched step sh sched st i = iterN (step i sh) (sched.count i) (st i) := by
  induction sched generalizing st with
  | nil => simp [runSched, iterN]
  | cons j rest ih =>
    simp only [runSched]
    rw [ih]
    by_cases h : j = i
    · subst h
      simp [updAt, List.count_cons_self, iterN]
    · have : (j :: rest).count i = rest.count i := by
        simp [List.count_cons, h]
      rw [this]
      simp [updAt, Ne.symm h]

/-- two schedules that give every thread the same number of steps leave every thread in the same state -/
theorem C17_schedule_irrelevant {S σ : Type} (step : Nat → S → σ → σ) (sh : S) (s1 s2 : List Nat)
    (st : Nat → σ) (h : ∀ i, s1.count i = s2.count i) (i : Nat) :
    runSched step sh s1 st i = runSched step sh s2 st i := by
  rw [C17_interleaving_projects, C17_interleaving_projects, h]

/-- instance: goroutine `i` scans its own source `srcs i` with its own lexer over the shared tables `T`:
    under any interleaving its cursor is the one `k` solo `Scan` calls reach -/
theorem C17_lexers (T : LexTables) (srcs : Nat → List Nat) (sched : List Nat) (i : Nat) :
    runSched (fun j T st => (scan T (srcs j) st).2) T sched (fun _ => newLexer) i
      = iterN (fun st => (scan T (srcs i) st).2) (sched.count i) newLexer :=
  C17_interleaving_projects _ T sched _ i

-- non-vacuity: two threads, an actual interleaving
example : runSched (fun (j : Nat) (sh : Nat) (x : Nat) => x + sh + j) 10 [0, 1, 1, 0, 1] (fun _ => 0) 1 = 33 := by decide

end Gocc
