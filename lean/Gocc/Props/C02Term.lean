import Gocc.Proofs.ParseTerm
import Gocc.Props.C06Gen
/-
C02 (termination half) — `Parse` RETURNS on every input.

The model's `parseLoop` has a fuel parameter which the Go loop (`for acc := false; !acc; { … }` of
`Parser.Parse`) does not have; the answer `Outcome.outOfFuel` stands for "the loop did not end
within `fuel` iterations".  `C02_sentence_accepted` shows that sentences are accepted with enough
fuel, `C02_accept_sound` that only sentences are accepted.  This file closes the gap: for EVERY
input there is a fuel from which on the model gives one and the same answer, and that answer is
not `outOfFuel` — so the unbounded loop ends on sentences AND on non-sentences.

Quantifiers of `C02_parse_terminates`: every numbered grammar `G`, every `T : PTables`, certificates
`fc`, `c`, `vc` with `firstOk G fc`, `complete G T fc c` (Model/ValidateC), `validItems G T c vc`
(Model/ValidateV), no recovery state (`hr`: the grammar has no error alternative), every harness
configuration `cfg` over these tables whose semantic actions never fail (`ActsOk cfg`), EVERY
token-type sequence `w` (no side condition: types 0 = INVALID, 1 = end of input and types outside
the tables are allowed), every previous parser state `old`.  Conclusion: there are `fuel`, `o`, `ps`
with
   (i)   `o ≠ outOfFuel`, and `parse cfg w fuel' old = (o, ps)` for EVERY `fuel' ≥ fuel`;
   (ii)  `o` is an `accept`  ⟺  `w` up to its first token of type 1 (up to its end when there is
         none) is a sentence — for `1 ∉ w`: ⟺ `w` is a sentence (`C02_parse_decides`);
   (iii) otherwise `o` is the syntax error at token `i`, where `i` is the LARGEST index such that
         `w.take i` is a prefix of a sentence, or the Go run-time panic "index out of range"
         for a token type `≥ numSymbols` (the generated `actionTable` row has `numSymbols`
         entries); the panic needs such a token in `w`.
`C02_parse_fuel_mono` / `C02_parse_answer`: the answer does not depend on the fuel — any fuel with
an answer other than `outOfFuel` gives the same pair `(o, ps)`.

NOT needed: `safe` / `safeEnds` (soundness comes out of `validItems`: an `accept` entry is
justified by a sentence), `1 ∉ w`, `0 ∉ w`.

What happens when the language is empty?  It cannot be: `validItems` (V4) makes every body
non-terminal productive, so production 0's body derives a terminal string (`body0_productive`);
index 0 is always a viable prefix.

Generator level (`C02_generated_parse_terminates`, `C02_generated_parse_decides`): for every
`genParser syn tokIds = .ok r` under the side conditions of `C02_genParser_complete` and
`C06_genParser_validItems` (`NamesOk`, `CompleteNamesOk`, `≤ 4096` states, no recorded conflict,
`bodyNTsProductive`), no recovery state, `ActsOk cfg`.  A grammar with an unproductive non-terminal
is outside the theorem (`validItems` fails, `C06GenEx.unproductive`); its parser still terminates
on the inputs the checks try, but "viable prefix" is then no longer "prefix of a sentence" and the
argument below does not apply.

Proof (Proofs/ParseTerm.lean): let `i` be the largest index with `w.take i` viable, `u = w.take i
++ v` a sentence.  The run on `u` (accepting, `parse_accepts`) and the run on `w` coincide until
token `i` is scanned (`Steps.agree`); in the configuration reached there the look-ahead on `w` is
`a = w[i]` (1 at the end).  An action on `a` would make `w.take (i+1)` viable (`act_viable`) — or,
for `a = 1`, make `w.take i` a sentence, and then `w` is accepted exactly like `w.take i`
(`eof_cut`: nothing behind a token of type 1 is ever scanned).  Without an action the parser stops.
-/
namespace Gocc

/-- (C02-term) on every input the parser ends; the answer is the same for every sufficiently
    large fuel, `accept` exactly for the sentences, otherwise the syntax error at the end of the
    longest viable prefix (or the token-type range panic) -/
theorem C02_parse_terminates {G : NGrammar} {T : PTables} {fc : FirstCert} {c : CertLA}
    {vc : VCert} (hf : firstOk G fc = true) (hc : complete G T fc c = true)
    (hv : validItems G T c vc = true) (hr : ∀ s : Nat, T.canRecover[s]?.getD false = false)
    {cfg : PCfg} (hA : ActsOk cfg) (hT : cfg.T = T) (w : List Nat) (old : PState) :
    ∃ fuel o ps, o ≠ Outcome.outOfFuel ∧
      (∀ fuel', fuel ≤ fuel' → parse cfg w fuel' old = (o, ps)) ∧
      ((∃ r, o = Outcome.accept r) ↔
        ∃ i, i ≤ w.length ∧ (w[i]?).getD 1 = 1 ∧ NSentence G (w.take i)) ∧
      ((∃ r, o = Outcome.accept r) ∨
       (∃ i exp top, o = Outcome.synErr i ((w[i]?).getD 1) exp top ∧ i ≤ w.length ∧
          NViablePrefix G (w.take i) ∧
          ∀ j, i < j → j ≤ w.length → ¬ NViablePrefix G (w.take j)) ∨
       (o = Outcome.panic "index out of range (token type)" ∧ ∃ t, t ∈ w ∧ T.numSymbols ≤ t)) := by
  obtain ⟨n, o, ps, hn, hV⟩ := ParseTerm.parseLoop_terminates hf hc hv hr hA hT w
  refine ⟨n, o, ps, hV.ne_outOfFuel, fun fuel' hle => by rw [parse_eq]; exact hn fuel' hle,
    ParseTerm.Verdict.accept_iff hf hc hv hr hA hT hn hV, ?_⟩
  rcases hV with ⟨r, h, -⟩ | h | h
  · exact .inl ⟨r, h⟩
  · exact .inr (.inl h)
  · exact .inr (.inr h)

/-- (fuel monotonicity, every outcome) an answer other than `outOfFuel` is not changed by more
    fuel -/
theorem C02_parse_fuel_mono {cfg : PCfg} {w : List Nat} {fuel : Nat} {old : PState}
    (h : (parse cfg w fuel old).1 ≠ Outcome.outOfFuel) (k : Nat) :
    parse cfg w (fuel + k) old = parse cfg w fuel old := by
  unfold parse at h ⊢
  exact parseLoop_fuel_mono h k

/-- … hence an answer that holds from some fuel on is THE answer: whatever fuel gives an answer
    other than `outOfFuel` gives this one -/
theorem C02_parse_answer {cfg : PCfg} {w : List Nat} {old : PState} {n : Nat}
    {res : Outcome × PState} (hn : ∀ fuel', n ≤ fuel' → parse cfg w fuel' old = res)
    {fuel : Nat} (h : (parse cfg w fuel old).1 ≠ Outcome.outOfFuel) :
    parse cfg w fuel old = res := by
  rw [← hn (fuel + n) (by omega), C02_parse_fuel_mono h n]

/-- (C02, decision procedure) for inputs without a token of type 1 whose token types are inside
    the tables: `Parse` returns `accept` if `w` is a sentence and a syntax error if not -/
theorem C02_parse_decides {G : NGrammar} {T : PTables} {fc : FirstCert} {c : CertLA}
    {vc : VCert} (hf : firstOk G fc = true) (hc : complete G T fc c = true)
    (hv : validItems G T c vc = true) (hr : ∀ s : Nat, T.canRecover[s]?.getD false = false)
    {cfg : PCfg} (hA : ActsOk cfg) (hT : cfg.T = T) {w : List Nat} (hw : 1 ∉ w)
    (hrange : ∀ t, t ∈ w → t < T.numSymbols) (old : PState) :
    ∃ fuel o ps, (∀ fuel', fuel ≤ fuel' → parse cfg w fuel' old = (o, ps)) ∧
      ((∃ r, o = Outcome.accept r) ↔ NSentence G w) ∧
      ((∃ i typ exp top, o = Outcome.synErr i typ exp top) ↔ ¬ NSentence G w) := by
  obtain ⟨fuel, o, ps, -, hn, hiff, hcases⟩ :=
    C02_parse_terminates hf hc hv hr hA hT w old
  have hiff' : (∃ r, o = Outcome.accept r) ↔ NSentence G w :=
    hiff.trans (ParseTerm.eofSentence_iff hw)
  refine ⟨fuel, o, ps, hn, hiff', ?_⟩
  constructor
  · rintro ⟨i, typ, exp, top, rfl⟩ hs
    obtain ⟨r, h⟩ := hiff'.2 hs
    cases h
  · intro hns
    rcases hcases with h | ⟨i, exp, top, h, -⟩ | ⟨-, t, ht, hge⟩
    · exact absurd (hiff'.1 h) hns
    · exact ⟨i, _, exp, top, h⟩
    · have := hrange t ht
      omega

/-! ### generator level -/

/-- (C02-term, generated) for every conflict-free grammar without `error` alternative whose body
    non-terminals are productive: the parser running the GENERATED tables ends on every input
    (`C02_parse_terminates` with `C02_genParser_complete` and `C06_genParser_validItems`) -/
theorem C02_generated_parse_terminates {syn : List SProd} {tokIds : List String} {r : LRResult}
    (h : genParser syn tokIds = .ok r) (hn : NamesOk syn tokIds) (hx : CompleteNamesOk syn)
    (hsz : r.states.size ≤ 4096) (hc : r.tables.conflictStates = 0)
    (hp : bodyNTsProductive (ngrammarOf (augment syn) r.tables.terminals r.tables.nts) = true)
    (hr : ∀ s : Nat, r.tables.canRecover[s]?.getD false = false)
    {cfg : PCfg} (hA : ActsOk cfg) (hT : cfg.T = r.tables) (w : List Nat) (old : PState) :
    ∃ fuel o ps, o ≠ Outcome.outOfFuel ∧
      (∀ fuel', fuel ≤ fuel' → parse cfg w fuel' old = (o, ps)) ∧
      ((∃ res, o = Outcome.accept res) ↔
        ∃ i, i ≤ w.length ∧ (w[i]?).getD 1 = 1 ∧
          NSentence (ngrammarOf (augment syn) r.tables.terminals r.tables.nts) (w.take i)) ∧
      ((∃ res, o = Outcome.accept res) ∨
       (∃ i exp top, o = Outcome.synErr i ((w[i]?).getD 1) exp top ∧ i ≤ w.length ∧
          NViablePrefix (ngrammarOf (augment syn) r.tables.terminals r.tables.nts) (w.take i) ∧
          ∀ j, i < j → j ≤ w.length →
            ¬ NViablePrefix (ngrammarOf (augment syn) r.tables.terminals r.tables.nts)
                (w.take j)) ∨
       (o = Outcome.panic "index out of range (token type)" ∧
          ∃ t, t ∈ w ∧ r.tables.numSymbols ≤ t)) :=
  C02_parse_terminates (C02_genParser_complete syn tokIds r h hn hsz hc hx).1
    (C02_genParser_complete syn tokIds r h hn hsz hc hx).2
    (C06_genParser_validItems syn tokIds r h hn hx hsz hp) hr hA hT w old

/-- (C02, generated, decision procedure) … and on inputs without a token of type 1 whose token
    types are inside the tables it returns `accept` for the sentences of the grammar and a syntax
    error for everything else -/
theorem C02_generated_parse_decides {syn : List SProd} {tokIds : List String} {r : LRResult}
    (h : genParser syn tokIds = .ok r) (hn : NamesOk syn tokIds) (hx : CompleteNamesOk syn)
    (hsz : r.states.size ≤ 4096) (hc : r.tables.conflictStates = 0)
    (hp : bodyNTsProductive (ngrammarOf (augment syn) r.tables.terminals r.tables.nts) = true)
    (hr : ∀ s : Nat, r.tables.canRecover[s]?.getD false = false)
    {cfg : PCfg} (hA : ActsOk cfg) (hT : cfg.T = r.tables) {w : List Nat} (hw : 1 ∉ w)
    (hrange : ∀ t, t ∈ w → t < r.tables.numSymbols) (old : PState) :
    ∃ fuel o ps, (∀ fuel', fuel ≤ fuel' → parse cfg w fuel' old = (o, ps)) ∧
      ((∃ res, o = Outcome.accept res) ↔
        NSentence (ngrammarOf (augment syn) r.tables.terminals r.tables.nts) w) ∧
      ((∃ i typ exp top, o = Outcome.synErr i typ exp top) ↔
        ¬ NSentence (ngrammarOf (augment syn) r.tables.terminals r.tables.nts) w) :=
  C02_parse_decides (C02_genParser_complete syn tokIds r h hn hsz hc hx).1
    (C02_genParser_complete syn tokIds r h hn hsz hc hx).2
    (C06_genParser_validItems syn tokIds r h hn hx hsz hp) hr hA hT hw hrange old

/-! ### Non-vacuity -/

namespace C02TermEx
open C02Ex C06Ex

/-- tables level, `S' : S ; S : a S | b` (`C02Ex`): on `a a` the loop ends with the syntax error at
    the end of the input, for every fuel from some bound on -/
example (old : PState) : ∃ fuel ps, ∀ fuel', fuel ≤ fuel' →
    parse cfg [2, 2] fuel' old = (Outcome.synErr 2 1 [2, 3] 1, ps) := by
  obtain ⟨fuel, o, ps, -, hn, -, -⟩ :=
    C02_parse_terminates firstOk_ok complete_ok validItems_ok noRecovery actsOk rfl [2, 2] old
  have h20 : parse cfg [2, 2] 20 old = (o, ps) :=
    C02_parse_answer hn (by rw [show (parse cfg [2, 2] 20 old).1 = _ from err_aa]; intro h; cases h)
  have : o = Outcome.synErr 2 1 [2, 3] 1 := by
    have := congrArg Prod.fst h20
    rw [show (parse cfg [2, 2] 20 old).1 = _ from err_aa] at this
    exact this.symm
  subst this
  exact ⟨fuel, ps, hn⟩

/-- … for this grammar `Parse` is a decision procedure: every input over `a`, `b` gets its
    verdict after finitely many iterations -/
example {w : List Nat} (hw : ∀ t, t ∈ w → t = 2 ∨ t = 3) (old : PState) :
    ∃ fuel o ps, (∀ fuel', fuel ≤ fuel' → parse cfg w fuel' old = (o, ps)) ∧
      ((∃ r, o = Outcome.accept r) ↔ NSentence G w) ∧
      ((∃ i typ exp top, o = Outcome.synErr i typ exp top) ↔ ¬ NSentence G w) :=
  C02_parse_decides firstOk_ok complete_ok validItems_ok noRecovery actsOk rfl
    (fun h => by have := hw 1 h; omega)
    (fun t ht => by
      have : T.numSymbols = 4 := rfl
      rcases hw t ht with rfl | rfl <;> omega) old

/-- a token type outside the tables: the Go code indexes `actionTable[state].actions[type]` out of
    range — the model answers with the panic, which is not `outOfFuel` either -/
example : parse cfg [2, 7] 20 default =
    (Outcome.panic "index out of range (token type)",
      { states := [1, 0], attrs := [.tok 0 2, .nil], next := (1, 7), ntok := 2, log := [],
        calls := 0 }) := rfl

/-- a token of type 1 inside the input is the end of the input: `b ␚ a` is accepted like `b` -/
example : (parse cfg [3, 1, 2] 20 default).1 = Outcome.accept (.node 11 [.tok 0 3]) := rfl

end C02TermEx

namespace C02TermGenEx
open C02GenEx (syn ids)
open C02GenCompleteEx (Gex sentence_aacbb)
open C06GenEx (hyps err_ac' ac_prefix_not_sentence)

/-- generator level, `S : a S b | c` (`C02GenEx.syn`): THROUGH THE GENERATOR-LEVEL THEOREM the parser
    with the generated tables ends on the non-sentence `a c`, for every fuel from some bound on,
    with the syntax error at the end of the input (the error itself is read off the evaluation
    `C06GenEx.err_ac'` at fuel 50, which `C02_parse_answer` identifies with the answer) -/
theorem terminates_ac (r : LRResult) (h : genParser syn ids = .ok r) (old : PState) :
    ∃ fuel ps, ∀ fuel', fuel ≤ fuel' →
      parse { T := r.tables, errTerm := 0, failAt := 0 } [2, 4] fuel' old =
        (Outcome.synErr 2 1 [3] 6, ps) := by
  obtain ⟨h1, h2, h3, h4, h5, -⟩ := hyps h
  obtain ⟨fuel, o, ps, -, hn, -, -⟩ :=
    C02_generated_parse_terminates h (by decide) (by decide) h1 h2 h3 h4
      (cfg := { T := r.tables, errTerm := 0, failAt := 0 }) h5 rfl [2, 4] old
  have h50 := C02_parse_answer hn (fuel := 50)
    (by rw [show (parse _ [2, 4] 50 old).1 = _ from err_ac' h]; intro h; cases h)
  have : o = Outcome.synErr 2 1 [3] 6 := by
    have := congrArg Prod.fst h50
    rw [show (parse _ [2, 4] 50 old).1 = _ from err_ac' h] at this
    exact this.symm
  subst this
  exact ⟨fuel, ps, hn⟩

/-- … without any evaluation of `parse`: the answer on `a c` is not `accept`, because `a c` is not
    a sentence (`C06GenEx.ac_prefix_not_sentence`) -/
example (r : LRResult) (h : genParser syn ids = .ok r) (old : PState) :
    ∃ fuel o ps, o ≠ Outcome.outOfFuel ∧ (∀ res, o ≠ Outcome.accept res) ∧ ∀ fuel', fuel ≤ fuel' →
      parse { T := r.tables, errTerm := 0, failAt := 0 } [2, 4] fuel' old = (o, ps) := by
  obtain ⟨h1, h2, h3, h4, h5, h6⟩ := hyps h
  obtain ⟨fuel, o, ps, hne, hn, hiff, -⟩ :=
    C02_generated_parse_terminates h (by decide) (by decide) h1 h2 h3 h4
      (cfg := { T := r.tables, errTerm := 0, failAt := 0 }) h5 rfl [2, 4] old
  refine ⟨fuel, o, ps, hne, fun res hres => ?_, hn⟩
  rw [h6] at hiff
  have := (hiff.trans (ParseTerm.eofSentence_iff (G := Gex) (w := [2, 4]) (by decide))).1
    ⟨res, hres⟩
  exact ac_prefix_not_sentence.2 this

/-- … and on the sentence `a a c b b` the answer is `accept`, for every fuel from some bound on -/
example (r : LRResult) (h : genParser syn ids = .ok r) (old : PState) :
    ∃ fuel res ps, ∀ fuel', fuel ≤ fuel' →
      parse { T := r.tables, errTerm := 0, failAt := 0 } [2, 2, 4, 3, 3] fuel' old =
        (Outcome.accept res, ps) := by
  obtain ⟨h1, h2, h3, h4, h5, h6⟩ := hyps h
  obtain ⟨fuel, o, ps, -, hn, hiff, -⟩ :=
    C02_generated_parse_terminates h (by decide) (by decide) h1 h2 h3 h4
      (cfg := { T := r.tables, errTerm := 0, failAt := 0 }) h5 rfl [2, 2, 4, 3, 3] old
  rw [h6] at hiff
  obtain ⟨res, rfl⟩ := hiff.2 ⟨5, by decide, by decide, sentence_aacbb⟩
  exact ⟨fuel, res, ps, hn⟩

end C02TermGenEx

end Gocc
