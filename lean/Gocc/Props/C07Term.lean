import Gocc.Proofs.ParseTermRec
import Gocc.Props.C07Gen
import Gocc.Props.C02Term
/-
C07 (termination) — "Parse returns (never loops) on every input", for grammars WITH error
alternatives: the parser with error recovery (`Parser.Error`, recovery states, error terminal)
ends on every input.

The model's `parseLoop` has a fuel parameter, the Go loop has none; `Outcome.outOfFuel` stands for
"not finished after `fuel` iterations".  `C02_parse_terminates` (Props/C02Term.lean) covers tables
without recovery states.  Here the hypothesis "no recovery state" is dropped.

Quantifiers of `C07_parse_terminates`: every numbered grammar `G` (the error alternatives are
productions of `G`, `error` an ordinary terminal), every `T : PTables`, certificates with
`firstOk G fc`, `complete G T fc c`, `validItems G T c vc` (none of the validators reads
`T.canRecover`), every configuration `cfg` with `cfg.T = T` whose semantic actions never fail
(`ActsOk cfg`) — ANY recovery flags `T.canRecover`, ANY error terminal `cfg.errTerm` —, every
token-type sequence `w` (no side condition), every previous parser state `old`:

      ∃ fuel o ps, o ≠ outOfFuel ∧ ∀ fuel' ≥ fuel, parse cfg w fuel' old = (o, ps).

NOT needed: `RecWF` (a flagged state that does not shift `error` makes `Error` panic, which ends
the parse — `C07_no_panic_in_recovery` excludes that panic under `RecWF`), `1 ∉ w`, `0 ∉ w`,
token types inside the tables, `safe` / `safeEnds`.

Proof (Proofs/ParseTermRV.lean, ParseTermSim.lean, ParseTermRec.lean).  The run is cut into PHASES:
the first starts in the initial configuration, every later one in the configuration in which
`Error` resumes — its top state (entered by shifting `error` on a prefix of the old stack) has an
action on the look-ahead (`recover_true`).  Inside a phase the parser runs as the parser without
recovery (`C07_first_failed_lookup`); the phase ends when that parser stops; if it stops at a
failed lookup, `Error` is called, gives up (Parse returns) or starts the next phase.
  (1) A phase ends.  Its start configuration is in general NOT reachable by the parser without
      recovery on the real input, but its stack is a path of the automaton, and every such stack
      whose top state has an action on a terminal `t` is reached by the parser without recovery on
      some VIRTUAL input `u0`, with `t` as look-ahead (`VStk.rv`: the induction that proves the
      validity of LR(1) items, with the parser's run added — the run follows ANY derivation, by the
      key lemma `run_item` of the completeness proof).  On `u0 ++ (real input from the look-ahead
      on)` the parser without recovery terminates (`C02_parse_terminates`), and the real phase runs
      in lock-step with that run, since the control flow only depends on the stack of states and
      the token types ahead (`sim_run`; here `ActsOk` is used).
  (2) Between two calls of `Error` a token is scanned: the first look-ahead `t` of a phase has an
      action, the virtual input is chosen such that `u0 t …` is a sentence (the one that justifies
      the item behind the action), and the parser without recovery is not stuck on a prefix of a
      sentence with the next token of that sentence as look-ahead (`stuck_ext`) — it stops only
      after it has shifted `t`.  `Error` never un-scans, and nothing is scanned
      behind the end of the input (`RecScanInv`); so there are at most `|w| + 1` phases after
      the first.
-/
namespace Gocc

/-- (C07-term) with error recovery, whatever states are flagged and whatever terminal is the error
    terminal: on every input the loop of `Parse` ends, with one answer for every sufficiently
    large fuel -/
theorem C07_parse_terminates {G : NGrammar} {T : PTables} {fc : FirstCert} {c : CertLA}
    {vc : VCert} (hf : firstOk G fc = true) (hc : complete G T fc c = true)
    (hv : validItems G T c vc = true) {cfg : PCfg} (hA : ActsOk cfg) (hT : cfg.T = T)
    (w : List Nat) (old : PState) :
    ∃ fuel o ps, o ≠ Outcome.outOfFuel ∧
      ∀ fuel', fuel ≤ fuel' → parse cfg w fuel' old = (o, ps) := by
  have hc' : complete G T.noRecovery fc c = true := hc
  have hv' : validItems G T.noRecovery c vc = true := hv
  obtain ⟨n, hn⟩ := ParseTerm.rec_terminates hf hc' hv' hA hT w
  refine ⟨n, (parseLoop cfg w n (initPS w)).1, (parseLoop cfg w n (initPS w)).2, hn,
    fun fuel' hle => ?_⟩
  obtain ⟨k, rfl⟩ : ∃ k, fuel' = n + k := ⟨fuel' - n, by omega⟩
  rw [parse_eq, parseLoop_fuel_mono hn k]

/-- … and with well-formed recovery flags the answer is not one of the two run-time errors of the
    recovery code (`C07_no_panic_in_recovery`) -/
theorem C07_parse_terminates_no_recovery_panic {G : NGrammar} {T : PTables} {fc : FirstCert}
    {c : CertLA} {vc : VCert} (hf : firstOk G fc = true) (hc : complete G T fc c = true)
    (hv : validItems G T c vc = true) {cfg : PCfg} (hA : ActsOk cfg) (hT : cfg.T = T)
    (hwf : RecWF cfg.T cfg.errTerm) (w : List Nat) (old : PState) :
    ∃ fuel o ps, o ≠ Outcome.outOfFuel ∧
      o ≠ Outcome.panic "interface conversion: parser.action is not parser.shift" ∧
      o ≠ Outcome.panic "Error recovery led to invalid action" ∧
      ∀ fuel', fuel ≤ fuel' → parse cfg w fuel' old = (o, ps) := by
  obtain ⟨fuel, o, ps, hne, hn⟩ := C07_parse_terminates hf hc hv hA hT w old
  have h := hn fuel (Nat.le_refl _)
  have hp := C07_no_panic_in_recovery hwf w fuel (initPS w)
  rw [parse_eq] at h
  rw [h] at hp
  exact ⟨fuel, o, ps, hne, hp.1, hp.2, hn⟩

/-- (C07-term, generated) for every conflict-free grammar whose body non-terminals are productive
    — error alternatives allowed —: the parser running the GENERATED tables, with the generated
    recovery flags, ends on every input -/
theorem C07_generated_parse_terminates {syn : List SProd} {tokIds : List String} {r : LRResult}
    (h : genParser syn tokIds = .ok r) (hn : NamesOk syn tokIds) (hx : CompleteNamesOk syn)
    (hsz : r.states.size ≤ 4096) (hc : r.tables.conflictStates = 0)
    (hp : bodyNTsProductive (ngrammarOf (augment syn) r.tables.terminals r.tables.nts) = true)
    {cfg : PCfg} (hA : ActsOk cfg) (hT : cfg.T = r.tables) (w : List Nat) (old : PState) :
    ∃ fuel o ps, o ≠ Outcome.outOfFuel ∧
      ∀ fuel', fuel ≤ fuel' → parse cfg w fuel' old = (o, ps) :=
  C07_parse_terminates (C02_genParser_complete syn tokIds r h hn hsz hc hx).1
    (C02_genParser_complete syn tokIds r h hn hsz hc hx).2
    (C06_genParser_validItems syn tokIds r h hn hx hsz hp) hA hT w old

/-! ### Non-vacuity: `L : St | L semi St ; St : id | error` (`C07GenEx`), two recovery states -/
namespace C07TermEx
open C07GenEx

theorem productive : bodyNTsProductive Gex = true := by decide

/-- THROUGH THE GENERATOR-LEVEL THEOREM: the generated parser of the grammar with the error
    alternative — to which `C02_generated_parse_terminates` does not apply
    (`C07GenEx.old_theorems_do_not_apply`) — ends on EVERY input -/
theorem terminates (r : LRResult) (h : genParser syn ids = .ok r) (w : List Nat) (old : PState) :
    ∃ fuel o ps, o ≠ Outcome.outOfFuel ∧
      ∀ fuel', fuel ≤ fuel' → parse (cfgOf r) w fuel' old = (o, ps) := by
  obtain ⟨f1, f2, -, -, f5, -⟩ := run_facts h
  exact C07_generated_parse_terminates h (by decide) (by decide) (by rw [f1]; decide) f2
    (by rw [g_eq h]; exact productive) (cfg := cfgOf r) (C02_actsOk_of_kindsTotal rfl f5) rfl w old

/-- on `id id semi id` (a separator is missing; the run calls `Error`, which recovers) the answer
    that holds for all large fuel is the `accept` which the evaluation at fuel 40 shows
    (`C07GenEx.bad_accepted`) -/
example (r : LRResult) (h : genParser syn ids = .ok r) :
    ∃ fuel res ps, ∀ fuel', fuel ≤ fuel' →
      parse (cfgOf r) bad fuel' default = (Outcome.accept res, ps) := by
  obtain ⟨fuel, o, ps, -, hn⟩ := terminates r h bad default
  obtain ⟨res, hres⟩ := bad_accepted h
  have h40 := C02_parse_answer hn (fuel := 40) (by rw [hres]; intro h'; cases h')
  have : o = Outcome.accept res := by
    have := congrArg Prod.fst h40
    rw [hres] at this
    exact this.symm
  subst this
  exact ⟨fuel, res, ps, hn⟩

end C07TermEx

end Gocc
