import Gocc.Model.Parse
/-
C16, parser half.  `Parser.Parse` starts with `p.Reset()` and a fresh `Scan`: in the model the
previous parser state `old` (stack, attributes, look-ahead, whatever an earlier call left behind
after success, failure or recovery) is an argument that `parse` never reads.  The theorem is
therefore immediate — its content is that the *model* has this shape, which the correspondence
run checks against the compiled parser by running whole histories on one object.
-/
namespace Gocc

theorem C16_parse_ignores_history (cfg : PCfg) (input : List Nat) (fuel : Nat) (old old' : PState) :
    parse cfg input fuel old = parse cfg input fuel old' := rfl

/-- in particular a parser that has just been used gives what a new parser gives -/
example (cfg : PCfg) (w1 w2 : List Nat) (fuel : Nat) :
    parse cfg w2 fuel (parse cfg w1 fuel default).2 = parse cfg w2 fuel default :=
  C16_parse_ignores_history ..

end Gocc
