import Gocc.Proofs.GenSafe
import Gocc.Props.C03
/-
C02 / C03 at the generator level — for EVERY grammar, the tables computed by the generator model
pass the verified validator, hence the generated parser is sound for every grammar (not only for
the grammars a run happens to validate).

Object: `genParser syn tokIds` (Model/LR1.lean: `augment`, `newSymbols`, `addTokens`, `firstSets`,
`closure`, `goto`, `lrExpand`/`lrLoop`, `setAction`/`itemAction`/`resolve`, table layout), the
validator `safe` (Model/Validate.lean) and `safeEnds` (Proofs/Validate.lean), the numbered grammar
`ngrammarOf (augment syn) terminals nts` and the certificate `certOf states` (the model's own item
sets, look-aheads dropped) — exactly the arguments with which the validator is run per grammar.

Quantifiers: all `syn : List SProd`, all `tokIds : List String`, all `r` with
`genParser syn tokIds = .ok r` (the generator did not panic: no string literal spelled like a
production name, no unresolvable conflict), under the side conditions below.

Side condition `NamesOk syn tokIds` (Proofs/GenSafe.lean, decidable, checked by `decide` for a
concrete grammar):
    syn ≠ [] ∧ (∀ p ∈ syn.take 1, p.head ≠ "S'" ∧ p.head ≠ "empty") ∧
    "␚" ∉ heads ∧ "INVALID" ∉ heads ∧
    "S'" ∉ body symbols ∧ "␚" ∉ body symbols ∧ "" ∉ body symbols ∧ "" ∉ tokIds
Why each clause is there (gocc's own scanner cannot produce any of these spellings; rejected
grammars for all clauses but one are at the end of this file):
  * `syn = []`: there is no production 0;
  * start symbol spelled `empty`: `prodLen` makes production 0 an empty alternative, `G.body 0 = []`;
  * `S'` in a body: the closure re-creates the start item `S' : •Start` in states other than 0;
  * start symbol spelled `S'`: production 0 would be `S' : S'`, an item expecting its own head;
    excluded for the proof (the lemma "no item expects `S'`" fails) — this is the one clause
    for which no rejected grammar is exhibited below;
  * a head spelled `␚` / `INVALID`: that name is no longer a terminal, so end of input is not
    column 1 of the action table;
  * `␚` in a body: end of input is shifted;
  * a terminal spelled `` (empty string): `Item.action` compares the column symbol with
    `ExpectedSymbol()`, which is `""` for a complete item, and proposes `shift` to the default
    next state 0.
  NOT needed (and not assumed): `INVALID` / `␚` may occur among `tokIds` (they are in the symbol
  table anyway), `INVALID` may occur in a body (column 0 never holds an action), `S'` may be the
  head of a later production, string literals vs. production names (`newSymbols` already failed).

Extra hypothesis `r.states.size ≤ 4096` of `C02_genParser_safe`: the model's `lrLoop` expands at
most `maxStates = 4096` states.  A state beyond that bound would have no transitions, and
`setAction` would give it `shift 0` (`nextState` defaults to 0) on every terminal some item expects —
which `safeEnds` rightly rejects.  `r.states.size ≤ 4096` says that the fuel was not exhausted
(every state was expanded, `C02_genParser_item_sets`).  The `safe` half does not need it
(`C02_genParser_safe_any_size`).

Proof (Proofs/GenSafe.lean): invariant of `lrExpand`/`lrLoop` (`LRInv`: state 0 is the closure of
`S' : •Start, ␚`; every other state is a `goto` set; a recorded transition `(X, idx)` leads to a
state `≠ 0` whose items are contained in `goto` of the source on `X`); members of `closure` / `goto`
are advanced kernel items or dot-0 items whose head is expected by some item; the action kept by
the fold of `setAction` is proposed by one of the items (`resolve` returns one of its arguments);
index ↔ name translation of rows, columns and body symbols.
-/
namespace Gocc

/-- (C02-gen) MAIN THEOREM: the tables generated for any grammar pass the soundness validator. -/
theorem C02_genParser_safe (syn : List SProd) (tokIds : List String) (r : LRResult)
    (h : genParser syn tokIds = .ok r) (hn : NamesOk syn tokIds) (hsz : r.states.size ≤ 4096) :
    safe (ngrammarOf (augment syn) r.tables.terminals r.tables.nts) r.tables (certOf r.states)
      = true ∧
    safeEnds r.tables (certOf r.states) = true :=
  ⟨genParser_safe h hn, genParser_safeEnds h hn hsz⟩

/-- the `safe` half holds whatever the number of states (an unexpanded state only produces
    `shift 0` entries, which `safe` tolerates and `safeEnds` rejects) -/
theorem C02_genParser_safe_any_size (syn : List SProd) (tokIds : List String) (r : LRResult)
    (h : genParser syn tokIds = .ok r) (hn : NamesOk syn tokIds) :
    safe (ngrammarOf (augment syn) r.tables.terminals r.tables.nts) r.tables (certOf r.states)
      = true :=
  genParser_safe h hn

/-- the facts about the item sets behind the theorem: the transition invariant, and — when the
    fuel of `lrLoop` was not exhausted — every state has a transition for every symbol with a
    non-empty `goto` set -/
theorem C02_genParser_item_sets (syn : List SProd) (tokIds : List String) (r : LRResult)
    (h : genParser syn tokIds = .ok r) (hn : NamesOk syn tokIds) :
    LRInv r.ctx (closure r.ctx [⟨0, 0, "␚"⟩]) r.states ∧
    (r.states.size ≤ 4096 → ∀ j, j < r.states.size → ∀ st : LRState, r.states[j]? = some st →
      ∀ X ∈ r.ctx.S.typeMap, goto r.ctx st.items X ≠ [] → ∃ idx, (X, idx) ∈ st.trans) :=
  genParser_inv h hn

/-- (C02-gen-sound) for every grammar: whatever the parser running the GENERATED tables accepts
    is a sentence of the grammar (`C02_accept_sound` instantiated with the generator's output).
    `hr`: no state can recover, i.e. the grammar has no `error` alternative. -/
theorem C02_generated_parser_sound {syn : List SProd} {tokIds : List String} {r : LRResult}
    (h : genParser syn tokIds = .ok r) (hn : NamesOk syn tokIds) (hsz : r.states.size ≤ 4096)
    (hr : ∀ s : Nat, r.tables.canRecover[s]?.getD false = false)
    {w : List Nat} (hw : 1 ∉ w) {cfg : PCfg} (hT : cfg.T = r.tables)
    {fuel : Nat} {old : PState} {res : Attr}
    (hacc : (parse cfg w fuel old).1 = Outcome.accept res) :
    NSentence (ngrammarOf (augment syn) r.tables.terminals r.tables.nts) w :=
  C02_accept_sound (C02_genParser_safe syn tokIds r h hn hsz).1
    (C02_genParser_safe syn tokIds r h hn hsz).2 hr hw hT hacc

/-- (C03-gen) for every grammar: the value and the call log of an accepting run of the parser
    with the GENERATED tables are the evaluation of a parse tree of the whole input
    (`C03_result_is_tree_eval` instantiated). -/
theorem C03_generated_result_is_tree_eval {syn : List SProd} {tokIds : List String} {r : LRResult}
    (h : genParser syn tokIds = .ok r) (hn : NamesOk syn tokIds) (hsz : r.states.size ≤ 4096)
    (hr : ∀ s : Nat, r.tables.canRecover[s]?.getD false = false)
    {w : List Nat} (hw : 1 ∉ w) {cfg : PCfg} (hT : cfg.T = r.tables)
    {fuel : Nat} {old : PState} {res : Attr} {ps : PState}
    (hacc : parse cfg w fuel old = (Outcome.accept res, ps)) :
    ∃ t : PT, t.wf (ngrammarOf (augment syn) r.tables.terminals r.tables.nts) ∧
      (ngrammarOf (augment syn) r.tables.terminals r.tables.nts).body 0 =
        [t.sym (ngrammarOf (augment syn) r.tables.terminals r.tables.nts)] ∧
      t.yield = (List.range w.length).zip w ∧
      evalT r.tables.prodKind t [] = some (res, ps.log) :=
  C03_result_is_tree_eval (C02_genParser_safe syn tokIds r h hn hsz).1
    (C02_genParser_safe syn tokIds r h hn hsz).2 hr hw hT hacc

/-- (C03-gen, failing action) with the generated tables the failing call is reported as an action
    error (`C03_failing_action_is_reported` instantiated) -/
theorem C03_generated_failing_action_is_reported {syn : List SProd} {tokIds : List String}
    {r : LRResult} (h : genParser syn tokIds = .ok r) (hn : NamesOk syn tokIds)
    (hsz : r.states.size ≤ 4096) (hr : ∀ s : Nat, r.tables.canRecover[s]?.getD false = false)
    {w : List Nat} (hw : 1 ∉ w) {cfg : PCfg} (hT : cfg.T = r.tables) {k : Nat}
    (hk : cfg.failAt = k) (hk0 : k ≠ 0) {fuel : Nat} {old : PState} {o : Outcome} {ps : PState}
    (hrun : parse cfg w fuel old = (o, ps)) :
    ps.calls = k ↔ ∃ id i t e s, o = Outcome.actErr id i t e s :=
  C03_failing_action_is_reported (C02_genParser_safe syn tokIds r h hn hsz).1
    (C02_genParser_safe syn tokIds r h hn hsz).2 hr hw hT hk hk0 hrun

/-! ### Non-vacuity: `S : a S b <<10>> | c <<11>>` -/
namespace C02GenEx

def syn : List SProd := [
  { head := "S", body := [⟨.tokId, "a"⟩, ⟨.prodId, "S"⟩, ⟨.tokId, "b"⟩], act := 1, actId := 10 },
  { head := "S", body := [⟨.tokId, "c"⟩], act := 1, actId := 11 } ]

def ids : List String := ["a", "b", "c"]

/-- the side condition is decided -/
example : NamesOk syn ids := by decide

/-- the side condition is not trivially true: a grammar that uses `S'` in a body, one whose start
    symbol is spelled `empty`, one with a token spelled `` -/
example : ¬ NamesOk [{ head := "S", body := [⟨.prodId, "S'"⟩] }] [] := by decide
example : ¬ NamesOk [{ head := "empty", body := [⟨.tokId, "a"⟩] }] ["a"] := by decide
example : ¬ NamesOk syn ["", "a", "b", "c"] := by decide

/-- what we look at in a run: number of states, the tables (terminals: 0 INVALID, 1 ␚, 2 a, 3 b,
    4 c), no recovery state, and the validator evaluated directly on the generated tables -/
structure Summary where
  nStates : Nat
  terminals : List String
  nts : List String
  action : List (List (Option Act))
  goto_ : List (List Int)
  noRecovery : Bool
  safe : Bool
  safeEnds : Bool
deriving DecidableEq

def summary (r : LRResult) : Summary :=
  { nStates := r.states.size, terminals := r.tables.terminals, nts := r.tables.nts,
    action := r.tables.action.toList.map (·.toList),
    goto_ := r.tables.goto_.toList.map (·.toList),
    noRecovery := r.tables.canRecover.toList.all (fun b => !b),
    safe := Gocc.safe (ngrammarOf (augment syn) r.tables.terminals r.tables.nts) r.tables
      (certOf r.states),
    safeEnds := Gocc.safeEnds r.tables (certOf r.states) }

/-- the generator model run on the grammar (kernel evaluation; `decide` alone cannot unfold the
    `mergeSort` inside `first1`): 10 states, and the validator — evaluated directly, for
    comparison with the theorem — answers `true`, `true` -/
theorem run : (genParser syn ids).toOption.map summary =
    some
      { nStates := 10, terminals := ["INVALID", "␚", "a", "b", "c"], nts := ["S'", "S"],
        action := [
          [none, none, some (.shift 2), none, some (.shift 3)],
          [none, some .accept, none, none, none],
          [none, none, some (.shift 5), none, some (.shift 6)],
          [none, some (.reduce 2), none, none, none],
          [none, none, none, some (.shift 7), none],
          [none, none, some (.shift 5), none, some (.shift 6)],
          [none, none, none, some (.reduce 2), none],
          [none, some (.reduce 1), none, none, none],
          [none, none, none, some (.shift 9), none],
          [none, none, none, some (.reduce 1), none]],
        goto_ := [[-1, 1], [-1, -1], [-1, 4], [-1, -1], [-1, -1], [-1, 8], [-1, -1], [-1, -1],
          [-1, -1], [-1, -1]],
        noRecovery := true, safe := true, safeEnds := true } := by
  decide +kernel

/-- the run succeeds … -/
theorem run_ok : ∃ r, genParser syn ids = .ok r := by
  have h := run
  cases hg : genParser syn ids with
  | error e => rw [hg] at h; cases h
  | ok r => exact ⟨r, rfl⟩

theorem run_summary {r : LRResult} (h : genParser syn ids = .ok r) :
    r.states.size = 10 ∧ (r.tables.canRecover.toList.all (fun b => !b)) = true := by
  have hrun := run
  rw [h] at hrun
  simp only [Except.toOption, Option.map_some, Option.some.injEq, summary, Summary.mk.injEq] at hrun
  exact ⟨hrun.1, hrun.2.2.2.2.2.1⟩

/-- … and the theorem applies to it: the generated tables pass the validator (here obtained from
    `C02_genParser_safe`, above from direct evaluation) -/
example (r : LRResult) (h : genParser syn ids = .ok r) :
    safe (ngrammarOf (augment syn) r.tables.terminals r.tables.nts) r.tables (certOf r.states)
      = true ∧ safeEnds r.tables (certOf r.states) = true :=
  C02_genParser_safe syn ids r h (by decide) (by rw [(run_summary h).1]; decide)

/-- the parser with the generated tables accepts `a a c b b` (token types 2 2 4 3 3) … -/
theorem accepts : (genParser syn ids).toOption.map (fun r =>
    match (parse { T := r.tables, errTerm := 0, failAt := 0 } [2, 2, 4, 3, 3] 50 default).1 with
    | .accept _ => true
    | _ => false) = some true := by
  decide +kernel

/-- … hence, by the generator-level theorem (no validator run involved), `a a c b b` is a sentence
    of the numbered grammar -/
example (r : LRResult) (h : genParser syn ids = .ok r) :
    NSentence (ngrammarOf (augment syn) r.tables.terminals r.tables.nts) [2, 2, 4, 3, 3] := by
  have hacc := accepts
  rw [h] at hacc
  simp only [Except.toOption, Option.map_some, Option.some.injEq] at hacc
  split at hacc
  · rename_i res hres
    exact C02_generated_parser_sound h (by decide) (by rw [(run_summary h).1]; decide)
      (noRecovery_of_all (run_summary h).2) (w := [2, 2, 4, 3, 3]) (by decide)
      (cfg := { T := r.tables, errTerm := 0, failAt := 0 }) rfl (fuel := 50) (old := default) hres
  · cases hacc

/-- `a c` is not accepted -/
example : (genParser syn ids).toOption.map (fun r =>
    match (parse { T := r.tables, errTerm := 0, failAt := 0 } [2, 4] 50 default).1 with
    | .accept _ => true
    | _ => false) = some false := by
  decide +kernel

/-! ### the clauses of `NamesOk` matter
Grammars that violate one clause, are generated without panic, stay far below 4096 states, and
whose tables the validator REJECTS (kernel evaluation of the model and of the validator). -/

/-- (`safe`, `safeEnds`) of the tables generated for a grammar -/
def verdict (syn : List SProd) (ids : List String) : Option (Bool × Bool) :=
  (genParser syn ids).toOption.map fun r =>
    (safe (ngrammarOf (augment syn) r.tables.terminals r.tables.nts) r.tables (certOf r.states),
     safeEnds r.tables (certOf r.states))

/-- a token id spelled `` -/
example : verdict syn ["", "a", "b", "c"] = some (true, false) := by decide +kernel
/-- `` in a body -/
example : verdict [{ head := "S", body := [⟨.tokId, "a"⟩, ⟨.tokId, ""⟩] }] ["a"] =
    some (true, false) := by decide +kernel
/-- start symbol spelled `empty` -/
example : verdict [{ head := "empty", body := [⟨.tokId, "a"⟩] }] ["a"] = some (false, true) := by
  decide +kernel
/-- `S'` in a body -/
example : verdict [{ head := "S", body := [⟨.tokId, "a"⟩, ⟨.prodId, "S'"⟩] },
    { head := "S", body := [⟨.tokId, "b"⟩] }] ["a", "b"] = some (true, false) := by decide +kernel
/-- a head spelled `␚` -/
example : verdict [{ head := "S", body := [⟨.tokId, "a"⟩] },
    { head := "␚", body := [⟨.tokId, "a"⟩] }] ["a"] = some (true, false) := by decide +kernel
/-- a head spelled `INVALID` -/
example : verdict [{ head := "S", body := [⟨.tokId, "a"⟩] },
    { head := "INVALID", body := [⟨.tokId, "a"⟩] }] ["a"] = some (false, false) := by decide +kernel
/-- `␚` in a body -/
example : verdict [{ head := "S", body := [⟨.tokId, "a"⟩, ⟨.tokId, "␚"⟩] }] ["a"] =
    some (true, false) := by decide +kernel
/-- no production at all -/
example : verdict [] ["a"] = some (false, true) := by decide +kernel

/-- not excluded, and fine: `INVALID` in a body, `INVALID` / `␚` among the token ids, `S'` as the
    head of a later production -/
def odd : List SProd :=
  [{ head := "S", body := [⟨.tokId, "a"⟩, ⟨.tokId, "INVALID"⟩] },
   { head := "S'", body := [⟨.tokId, "a"⟩] }]
example : NamesOk odd ["INVALID", "a", "␚"] := by decide
example : verdict odd ["INVALID", "a", "␚"] = some (true, true) := by decide +kernel

end C02GenEx

end Gocc
