import Gocc.Proofs.UnambigPos
import Gocc.Props.C02Kind
/-
C04, consequence — a grammar for which gocc reports NO LR(1) conflict is UNAMBIGUOUS
(equivalently: for an ambiguous grammar the generator always records a conflict).

C04 says that conflicts are reported exactly for the grammars that are not LR(1).  The consequence
proved here needs no definition of LR(1): it is stated with parse trees only (`PT`, `PT.wf`,
`PT.yield`, `PT.sym` of Spec/Eval.lean).

  `Unambiguous G`  (definition in Proofs/UnambigInj.lean, restated by `C04_unambiguous_def`):
      for every token-type string `w`, any two well-formed trees of `G` whose root is the start
      symbol (`G.body 0 = [t.sym G]`) and whose leaves are the tokens of `w` with their positions
      (`t.yield = (List.range w.length).zip w`, the form of `C03_result_is_tree_eval`) are equal.
  `C04_unambiguous_any_positions`: the positions stored in the leaves are immaterial — in an
      unambiguous grammar two such trees with EQUAL YIELDS (any positions) are equal.

TABLES LEVEL
  * `C04_parse_follows_tree`: tables passing `firstOk` / `complete` (Model/ValidateC.lean), any
    `cfg` over them whose actions never fail (`ActsOk`): for EVERY well-formed tree `t` of the
    input, Parse accepts and the returned value and call log are `evalT … t []` — the evaluation
    of THIS tree (C02-complete said "accepts"; C03 said "the evaluation of SOME tree").
  * `C04_complete_tables_unambiguous`: tables passing `firstOk` / `complete` exist only for
    unambiguous grammars.  The statement does not mention `cfg` or actions: the proof builds the
    configuration `Unambig.treeCfg` (same tables, `prodKind` replaced by `RKind.user 1 p` for every
    production `p`, i.e. the harness action `<< vh.Mk(C, p, X) >>` that returns the full node;
    `complete` does not read `prodKind`: `Unambig.complete_prodKind` is `rfl`), runs it on both
    trees (ONE run: `parse` is a function and fuel does not matter, `parseLoop_fuel_mono`), and
    uses that under these actions the value determines the tree (`Unambig.evalT_inj`).

DEVIATIONS from the requested statements (all make the theorems stronger):
  * neither `safe` / `safeEnds` nor "no recovery state" is assumed: along the run that follows a
    tree the action entry is never missing, so `Error` is never called (as in C02-complete);
    in particular the generator-level theorem has NO hypothesis about `error` alternatives;
  * no hypothesis `1 ∉ w`;
  * `TreeKinds` is not a hypothesis of any exported theorem (it is established for `treeCfg`);
    it is indexed by the number of productions — `∀ p < n, kinds[p]? = some (.user 1 p)` — because
    `∀ p` is unsatisfiable for a finite array.

GENERATOR LEVEL (`genParser`, `ngrammarOf`; hypotheses exactly those of `C02_genParser_complete`)
  * `C04_no_conflict_unambiguous`: `genParser syn tokIds = .ok r`, `NamesOk`, `CompleteNamesOk`,
    `r.states.size ≤ 4096`, `r.tables.conflictStates = 0`  ⟹  the grammar is unambiguous.
  * `C04_ambiguous_has_conflict` (the C04-facing contrapositive): two different well-formed trees
    with the same yield  ⟹  `r.tables.conflictStates ≠ 0`.
  * `…_kind`: the same over `ngrammarSpec` (the grammar read BY KIND, Spec/KindGrammar.lean), with
    the extra hypothesis `SpellingsOk syn tokIds`.
  Grammars with unproductive symbols, ε-cycles, unit cycles need no side condition: the theorem
  is about trees that exist.  `A : A | a` makes the generator panic ("Cannot have LR1 conflict
  with Accept.", so `genParser = .error _` and there is no `r`); `S : A S | b ; A : empty` is
  generated with conflicts (`C04UnambigEx.epsCycle_conflict`).

NON-VACUITY (`C04UnambigEx`)
  (a) `S : a S b | c` (`C02GenEx.syn`) is unambiguous — through the theorem;
  (b) `E : E + E | x`: the two trees of `x + x + x` are exhibited, hence (contrapositive) every
      successful run records a conflict; kernel evaluation of the model: exactly 1 conflict state.
  (c) `S : A S | b ; A : empty` (ε-cycle): two trees of `b`, hence a conflict; kernel
      evaluation: 2 conflict states.
-/
namespace Gocc

open Unambig (Unambiguous)

/-- the definition of `Unambiguous`, spelled out -/
theorem C04_unambiguous_def (G : NGrammar) :
    Unambiguous G ↔
      ∀ (w : List Nat) (t1 t2 : PT), t1.wf G → t2.wf G →
        G.body 0 = [t1.sym G] → G.body 0 = [t2.sym G] →
        t1.yield = (List.range w.length).zip w → t2.yield = (List.range w.length).zip w →
        t1 = t2 :=
  Iff.rfl

/-- positions are immaterial: in an unambiguous grammar two well-formed trees from the start
    symbol with the same yield — whatever positions their leaves carry — are equal -/
theorem C04_unambiguous_any_positions {G : NGrammar} (hu : Unambiguous G) {t1 t2 : PT}
    (hw1 : t1.wf G) (hw2 : t2.wf G) (hr1 : G.body 0 = [t1.sym G]) (hr2 : G.body 0 = [t2.sym G])
    (hy : t1.yield = t2.yield) : t1 = t2 :=
  hu.any_positions hw1 hw2 hr1 hr2 hy

/-! ### tables level -/

/-- (completeness along a given tree) for every well-formed tree `t` of the input `w`, Parse
    accepts — with some fuel, hence with every larger fuel — and returns the evaluation of `t` -/
theorem C04_parse_follows_tree {G : NGrammar} {T : PTables} {fc : FirstCert} {c : CertLA}
    (hf : firstOk G fc = true) (hc : complete G T fc c = true)
    {cfg : PCfg} (hA : ActsOk cfg) (hT : cfg.T = T)
    {w : List Nat} {t : PT} (hwf : t.wf G) (hroot : G.body 0 = [t.sym G])
    (hy : t.yield = (List.range w.length).zip w) (old : PState) :
    ∃ fuel res ps, (∀ k : Nat, parse cfg w (fuel + k) old = (Outcome.accept res, ps)) ∧
      evalT cfg.T.prodKind t [] = some (res, ps.log) := by
  obtain ⟨fuel, res, ps, hp, he⟩ := Unambig.parse_follows_tree hf hc hA hT hwf hroot hy old
  refine ⟨fuel, res, ps, fun k => ?_, he⟩
  unfold parse at hp ⊢
  rw [parseLoop_fuel_mono (by rw [hp]; intro h; cases h) k]
  exact hp

/-- (one run, all trees) whenever Parse accepts, its value and call log are the evaluation of
    EVERY well-formed tree of the input (under `Unambig.TreeKinds` there is only one) -/
theorem C04_result_is_eval_of_every_tree {G : NGrammar} {T : PTables} {fc : FirstCert} {c : CertLA}
    (hf : firstOk G fc = true) (hc : complete G T fc c = true)
    {cfg : PCfg} (hA : ActsOk cfg) (hT : cfg.T = T)
    {w : List Nat} {fuel : Nat} {old : PState} {res : Attr} {ps : PState}
    (hacc : parse cfg w fuel old = (Outcome.accept res, ps))
    {t : PT} (hwf : t.wf G) (hroot : G.body 0 = [t.sym G])
    (hy : t.yield = (List.range w.length).zip w) :
    evalT cfg.T.prodKind t [] = some (res, ps.log) := by
  obtain ⟨f, res', ps', hp, he⟩ := C04_parse_follows_tree hf hc hA hT hwf hroot hy old
  have h1 := hp fuel
  unfold parse at hacc h1
  have h2 := parseLoop_fuel_mono (cfg := cfg) (w := w) (fuel := fuel) (ps := _)
    (by rw [hacc]; intro h; cases h) f
  rw [Nat.add_comm, h1, hacc] at h2
  simp only [Prod.mk.injEq, Outcome.accept.injEq] at h2
  rw [← h2.1, ← h2.2]
  exact he

/-- (C04, tables) tables that pass the completeness validator exist only for unambiguous grammars -/
theorem C04_complete_tables_unambiguous {G : NGrammar} {T : PTables} {fc : FirstCert} {c : CertLA}
    (hf : firstOk G fc = true) (hc : complete G T fc c = true) : Unambiguous G :=
  Unambig.complete_unambiguous hf hc

/-- the same, spelled out for two trees with equal yields (any positions) -/
theorem C04_complete_tables_unambiguous' {G : NGrammar} {T : PTables} {fc : FirstCert} {c : CertLA}
    (hf : firstOk G fc = true) (hc : complete G T fc c = true) {t1 t2 : PT}
    (hw1 : t1.wf G) (hw2 : t2.wf G) (hr1 : G.body 0 = [t1.sym G]) (hr2 : G.body 0 = [t2.sym G])
    (hy : t1.yield = t2.yield) : t1 = t2 :=
  (C04_complete_tables_unambiguous hf hc).any_positions hw1 hw2 hr1 hr2 hy

/-! ### generator level -/

/-- (C04-gen) a grammar for which the generator records no conflict is unambiguous -/
theorem C04_no_conflict_unambiguous {syn : List SProd} {tokIds : List String} {r : LRResult}
    (h : genParser syn tokIds = .ok r) (hn : NamesOk syn tokIds) (hx : CompleteNamesOk syn)
    (hsz : r.states.size ≤ 4096) (hc : r.tables.conflictStates = 0) :
    Unambiguous (ngrammarOf (augment syn) r.tables.terminals r.tables.nts) :=
  C04_complete_tables_unambiguous (C02_genParser_complete syn tokIds r h hn hsz hc hx).1
    (C02_genParser_complete syn tokIds r h hn hsz hc hx).2

/-- (C04-gen, contrapositive) if some input has two different parse trees, the generator records
    a conflict -/
theorem C04_ambiguous_has_conflict {syn : List SProd} {tokIds : List String} {r : LRResult}
    (h : genParser syn tokIds = .ok r) (hn : NamesOk syn tokIds) (hx : CompleteNamesOk syn)
    (hsz : r.states.size ≤ 4096) {t1 t2 : PT}
    (hw1 : t1.wf (ngrammarOf (augment syn) r.tables.terminals r.tables.nts))
    (hw2 : t2.wf (ngrammarOf (augment syn) r.tables.terminals r.tables.nts))
    (hr1 : (ngrammarOf (augment syn) r.tables.terminals r.tables.nts).body 0 =
      [t1.sym (ngrammarOf (augment syn) r.tables.terminals r.tables.nts)])
    (hr2 : (ngrammarOf (augment syn) r.tables.terminals r.tables.nts).body 0 =
      [t2.sym (ngrammarOf (augment syn) r.tables.terminals r.tables.nts)])
    (hy : t1.yield = t2.yield) (hne : t1 ≠ t2) : r.tables.conflictStates ≠ 0 :=
  fun hc => hne ((C04_no_conflict_unambiguous h hn hx hsz hc).any_positions hw1 hw2 hr1 hr2 hy)

/-- (C04-gen, by kind) `C04_no_conflict_unambiguous` for the grammar as written -/
theorem C04_no_conflict_unambiguous_kind {syn : List SProd} {tokIds : List String} {r : LRResult}
    (h : genParser syn tokIds = .ok r) (hn : NamesOk syn tokIds) (hs : SpellingsOk syn tokIds)
    (hx : CompleteNamesOk syn) (hsz : r.states.size ≤ 4096) (hc : r.tables.conflictStates = 0) :
    Unambiguous (ngrammarSpec (augment syn) r.tables.terminals r.tables.nts) := by
  rw [ngrammarSpec_eq_ngrammarOf h hs]
  exact C04_no_conflict_unambiguous h hn hx hsz hc

/-- (C04-gen, contrapositive, by kind) `C04_ambiguous_has_conflict` for the grammar as written -/
theorem C04_ambiguous_has_conflict_kind {syn : List SProd} {tokIds : List String} {r : LRResult}
    (h : genParser syn tokIds = .ok r) (hn : NamesOk syn tokIds) (hs : SpellingsOk syn tokIds)
    (hx : CompleteNamesOk syn) (hsz : r.states.size ≤ 4096) {t1 t2 : PT}
    (hw1 : t1.wf (ngrammarSpec (augment syn) r.tables.terminals r.tables.nts))
    (hw2 : t2.wf (ngrammarSpec (augment syn) r.tables.terminals r.tables.nts))
    (hr1 : (ngrammarSpec (augment syn) r.tables.terminals r.tables.nts).body 0 =
      [t1.sym (ngrammarSpec (augment syn) r.tables.terminals r.tables.nts)])
    (hr2 : (ngrammarSpec (augment syn) r.tables.terminals r.tables.nts).body 0 =
      [t2.sym (ngrammarSpec (augment syn) r.tables.terminals r.tables.nts)])
    (hy : t1.yield = t2.yield) (hne : t1 ≠ t2) : r.tables.conflictStates ≠ 0 :=
  fun hc =>
    hne ((C04_no_conflict_unambiguous_kind h hn hs hx hsz hc).any_positions hw1 hw2 hr1 hr2 hy)

/-! ### Non-vacuity -/
namespace C04UnambigEx

/-! #### (a) `S : a S b | c` is unambiguous -/

open C02GenCompleteEx (Gex gex_eq run2_facts)

/-- through the generator-level theorem (no validator run, no evaluation of `parse`) -/
theorem gen_unambiguous (r : LRResult) (h : genParser C02GenEx.syn C02GenEx.ids = .ok r) :
    Unambiguous (ngrammarOf (augment C02GenEx.syn) r.tables.terminals r.tables.nts) :=
  C04_no_conflict_unambiguous h (by decide) (by decide) (by rw [(run2_facts h).1]; decide)
    (run2_facts h).2.1

/-- the run exists, and its numbered grammar is `Gex`: `S' : S ; S : a S b | c` is unambiguous -/
theorem gex_unambiguous : Unambiguous Gex := by
  obtain ⟨r, h⟩ := C02GenEx.run_ok
  have := gen_unambiguous r h
  rw [(run2_facts h).2.2.1, (run2_facts h).2.2.2.1, gex_eq] at this
  exact this

/-- … and by kind -/
example (r : LRResult) (h : genParser C02GenEx.syn C02GenEx.ids = .ok r) :
    Unambiguous (ngrammarSpec (augment C02GenEx.syn) r.tables.terminals r.tables.nts) :=
  C04_no_conflict_unambiguous_kind h (by decide) (by decide) (by decide)
    (by rw [(run2_facts h).1]; decide) (run2_facts h).2.1

/-- the tree of `a c b` … -/
def tacb : PT := .node 1 [.leaf 0 2, .node 2 [.leaf 1 4], .leaf 2 3]

theorem tacb_wf : tacb.wf Gex := by
  simp [tacb, PT.wf, PT.wfL, PT.sym, Gex, NGrammar.body, NGrammar.head]

/-- … is the only one: every well-formed tree of `a c b` is this tree (the definition is not
    vacuously satisfied: there are trees to compare) -/
example (t : PT) (hw : t.wf Gex) (hr : Gex.body 0 = [t.sym Gex])
    (hy : t.yield = [(0, 2), (1, 4), (2, 3)]) : t = tacb :=
  gex_unambiguous [2, 4, 3] t tacb hw tacb_wf hr rfl hy rfl

/-! #### (b) `E : E + E | x` is ambiguous, hence the generator records a conflict -/

open C02GenCompleteEx (ambig)

def idsA : List String := ["+", "x"]

/-- `S' : E ; E : E + E | x` with `+ x` = 2 3 -/
def Gamb : NGrammar :=
  { prods := #[(0, [Sym.nt 1]), (1, [Sym.nt 1, Sym.t 2, Sym.nt 1]), (1, [Sym.t 3])] }

theorem gamb_eq : ngrammarOf (augment ambig) ["INVALID", "␚", "+", "x"] ["S'", "E"] = Gamb := by
  have : (ngrammarOf (augment ambig) ["INVALID", "␚", "+", "x"] ["S'", "E"]).prods =
      Gamb.prods := by decide +kernel
  exact congrArg NGrammar.mk this

/-- `(x + x) + x` -/
def tL : PT :=
  .node 1 [.node 1 [.node 2 [.leaf 0 3], .leaf 1 2, .node 2 [.leaf 2 3]], .leaf 3 2,
    .node 2 [.leaf 4 3]]
/-- `x + (x + x)` -/
def tR : PT :=
  .node 1 [.node 2 [.leaf 0 3], .leaf 1 2,
    .node 1 [.node 2 [.leaf 2 3], .leaf 3 2, .node 2 [.leaf 4 3]]]

theorem tL_wf : tL.wf Gamb := by
  simp [tL, PT.wf, PT.wfL, PT.sym, Gamb, NGrammar.body, NGrammar.head]
theorem tR_wf : tR.wf Gamb := by
  simp [tR, PT.wf, PT.wfL, PT.sym, Gamb, NGrammar.body, NGrammar.head]
theorem tL_yield : tL.yield = (List.range 5).zip [3, 2, 3, 2, 3] := by
  simp [tL, PT.yield, PT.yieldL]; decide
theorem tR_yield : tR.yield = (List.range 5).zip [3, 2, 3, 2, 3] := by
  simp [tR, PT.yield, PT.yieldL]; decide
theorem tL_ne_tR : tL ≠ tR := by
  intro h
  simp [tL, tR] at h

/-- two different trees of `x + x + x`: the grammar is ambiguous -/
theorem gamb_ambiguous : ¬ Unambiguous Gamb :=
  fun hu => tL_ne_tR (hu [3, 2, 3, 2, 3] tL tR tL_wf tR_wf rfl rfl tL_yield tR_yield)

/-- what we need to know about a run -/
structure Facts where
  nStates : Nat
  conflicts : Nat
  terminals : List String
  nts : List String
deriving DecidableEq

def facts (r : LRResult) : Facts :=
  { nStates := r.states.size, conflicts := r.tables.conflictStates,
    terminals := r.tables.terminals, nts := r.tables.nts }

/-- kernel evaluation of the generator model: 5 states, ONE state with a conflict -/
theorem runA : (genParser ambig idsA).toOption.map facts =
    some { nStates := 5, conflicts := 1, terminals := ["INVALID", "␚", "+", "x"],
           nts := ["S'", "E"] } := by
  decide +kernel

theorem runA_facts {r : LRResult} (h : genParser ambig idsA = .ok r) :
    r.states.size = 5 ∧ r.tables.conflictStates = 1 ∧
    r.tables.terminals = ["INVALID", "␚", "+", "x"] ∧ r.tables.nts = ["S'", "E"] := by
  have hrun := runA
  rw [h] at hrun
  simp only [Except.toOption, Option.map_some, Option.some.injEq, facts, Facts.mk.injEq] at hrun
  exact hrun

theorem runA_ok : ∃ r, genParser ambig idsA = .ok r := by
  have h := runA
  cases hg : genParser ambig idsA with
  | error e => rw [hg] at h; cases h
  | ok r => exact ⟨r, rfl⟩

/-- THROUGH THE CONTRAPOSITIVE (the conflict count of the run is not looked at): every successful
    run of the generator on `E : E + E | x` records a conflict -/
theorem ambig_has_conflict (r : LRResult) (h : genParser ambig idsA = .ok r) :
    r.tables.conflictStates ≠ 0 := by
  obtain ⟨f1, -, f3, f4⟩ := runA_facts h
  refine C04_ambiguous_has_conflict h (by decide) (by decide) (by rw [f1]; decide)
    (t1 := tL) (t2 := tR) ?_ ?_ ?_ ?_ (tL_yield.trans tR_yield.symm) tL_ne_tR
  all_goals rw [f3, f4, gamb_eq]
  · exact tL_wf
  · exact tR_wf
  · rfl
  · rfl

/-- … confirmed by the kernel evaluation: exactly one conflicting state -/
example (r : LRResult) (h : genParser ambig idsA = .ok r) : r.tables.conflictStates = 1 :=
  (runA_facts h).2.1

/-- … also for the grammar read by kind -/
example (r : LRResult) (h : genParser ambig idsA = .ok r) : r.tables.conflictStates ≠ 0 := by
  obtain ⟨f1, -, f3, f4⟩ := runA_facts h
  refine C04_ambiguous_has_conflict_kind h (by decide) (by decide) (by decide) (by rw [f1]; decide)
    (t1 := tL) (t2 := tR) ?_ ?_ ?_ ?_ (tL_yield.trans tR_yield.symm) tL_ne_tR
  all_goals rw [ngrammarSpec_eq_ngrammarOf h (by decide), f3, f4, gamb_eq]
  · exact tL_wf
  · exact tR_wf
  · rfl
  · rfl

/-! #### (c) an ε-cycle: `S : A S | b ; A : empty` -/

def epsCycle : List SProd :=
  [{ head := "S", body := [⟨.prodId, "A"⟩, ⟨.prodId, "S"⟩] },
   { head := "S", body := [⟨.tokId, "b"⟩] },
   { head := "A", body := [⟨.tokId, "empty"⟩] }]

/-- `S' : S ; S : A S | b ; A : ε` with `b` = 2 -/
def Geps : NGrammar :=
  { prods := #[(0, [Sym.nt 1]), (1, [Sym.nt 2, Sym.nt 1]), (1, [Sym.t 2]), (2, [])] }

/-- `b` -/
def tb : PT := .node 2 [.leaf 0 2]
/-- `ε b` -/
def teb : PT := .node 1 [.node 3 [], .node 2 [.leaf 0 2]]

theorem tb_wf : tb.wf Geps := by
  simp [tb, PT.wf, PT.wfL, PT.sym, Geps, NGrammar.body]
theorem teb_wf : teb.wf Geps := by
  simp [teb, PT.wf, PT.wfL, PT.sym, Geps, NGrammar.body, NGrammar.head]

/-- kernel evaluation of the generator model: 5 states, two of them with a conflict -/
theorem runE : (genParser epsCycle ["b"]).toOption.map facts =
    some { nStates := 5, conflicts := 2, terminals := ["INVALID", "␚", "b", "empty"],
           nts := ["S'", "S", "A"] } := by
  decide +kernel

theorem runE_facts {r : LRResult} (h : genParser epsCycle ["b"] = .ok r) :
    r.states.size = 5 ∧ r.tables.conflictStates = 2 ∧
    r.tables.terminals = ["INVALID", "␚", "b", "empty"] ∧ r.tables.nts = ["S'", "S", "A"] := by
  have hrun := runE
  rw [h] at hrun
  simp only [Except.toOption, Option.map_some, Option.some.injEq, facts, Facts.mk.injEq] at hrun
  exact hrun

theorem geps_eq :
    ngrammarOf (augment epsCycle) ["INVALID", "␚", "b", "empty"] ["S'", "S", "A"] = Geps := by
  have : (ngrammarOf (augment epsCycle) ["INVALID", "␚", "b", "empty"] ["S'", "S", "A"]).prods =
      Geps.prods := by decide +kernel
  exact congrArg NGrammar.mk this

/-- through the contrapositive: two trees of `b`, hence every successful run records a conflict
    (the conflict count of the run is not looked at) -/
theorem epsCycle_conflict (r : LRResult) (h : genParser epsCycle ["b"] = .ok r) :
    r.tables.conflictStates ≠ 0 := by
  obtain ⟨f1, -, f3, f4⟩ := runE_facts h
  refine C04_ambiguous_has_conflict h (by decide) (by decide) (by rw [f1]; decide)
    (t1 := tb) (t2 := teb) ?_ ?_ ?_ ?_ (by simp [tb, teb, PT.yield, PT.yieldL]) ?_
  · rw [f3, f4, geps_eq]; exact tb_wf
  · rw [f3, f4, geps_eq]; exact teb_wf
  · rw [f3, f4, geps_eq]; rfl
  · rw [f3, f4, geps_eq]; rfl
  · intro h; simp [tb, teb] at h

/-- … confirmed by the kernel evaluation: two conflicting states -/
example (r : LRResult) (h : genParser epsCycle ["b"] = .ok r) : r.tables.conflictStates = 2 :=
  (runE_facts h).2.1

end C04UnambigEx

end Gocc

