import Gocc.Proofs.LoopsTerminateLR
import Gocc.Proofs.LoopsTerminateLex
import Gocc.Proofs.LoopsTerminateLexDep
import Gocc.Props.C02Gen
import Gocc.Props.C09Emoves
/-
C09 — gocc always terminates: the two UNBOUNDED item-set loops.

  parser  `GetItemSets`        internal/parser/lr1/items/itemsets.go   model `lrLoop`  (fuel 4096)
  lexer   `ItemSets.Closure`   internal/lexer/items/itemsets.go        model `lexLoop` (fuel 100000)

Both Go loops are `for i := 0; i < len(sets); i++ { … sets = append(sets, newSet) … }`: state `i`
is expanded, every successor set that is not yet in the collection (Go `Equal`: same length and
every item of the stored set occurs in the new one — `sameItems` / `sameLItems`) is appended.  The
model runs them on fuel; the fuel is the number of states that are expanded.

What is proved (Proofs/LoopsTerminate{Count,LR,LexItems,Lex}.lean):

* every state is a duplicate-free list over a finite universe `U` of items, and an earlier state
  never passes the `Equal` test against a later one; hence (counting lemma
  `LoopsT.length_le_two_pow`: characteristic vectors over `U`) the collection never has more than
  `2 ^ |U|` states — for EVERY fuel;
* consequently for every `fuel ≥ 2 ^ |U|` the loop has left through its own exit condition
  `i = len(sets)`: more fuel gives the same result, every state has been expanded; the result of
  the unbounded Go loop exists, has `n ≤ 2 ^ |U|` states and is reached with exactly `n` units of
  fuel (`…_result`);
* the model's constants: `2 ^ |U|` is astronomically larger than 4096 / 100000, so the model's fuel
  does NOT cover every grammar, and the generator-level theorems keep their hypothesis
  `r.states.size ≤ 4096`.  That hypothesis is exactly what is needed: whenever the model's result
  has at most `fuel` states, it IS the result of the unbounded loop
  (`C09_lrLoop_model_fuel`, `C09_genParser_states_final`, `C09_genLexer_final`).

Parser universe: `⟨0,0,"␚"⟩` and all `(p, d, la)` with `p < |prods|`, `d ≤ Len(p)`, `la` a symbol of
the table or "empty"; `|U| ≤ maxItems` (the fuel constant of the model's `closure`).
Lexer universe: all dotted positions of the pattern trees of all lexical productions
(`EmovesU.univ`); `|U| + 8 ≤ C.fuel`.

No hypothesis on the grammar: the parser theorems need only `newSymbols (augment syn) = .ok S0`
(otherwise gocc has already panicked), the lexer theorems only `newLState C (itemsSet0 C) = .ok s0`
(otherwise `ItemsSet0`'s closure has panicked with "Unknown production"); a panic inside the lexer
loop is an outcome like any other and is fuel-independent as well (`lexLoop_error_stable`).

The inner work-list loops of the lexer generator are covered as well: `emoves` by
Props/C09Emoves.lean; `closureL` (`ItemList.Closure`) exhausts its work list and is idempotent
(`C09_closureL_exhausted`, `C09_closureL_idempotent`) — idempotence is what makes the new set
`items.Closure()` pass the `Equal` test against the `items` it was looked up with;
`depClosure` (`ItemSet.dependentsClosure`) exhausts its work list whenever the current set consists
of good items, which is the case for every set of every run (`C09_depClosure_exhausted`,
`C09_lexLoop_items_good`).
-/
namespace Gocc

/-! ## (D) parser: `GetItemSets` -/

/-- the context `genParser` has built when it enters the loop -/
def C09_lrCtx (syn : List SProd) (ids : List String) (S0 : PSymbols) : LRCtx :=
  { prods := (augment syn).toArray, S := S0.addTokens ids,
    fs := firstSets (S0.addTokens ids) (augment syn) }

/-- the initial collection `{ closure {S' : •S, ␚} }` -/
def C09_lrInit (C : LRCtx) : Array LRState := #[{ items := closure C [⟨0, 0, "␚"⟩] }]

/-- the universe of LR(1) items -/
def C09_lrUniv (C : LRCtx) : List Item := LoopsT.stateUniv C [⟨0, 0, "␚"⟩]

/-- the bound on the number of LR(1) states -/
def C09_lrBound (C : LRCtx) : Nat := 2 ^ (C09_lrUniv C).length

theorem C09_lrUniv_mem {C : LRCtx} {x : Item} :
    x ∈ C09_lrUniv C ↔
      x = ⟨0, 0, "␚"⟩ ∨ (x.p < C.prods.size ∧ x.d ≤ C.len x ∧ x.la ∈ firstU C.S) := by
  unfold C09_lrUniv LoopsT.stateUniv
  rw [List.mem_append, LoopsT.mem_itemUniv]
  simp

/-- `|U| ≤ maxItems`, the fuel constant of the model's `closure` -/
theorem C09_lrUniv_length_le (C : LRCtx) : (C09_lrUniv C).length ≤ C.maxItems := by
  have := LoopsT.itemUniv_length_lt C
  unfold C09_lrUniv LoopsT.stateUniv
  rw [List.length_append]
  simp only [List.length_cons, List.length_nil]
  omega

theorem C09_lrBound_le (C : LRCtx) : C09_lrBound C ≤ 2 ^ C.maxItems :=
  Nat.pow_le_pow_right (by omega) (C09_lrUniv_length_le C)

theorem C09_genParser_ctx {syn : List SProd} {ids : List String} {r : LRResult}
    (h : genParser syn ids = .ok r) :
    ∃ S0, newSymbols (augment syn) = .ok S0 ∧ r.ctx = C09_lrCtx syn ids S0 ∧
      r.states = lrLoop r.ctx 4096 0 (C09_lrInit r.ctx) :=
  genParser_shape h

/-- two duplicate-free lists with the same elements pass the `Equal` test -/
theorem C09_sameItems_of_same_set {a b : List Item} (ha : a.Nodup) (hb : b.Nodup)
    (h : ∀ x, x ∈ a ↔ x ∈ b) : sameItems a b = true := by
  have l1 := List.Nodup.length_le_of_subset ha (fun x hx => (h x).1 hx)
  have l2 := List.Nodup.length_le_of_subset hb (fun x hx => (h x).2 hx)
  unfold sameItems
  simp only [Bool.and_eq_true, beq_iff_eq, List.all_eq_true, List.contains_iff_mem]
  exact ⟨by omega, fun x hx => (h x).1 hx⟩

/-- (a), general form: for every context and kernel `K` that are well-formed in the sense of
    `WFc` (Props/C09.lean) and EVERY fuel, the collection computed from `closure C K` consists of
    duplicate-free lists over `K ++ itemUniv C`, no earlier state passes the `Equal` test against a
    later one, and there are at most `2 ^ (|K| + |itemUniv C|)` states. -/
theorem C09_lrLoop_bounded_general {C : LRCtx} {K : List Item} (hW : WFc C K) (fuel : Nat) :
    (lrLoop C fuel 0 #[{ items := closure C K }]).size ≤ 2 ^ (K ++ LoopsT.itemUniv C).length ∧
    (∀ (j : Nat) (st : LRState), (lrLoop C fuel 0 #[{ items := closure C K }])[j]? = some st →
      st.items.Nodup ∧ ∀ x ∈ st.items, x ∈ K ++ LoopsT.itemUniv C) ∧
    (∀ (j k : Nat) (sj sk : LRState), j < k →
      (lrLoop C fuel 0 #[{ items := closure C K }])[j]? = some sj →
      (lrLoop C fuel 0 #[{ items := closure C K }])[k]? = some sk →
      sameItems sj.items sk.items = false) := by
  obtain ⟨h1, h2⟩ := LoopsT.lrLoop_bounded hW fuel
  exact ⟨h2, fun j st hj => ⟨h1.nodup j st hj, h1.sub j st hj⟩, h1.dist⟩

/-- (a) for the context of `genParser`: whatever the fuel, the collection has at most
    `C09_lrBound C = 2 ^ |U|` states; each is a duplicate-free list over `U`; different states are
    different as SETS of items. -/
theorem C09_lrLoop_bounded {syn : List SProd} {ids : List String} {S0 : PSymbols}
    (h : newSymbols (augment syn) = .ok S0) (fuel : Nat) :
    (lrLoop (C09_lrCtx syn ids S0) fuel 0 (C09_lrInit (C09_lrCtx syn ids S0))).size ≤
      C09_lrBound (C09_lrCtx syn ids S0) ∧
    (∀ (j : Nat) (st : LRState),
      (lrLoop (C09_lrCtx syn ids S0) fuel 0 (C09_lrInit (C09_lrCtx syn ids S0)))[j]? = some st →
      st.items.Nodup ∧ ∀ x ∈ st.items, x ∈ C09_lrUniv (C09_lrCtx syn ids S0)) ∧
    (∀ (j k : Nat) (sj sk : LRState), j ≠ k →
      (lrLoop (C09_lrCtx syn ids S0) fuel 0 (C09_lrInit (C09_lrCtx syn ids S0)))[j]? = some sj →
      (lrLoop (C09_lrCtx syn ids S0) fuel 0 (C09_lrInit (C09_lrCtx syn ids S0)))[k]? = some sk →
      ¬ ∀ x, x ∈ sj.items ↔ x ∈ sk.items) := by
  obtain ⟨h1, h2, h3⟩ := C09_lrLoop_bounded_general (C09_genParser_init_WFc ids h) fuel
  refine ⟨h1, h2, ?_⟩
  intro j k sj sk hjk hj hk hsame
  rcases Nat.lt_or_gt_of_ne hjk with hlt | hlt
  · have := h3 j k sj sk hlt hj hk
    rw [C09_sameItems_of_same_set (h2 j sj hj).1 (h2 k sk hk).1 hsame] at this
    cases this
  · have := h3 k j sk sj hlt hk hj
    rw [C09_sameItems_of_same_set (h2 k sk hk).1 (h2 j sj hj).1 (fun x => (hsame x).symm)] at this
    cases this

/-- (b) for every `fuel ≥ C09_lrBound C` the loop has stopped by itself: more fuel gives the same
    array, and every state `j` has been expanded (`LoopsT.Done`: for every symbol `X` with a
    non-empty `goto` set the transition `(X, idx)` is recorded and state `idx` holds that set).
    This is the result of the unbounded Go loop. -/
theorem C09_lrLoop_terminates {syn : List SProd} {ids : List String} {S0 : PSymbols}
    (h : newSymbols (augment syn) = .ok S0) (fuel : Nat)
    (hf : C09_lrBound (C09_lrCtx syn ids S0) ≤ fuel) :
    (∀ k, lrLoop (C09_lrCtx syn ids S0) (fuel + k) 0 (C09_lrInit (C09_lrCtx syn ids S0)) =
      lrLoop (C09_lrCtx syn ids S0) fuel 0 (C09_lrInit (C09_lrCtx syn ids S0))) ∧
    (∀ j, j < (lrLoop (C09_lrCtx syn ids S0) fuel 0 (C09_lrInit (C09_lrCtx syn ids S0))).size →
      LoopsT.Done (C09_lrCtx syn ids S0)
        (lrLoop (C09_lrCtx syn ids S0) fuel 0 (C09_lrInit (C09_lrCtx syn ids S0))) j) := by
  have hb := (C09_lrLoop_bounded (ids := ids) h fuel).1
  exact LoopsT.lrLoop_fixed _ _ fuel (by omega) (by simp [C09_lrInit])

/-- the result `R` of the unbounded loop: at most `C09_lrBound C` states, reached with exactly
    `R.size` units of fuel (one per expanded state) and with any larger fuel; all states expanded -/
theorem C09_lrLoop_result {syn : List SProd} {ids : List String} {S0 : PSymbols}
    (h : newSymbols (augment syn) = .ok S0) :
    ∃ R : Array LRState, R.size ≤ C09_lrBound (C09_lrCtx syn ids S0) ∧
      (∀ fuel, R.size ≤ fuel →
        lrLoop (C09_lrCtx syn ids S0) fuel 0 (C09_lrInit (C09_lrCtx syn ids S0)) = R) ∧
      (∀ j, j < R.size → LoopsT.Done (C09_lrCtx syn ids S0) R j) := by
  have hb := (C09_lrLoop_bounded (ids := ids) h (C09_lrBound (C09_lrCtx syn ids S0))).1
  exact ⟨_, hb, LoopsT.lrLoop_sharp _ _ _ hb,
    (C09_lrLoop_terminates h _ (Nat.le_refl _)).2⟩

/-- THE MODEL'S CONSTANT.  For any context and initial collection: if the result computed with
    `fuel` has at most `fuel` states, the fuel was not exhausted — any larger fuel gives the same
    result and every state is expanded.  (`genParser` uses `fuel = 4096`.) -/
theorem C09_lrLoop_model_fuel (C : LRCtx) (init : Array LRState) (hinit : 0 < init.size)
    (fuel : Nat) (hsz : (lrLoop C fuel 0 init).size ≤ fuel) :
    (∀ k, lrLoop C (fuel + k) 0 init = lrLoop C fuel 0 init) ∧
    (∀ j, j < (lrLoop C fuel 0 init).size → LoopsT.Done C (lrLoop C fuel 0 init) j) :=
  LoopsT.lrLoop_fixed C init fuel hsz hinit

/-- every successful run of the generator model: the number of states is below the bound; and if it
    is at most 4096 (the hypothesis of the generator-level theorems C02/C03/C06/C07), the states
    ARE the result of the unbounded loop of `GetItemSets` — no `NamesOk` needed -/
theorem C09_genParser_states_final {syn : List SProd} {ids : List String} {r : LRResult}
    (h : genParser syn ids = .ok r) :
    r.states.size ≤ C09_lrBound r.ctx ∧
    (r.states.size ≤ 4096 →
      (∀ fuel, r.states.size ≤ fuel → lrLoop r.ctx fuel 0 (C09_lrInit r.ctx) = r.states) ∧
      (∀ j, j < r.states.size → LoopsT.Done r.ctx r.states j)) := by
  obtain ⟨S0, hS0, hctx, hst⟩ := C09_genParser_ctx h
  refine ⟨?_, fun hsz => ?_⟩
  · rw [hst, hctx]; exact (C09_lrLoop_bounded hS0 4096).1
  · rw [hst] at hsz ⊢
    exact ⟨LoopsT.lrLoop_sharp _ _ 4096 hsz,
      (C09_lrLoop_model_fuel _ _ (by simp [C09_lrInit]) 4096 hsz).2⟩

/-! ### Non-vacuity: `S : a S b | c` (`C02GenEx`, 10 states) -/

/-- the universe has 65 items (= `maxItems`), the bound is `2 ^ 65`; the collection grows
    1, 4, 4, 7, 7, 8, 9, 9, 9, 10, 10 with fuel 0 … 10 -/
theorem C09_lrLoop_example_numbers : (genParser C02GenEx.syn C02GenEx.ids).toOption.map (fun r =>
    ((C09_lrUniv r.ctx).length, r.ctx.maxItems,
     (List.range 11).map fun f => (lrLoop r.ctx f 0 (C09_lrInit r.ctx)).size)) =
    some (65, 65, [1, 4, 4, 7, 7, 8, 9, 9, 9, 10, 10]) := by
  decide +kernel

/-- instance of the theorems: 10 states `≤ 2 ^ 65`; with every fuel `≥ 10` the loop returns these
    10 states; all are expanded -/
theorem C09_lrLoop_example (r : LRResult) (h : genParser C02GenEx.syn C02GenEx.ids = .ok r) :
    r.states.size = 10 ∧ C09_lrBound r.ctx = 2 ^ 65 ∧
    (∀ fuel, 10 ≤ fuel → lrLoop r.ctx fuel 0 (C09_lrInit r.ctx) = r.states) ∧
    (∀ j, j < 10 → LoopsT.Done r.ctx r.states j) := by
  have hsz := (C02GenEx.run_summary h).1
  have hnum := C09_lrLoop_example_numbers
  rw [h] at hnum
  simp only [Except.toOption, Option.map_some, Option.some.injEq, Prod.mk.injEq] at hnum
  obtain ⟨h1, h2⟩ := (C09_genParser_states_final h).2 (by omega)
  refine ⟨hsz, by unfold C09_lrBound; rw [hnum.1], ?_, ?_⟩
  · intro fuel hf; exact h1 fuel (by omega)
  · intro j hj; exact h2 j (by omega)

/-- the fixed-point statement is not trivial: with fuel 5 the loop is cut (8 states, state 5 … not
    expanded), with fuel 10 it is complete -/
example (r : LRResult) (h : genParser C02GenEx.syn C02GenEx.ids = .ok r) :
    lrLoop r.ctx 5 0 (C09_lrInit r.ctx) ≠ lrLoop r.ctx 10 0 (C09_lrInit r.ctx) := by
  have hnum := C09_lrLoop_example_numbers
  rw [h] at hnum
  simp only [Except.toOption, Option.map_some, Option.some.injEq, Prod.mk.injEq] at hnum
  intro heq
  have h5 : (lrLoop r.ctx 5 0 (C09_lrInit r.ctx)).size = 8 := by
    have := congrArg (fun l => l[5]?) hnum.2.2
    simpa using this
  have h10 : (lrLoop r.ctx 10 0 (C09_lrInit r.ctx)).size = 10 := by
    have := congrArg (fun l => l[10]?) hnum.2.2
    simpa using this
  rw [heq] at h5
  omega

/-! ## (E) lexer: `ItemSets.Closure` -/

/-- the universe of lexer items: all dotted positions of all lexical productions -/
def C09_lexUniv (C : LexCtx) : List LItem := LoopsT.lexUniv C

/-- the bound on the number of lexer item sets -/
def C09_lexBound (C : LexCtx) : Nat := 2 ^ (C09_lexUniv C).length

/-- `|U| + 8 ≤ C.fuel` (`C.fuel` = `Σ (4 * size(pattern) + 4) + 8`) -/
theorem C09_lexUniv_length_le (C : LexCtx) : (C09_lexUniv C).length + 8 ≤ C.fuel :=
  LoopsT.lexUniv_length C

/-- membership: proper dotted positions (`EmovesU.GoodPath`) of existing productions -/
theorem C09_lexUniv_mem {C : LexCtx} {x : LItem} {P : LProd} (hP : C.prods[x.prod]? = some P)
    (hg : EmovesU.GoodPath (.pat P.pat) x.path) : x ∈ C09_lexUniv C :=
  LoopsT.lgood_mem_univ ⟨P, hP, hg⟩

/-- `genLexer` with the fuel of the set loop as a parameter -/
def C09_genLexerFuel (fuel : Nat) (prods : List LProd) : Except String (Array LState) := do
  let C : LexCtx := { prods := prods.toArray }
  let s0 ← newLState C (itemsSet0 C)
  lexLoop C fuel 0 #[s0]

theorem C09_genLexer_eq (prods : List LProd) : genLexer prods = C09_genLexerFuel 100000 prods := rfl

/-- `ItemList.Closure` exhausts its work list (its fuel `|l| + C.fuel² + 8` is never exhausted):
    the result contains `l`, and every item expecting a regular definition `r` either has a shift
    item of `r` in the ORIGINAL list (Go: `this.ContainShift`) or `NewItem(r).Emoves()` is in the
    result -/
theorem C09_closureL_exhausted {C : LexCtx} {l r : List LItem} (h : closureL C l = .ok r) :
    (∀ x ∈ l, x ∈ r) ∧ ∀ i ∈ r, ∀ ref, C.expected i = some (.ref ref) →
      containShift C l ref = true ∨
      ∃ init, initialItems C ref = .ok init ∧ ∀ y ∈ init, y ∈ r :=
  LoopsT.closureL_spec h

/-- `ItemList.Closure` is idempotent — for every list, not only for good ones -/
theorem C09_closureL_idempotent {C : LexCtx} {l r : List LItem} (h : closureL C l = .ok r) :
    closureL C r = .ok r :=
  LoopsT.closureL_idem h

theorem C09_sameLItems_of_same_set {a b : List LItem} (ha : a.Nodup) (hb : b.Nodup)
    (h : ∀ x, x ∈ a ↔ x ∈ b) : sameLItems a b = true := by
  have l1 := List.Nodup.length_le_of_subset ha (fun x hx => (h x).1 hx)
  have l2 := List.Nodup.length_le_of_subset hb (fun x hx => (h x).2 hx)
  unfold sameLItems
  simp only [Bool.and_eq_true, beq_iff_eq, List.all_eq_true, List.contains_iff_mem]
  exact ⟨by omega, fun x hx => (h x).1 hx⟩

/-- (a) whatever the fuel: a result of the set loop has at most `C09_lexBound C = 2 ^ |U|` sets;
    each is a duplicate-free list over `U`; different sets are different as SETS of items -/
theorem C09_lexLoop_bounded {C : LexCtx} {s0 : LState} (h0 : newLState C (itemsSet0 C) = .ok s0)
    {fuel : Nat} {R : Array LState} (h : lexLoop C fuel 0 #[s0] = .ok R) :
    R.size ≤ C09_lexBound C ∧
    (∀ (j : Nat) (st : LState), R[j]? = some st →
      st.items.Nodup ∧ ∀ x ∈ st.items, x ∈ C09_lexUniv C) ∧
    (∀ (j k : Nat) (sj sk : LState), j ≠ k → R[j]? = some sj → R[k]? = some sk →
      ¬ ∀ x, x ∈ sj.items ↔ x ∈ sk.items) := by
  obtain ⟨h1, h2⟩ := LoopsT.lexLoop_bounded h0 h
  refine ⟨h2, fun j st hj => ⟨(h1.good j st hj).1,
    fun x hx => LoopsT.lgood_mem_univ ((h1.good j st hj).2 x hx)⟩, ?_⟩
  intro j k sj sk hjk hj hk hsame
  rcases Nat.lt_or_gt_of_ne hjk with hlt | hlt
  · have := h1.dist j k sj sk hlt hj hk
    rw [C09_sameLItems_of_same_set (h1.good j sj hj).1 (h1.good k sk hk).1 hsame] at this
    cases this
  · have := h1.dist k j sk sj hlt hk hj
    rw [C09_sameLItems_of_same_set (h1.good k sk hk).1 (h1.good j sj hj).1
      (fun x => (hsame x).symm)] at this
    cases this

/-- every item of every set of a run is a proper dotted position of an existing production -/
theorem C09_lexLoop_items_good {C : LexCtx} {s0 : LState} (h0 : newLState C (itemsSet0 C) = .ok s0)
    {fuel : Nat} {R : Array LState} (h : lexLoop C fuel 0 #[s0] = .ok R) :
    ∀ (j : Nat) (st : LState), R[j]? = some st → ∀ x ∈ st.items, LoopsT.LGood C x :=
  fun j st hj => ((LoopsT.lexLoop_bounded h0 h).1.good j st hj).2

/-- `ItemSet.dependentsClosure` exhausts its work list (its fuel `|items| + |prev| + C.fuel² + 8`
    is never exhausted) when the current set `prev` consists of good items: the result contains
    `items`, and processing any item `it` of the result adds nothing new (`LoopsT.DepNew C prev it y`:
    `y` is `thisItem ∈ prev` expecting the regular definition `it.Id`, or — if `it` is a reduce
    item — one of the items `thisItem.MoveRegDefId(it.Id)`) -/
theorem C09_depClosure_exhausted {C : LexCtx} {prev : List LItem}
    (hp : ∀ x ∈ prev, LoopsT.LGood C x) (items : List LItem) :
    (∀ x ∈ items, x ∈ depClosure C prev items) ∧
    ∀ it ∈ depClosure C prev items, ∀ y, LoopsT.DepNew C prev it y → y ∈ depClosure C prev items :=
  LoopsT.depClosure_spec hp items

/-- (b) for every `fuel ≥ C09_lexBound C` the outcome of the loop — the collection of sets, or the
    panic "Unknown production" — does not depend on the fuel any more: this is the outcome of the
    unbounded Go loop -/
theorem C09_lexLoop_terminates {C : LexCtx} {s0 : LState}
    (h0 : newLState C (itemsSet0 C) = .ok s0) (fuel : Nat) (hf : C09_lexBound C ≤ fuel) (k : Nat) :
    lexLoop C (fuel + k) 0 #[s0] = lexLoop C fuel 0 #[s0] :=
  LoopsT.lexLoop_fixed h0 fuel hf k

/-- the outcome of the unbounded loop: a panic, or a collection `R` of at most `C09_lexBound C`
    sets that is reached with exactly `R.size` units of fuel (one per expanded set) and with any
    larger fuel -/
theorem C09_lexLoop_result {C : LexCtx} {s0 : LState} (h0 : newLState C (itemsSet0 C) = .ok s0) :
    (∃ e, ∀ fuel, C09_lexBound C ≤ fuel → lexLoop C fuel 0 #[s0] = .error e) ∨
    (∃ R : Array LState, R.size ≤ C09_lexBound C ∧
      ∀ fuel, R.size ≤ fuel → lexLoop C fuel 0 #[s0] = .ok R) := by
  cases h : lexLoop C (C09_lexBound C) 0 #[s0] with
  | error e =>
    left
    refine ⟨e, fun fuel hf => ?_⟩
    obtain ⟨k, rfl⟩ : ∃ k, fuel = C09_lexBound C + k := ⟨fuel - C09_lexBound C, by omega⟩
    exact LoopsT.lexLoop_error_stable C _ 0 _ e h k
  | ok R =>
    right
    have hb := (C09_lexLoop_bounded h0 h).1
    exact ⟨R, hb, LoopsT.lexLoop_sharp C _ R _ h hb⟩

/-- THE MODEL'S CONSTANT.  If the result computed with `fuel` has at most `fuel` sets, the fuel was
    not exhausted: every fuel `≥ R.size` gives the same result.  A panic is reached with every
    larger fuel as well.  (`genLexer` uses `fuel = 100000`.) -/
theorem C09_lexLoop_model_fuel (C : LexCtx) (init : Array LState) (fuel : Nat) :
    (∀ R, lexLoop C fuel 0 init = .ok R → R.size ≤ fuel →
      ∀ fuel', R.size ≤ fuel' → lexLoop C fuel' 0 init = .ok R) ∧
    (∀ e, lexLoop C fuel 0 init = .error e → ∀ k, lexLoop C (fuel + k) 0 init = .error e) :=
  ⟨fun R h hsz => LoopsT.lexLoop_sharp C init R fuel h hsz,
   fun e h => LoopsT.lexLoop_error_stable C fuel 0 init e h⟩

/-- every run of the lexer-generator model: a result has at most `C09_lexBound` sets; if it has at
    most 100000 sets it IS the result of the unbounded loop; a panic is a panic for every larger
    fuel; and from `fuel = C09_lexBound` on nothing depends on the fuel -/
theorem C09_genLexer_final (prods : List LProd) :
    (∀ R, genLexer prods = .ok R → R.size ≤ C09_lexBound { prods := prods.toArray } ∧
      (R.size ≤ 100000 → ∀ fuel, R.size ≤ fuel → C09_genLexerFuel fuel prods = .ok R)) ∧
    (∀ e, genLexer prods = .error e → ∀ k, C09_genLexerFuel (100000 + k) prods = .error e) ∧
    (∀ fuel, C09_lexBound { prods := prods.toArray } ≤ fuel → ∀ k,
      C09_genLexerFuel (fuel + k) prods = C09_genLexerFuel fuel prods) := by
  rw [C09_genLexer_eq]
  unfold C09_genLexerFuel
  simp only [bind, Except.bind]
  cases h0 : newLState { prods := prods.toArray } (itemsSet0 { prods := prods.toArray }) with
  | error e0 =>
    refine ⟨fun R h => (by cases h), fun e h k => h, fun _ _ _ => rfl⟩
  | ok s0 =>
    dsimp only
    refine ⟨fun R h => ⟨(C09_lexLoop_bounded h0 h).1, fun hsz =>
        (C09_lexLoop_model_fuel _ _ 100000).1 R h hsz⟩,
      fun e h => (C09_lexLoop_model_fuel _ _ 100000).2 e h,
      fun fuel hf k => C09_lexLoop_terminates h0 fuel hf k⟩

/-! ### Non-vacuity: the lexer `c09eLexC` of Props/C09Emoves.lean
```
u  : 'x' ( 'a' | { [ 'b' | ( 'c' | _r ) ] 'e' | [ 'f' ] } ) [ 'z' ] | . ;
_r : 'q' { 'q' } ;
```
(nesting depth 4, a reference to a regular definition — `closureL` and `depClosure` are not the
identity) -/

/-- 7 sets; the universe has 55 positions (`C.fuel = 180`); the collection grows with the fuel -/
theorem C09_lexLoop_example_numbers :
    ((genLexer c09eLexC.prods.toList).toOption.map (·.size),
     (C09_lexUniv c09eLexC).length, c09eLexC.fuel,
     (List.range 9).map fun f => (C09_genLexerFuel f c09eLexC.prods.toList).toOption.map (·.size)) =
    (some 7, 55, 180, [some 1, some 3, some 7, some 7, some 7, some 7, some 7, some 7, some 7]) := by
  decide +kernel

/-- instance of the theorems: `7 ≤ 2 ^ 55` sets, and every fuel `≥ 7` returns exactly these sets -/
theorem C09_lexLoop_example (R : Array LState) (h : genLexer c09eLexC.prods.toList = .ok R) :
    R.size = 7 ∧ C09_lexBound c09eLexC = 2 ^ 55 ∧
    ∀ fuel, 7 ≤ fuel → C09_genLexerFuel fuel c09eLexC.prods.toList = .ok R := by
  have hnum := C09_lexLoop_example_numbers
  rw [h] at hnum
  simp only [Except.toOption, Option.map_some, Prod.mk.injEq, Option.some.injEq] at hnum
  obtain ⟨h1, h2⟩ := (C09_genLexer_final c09eLexC.prods.toList).1 R h
  refine ⟨hnum.1, by unfold C09_lexBound; rw [hnum.2.1], ?_⟩
  intro fuel hf
  exact h2 (by omega) fuel (by omega)

/-- a panic inside the loop: `t : 'a' _x ;` with `_x` undefined — the initial set `{ t : •'a' _x }`
    is built, expanding it computes `{ t : 'a' •_x }.Closure()`, which panics; the outcome is the
    same for every fuel `≥ 1` -/
def c09PanicProds : List LProd :=
  [{ kind := .tok, id := "t", pat := .mk [.mk [.lit 97, .ref "_x"]] }]

/-- the outcome as a decidable value: number of sets, or the panic message -/
def c09Outcome (r : Except String (Array LState)) : Nat ⊕ String :=
  match r with
  | .ok R => .inl R.size
  | .error e => .inr e

theorem c09Panic_run : c09Outcome (C09_genLexerFuel 0 c09PanicProds) = .inl 1 ∧
    c09Outcome (C09_genLexerFuel 1 c09PanicProds) = .inr "Unknown production: _x" ∧
    c09Outcome (genLexer c09PanicProds) = .inr "Unknown production: _x" := by
  decide +kernel

example (k : Nat) :
    C09_genLexerFuel (100000 + k) c09PanicProds = .error "Unknown production: _x" := by
  have h := c09Panic_run.2.2
  cases hg : genLexer c09PanicProds with
  | ok R => rw [hg] at h; cases h
  | error e =>
    rw [hg] at h
    simp only [c09Outcome, Sum.inr.injEq] at h
    subst h
    exact (C09_genLexer_final c09PanicProds).2.1 _ hg k

end Gocc
