import Gocc.Gen.Frontend
import Gocc.Props.C02
import Gocc.Props.C02Complete
/-
C15 — the front end accepts exactly the token language of spec/gocc2.ebnf.

`Gocc.Gen.Frontend` is REGENERATED from /repo on every run: `feT` is the shipped table set
(internal/frontend/parser/tables.go), `feG` the grammar read from spec/gocc2.ebnf ("error" and
"empty" as ordinary literal terminals), `feCert` an untrusted certificate.  The kernel evaluates
the verified validator on them (`decide`), so a changed table entry or a changed production
breaks these theorems, not a sample.
-/
namespace Gocc
open Gocc.Gen

set_option maxRecDepth 1000000 in
theorem C15_tables_safe : safe feG feT feCert = true := by decide

set_option maxRecDepth 1000000 in
theorem C15_tables_safeEnds : safeEnds feT feCert = true := by decide

set_option maxRecDepth 1000000 in
theorem C15_no_recovery_states : feT.canRecover.toList.all (!·) = true := by decide

/-- the production table is the grammar of the ebnf: same head and same body length, index by index
    (the bodies themselves are enforced by `safe` through the stack discipline) -/
theorem C15_production_table_is_ebnf (p : Nat) (hp : p < feG.prods.size) :
    feT.prodNT[p]? = some (feG.head p) ∧ feT.prodLen[p]? = some (feG.body p).length :=
  let f := safeFacts_of C15_tables_safe C15_tables_safeEnds
  ⟨f.prodNT p hp, f.prodLen p hp⟩

/-- Soundness for ALL token sequences: whatever gocc's own parser accepts is a sentence of the
    documented grammar. -/
theorem C15_accept_implies_sentence {w : List Nat} (hw : 1 ∉ w) {cfg : PCfg} (hT : cfg.T = feT)
    {fuel : Nat} {old : PState} {r : Attr} (h : (parse cfg w fuel old).1 = Outcome.accept r) :
    NSentence feG w :=
  C02_accept_sound C15_tables_safe C15_tables_safeEnds (noRecovery_of_all C15_no_recovery_states) hw hT h

end Gocc

/-! ### The other direction: every sentence of the ebnf is accepted -/
namespace Gocc
open Gocc.Gen

set_option maxRecDepth 1000000 in
theorem C15_first_cert_closed : firstOk feG feFirst = true := by decide

set_option maxRecDepth 1000000 in
theorem C15_tables_complete : complete feG feT feFirst feCertLA = true := by decide

set_option maxRecDepth 1000000 in
theorem C15_actions_total : kindsTotal feT = true := by decide

/-- C15 at full strength, for ALL finite sequences `w` of front-end tokens (end of input is
    implicit, so `w` itself contains no end-of-input token): gocc's own table-driven parser accepts
    `w` (with enough fuel; the real loop has none) exactly when `w` is a sentence of spec/gocc2.ebnf. -/
theorem C15_accepts_iff_sentence {w : List Nat} (hw : 1 ∉ w) {cfg : PCfg} (hT : cfg.T = feT)
    (h0 : cfg.failAt = 0) (old : PState) :
    (∃ fuel r, (parse cfg w fuel old).1 = Outcome.accept r) ↔ NSentence feG w :=
  C02_accept_iff_sentence C15_tables_safe C15_tables_safeEnds C15_first_cert_closed C15_tables_complete
    (noRecovery_of_all C15_no_recovery_states)
    (C02_actsOk_of_kindsTotal h0 (by rw [hT]; exact C15_actions_total)) hT hw old

end Gocc
