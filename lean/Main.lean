import Gocc.Driver.Unit
open Gocc.Driver

def dispatch (line : String) : String :=
  match toks line with
  | [] => ""
  | op :: args =>
    match unitOp op args with
    | some r => r
    | none => "bad-op"

partial def loop (h : IO.FS.Stream) (out : IO.FS.Stream) : IO Unit := do
  let line ← h.getLine
  if line.isEmpty then return ()
  out.putStrLn (dispatch line)
  loop h out

def main : IO Unit := do
  let out ← IO.getStdout
  loop (← IO.getStdin) out
  out.flush
