import Gocc.Driver.Unit
import Gocc.Driver.Gram
import Gocc.Model.FScan
open Gocc.Driver

structure DState where
  arts : Array (Option Art) := #[]

def setArt (st : DState) (id : Nat) (a : Art) : DState :=
  let arts := if st.arts.size ≤ id then st.arts ++ Array.replicate (id + 1 - st.arts.size) none else st.arts
  { arts := arts.set! id (some a) }

def withArt (st : DState) (args : List String) (f : Art → List String → Option String) : String :=
  match args with
  | ids :: rest =>
    match ids.toNat? with
    | some id =>
      match (st.arts[id]?).join with
      | some a => (f a rest).getD "bad-op"
      | none => "no-such-grammar"
    | none => "bad-op"
  | [] => "bad-op"

def dispatch (st : DState) (line : String) : DState × String :=
  match toks line with
  | [] => (st, "")
  | "G" :: ids :: rest =>
    match ids.toNat?, (pGrammar.run rest) with
    | some id, some (g, []) => (setArt st id (mkArt g), "ok")
    | _, _ => (st, "bad-grammar")
  | "lextab" :: args => (st, withArt st args fun a _ => some (showLexTab a))
  | "lrtab" :: args => (st, withArt st args fun a _ => some (showLRTab a))
  | "lrtabzip" :: args => (st, withArt st args fun a _ => some (showLRTabZip a))
  | "terminals" :: args => (st, withArt st args fun a _ => some (opTerminals a))
  | "scan" :: args => (st, withArt st args opScan)
  | "c05oracle" :: args => (st, withArt st args fun a _ => some (opC05 a))
  | "lritems" :: args => (st, withArt st args fun a _ => some (opLRItems a))
  | "validate" :: args => (st, withArt st args fun a _ => some (opValidate a))
  | "semspec" :: args => (st, withArt st args fun a _ => some (opSemSpec a))
  | "semcheck" :: args => (st, withArt st args fun a _ => some (opSemCheck a))
  | "earley" :: args => (st, withArt st args opEarley)
  | "tree" :: args => (st, withArt st args opTree)
  | "refscan" :: args => (st, withArt st args opRefScan)
  | "lexeq" :: args => (st, withArt st args fun a _ => some (opLexEq a))
  | "parse" :: args => (st, withArt st args opParse)
  | "feparse" :: args => (st, (opFeParse args).getD "bad-op")
  | "fescan" :: args => (st, match nats args with
      | some bs => Gocc.fscanShow bs
      | none => "bad-op")
  | "c08oracle" :: args => (st, (c08Oracle args).getD "bad-op")
  | op :: args =>
    match unitOp op args with
    | some r => (st, r)
    | none => (st, "bad-op")

partial def loop (h : IO.FS.Stream) (out : IO.FS.Stream) (st : DState) : IO Unit := do
  let line ← h.getLine
  if line.isEmpty then return ()
  let (st', r) := dispatch st line
  out.putStrLn r
  loop h out st'

def main : IO Unit := do
  let out ← IO.getStdout
  loop (← IO.getStdin) out {}
  out.flush
