#!/usr/bin/env python3
"""Orchestrator: ./run.py <Cxx> quick|thorough   (exit 0 = held, 1 = VIOLATION printed)"""
import importlib
import os
import sys
import traceback

sys.path.insert(0, os.path.dirname(os.path.abspath(__file__)))


def main():
    if len(sys.argv) < 3:
        print("usage: run.py <Cxx> quick|thorough")
        return 2
    pid, tier = sys.argv[1], sys.argv[2]
    if "--replay" in sys.argv:
        from vlib import replay
        return replay.run(pid, sys.argv[sys.argv.index("--replay") + 1])
    os.environ.setdefault("VERIF_TIER", tier)
    mod = importlib.import_module("vlib.checks." + pid.lower())
    try:
        return mod.run(tier)
    except Exception:
        # an infrastructure failure is not a property violation, but it must not look like success
        traceback.print_exc()
        print("ERROR: check %s could not run" % pid)
        return 3


if __name__ == "__main__":
    sys.exit(main())
