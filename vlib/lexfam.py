"""Lexer family: random lexical parts -> real gocc -> compiled generated lexers, compared with the
Lean model of the generator (tables), the Lean model of Scan (token streams), the reference
pattern semantics (oracle for C01) and the position/tiling spec (oracle for C08).
Used by the C01, C08 and C16 checks."""
from . import common as C
from . import gram, batch


def utf8(c):
    return list(chr(c).encode("utf-8"))


def bounds_of_pat(p, acc):
    for alt in p:
        for t in alt:
            if t[0] == 'l':
                acc.update([t[1] - 1, t[1], t[1] + 1])
            elif t[0] == 'r':
                acc.update([t[1] - 1, t[1], t[2], t[2] + 1, (t[1] + t[2]) // 2])
            elif t[0] in 'opg':
                bounds_of_pat(t[1], acc)


def probes_of(g):
    acc = {0, 0x10FFFF, 0xFFFD, 0x7F, 0x80, 0xD7FF, 0xE000, 65, 97, 48, 32, 10}
    for _, _, pat in g["lex"]:
        bounds_of_pat(pat, acc)
    for _, body, _, _ in g["syn"]:
        for k, n in body:
            if k == 2:
                for ch in n:
                    acc.update([ord(ch) - 1, ord(ch), ord(ch) + 1])
    return sorted(x for x in acc if 0 <= x <= 0x10FFFF)


def parse_model_lextab(s):
    """'n=3 ; a=2 i=0 d=15 [lo hi t ...] ; ...' -> list of (acc, ign, dot, [(lo,hi,t)])"""
    if not s.startswith("n="):
        return None
    parts = s.split(" ; ")
    states = []
    for p in parts[1:]:
        head, _, rest = p.partition("[")
        f = dict(x.split("=") for x in head.split())
        v = [int(x) for x in rest.rstrip("]").split()]
        cls = [(v[i], v[i + 1], v[i + 2]) for i in range(0, len(v), 3)]
        states.append((int(f["a"]), int(f["i"]), int(f["d"]), cls))
    return states


def model_probe_table(states, probes):
    out = ["n=%d" % len(states)]
    for acc, ign, dot, cls in states:
        row = []
        for r in probes:
            t = None
            for lo, hi, tg in cls:
                if lo <= r <= hi:
                    t = tg
                    break
            if t is None:
                t = dot if dot != -2 else -1
            row.append(str(t))
        out.append("a=%d i=%d [%s]" % (acc, ign, " ".join(row)))
    return " ; ".join(out)


BAD_BYTES = [[0xFF], [0xC0, 0x80], [0x80], [0xE2, 0x82], [0xF0, 0x9F], [0xED, 0xA0, 0x80], [0xC3]]


def gen_input(rng, states, probes, maxlen=24):
    """bytes from a random walk through the automaton (mostly live transitions)"""
    out = []
    s = 0
    if rng.random() < 0.06:
        out += [0xEF, 0xBB, 0xBF]          # a leading byte order mark is input like any other
    n = rng.randint(0, maxlen)
    for _ in range(n):
        acc, ign, dot, cls = states[s] if 0 <= s < len(states) else (0, 0, -2, [])
        r = rng.random()
        if r < 0.07:
            out += rng.choice(BAD_BYTES)
            s = 0
            continue
        if r < 0.8 and (cls or dot >= 0):
            choices = [(rng.choice([lo, hi, (lo + hi) // 2]), t) for lo, hi, t in cls]
            if dot >= 0:
                choices.append((rng.choice(probes), None))
            c, t = rng.choice(choices)
        else:
            c, t = rng.choice(probes), None
        if 0xD800 <= c < 0xE000:
            c = 0xFFFD
        out += utf8(c)
        # follow the automaton
        nxt = None
        for lo, hi, tg in cls:
            if lo <= c <= hi:
                nxt = tg
                break
        if nxt is None:
            nxt = dot if dot >= 0 else -1
        if nxt < 0 or (0 <= nxt < len(states) and states[nxt][1] == 1) or rng.random() < 0.15:
            s = 0
        else:
            s = nxt
    return out


def printed(c):
    """util.RuneToString for the runes we use here"""
    return "'%s'" % chr(c) if 0x20 <= c < 0x7f and c not in (39, 92) else None


def hostile_literals(lex):
    out = []

    def walk(p):
        for alt in p:
            for t in alt:
                if t[0] == 'l' and printed(t[1]):
                    out.append(printed(t[1]))
                elif t[0] == 'r' and printed(t[1]) and printed(t[2]):
                    out.append(printed(t[1]) + "-" + printed(t[2]))
                elif t[0] == 'd':
                    out.append(".")
                elif t[0] in "opg":
                    walk(t[1])
    for kind, _, pat in lex:
        walk(pat)
    return sorted(set(out))


# minimised past failures: they run first in every lexer-family check
CORPUS = [
    # D1 (known finding): regular definitions shared between use sites
    {"lex": [(2, "_r", [[('l', 97), ('l', 97)]]), (0, "t1", [[('f', "_r"), ('l', 120)]]), (0, "t2", [[('l', 97), ('f', "_r"), ('l', 121)]])],
     "syn": [], "mode": "multi", "inputs": [list(b"aay"), list(b"aaay"), list(b"aax")]},
    # D24 (known finding): a regular definition that matches the empty string cannot be skipped
    {"lex": [(2, "_r", [[('p', [[('l', 97)]])]]), (0, "t", [[('f', "_r"), ('l', 98)]]), (0, "u", [[('l', 99), ('f', "_r"), ('l', 98)]])],
     "syn": [], "mode": "multi", "inputs": [list(b"b"), list(b"ab"), list(b"cb"), list(b"cab")]},
    # seeded w7_C01: one class that straddles U+0080 next to a class that starts above it
    {"lex": [(1, "!ws", [[('l', 32)], [('l', 10)]]), (2, "_latin", [[('r', 0x21, 0xFF)]]), (2, "_cjk", [[('r', 0x4E00, 0x9FFF)]]),
             (0, "latin", [[('f', "_latin"), ('p', [[('f', "_latin")]])]]), (0, "cjk", [[('f', "_cjk"), ('p', [[('f', "_cjk")]])]])],
     "syn": [], "mode": "single", "inputs": [list("été".encode()), list("café 一二 x".encode()), list("a\u00ff\u0100".encode())]},
    # D13 (fixed): a string literal spelled like the printed form of a character literal
    {"lex": [(0, "t1", [[('l', 97), ('l', 98)]])], "syn": [("S0", [(1, "t1"), (2, "'a'")], 0, 0)], "mode": "none",
     "inputs": [list(b"'ab"), list(b"ab'a'"), list(b"'a'")]},
    {"lex": [(0, "t1", [[('r', 97, 122), ('l', 98)]]), (0, "t2", [[('l', 120), ('d',)]])],
     "syn": [("S0", [(1, "t1"), (2, "'a'-'z'")], 0, 0), ("S0", [(1, "t2"), (2, ".")], 0, 0)], "mode": "none",
     "inputs": [list(b"'ab"), list(b".."), list(b"x."), list(b"'a'-'z'")]},
]


def make_grammars(rng, n, tier):
    gs = [dict(g) for g in CORPUS]
    for k in range(n):
        r = rng.random()
        if r < 0.25:
            mode = "none"
        elif r < 0.65:
            mode = "single"
        else:
            mode = "multi"
        wide = rng.random() < 0.3
        lex = gram.rand_lex(rng, regdef_mode=mode, wide=wide, allow_dot=rng.random() < 0.7)
        syn = []
        if rng.random() < 0.25:
            # string literals of a syntax part compete with the named patterns
            lits = rng.sample(["ab", "a", "if", "b", "+", "aa", "0", "a1"], rng.randint(1, 3))
            if rng.random() < 0.5:
                # string literals spelled like the printed form of a term some pattern of this grammar expects
                lits += rng.sample(hostile_literals(lex), min(2, len(hostile_literals(lex))))
            toks = gram.tokens_of_lex(lex)
            body = [(2, l) for l in lits] + ([rng.choice(toks)] if toks else [])
            syn = [("S0", [b], 0, 0) for b in body]
        gs.append({"lex": lex, "syn": syn, "mode": mode})
    return gs


CHUNK = int(__import__('os').environ.get('VERIF_CHUNK', '300'))


def run_family(ck, n_grammars, n_inputs, with_reset=True):
    """runs the family in chunks (one scratch module and one compiled driver per chunk); the corpus grammars are part of every chunk"""
    out, done = [], 0
    while done < n_grammars:
        n = min(CHUNK, n_grammars - done)
        part = _run_family(ck, n, n_inputs, with_reset)
        off = len(out)
        for r in part:
            r["i"] += off
        out += part
        done += n
    return out


def _run_family(ck, n_grammars, n_inputs, with_reset=True):
    """returns list of per-grammar dicts and fills nothing in ck (callers decide what is a violation)"""
    rng = ck.rng
    gs = make_grammars(rng, n_grammars, ck.tier)
    b = batch.Batch("lex")
    res = []
    try:
        for g in gs:
            b.add(g, flags=["-a"] if g["syn"] else [])
        b.generate()
        ok_idx = [i for i, it in enumerate(b.items) if it["rc"] == 0]
        if not b.build(ok_idx):
            raise C.BuildError("generated lexer packages do not compile:\n" + b.build_log[-3000:])
        # model side: register grammars, tables, equivalence with the reference
        mlines = ["G %d %s" % (i, gram.encode(g)) for i, g in enumerate(gs)]
        mlines += ["lextab %d" % i for i in range(len(gs))]
        mlines += ["lexeq %d" % i for i in range(len(gs))]
        mlines += ["terminals %d" % i for i in range(len(gs))]
        mout = C.run_model(mlines, timeout=3000)
        n = len(gs)
        reg, mtab, meq, mterm = mout[:n], mout[n:2 * n], mout[2 * n:3 * n], mout[3 * n:4 * n]
        ilines, meta = [], []
        for i in ok_idx:
            g = gs[i]
            probes = probes_of(g)
            states = parse_model_lextab(mtab[i])
            ilines.append("lextab %d %s" % (i, " ".join(map(str, probes))))
            meta.append(("lextab", i, probes))
            ilines.append("terminals %d" % i)
            meta.append(("terminals", i, None))
            if states is None:
                continue
            for src in g.get("inputs", []):
                ilines.append("scan %d %d -1 %s" % (i, len(src) + 2, " ".join(map(str, src))))
                meta.append(("scan", i, (src, len(src) + 2, -1)))
            for _ in range(n_inputs):
                src = gen_input(rng, states, probes)
                ncalls = rng.randint(1, 6) + len(src) // 2
                reset_at = rng.randint(0, ncalls) if (with_reset and rng.random() < 0.4) else -1
                ilines.append("scan %d %d %d %s" % (i, ncalls, reset_at, " ".join(map(str, src))))
                meta.append(("scan", i, (src, ncalls, reset_at)))
        iout = b.run(ilines)
        # model + reference on the same scan lines
        scan_lines = [l for l, m in zip(ilines, meta) if m[0] == "scan"]
        reg_lines = ["G %d %s" % (i, gram.encode(g)) for i, g in enumerate(gs)]
        mscan = C.run_model(reg_lines + scan_lines + ["ref" + l for l in scan_lines], timeout=3000)[n:]
        ms, rs = mscan[:len(scan_lines)], mscan[len(scan_lines):]
        # C08 oracle on the implementation's streams
        olines = []
        scan_meta = [(l, o, m) for l, o, m in zip(ilines, iout, meta) if m[0] == "scan"]
        for l, o, m in scan_meta:
            toks = []
            good = True
            for t in o.split():
                try:
                    typ, rest = t.split("@")
                    pos, lit = rest.split("[")
                    off, line, col = pos.split(":")
                    lo, hi = lit.rstrip(")").split(",")
                    toks += [typ, off, line, col, lo, hi]
                except ValueError:
                    good = False
            olines.append("c08oracle %s | %s" % (" ".join(map(str, m[2][0])), " ".join(toks)) if good else "c08oracle x")
        overd = C.run_model(olines, timeout=3000) if olines else []
        k = 0
        def txt(i):
            t = C.Txt(b.items[i]["text"].decode("utf-8", "replace"))
            t.enc = gram.encode(gs[i])
            t.flags = b.items[i]["flags"]
            return t
        per = {i: {"i": i, "g": gs[i], "rc": b.items[i]["rc"], "hang": b.items[i]["hang"], "text": txt(i),
                   "gocc_out": b.items[i]["out"] + b.items[i]["err"],
                   "model_reg": reg[i], "model_tab": mtab[i], "lexeq": meq[i], "model_terms": mterm[i], "scans": []}
               for i in range(n)}
        for l, o, m in zip(ilines, iout, meta):
            kind, i, extra = m
            if kind == "lextab":
                states = parse_model_lextab(mtab[i])
                per[i]["impl_tab"] = o
                per[i]["model_probe_tab"] = model_probe_table(states, extra) if states is not None else mtab[i]
            elif kind == "terminals":
                per[i]["impl_terms"] = o
            else:
                per[i]["scans"].append({"src": extra[0], "ncalls": extra[1], "reset_at": extra[2],
                                        "impl": o, "model": ms[k], "ref": rs[k], "c08": overd[k], "line": l})
                k += 1
        res = [per[i] for i in range(n)]
    finally:
        b.close()
    return res
