"""Batch harness: run the real gocc binary on many grammars inside one scratch Go module, add a
small adapter package per grammar and a dump file inside the generated parser package, compile
everything into ONE driver binary with the real Go compiler, and drive it with op lines."""
import os
import shutil
import subprocess
import tempfile
from concurrent.futures import ThreadPoolExecutor

from . import common as C
from . import gram

VH_GO = r'''// Package vh: helpers shared by the per-grammar adapters and by the action texts of the
// generated grammars.
package vh

import (
	"errors"
	"fmt"
	"reflect"
	"strings"
)

type Ctx struct {
	Log    []int
	Calls  int
	FailAt int
}

type Node struct {
	Id   int
	Kids []interface{}
	Kept interface{} // MkX: the attribute slice X itself, read only when the result is rendered
}

// Children returns the node's children; for a node built by MkX they are read NOW from the retained slice.
func (n *Node) Children() []interface{} {
	if n.Kept == nil {
		return n.Kids
	}
	v := reflect.ValueOf(n.Kept)
	r := make([]interface{}, v.Len())
	for i := range r {
		r[i] = v.Index(i).Interface()
	}
	return r
}

// MkX keeps the slice X it is given (no copy): an action may retain its attributes.
func MkX(c interface{}, id int, x interface{}) (interface{}, error) {
	if err := enter(c, id); err != nil {
		return nil, err
	}
	return &Node{Id: id, Kept: x}, nil
}

var ErrFail = errors.New("vh: planned failure")

func enter(c interface{}, id int) error {
	ctx := c.(*Ctx)
	ctx.Log = append(ctx.Log, id)
	ctx.Calls++
	if ctx.FailAt != 0 && ctx.Calls == ctx.FailAt {
		return ErrFail
	}
	return nil
}

// L copies the attribute slice X (whose element type is package-specific).
func L(n int, at func(int) interface{}) []interface{} {
	r := make([]interface{}, n)
	for i := range r {
		r[i] = at(i)
	}
	return r
}

func Mk(c interface{}, id int, kids []interface{}) (interface{}, error) {
	if err := enter(c, id); err != nil {
		return nil, err
	}
	return &Node{Id: id, Kids: kids}, nil
}

// Pct receives a string literal written in the grammar's action text; it must arrive unchanged.
func Pct(c interface{}, id int, tag string, kids []interface{}) (interface{}, error) {
	if err := enter(c, id); err != nil {
		return nil, err
	}
	if tag != "%s|%d|%%|%v|%!|two  blanks" {
		return &Node{Id: id + 1000000, Kids: kids}, nil
	}
	return &Node{Id: id, Kids: kids}, nil
}

func Sel(c interface{}, id int, x interface{}) (interface{}, error) {
	if err := enter(c, id); err != nil {
		return nil, err
	}
	return &Node{Id: id, Kids: []interface{}{x}}, nil
}

// TokOf receives a typed *token.Token (the $Tn form).
func TokOf(c interface{}, id int, t interface{}) (interface{}, error) {
	if err := enter(c, id); err != nil {
		return nil, err
	}
	return &Node{Id: id, Kids: []interface{}{t}}, nil
}

type G struct {
	Scan      func(src []byte, ncalls, resetAt int) string
	Parse     func(hist [][]int, failAt []int) string
	LexTab    func(probes []rune) string
	LRTab     func() string
	Terminals func() string
	RuneValue func(lit []byte) rune
	IntValue  func(lit []byte) string
	E2E       func(src []byte) string
	Conc      func(inputs [][]byte, workers int) string
}

var Registry = map[int]*G{}

func Register(i int, g *G) { Registry[i] = g }

func Ints(v []int) string {
	s := make([]string, len(v))
	for i, x := range v {
		s[i] = fmt.Sprint(x)
	}
	return strings.Join(s, " ")
}

func Hex(s string) string { return fmt.Sprintf("x%x", s) }
'''

MAIN_GO = r'''package main

import (
	"bufio"
	"fmt"
	"os"
	"strconv"
	"strings"
	"time"

	"ws/vh"
%(imports)s
)

func ints(a []string) []int {
	r := make([]int, len(a))
	for i, s := range a {
		v, err := strconv.Atoi(s)
		if err != nil {
			panic("bad int")
		}
		r[i] = v
	}
	return r
}

func bytesOf(v []int) []byte {
	b := make([]byte, len(v))
	for i, x := range v {
		b[i] = byte(x)
	}
	return b
}

func run(line string) (res string) {
	defer func() {
		if e := recover(); e != nil {
			res = "panic"
			if os.Getenv("VH_DEBUG") != "" {
				res = fmt.Sprint("panic ", e)
			}
		}
	}()
	f := strings.Fields(line)
	if len(f) < 2 {
		return "bad-op"
	}
	id, _ := strconv.Atoi(f[1])
	g := vh.Registry[id]
	if g == nil {
		return "no-such-grammar"
	}
	args := f[2:]
	switch f[0] {
	case "lextab":
		v := ints(args)
		probes := make([]rune, len(v))
		for i, x := range v {
			probes[i] = rune(x)
		}
		return g.LexTab(probes)
	case "lrtab":
		return g.LRTab()
	case "terminals":
		return g.Terminals()
	case "scan":
		v := ints(args)
		return g.Scan(bytesOf(v[2:]), v[0], v[1])
	case "parse": // parse id failAt toks...
		v := ints(args)
		return g.Parse([][]int{v[1:]}, []int{v[0]})
	case "parsehist": // parsehist id k  failAt n toks... (k times)
		v := ints(args)
		k := v[0]
		v = v[1:]
		var hist [][]int
		var fails []int
		for i := 0; i < k; i++ {
			fails = append(fails, v[0])
			n := v[1]
			hist = append(hist, v[2:2+n])
			v = v[2+n:]
		}
		return g.Parse(hist, fails)
	case "runeval":
		return fmt.Sprintf("ok %%d", g.RuneValue(bytesOf(ints(args))))
	case "intvalue":
		return g.IntValue(bytesOf(ints(args)))
	case "e2e":
		return g.E2E(bytesOf(ints(args)))
	case "conc": // conc id workers n len bytes... (n inputs)
		v := ints(args)
		workers, n := v[0], v[1]
		v = v[2:]
		var inputs [][]byte
		for i := 0; i < n; i++ {
			l := v[0]
			inputs = append(inputs, bytesOf(v[1:1+l]))
			v = v[1+l:]
		}
		return g.Conc(inputs, workers)
	}
	return "bad-op"
}

// opLimit: a single Scan/Parse op returns in microseconds; `conc` runs thousands of them (also under the race detector)
func opLimit(line string) time.Duration {
	if strings.HasPrefix(line, "conc ") {
		return 300 * time.Second
	}
	return 2 * time.Second
}

func main() {
	in := bufio.NewReaderSize(os.Stdin, 1<<20)
	out := bufio.NewWriterSize(os.Stdout, 1<<20)
	defer out.Flush()
	// packages generated with -debug_lexer / -debug_parser print to os.Stdout: keep the protocol clean
	if devnull, err := os.OpenFile(os.DevNull, os.O_WRONLY, 0); err == nil {
		os.Stdout = devnull
	}
	for {
		line, err := in.ReadString('\n')
		if len(line) > 0 {
			// an op that does not return (a parser looping on a conflicted grammar, say) cannot be
			// interrupted: report it, flush, and leave; the harness restarts the driver after it
			done := make(chan string, 1)
			go func() { done <- run(strings.TrimRight(line, "\n")) }()
			select {
			case r := <-done:
				fmt.Fprintln(out, r)
			case <-time.After(opLimit(line)):
				fmt.Fprintln(out, "hang")
				out.Flush()
				os.Exit(3)
			}
		}
		if err != nil {
			break
		}
	}
}
'''

# zz_dump.go inside the generated parser package: exposes the unexported tables
PARSER_DUMP_GO = r'''package parser

import (
	"fmt"
	"strings"
)

// VerifDump renders the tables exactly as the compiled package holds them (after any init()).
func VerifDump(numTerminals int) string {
	w := new(strings.Builder)
	prods := make([]string, len(productionsTable))
	for i, p := range productionsTable {
		prods[i] = fmt.Sprintf("%d:%d", p.NTType, p.NumSymbols)
	}
	fmt.Fprintf(w, "n=%d prods=[%s]", len(actionTab), strings.Join(prods, " "))
	for s := range actionTab {
		fmt.Fprintf(w, " ; ")
		if actionTab[s].canRecover {
			fmt.Fprintf(w, "1")
		} else {
			fmt.Fprintf(w, "0")
		}
		for t := 0; t < numTerminals; t++ {
			switch a := actionTab[s].actions[t].(type) {
			case nil:
				fmt.Fprintf(w, " .")
			case shift:
				fmt.Fprintf(w, " s%d", int(a))
			case reduce:
				fmt.Fprintf(w, " r%d", int(a))
			case accept:
				fmt.Fprintf(w, " a")
			}
		}
		fmt.Fprintf(w, " /")
		for _, g := range gotoTab[s] {
			fmt.Fprintf(w, " %d", g)
		}
	}
	return w.String()
}

// VerifExtraActions reports non-nil entries beyond the terminal columns (there must be none).
func VerifExtraActions(numTerminals int) int {
	n := 0
	for s := range actionTab {
		for t := numTerminals; t < len(actionTab[s].actions); t++ {
			if actionTab[s].actions[t] != nil {
				n++
			}
		}
	}
	return n
}
'''

AD_HEAD = r'''package ad%(i)d

import (
	"bytes"
	"fmt"
	"os"
	"strconv"
	"strings"
	"sync"

	"ws/vh"
%(imports)s
)

var _ = bytes.Equal
var _ = os.Remove
var _ = strings.Join
var _ sync.Mutex
var _ = fmt.Sprint

func init() {
	vh.Register(%(i)d, &vh.G{
		Terminals: terminals,
		RuneValue: util.RuneValue,
		IntValue:  intValue,
%(fields)s
	})
}

// util.IntValue / util.UintValue of the generated package against strconv
func intValue(b []byte) string {
	i1, e1 := util.IntValue(b)
	i2, e2 := strconv.ParseInt(string(b), 10, 64)
	u1, f1 := util.UintValue(b)
	u2, f2 := strconv.ParseUint(string(b), 10, 64)
	if i1 == i2 && (e1 == nil) == (e2 == nil) && u1 == u2 && (f1 == nil) == (f2 == nil) {
		return "same"
	}
	return "diff"
}

// numTerminals: one past the largest type that has a name (robust against holes at the bottom of the numbering)
func numTerminals() int {
	n := 0
	for i := 0; i < 4096; i++ {
		if token.TokMap.Id(token.Type(i)) != "unknown" {
			n = i + 1
		}
	}
	return n
}

// terminals: spelling of every token type, then the inverse lookups
func terminals() string {
	n := numTerminals()
	out := make([]string, 0, n)
	for i := 0; i < n; i++ {
		id := token.TokMap.Id(token.Type(i))
		out = append(out, fmt.Sprintf("%%s=%%d", vh.Hex(id), int(token.TokMap.Type(id))))
	}
	return strings.Join(out, " ") + fmt.Sprintf(" | unknown=%%d", int(token.TokMap.Type("\x00no such token\x00")))
}
'''

AD_LEXER = r'''
func showTok(src []byte, t *token.Token) string {
	lo, hi := 0, 0
	if len(t.Lit) > 0 {
		lo, hi = t.Pos.Offset, t.Pos.Offset+len(t.Lit)
		if hi > len(src) || !bytes.Equal(t.Lit, src[lo:hi]) {
			return "LITMISMATCH"
		}
	}
	return fmt.Sprintf("%d@%d:%d:%d[%d,%d)", int(t.Type), t.Pos.Offset, t.Pos.Line, t.Pos.Column, lo, hi)
}

type scanCtx struct{ name string }

func scan(src []byte, ncalls, resetAt int) string {
	l := lexer.NewLexer(src)
	ctx := &scanCtx{"ctx"}
	l.Context = ctx
	out := make([]string, 0, ncalls)
	for k := 0; k < ncalls; k++ {
		if k == resetAt {
			l.Reset()
		}
		t := l.Scan()
		s := showTok(src, t)
		if c, ok := t.Pos.Context.(*scanCtx); !ok || c != ctx {
			s = "CTXLOST"
		}
		// a caller that appends to a literal (say, to build a qualified name) must not thereby write into the input
		_ = append(t.Lit, 0x7f)
		out = append(out, s)
	}
	res := strings.Join(out, " ")
	if resetAt < 0 {
		// the same bytes read from a file
		if f, err := os.CreateTemp("", "vh-lex-*.txt"); err == nil {
			f.Write(src)
			f.Close()
			if lf, err := lexer.NewLexerFile(f.Name()); err == nil {
				lf.Context = ctx
				out2 := make([]string, 0, ncalls)
				for k := 0; k < ncalls; k++ {
					t := lf.Scan()
					s := showTok(src, t)
					if c, ok := t.Pos.Context.(*scanCtx); !ok || c != ctx {
						s = "CTXLOST"
					}
					out2 = append(out2, s)
				}
				if r2 := strings.Join(out2, " "); r2 != res {
					res = "NEWLEXERFILE-DIFFERS " + r2 + " VS " + res
				}
			} else {
				res = "NEWLEXERFILE-ERROR " + res
			}
			os.Remove(f.Name())
		}
	}
	return res
}

func lextab(probes []rune) string {
	w := new(strings.Builder)
	fmt.Fprintf(w, "n=%d", lexer.NumStates)
	for s := 0; s < lexer.NumStates; s++ {
		ign := 0
		if lexer.ActTab[s].Ignore != "" {
			ign = 1
		}
		fmt.Fprintf(w, " ; a=%d i=%d [", int(lexer.ActTab[s].Accept), ign)
		for i, r := range probes {
			if i > 0 {
				fmt.Fprintf(w, " ")
			}
			fmt.Fprintf(w, "%d", lexer.TransTab[s](r))
		}
		fmt.Fprintf(w, "]")
	}
	return w.String()
}
'''

AD_PARSER = r'''
type fakeScanner struct {
	toks []int
	k    int
	idx  map[*token.Token]int
}

func (s *fakeScanner) Scan() *token.Token {
	var t *token.Token
	if s.k < len(s.toks) {
		t = &token.Token{Type: token.Type(s.toks[s.k]), Lit: []byte(fmt.Sprint(s.k))}
	} else {
		t = &token.Token{Type: token.EOF}
	}
	s.idx[t] = s.k
	s.k++
	return t
}

func showAttr(a interface{}, idx map[*token.Token]int) string {
	switch x := a.(type) {
	case nil:
		return "nil"
	case *token.Token:
		k, ok := idx[x]
		if !ok {
			return fmt.Sprintf("t?:%d", int(x.Type))
		}
		return fmt.Sprintf("t%d:%d", k, int(x.Type))
	case *vh.Node:
		s := fmt.Sprintf("(n%d", x.Id)
		for _, k := range x.Children() {
			s += " " + showAttr(k, idx)
		}
		return s + ")"
	case *perrors.Error:
		syms := make([]string, len(x.ErrorSymbols))
		for i, e := range x.ErrorSymbols {
			syms[i] = showAttr(e, idx)
		}
		return fmt.Sprintf("(err %s [%s] [%s])", showAttr(x.ErrorToken, idx), strings.Join(syms, " "), expTypes(x.ExpectedTokens))
	}
	return fmt.Sprintf("?%T", a)
}

func expTypes(exp []string) string {
	out := make([]string, len(exp))
	for i, e := range exp {
		out[i] = fmt.Sprint(int(token.TokMap.Type(e)))
	}
	return strings.Join(out, " ")
}

// parse runs the inputs of hist one after the other on ONE parser object.
func parse(hist [][]int, failAt []int) string {
	p := parser.NewParser()
	var outs []string
	for h, toks := range hist {
		outs = append(outs, parseOne(p, toks, failAt[h]))
	}
	return strings.Join(outs, " || ")
}

func parseOne(p *parser.Parser, toks []int, failAt int) (res string) {
	ctx := &vh.Ctx{FailAt: failAt}
	sc := &fakeScanner{toks: toks, idx: map[*token.Token]int{}}
	defer func() {
		if e := recover(); e != nil {
			res = "panic"
		}
	}()
	p.Context = ctx
	r, err := p.Parse(sc)
	var o string
	if err == nil {
		o = "ok " + showAttr(r, sc.idx)
	} else {
		e, isErr := err.(*perrors.Error)
		if !isErr {
			o = "othererr"
		} else if e.Err != nil {
			id := 0
			if len(ctx.Log) > 0 {
				id = ctx.Log[len(ctx.Log)-1]
			}
			if e.Err != vh.ErrFail {
				o = "wrongerr"
			} else {
				o = fmt.Sprintf("acterr id=%d %s top=%d exp=[%s]", id, showAttr(e.ErrorToken, sc.idx), e.StackTop, expTypes(e.ExpectedTokens))
			}
		} else {
			// rendering the error (callers print it) must not change the error value, and must be repeatable
			before := expTypes(e.ExpectedTokens)
			m1 := e.Error()
			m2 := e.Error()
			if m1 != m2 || before != expTypes(e.ExpectedTokens) {
				o = "ERRVALUE-CHANGED-BY-RENDERING "
			}
			o += fmt.Sprintf("synerr %s top=%d exp=[%s]", showAttr(e.ErrorToken, sc.idx), e.StackTop, expTypes(e.ExpectedTokens))
		}
	}
	return fmt.Sprintf("%s | log=[%s] scans=%d", o, vh.Ints(ctx.Log), sc.k)
}

func lrtab() string {
	if n := parser.VerifExtraActions(numTerminals()); n != 0 {
		return fmt.Sprintf("EXTRA-ACTIONS %d", n)
	}
	return parser.VerifDump(numTerminals())
}
'''

AD_E2E = r'''
// e2e: real lexer feeding the real parser on source bytes
func e2e(src []byte) (res string) {
	defer func() {
		if e := recover(); e != nil {
			res = "panic"
		}
	}()
	ctx := &vh.Ctx{}
	p := parser.NewParser()
	p.Context = ctx
	l := lexer.NewLexer(src)
	r, err := p.Parse(l)
	if err != nil {
		e, ok := err.(*perrors.Error)
		if !ok {
			return "othererr"
		}
		return fmt.Sprintf("err %d@%d:%d:%d exp=[%s] | log=[%s]", int(e.ErrorToken.Type), e.ErrorToken.Pos.Offset, e.ErrorToken.Pos.Line, e.ErrorToken.Pos.Column, expTypes(e.ExpectedTokens), vh.Ints(ctx.Log))
	}
	return fmt.Sprintf("ok %s | log=[%s]", showE2E(r), vh.Ints(ctx.Log))
}

func showE2E(a interface{}) string {
	switch x := a.(type) {
	case nil:
		return "nil"
	case *token.Token:
		return fmt.Sprintf("%d@%d:%d:%d", int(x.Type), x.Pos.Offset, x.Pos.Line, x.Pos.Column)
	case *vh.Node:
		s := fmt.Sprintf("(n%d", x.Id)
		for _, k := range x.Children() {
			s += " " + showE2E(k)
		}
		return s + ")"
	case *perrors.Error:
		return "(err " + showE2E(x.ErrorToken) + ")"
	}
	return fmt.Sprintf("?%T", a)
}

// conc: every input is processed by its own lexer+parser, `workers` goroutines at a time;
// the results must equal the sequential ones.
func conc(inputs [][]byte, workers int) string {
	// the concurrent run comes FIRST: lazily initialised shared state would be warmed up by a sequential run
	par := make([]string, len(inputs))
	var wg sync.WaitGroup
	sem := make(chan struct{}, workers)
	start := make(chan struct{})
	for i := range inputs {
		wg.Add(1)
		go func(i int) {
			defer wg.Done()
			<-start
			sem <- struct{}{}
			par[i] = e2e(inputs[i])
			<-sem
		}(i)
	}
	close(start)
	wg.Wait()
	seq := make([]string, len(inputs))
	for i, in := range inputs {
		seq[i] = e2e(in)
	}
	bad := 0
	for i := range inputs {
		if seq[i] != par[i] {
			bad++
		}
	}
	return fmt.Sprintf("conc n=%d workers=%d mismatches=%d", len(inputs), workers, bad)
}
'''


class Batch:
    def __init__(self, name="batch"):
        self.dir = tempfile.mkdtemp(prefix="vf_" + name + "_")
        with open(os.path.join(self.dir, "go.mod"), "w") as fh:
            fh.write("module ws\n\ngo 1.24\n")
        self.items = []      # dicts: g, flags, text, rc, out, hang
        self.exe = None
        self.gocc = C.build_gocc()

    def add(self, g, flags=(), text=None, fname="g.bnf"):
        """g: grammar value (or None when raw text is given)"""
        i = len(self.items)
        d = os.path.join(self.dir, "g%d" % i)
        os.makedirs(d)
        if text is None:
            text = gram.render(g, pkg_token="ws/g%d/out/token" % i)
        if isinstance(text, str):
            text = text.encode("utf-8")
        with open(os.path.join(d, fname), "wb") as fh:
            fh.write(text)
        self.items.append({"g": g, "flags": list(flags), "text": text, "fname": fname, "dir": d})
        return i

    def _gen_one(self, it, timeout=30):
        cmd = [self.gocc] + it["flags"] + ["-o", "out", it["fname"]]
        try:
            p = subprocess.run(cmd, cwd=it["dir"], stdout=subprocess.PIPE, stderr=subprocess.PIPE,
                               timeout=timeout, env=C.GOENV)
            it["rc"], it["out"], it["err"], it["hang"] = p.returncode, p.stdout.decode("utf-8", "replace"), p.stderr.decode("utf-8", "replace"), False
        except subprocess.TimeoutExpired:
            it["rc"], it["out"], it["err"], it["hang"] = -9, "", "", True

    def generate(self):
        with ThreadPoolExecutor(max_workers=16) as ex:
            list(ex.map(self._gen_one, [it for it in self.items if "rc" not in it]))
        # a run that exceeded the limit while sixteen others were competing for the machine is repeated alone with a
        # generous limit before it is called a hang (gocc needs 0.1 s for these grammars on an idle machine)
        for it in self.items:
            if it.get("hang"):
                shutil.rmtree(os.path.join(it["dir"], "out"), ignore_errors=True)
                self._gen_one(it, timeout=300)

    def has(self, i, pkg):
        return os.path.isdir(os.path.join(self.items[i]["dir"], "out", pkg))

    def build(self, which=None, e2e=False):
        """compile adapters for the grammars in `which` (default: all with rc == 0)"""
        if which is None:
            which = [i for i, it in enumerate(self.items) if it.get("rc") == 0]
        os.makedirs(os.path.join(self.dir, "vh"), exist_ok=True)
        with open(os.path.join(self.dir, "vh", "vh.go"), "w") as fh:
            fh.write(VH_GO)
        imports = []
        for i in which:
            has_lexer, has_parser = self.has(i, "lexer"), self.has(i, "parser")
            imps = ['\ttoken "ws/g%d/out/token"' % i, '\tutil "ws/g%d/out/util"' % i]
            fields = []
            body = ""
            if has_lexer:
                imps.append('\tlexer "ws/g%d/out/lexer"' % i)
                fields += ["\t\tScan: scan,", "\t\tLexTab: lextab,"]
                body += AD_LEXER
            if has_parser:
                imps.append('\tparser "ws/g%d/out/parser"' % i)
                imps.append('\tperrors "ws/g%d/out/errors"' % i)
                fields += ["\t\tParse: parse,", "\t\tLRTab: lrtab,"]
                body += AD_PARSER
                with open(os.path.join(self.items[i]["dir"], "out", "parser", "zz_dump.go"), "w") as fh:
                    fh.write(PARSER_DUMP_GO)
            if has_lexer and has_parser and e2e:
                fields += ["\t\tE2E: e2e,", "\t\tConc: conc,"]
                body += AD_E2E
            ad = os.path.join(self.items[i]["dir"], "ad")
            os.makedirs(ad, exist_ok=True)
            with open(os.path.join(ad, "ad.go"), "w") as fh:
                fh.write(AD_HEAD % {"i": i, "imports": "\n".join(imps), "fields": "\n".join(fields)} + body)
            imports.append('\t_ "ws/g%d/ad"' % i)
        with open(os.path.join(self.dir, "main.go"), "w") as fh:
            fh.write(MAIN_GO % {"imports": "\n".join(imports)})
        rc, log = C.sh(["go", "build", "-o", "drv", "."], cwd=self.dir, env=C.GOENV, timeout=3600)
        self.build_log = log
        if rc != 0:
            return False
        self.exe = os.path.join(self.dir, "drv")
        return True

    def build_pkgs(self, which):
        """`go build` every package directory gocc wrote for each grammar (wherever -o put them); {i: log} for failures"""
        bad = {}

        def one(i):
            rc, log = C.sh(["go", "build", "./g%d/..." % i], cwd=self.dir, env=C.GOENV, timeout=600)
            if rc != 0:
                bad[i] = log
        with ThreadPoolExecutor(max_workers=8) as ex:
            list(ex.map(one, which))
        return bad

    def build_each(self, which):
        """go vet / build each grammar's packages separately; returns {i: log} for failures"""
        bad = {}

        def one(i):
            rc, log = C.sh(["go", "build", "./g%d/out/..." % i], cwd=self.dir, env=C.GOENV, timeout=600)
            if rc != 0:
                bad[i] = log
        with ThreadPoolExecutor(max_workers=8) as ex:
            list(ex.map(one, which))
        return bad

    def run(self, lines, timeout=1200, env=None):
        """feed op lines; an op that hangs (driver exits with status 3 after printing `hang`) or kills
        the driver (memory) is reported as `hang` and the driver is restarted on the remaining ops"""
        import resource

        def limit():
            resource.setrlimit(resource.RLIMIT_AS, (12 << 30, 12 << 30))
        out = []
        rest = list(lines)
        restarts = 0
        while rest:
            p = subprocess.run([self.exe], input="\n".join(rest) + "\n", stdout=subprocess.PIPE, stderr=subprocess.PIPE,
                               text=True, timeout=timeout, env=env, preexec_fn=limit)
            got = p.stdout.split("\n")
            if got and got[-1] == "":
                got.pop()
            if len(got) == len(rest):
                out += got
                break
            restarts += 1
            if restarts > 200:
                raise C.BuildError("batch driver keeps dying: rc=%d %s" % (p.returncode, p.stderr[-500:]))
            if p.returncode == 3 and got and got[-1] == "hang":
                out += got
                rest = rest[len(got):]
            else:
                # crashed (killed / out of memory) while working on op number len(got)
                out += got + ["hang"]
                rest = rest[len(got) + 1:]
        self.restarts = getattr(self, "restarts", 0) + restarts
        return out

    def close(self):
        shutil.rmtree(self.dir, ignore_errors=True)
