"""Parser family: random syntax parts -> real gocc (-a -no_lexer, and again without -a for the exit
policy) -> compiled generated parsers with logging actions, compared with the Lean models of the
generator (tables, conflict count) and of Parse (outcomes, logs, scan counts), and judged by
table-free oracles (Earley recogniser, tree evaluation).  Used by C02-C07, C10, C16."""
import itertools
import re

from . import common as C
from . import gram, batch


def make_grammars(rng, n, p_err, conflict_bias=0.0):
    gs = []
    for k in range(n):
        nt = rng.choice([2, 3, 3, 4])
        names = ["a", "b", "c", "d"][:nt]
        with_lex = rng.random() < 0.4
        lex = gram.simple_lex_for(names + (["unused"] if rng.random() < 0.3 else [])) if with_lex else []
        terms = [(1, x) for x in names]
        if rng.random() < 0.3:
            terms.append((2, rng.choice(["+", "if", "(", "a", "•", "••"])))
        err = rng.random() < p_err
        if rng.random() < conflict_bias:
            gs.append({"lex": lex, "syn": gram.conflict_rich_syn(rng, terms), "err": False})
            continue
        if err and rng.random() < 0.25:
            # the classic shape of error recovery: a list of statements, one alternative of which is `error <sync>`;
            # the same state can then sit above different recovery states (start of input / after complete statements)
            t1, t2, t3 = (terms + terms)[:3]
            aid0 = rng.randint(1, 9) * 10
            syn = [("S0", [(0, "N1")], 0, 0), ("S0", [(0, "S0"), (0, "N1")], rng.choice([0, 1]), aid0 + 1),
                   ("N1", [t1, t2, t3], rng.choice([0, 1, 8]), aid0 + 2), ("N1", [(1, "error"), t3], rng.choice([0, 1, 2]), aid0 + 3)]
            if rng.random() < 0.5:
                syn.append(("N1", [t1, (0, "N1"), t3], 0, 0))
            syn = [(h, b, a, (i if a else 0)) for h, b, a, i in syn]
            gs.append({"lex": lex, "syn": syn, "err": True})
            continue
        syn = gram.rand_syn(rng, terms, nnt=rng.choice([1, 2, 2, 3, 3, 4]), max_alts=rng.choice([2, 3]),
                            max_len=rng.choice([2, 3, 3, 4]), p_empty=rng.choice([0, 0.2, 0.4, 0.5]),
                            p_error=0.35 if err else 0.0)
        if rng.random() < 0.08 and len(syn) > 1:
            syn.insert(rng.randrange(len(syn)), syn[rng.randrange(len(syn))])   # duplicate alternative (D9 territory)
            # keep alternatives of one head contiguous
            order = []
            for q in syn:
                if q[0] not in order:
                    order.append(q[0])
            syn.sort(key=lambda p: order.index(p[0]))
        if rng.random() < 0.07:
            syn = hostile_names(rng, syn)
        gs.append({"lex": lex, "syn": syn, "err": any(b[0][1] == "error" for _, b, _, _ in syn)})
    return gs


def hostile_names(rng, syn):
    """spellings gocc uses for its own pseudo symbols, written where the grammar language allows any name:
    a string literal "INVALID" / "␚" (the literals "empty" / "error" are known finding D16 and have their own corpus case), a string literal spelled like a production (declared
    before or after the use), a production called INVALID, `empty` next to other symbols"""
    syn = [(h, list(b), a, i) for h, b, a, i in syn]
    heads = []
    for h, _, _, _ in syn:
        if h not in heads:
            heads.append(h)
    k = rng.choice(["lit_reserved", "lit_reserved", "lit_prod", "prod_invalid", "empty_mixed"])
    cands = [i for i, (_, b, _, _) in enumerate(syn) if b[0][1] not in ("empty", "error")]
    if not cands:
        return syn
    i = rng.choice(cands)
    h, b, a, aid = syn[i]
    if k == "lit_reserved":
        b.insert(rng.randint(0, len(b)), (2, rng.choice(["INVALID", "␚"])))
    elif k == "lit_prod":
        b.insert(rng.randint(0, len(b)), (2, rng.choice(heads)))
    elif k == "empty_mixed":
        b.insert(rng.randint(0, len(b)), (1, "empty"))
    else:
        victim = rng.choice(heads[1:]) if len(heads) > 1 else heads[0]
        syn = [("INVALID" if h2 == victim else h2, [(kd, "INVALID") if (kd == 0 and n == victim) else (kd, n) for kd, n in b2], a2, i2)
               for h2, b2, a2, i2 in syn]
        return syn
    syn[i] = (h, b, 0 if a in (2, 3, 4, 7, 9) else a, aid if a not in (2, 3, 4, 7, 9) else 0)
    return syn


def strip_error(g):
    syn = [p for p in g["syn"] if p[1][0][1] != "error"]
    heads = {p[0] for p in g["syn"]}
    if not syn or {p[0] for p in syn} != heads or syn[0][0] != g["syn"][0][0]:
        return None
    return {"lex": g["lex"], "syn": syn, "err": False}


def parse_terminals(s):
    """'xNAME=idx ... | unknown=0' -> (names, inverse_ok, unknown)"""
    left, _, right = s.partition(" | ")
    names, ok = [], True
    for k, item in enumerate(left.split()):
        h, _, idx = item.rpartition("=")
        names.append(bytes.fromhex(h[1:]).decode("utf-8", "replace"))
        ok = ok and idx == str(k)
    return names, ok, right.strip()


def sentences(rng, g, types, n, maxdepth=7, maxlen=30):
    """random sentences by derivation (token type lists)"""
    prods = {}
    for head, body, _, _ in g["syn"]:
        prods.setdefault(head, []).append(body)
    start = g["syn"][0][0]
    out = []

    def expand(sym, depth):
        alts = prods[sym]
        if depth <= 0:
            alts = sorted(alts, key=len)[:1]
        body = rng.choice(alts)
        res = []
        for k, name in body:
            if name == "empty" and body[0][1] == "empty":
                return []
            if name in prods and k == 0:
                r = expand(name, depth - 1)
                if r is None:
                    return None
                res += r
            else:
                if name not in types:
                    return None
                res.append(types[name])
            if len(res) > maxlen + 10:
                return None
        return res
    for _ in range(n * 3):
        try:
            s = expand(start, rng.randint(1, maxdepth))
        except RecursionError:
            s = None
        if s is not None and len(s) <= maxlen:
            out.append(s)
        if len(out) >= n:
            break
    return out


def long_sentence(rng, g, types, target=400):
    """a sentence of about `target` tokens (deep parser stack), or None if the grammar has no recursion to pump"""
    import sys
    sys.setrecursionlimit(20000)
    prods = {}
    for head, body, _, _ in g["syn"]:
        prods.setdefault(head, []).append([] if body[0][1] == "empty" else body)
    INF = 10 ** 9
    minlen = {h: INF for h in prods}
    changed = True
    while changed:
        changed = False
        for h, alts in prods.items():
            for b in alts:
                l = 0
                for k, nm in b:
                    l += minlen.get(nm, INF) if (k == 0 and nm in prods) else (1 if nm in types else INF)
                if l < minlen[h]:
                    minlen[h] = l
                    changed = True
    start = g["syn"][0][0]
    if minlen.get(start, INF) >= INF:
        return None
    budget = [target]

    def cost(b):
        return sum(minlen.get(nm, INF) if (k == 0 and nm in prods) else (1 if nm in types else INF) for k, nm in b)

    def gen(sym, depth):
        alts = [b for b in prods[sym] if cost(b) < INF]
        rec = [b for b in alts if any(k == 0 and nm in prods for k, nm in b)]
        budget[0] -= 1
        if budget[0] > 0 and rec and depth < 4000:
            b = rng.choice(rec)
        else:
            b = min(alts, key=cost)
        out = []
        for k, nm in b:
            if k == 0 and nm in prods:
                out += gen(nm, depth + 1)
            else:
                out.append(types[nm])
                budget[0] -= 1
        return out
    try:
        s2 = gen(start, 0)
    except RecursionError:
        return None
    return s2 if 100 < len(s2) <= 900 else None


def deep_sentence(rng, g, types, depth=130, maxlen=1500):
    """a sentence whose LR parse needs a stack deeper than `depth`: pumps a recursion `A => alpha A' beta` in which
    something (alpha, at least one token) stays on the stack while A' is parsed (right or centre recursion); None if
    the grammar has no such recursion"""
    prods = {}
    for head, body, _, _ in g["syn"]:
        prods.setdefault(head, []).append([] if body[0][1] == "empty" else list(body))
    INF = 10 ** 9

    def is_nt(sy):
        return sy[0] == 0 and sy[1] in prods
    minexp = {}
    changed = True
    while changed:
        changed = False
        for h, alts in prods.items():
            for b in alts:
                out, ok = [], True
                for sy in b:
                    if is_nt(sy):
                        if sy[1] not in minexp:
                            ok = False
                            break
                        out += minexp[sy[1]]
                    elif sy[1] in types:
                        out.append(types[sy[1]])
                    else:
                        ok = False
                        break
                if ok and (h not in minexp or len(out) < len(minexp[h])):
                    minexp[h] = out
                    changed = True
    start = g["syn"][0][0]
    if start not in minexp:
        return None

    def finite(b):
        return all((sy[1] in minexp) if is_nt(sy) else (sy[1] in types) for sy in b)

    def expand_min(b):
        out = []
        for sy in b:
            out += minexp[sy[1]] if is_nt(sy) else [types[sy[1]]]
        return out
    reach = {h: {h} for h in prods}
    changed = True
    while changed:
        changed = False
        for h, alts in prods.items():
            for b in alts:
                if not finite(b):
                    continue
                for sy in b:
                    if is_nt(sy) and not reach[sy[1]] <= reach[h]:
                        reach[h] |= reach[sy[1]]
                        changed = True
    # pump sites: (A, alternative, position j) with a token-bearing prefix and A reachable again from b[j]
    sites = {}
    for h, alts in prods.items():
        for b in alts:
            if not finite(b):
                continue
            for j in range(1, len(b)):
                if is_nt(b[j]) and h in reach[b[j][1]] and len(expand_min(b[:j])) >= 1:
                    sites.setdefault(h, []).append((b, j))
    cands = [a for a in sites if a in reach[start]]
    if not cands:
        return None
    A = rng.choice(sorted(cands))

    def walk(sym, n):
        """derive from sym, passing n more times through a pump site of A"""
        if sym == A and n > 0:
            b, j = rng.choice(sites[A])
            return expand_min(b[:j]) + walk(b[j][1], n - 1) + expand_min(b[j + 1:])
        if n == 0 and sym != A:
            return list(minexp[sym])
        if n == 0:
            return list(minexp[A])
        # go towards A
        opts = [(b, j) for b in prods[sym] if finite(b) for j in range(len(b)) if is_nt(b[j]) and A in reach[b[j][1]] and b[j][1] != sym]
        if not opts:
            opts = [(b, j) for b in prods[sym] if finite(b) for j in range(len(b)) if is_nt(b[j]) and A in reach[b[j][1]]]
        if not opts:
            return list(minexp[sym])
        b, j = rng.choice(opts)
        return expand_min(b[:j]) + walk(b[j][1], n) + expand_min(b[j + 1:])
    import sys
    sys.setrecursionlimit(20000)
    try:
        out = walk(start, depth)
    except RecursionError:
        return None
    return out if len(out) <= maxlen else None


def mutate(rng, s, alphabet):
    s = list(s)
    k = rng.random()
    if k < 0.3 and s:
        del s[rng.randrange(len(s))]
    elif k < 0.6:
        s.insert(rng.randint(0, len(s)), rng.choice(alphabet))
    elif s:
        s[rng.randrange(len(s))] = rng.choice(alphabet)
    return s


def gen_inputs(rng, g, types, n_random, max_enum=130):
    tts = sorted(v for k2, v in types.items() if v >= 2 and k2 != "error")
    alphabet = tts + [0]
    inputs = []
    # exhaustive short sequences
    L = 0
    total = 1
    while len(tts) > 0 and total + len(tts) ** (L + 1) <= max_enum and L < 6:
        L += 1
        total += len(tts) ** L
    for l in range(L + 1):
        inputs += [list(t) for t in itertools.product(tts, repeat=l)]
    sents = sentences(rng, g, types, n_random)
    ls = long_sentence(rng, g, types, target=rng.choice([120, 300]))
    if ls:
        sents.append(ls)
    inputs += sents
    for s in sents:
        inputs.append(mutate(rng, s, alphabet))
        if rng.random() < 0.5:
            inputs.append(mutate(rng, mutate(rng, s, alphabet), alphabet))
    seen, uniq = set(), []
    for s in inputs:
        if tuple(s) not in seen:
            seen.add(tuple(s))
            uniq.append(s)
    return uniq


CHUNK = int(__import__('os').environ.get('VERIF_CHUNK', '250'))     # grammars per compiled driver: keeps one `go build` and one driver process small


def run_family(ck, n_grammars, n_random, p_err=0.3, want_hist=True, conflict_bias=0.0, zip_frac=0.25, extra=None):
    """runs the family in chunks of CHUNK grammars (one scratch module and one compiled driver per chunk);
    `extra`: fixed grammars (corpus) that run first"""
    out, done = [], 0
    while done < n_grammars:
        n = min(CHUNK, n_grammars - done)
        part = _run_family(ck, n, n_random, p_err, want_hist, conflict_bias, zip_frac, extra if done == 0 else None)
        off = len(out)
        for r in part:
            r["gi"] += off
        out += part
        done += n
    return out


# known finding D16: a string literal spelled `empty` (or `error`) is taken for the keyword
D16_GRAMMAR = {"lex": [], "syn": [("S0", [(2, "empty"), (1, "a")], 0, 0), ("S0", [(1, "b")], 0, 0)], "err": False, "d16": True}


def _run_family(ck, n_grammars, n_random, p_err=0.3, want_hist=True, conflict_bias=0.0, zip_frac=0.25, extra=None):
    rng = ck.rng
    gs = [dict(g) for g in (extra or [])] + make_grammars(rng, n_grammars, p_err, conflict_bias)
    b = batch.Batch("parse")
    out = []
    try:
        idx = []
        for g in gs:
            # a quarter of the parsers are generated with -zip: the compiled tables (after init()) must be the same
            i_a = b.add(g, flags=["-a", "-no_lexer"] + (["-zip"] if rng.random() < zip_frac else []))
            text = b.items[i_a]["text"]
            i_n = b.add(g, flags=["-no_lexer"], text=text.replace(b"ws/g%d/" % i_a, b"ws/g%d/" % (i_a + 1)))
            sg = strip_error(g) if g["err"] else None
            i_s = b.add(sg, flags=["-a", "-no_lexer"]) if sg is not None else None
            idx.append((i_a, i_n, i_s, sg))
        b.generate()
        comp = [i for t in idx for i in (t[0], t[2]) if i is not None and b.items[i]["rc"] == 0]
        if not b.build(comp):
            raise C.BuildError("generated parser packages do not compile:\n" + b.build_log[-3000:])
        # model: register every compiled grammar under its batch index
        reg = []
        for (i_a, i_n, i_s, sg), g in zip(idx, gs):
            reg.append("G %d %s" % (i_a, gram.encode(g)))
            if i_s is not None:
                reg.append("G %d %s" % (i_s, gram.encode(sg)))
        nreg = len(reg)
        tab_lines = []
        for (i_a, i_n, i_s, sg) in idx:
            # a -zip build is compared with the model's `zipTables (genParser g)` (Model/ActionFold: encodeRow, decodeRow, copyGoto),
            # the plain build with `genParser g` itself; Props/C12Tables proves the two equal
            zipped = "-zip" in b.items[i_a]["flags"]
            tab_lines += ["%s %d" % ("lrtabzip" if zipped else "lrtab", i_a), "terminals %d" % i_a, "c05oracle %d" % i_a, "validate %d" % i_a]
        mtabs = C.run_model(reg + tab_lines, timeout=3000)[nreg:]
        itabs_lines = []
        for (i_a, i_n, i_s, sg) in idx:
            if b.items[i_a]["rc"] == 0:
                itabs_lines += ["lrtab %d" % i_a, "terminals %d" % i_a]
            if i_s is not None and b.items[i_s]["rc"] == 0:
                itabs_lines += ["terminals %d" % i_s]
        itabs = dict(zip(itabs_lines, b.run(itabs_lines))) if itabs_lines else {}
        # inputs
        ilines, meta = [], []
        names_by_gi = {}
        for gi, ((i_a, i_n, i_s, sg), g) in enumerate(zip(idx, gs)):
            if b.items[i_a]["rc"] != 0:
                continue
            names, inv_ok, unknown = parse_terminals(itabs["terminals %d" % i_a])
            types = {nm: k for k, nm in enumerate(names)}
            inputs = gen_inputs(rng, g, types, n_random)
            stypes = None
            if i_s is not None and b.items[i_s]["rc"] == 0:
                snames, _, _ = parse_terminals(itabs["terminals %d" % i_s])
                stypes = {nm: k for k, nm in enumerate(snames)}
                names_by_gi[gi] = (names, snames)
            for w in inputs:
                ilines.append("parse %d 0 %s" % (i_a, " ".join(map(str, w))))
                meta.append((gi, "parse", w, 0))
                if stypes is not None and all(names[t] in stypes for t in w):
                    # the twin without error alternatives numbers its terminals differently: translate by name
                    ws = [stypes[names[t]] for t in w]
                    ilines.append("parse %d 0 %s" % (i_s, " ".join(map(str, ws))))
                    meta.append((gi, "stripped", w, 0))
            if want_hist and inputs:
                # one long sentence per grammar where the grammar allows it: a deep stack must not leave traces in the object
                ls = deep_sentence(rng, g, types) or long_sentence(rng, g, types)
                longs = [ls] if ls else []
                after = [x for x in sentences(rng, g, types, 4) if 0 < len(x) <= 40] if longs else []
                longer = [x for x in inputs if len(x) >= 3] or inputs
                for k3 in range(3 + (2 if g["err"] else 0)):
                    if g["err"] and k3 >= 2:
                        # recovering parsers: several erroneous inputs of some length on ONE object (what is remembered
                        # from one recovery must not leak into the next)
                        hist = [rng.choice(longer) for _ in range(rng.randint(4, 8))]
                    else:
                        hist = [rng.choice(inputs) for _ in range(rng.randint(2, 5))]
                    fails = [rng.choice([0, 0, 1, 2]) for _ in hist]
                    if longs and k3 == 0:
                        # the deep parse is followed by sentences whose actions read their attributes
                        at = rng.randint(0, len(hist) - 1)
                        tail = [rng.choice(after) for _ in range(2)] if after else []
                        hist = hist[:at] + [longs[0]] + tail + hist[at:]
                        fails = fails[:at] + [rng.choice([0, 0, 1])] + [0] * len(tail) + fails[at:]
                    ilines.append("parsehist %d %d %s" % (i_a, len(hist), " ".join("%d %d %s" % (f, len(h), " ".join(map(str, h))) for f, h in zip(fails, hist)).replace("  ", " ")))
                    meta.append((gi, "hist", hist, fails))
        iout = b.run(ilines) if ilines else []
        # second round on the implementation: failing actions for accepted inputs, INVALID-lookahead baseline for errors
        il2, meta2 = [], []
        for l, o, m in zip(ilines, iout, meta):
            gi, kind, w, _ = m
            if kind != "parse":
                continue
            i_a = idx[gi][0]
            if o.startswith("ok "):
                calls = len(re.search(r"log=\[([^\]]*)\]", o).group(1).split())
                for f in sorted(set([1, calls, rng.randint(1, max(1, calls))])) if calls else []:
                    il2.append("parse %d %d %s" % (i_a, f, " ".join(map(str, w))))
                    meta2.append((gi, "fail", w, f))
            elif o.startswith("synerr"):
                k = int(re.match(r"synerr t(\d+):", o).group(1))
                il2.append("parse %d 0 %s" % (i_a, " ".join(map(str, w[:k] + [0]))))
                meta2.append((gi, "baseline", w, k))
        iout2 = b.run(il2) if il2 else []
        # model on the same parse lines; oracles
        plines = [l for l, m in zip(ilines, meta) if m[1] in ("parse", "stripped")] + il2
        hist_lines = [l for l, m in zip(ilines, meta) if m[1] == "hist"]
        # the model has no parsehist op: a history is a sequence of independent parses (Parse starts with Reset)
        hist_as_parses = []
        for l, m in zip(ilines, meta):
            if m[1] == "hist":
                for h, f in zip(m[2], m[3]):
                    hist_as_parses.append("parse %d %d %s" % (idx[m[0]][0], f, " ".join(map(str, h))))
        olines = []
        for l, m in list(zip(ilines, meta)) + list(zip(il2, meta2)):
            # the oracles are cubic: long inputs (deep-stack tests) are compared with the model only
            if m[1] == "parse" and len(m[2]) <= 40:
                f = l.split()
                olines.append("earley %s %s" % (f[1], " ".join(f[3:])))
                olines.append("tree %s 0 %s" % (f[1], " ".join(f[3:])))
            elif m[1] == "fail" and len(m[2]) <= 40:
                f = l.split()
                olines.append("tree %s %s %s" % (f[1], f[2], " ".join(f[3:])))
        fresh = b.run(hist_as_parses) if hist_as_parses else []
        mall = C.run_model(reg + plines + hist_as_parses + olines, timeout=6000)[nreg:]
        mp = dict(zip(plines, mall[:len(plines)]))
        mh = mall[len(plines):len(plines) + len(hist_as_parses)]
        mo = dict(zip(olines, mall[len(plines) + len(hist_as_parses):]))
        # assemble
        hk = 0
        per = []
        for gi, ((i_a, i_n, i_s, sg), g) in enumerate(zip(idx, gs)):
            ia, inn = b.items[i_a], b.items[i_n]
            t = C.Txt(ia["text"].decode())
            t.enc = gram.encode(g)
            t.flags = ia["flags"]
            rec = {"gi": gi, "g": g, "text": t, "rc_a": ia["rc"], "rc_noa": inn["rc"], "hang": ia["hang"] or inn["hang"],
                   "out_a": ia["out"], "out_noa": inn["out"], "err_a": ia["err"], "err_noa": inn["err"],
                   "model_lrtab": mtabs[4 * gi], "model_terms": mtabs[4 * gi + 1], "c05": mtabs[4 * gi + 2], "validate": mtabs[4 * gi + 3],
                   "impl_lrtab": itabs.get("lrtab %d" % i_a), "impl_terms": itabs.get("terminals %d" % i_a),
                   "stripped": i_s is not None and b.items[i_s]["rc"] == 0,
                   "stripped_conflicts": conflicts_reported(b.items[i_s]["out"]) if i_s is not None else None,
                   "names": names_by_gi.get(gi), "cases": [], "hists": []}
            per.append(rec)
        for l, o, m in zip(ilines, iout, meta):
            gi, kind, w, extra = m
            if kind == "hist":
                n = len(w)
                per[gi]["hists"].append({"line": l, "impl": o, "model": " || ".join(mh[hk:hk + n]),
                                         "fresh": " || ".join(fresh[hk:hk + n]), "hist": w, "fails": extra})
                hk += n
            else:
                f = l.split()
                per[gi]["cases"].append({"kind": kind, "w": w, "line": l, "impl": o, "model": mp[l],
                                         "earley": mo.get("earley %s %s" % (f[1], " ".join(f[3:]))) if kind == "parse" else None,
                                         "tree": mo.get("tree %s 0 %s" % (f[1], " ".join(f[3:]))) if kind == "parse" else None})
        for l, o, m in zip(il2, iout2, meta2):
            gi, kind, w, extra = m
            f = l.split()
            per[gi]["cases"].append({"kind": kind, "w": w, "extra": extra, "line": l, "impl": o, "model": mp[l],
                                     "tree": mo.get("tree %s %s %s" % (f[1], f[2], " ".join(f[3:]))) if kind == "fail" else None})
        out = per
    finally:
        b.close()
    return out


def conflicts_reported(out):
    m = re.search(r"(\d+) LR-1 conflicts", out)
    return int(m.group(1)) if m else 0


def model_conflicts(lrtab):
    m = re.search(r" c=(\d+) ", lrtab)
    return int(m.group(1)) if m else None


def strip_c(lrtab):
    return re.sub(r" c=\d+ ", " ", lrtab)
