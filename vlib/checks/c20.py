"""C20 — literal conversion helpers agree with Go's own literal semantics.
Proof: Gocc.Props.C20 (all valid rune literals; the two copies agree on all byte strings).
Tie: util.LitToRune (generator) and util.RuneValue (compiled generated package) vs the Lean models;
oracle: Go's strconv.Unquote on the same literal."""
from .. import common as C
from .. import batch


def lit(s):
    return list(s) if isinstance(s, (bytes, bytearray)) else list(s.encode("utf-8", "surrogatepass"))


def gen_lits(rng, tier):
    L = []
    q = b"'"
    for ch in "abfnrtv\\'\"?0e":
        L.append(q + b"\\" + ch.encode() + q)
    hexd = "0123456789abcdefABCDEF"
    for a in hexd:
        for b in hexd:
            L.append(q + b"\\x" + (a + b).encode() + q)
    for n in range(512):
        L.append(q + b"\\" + ("%03o" % n).encode() + q)
    step = 97 if tier == "quick" else 1
    for c in range(0, 0x10000, step):
        L.append(q + ("\\u%04x" % c).encode() + q)
    for c in list(range(0xD7F0, 0xE010)) + [0xFFFF, 0xFFFD, 0x7F, 0x80, 0x7FF, 0x800]:
        L.append(q + ("\\u%04X" % c).encode() + q)
    n_rand = 3000 if tier == "quick" else 120000
    for _ in range(n_rand):
        c = rng.choice([rng.randint(0, 0x10FFFF), rng.randint(0, 0x2000), rng.randint(0x10FFF0, 0x110010), rng.randint(0xD7F0, 0xE010)])
        k = rng.random()
        if k < 0.4:
            L.append(q + ("\\U%08x" % c).encode() + q)
        elif k < 0.5:
            L.append(q + ("\\U%08X" % c).encode() + q)
        else:
            if c <= 0x10FFFF:
                L.append(q + chr(c).encode("utf-8", "surrogatepass") + q)
    if tier == "thorough":
        for c in range(0, 0x110000):
            if not (0xD800 <= c < 0xE000):
                L.append(q + chr(c).encode("utf-8") + q)
                L.append(q + ("\\U%08x" % c).encode() + q)
    # malformed: both sides must reject (panic) or agree
    bad = [b"''", b"'", b"'\\'", b"'ab'", b"'\\x4'", b"'\\x4g'", b"'\\u12'", b"'\\u12G4'", b"'\\U0011000'", b"'\\400'", b"'\\08'",
           b"'\\9'", b"'\\", b"'\\x'", b"'\xff'", b"'\xc3'", b"'\xe2\x82'", b"'\xed\xa0\x80'", b"'a", b"a'", b"'\\uD800'", b"'\\U00110000'",
           b"'\\u00e9x'", b"'\\x41B'", b"'\\101'", b"'\\1012'", b"'\\u004100'", b"'\\U0001F600'", b"'\\U0001F6000'"]
    for _ in range(300):
        base = bytearray(rng.choice(L))
        k = rng.random()
        if k < 0.4 and len(base) > 2:
            del base[rng.randrange(1, len(base) - 1)]
        elif k < 0.8:
            base.insert(rng.randrange(1, len(base)), rng.choice(b"0aG'\\x\xff\x80"))
        else:
            base[rng.randrange(len(base))] = rng.randrange(256)
        bad.append(bytes(base))
    return L, bad


def run(tier):
    ck = C.Check("C20", tier)
    failed = ck.proofs()
    valid, bad = gen_lits(ck.rng, tier)
    lits = valid + bad
    enc = [" ".join(map(str, l)) for l in lits]
    impl, model = C.run_pair(["lit2rune " + e for e in enc])
    go, _ = C.run_pair(["gorune " + e for e in enc]) if False else (C.run_lines(C.build_drv(), ["gorune " + e for e in enc])[1], None)
    mval = C.run_model(["runeval " + e for e in enc])
    # generated copy: compile the util package gocc writes
    b = batch.Batch("c20")
    try:
        b.add({"lex": [(0, "t0", [[('l', 97)]])], "syn": []})
        b.generate()
        if b.items[0]["rc"] != 0 or not b.build([0]):
            raise C.BuildError("cannot build generated util package: " + getattr(b, "build_log", ""))
        gval = b.run(["runeval 0 " + e for e in enc])
        ints = [b"0", b"-1", b"+5", b"9223372036854775807", b"9223372036854775808", b"-9223372036854775808", b"18446744073709551615",
                b"18446744073709551616", b"", b"12a", b"007", b" 1", b"1_000", b"0x10", b"-0"]
        ints += [str(ck.rng.randint(-2**70, 2**70)).encode() for _ in range(400)]
        ienc = [" ".join(map(str, l)) for l in ints]
        gint = b.run(["intvalue 0 " + e for e in ienc])
    finally:
        b.close()
    dint = C.run_lines(C.build_drv(), ["intvalue " + e for e in ienc])[1]
    kinds = {"named": 0, "hex": 0, "octal": 0, "u4": 0, "U8": 0, "raw": 0}
    n_valid_go = 0
    for l, i, m, g, gv, mv in zip(lits, impl, model, go, gval, mval):
        body = bytes(l[1:3])
        kinds["hex" if body == b"\\x" else "u4" if body == b"\\u" else "U8" if body == b"\\U" else
              "octal" if body[:1] == b"\\" and body[1:2].isdigit() else "named" if body[:1] == b"\\" else "raw"] += 1
        rep = {"lit": bytes(l).decode("latin1"), "LitToRune": i, "model_litToRune": m, "go": g, "generated_RuneValue": gv, "model_runeValue": mv}
        if g != "invalid":
            n_valid_go += 1
            if i != g:
                ck.violation("util.LitToRune(%r) = %s but Go reads the literal as %s" % (bytes(l), i, g), rep)
            if gv != g:
                ck.violation("generated util.RuneValue(%r) = %s but Go reads the literal as %s" % (bytes(l), gv, g), rep)
        if i != m:
            ck.violation("correspondence broken: util.LitToRune vs Gocc.litToRune on %r: %s vs %s" % (bytes(l), i, m),
                         dict(rep, unchecked="correspondence Gocc.litToRune"), found_input=(g != "invalid" and i != g))
        if gv != mv:
            ck.violation("correspondence broken: generated util.RuneValue vs Gocc.runeValue on %r: %s vs %s" % (bytes(l), gv, mv),
                         dict(rep, unchecked="correspondence Gocc.runeValue"), found_input=(g != "invalid" and gv != g))
    for l, a, bb in zip(ints, dint, gint):
        if a != "same" or bb != "same":
            ck.violation("IntValue/UintValue differ from strconv on %r (generator copy %s, generated copy %s)" % (l, a, bb), {"lit": l.decode("latin1")})
    # the modelled standard-library function: utf8.DecodeRune
    dl = [[a] for a in range(256)] + [[a, b2] for a in range(0xC0, 0x100) for b2 in range(0x70, 0xD0, 1 if tier == "thorough" else 3)]
    for _ in range(4000 if tier == "quick" else 100000):
        a = ck.rng.choice([0xE0, 0xED, 0xEF, 0xF0, 0xF4, 0xE1, 0xF1, 0xF5, ck.rng.randrange(0xE0, 0x100)])
        dl.append([a] + [ck.rng.choice([0x7F, 0x80, 0x8F, 0x90, 0x9F, 0xA0, 0xBF, 0xC0, ck.rng.randrange(256)]) for _ in range(ck.rng.randint(0, 4))])
    di, dm = C.run_pair(["decoderune " + " ".join(map(str, x)) for x in dl])
    for x, a, bb in zip(dl, di, dm):
        if a != bb:
            ck.violation("model of utf8.DecodeRune differs from Go on bytes %s: go %s model %s" % (x, a, bb),
                         {"bytes": x, "go": a, "model": bb, "unchecked": "trusted-base model Gocc.decodeRune"}, found_input=False)
    ck.proof_failures(failed, "C20 theorems")
    ck.cov.update({"evaluations": len(lits) + len(ints) + len(dl), "distinct_nontrivial": len(set(map(bytes, valid))),
                   "rule": "all named escapes, all 484 \\x spellings (both cases), all 512 octal forms, \\u every %dth code point + surrogate edge, random \\U and raw 1-4 byte scalars, "
                           "plus 330 malformed literals; non-trivial = distinct well-formed spellings" % (97 if tier == "quick" else 1),
                   "valid_per_go": n_valid_go, "kinds": kinds, "decoderune_cases": len(dl), "int_literals": len(ints),
                   "samples": [{"lit": bytes(l).decode("latin1"), "LitToRune": i, "go": g} for l, i, g in list(zip(lits, impl, go))[700:704]]})
    ck.assumptions += ["GoRuneLit (Spec/GoRuneLit.lean) is our reading of the Go spec, tied to strconv.Unquote by this run",
                       "strconv.ParseInt/ParseUint are called verbatim by IntValue/UintValue (checked behaviourally on sampled literals)"]
    return ck.finish()
