"""C13 — a grammar's meaning does not depend on how it is spelled."""
import os
from .. import common as C
from .. import gram, batch, lexfam


def tree_bytes(d, name):
    out = {}
    for root, _, files in os.walk(os.path.join(d, "out")):
        for f in files:
            p = os.path.join(root, f)
            out[os.path.relpath(p, d)] = open(p, "rb").read().replace(name.encode(), b"gX")
    return out


def run(tier):
    ck = C.Check("C13", tier)
    failed = ck.proofs()
    ng = 25 if tier == "quick" else 1500
    b = batch.Batch("c13")
    pairs = []
    kinds = {"layout": 0, "char_spelling": 0, "string_quoting": 0, "all": 0}
    try:
        for k in range(ng):
            wide = ck.rng.random() < 0.5
            lex = gram.rand_lex(ck.rng, regdef_mode=ck.rng.choice(["none", "single", "multi"]), wide=wide)
            toks = gram.tokens_of_lex(lex)
            terms = toks + [(2, ck.rng.choice(["+", "if", "a b", "(", "x'y", "a\\nb", "\\\\", "\\x2b", "q\\\"q"]))]
            syn = gram.rand_syn(ck.rng, terms, acts=False, p_error=0.1) if ck.rng.random() < 0.7 else []
            g = {"lex": lex, "syn": syn}
            base = gram.render(g)
            i0 = b.add(g, flags=["-a"], text=base)
            for kind in ("layout", "char_spelling", "string_quoting", "all"):
                if kind == "layout":
                    t = gram.relayout(base, ck.rng)
                elif kind == "char_spelling":
                    t = gram.render({"lex": lex, "syn": [(h, bd, a, i) for h, bd, a, i in syn]}, rng=_OnlyChars(ck.rng))
                elif kind == "string_quoting":
                    t = gram.render(g, rng=_OnlyStrings(ck.rng))
                else:
                    t = gram.relayout(gram.render(g, rng=ck.rng), ck.rng)
                if t != base:
                    kinds[kind] += 1
                    pairs.append((i0, b.add(g, flags=["-a"], text=t), kind))
        b.generate()
        nontrivial = set()
        for i0, i1, kind in pairs:
            a, c = b.items[i0], b.items[i1]
            same = a["rc"] == c["rc"] and a["out"] == c["out"]
            if same and a["rc"] == 0:
                same = tree_bytes(a["dir"], os.path.basename(a["dir"])) == tree_bytes(c["dir"], os.path.basename(c["dir"]))
            nontrivial.add(c["text"])
            if not same:
                ck.violation("respelling (%s) changes what gocc generates: status %s vs %s" % (kind, a["rc"], c["rc"]),
                             {"original": a["text"].decode(), "respelled": c["text"].decode(), "kind": kind,
                              "out_original": a["out"] + a["err"][-300:], "out_respelled": c["out"] + c["err"][-300:]})
    finally:
        b.close()
    # scanner model tie: gocc's hand-written scanner vs Gocc.fscan on the (re)spelled texts and on random byte strings
    texts = [t for t in list(nontrivial)[:200]]
    frag = [b"a", b"!x", b"_r", b"Abc", b"'a'", b"'\\n'", b"'\\x41'", b"'\\u00e9'", b"'ab'", b"\"s\"", b"`r`", b"<< x >>", b"<<", b">>", b"/*", b"*/", b"//", b"\n", b" ", b"\t", b"\r",
            b":", b";", b"|", b"-", b"(", b")", b"[", b"]", b"{", b"}", b".", b",", b"<", b"<=", b"/", b"\\", b"'", b"\"", b"`", b"\x00", b"\xff", b"\xc2\xa7", b"0", b"9", b"import", b"//line f:7\n",
            b"*", b"**/", b"/**", b"/***", b"\x80", b"\x81", b"\xbf", b"\xc0", b"\xe2\x82", b"\x7f", b"P", b"\x50"]
    for _ in range(600 if tier == "quick" else 30000):
        texts.append(b"".join(ck.rng.choice(frag) for _ in range(ck.rng.randint(0, 14))))
    slines = ["fescan " + " ".join(map(str, t)) for t in texts]
    simpl = C.run_lines(C.build_drv(), slines)[1]
    smodel = C.run_model(slines, timeout=3000)
    sdiff = 0
    for t, a, m in zip(texts, simpl, smodel):
        if a != m:
            sdiff += 1
            ck.violation("correspondence broken: gocc's scanner vs Gocc.fscan on %r: impl `%s` model `%s`" % (t[:80], a[:200], m[:200]),
                         {"text": t.decode("latin1"), "impl": a, "model": m, "unchecked": "correspondence Gocc.Model.FScan vs internal/frontend/scanner"}, found_input=False)
    ck.cov["scanner_tie_cases"] = len(texts)
    ck.cov["scanner_tie_disagreements"] = sdiff
    ck.proof_failures(failed, "C13 theorems")
    ck.cov.update({"evaluations": len(pairs), "distinct_nontrivial": len(nontrivial), "respellings": kinds,
                   "rule": "random grammars (lexical part with Unicode ranges, optional syntax part with string literals) respelled four ways: layout (white space, CR LF, both comment "
                           "forms incl. a final // comment without newline), character literals (raw, \\x, octal, \\u, \\U, named, upper/lower hex), string quoting (\"..\" vs `..`), "
                           "all together; generated trees compared byte for byte; non-trivial = distinct respelled texts",
                   "samples": [{"kind": k2, "respelled": b2} for (_, _, k2), b2 in zip(pairs[:2], [""] * 2)]})
    ck.assumptions += ["scanner model tie: see the fescan correspondence in this check when the Lean scanner model is present"]
    return ck.finish()


class _OnlyChars:
    """rng facade: random character spellings, fixed string quoting"""
    def __init__(self, rng):
        self.rng = rng

    def choice(self, xs):
        return self.rng.choice(xs)

    def random(self):
        return 1.0


class _OnlyStrings:
    def __init__(self, rng):
        self.rng = rng

    def choice(self, xs):
        return xs[0]

    def random(self):
        return self.rng.random()
