"""C08 — token positions are exact and lexemes tile the input.
Proof: Gocc.Props.C08 (all tables, all byte strings, all prefixes of the token stream).
Tie: compiled generated lexers vs the Scan model; oracle: position rule + tiling predicate (Lean)."""
from .. import common as C
from .. import lexfam


def run(tier):
    ck = C.Check("C08", tier)
    failed = ck.proofs()
    n_g, n_in = (30, 40) if tier == "quick" else (500, 120)
    res = lexfam.run_family(ck, n_g, n_in, with_reset=False)
    scans = oracle_bad = tie_bad = 0
    nontrivial = set()
    kinds = {"with_invalid": 0, "with_newline_or_tab": 0, "multi_byte": 0, "ill_formed_utf8": 0}
    for r in res:
        if r["rc"] != 0:
            continue
        for s in r["scans"]:
            scans += 1
            toks = s["impl"].split()
            if len(toks) >= 3 and len(s["src"]) >= 3:
                nontrivial.add((r["i"], tuple(s["src"])))
            kinds["with_invalid"] += any(t.startswith("0@") for t in toks)
            kinds["with_newline_or_tab"] += (10 in s["src"] or 9 in s["src"] or 13 in s["src"])
            kinds["multi_byte"] += any(b >= 0x80 for b in s["src"])
            try:
                bytes(s["src"]).decode("utf-8")
            except UnicodeDecodeError:
                kinds["ill_formed_utf8"] += 1
            if "LITMISMATCH" in s["impl"] or s["c08"] != "ok":
                oracle_bad += 1
                ck.violation("token positions/literals violate the position rule or tiling: %s ; tokens %s ; bytes %s" % (s["c08"], s["impl"], s["src"]),
                             {"bnf": r["text"], "op": s["line"], "impl": s["impl"], "model": s["model"], "oracle": s["c08"]})
            elif s["impl"] != s["model"]:
                tie_bad += 1
                ck.violation("correspondence broken: generated Scan differs from Gocc.scan on bytes %s: impl %s model %s (position oracle accepts the impl stream)" % (s["src"], s["impl"], s["model"]),
                             {"bnf": r["text"], "op": s["line"], "impl": s["impl"], "model": s["model"],
                              "unchecked": "correspondence Gocc.Model.Scan.scan vs lexer.go template"}, found_input=False)
    ck.proof_failures(failed, "C08 theorems")
    ck.cov.update({"evaluations": scans, "distinct_nontrivial": len(nontrivial),
                   "rule": "compiled lexers of random lexical parts x byte strings from automaton walks (7% ill-formed UTF-8), several calls past end of input; "
                           "non-trivial = distinct (grammar, input) with >= 3 bytes and >= 3 returned tokens",
                   "input_kinds": kinds, "oracle_failures": oracle_bad, "model_disagreements": tie_bad,
                   "samples": [{"bnf": r["text"], "scan": r["scans"][0]} for r in res if r["rc"] == 0 and r["scans"]][:2]})
    ck.assumptions += ["utf8.DecodeRune modelled by Gocc.decodeRune", "the gaps between tokens are ignored lexemes: decided by C01's reference oracle, not here"]
    return ck.finish()
