"""C18 — rune classes form an exact disjoint partition.
Proof: Gocc.Props.C18 (all interval sequences).  Tie: real DisjunctRangeSet.AddRange vs model."""
from .. import common as C

THEOREMS = ["Gocc.C18_sorted_disjoint_nonempty", "Gocc.C18_union_exact",
            "Gocc.C18_range_is_union_of_classes", "Gocc.C18_at_most_one_class",
            "Gocc.C18_match_range_all_or_nothing", "Gocc.C18_match_lit_all_or_nothing",
            "Gocc.C18_empty_adds_nothing"]

CORPUS = [
    [(97, 122), (99, 101), (48, 57)],
    [(5, 5), (5, 5)], [(1, 10), (1, 10)], [(1, 10), (11, 20)], [(11, 20), (1, 10)],
    [(1, 10), (5, 15), (0, 20)], [(0, 0x10FFFF), (65, 65)], [(65, 65), (0, 0x10FFFF)],
    [(10, 20), (30, 40), (15, 35)], [(10, 20), (30, 40), (5, 45)], [(10, 20), (30, 40), (20, 30)],
    [(10, 20), (21, 21)], [(10, 20), (9, 9)], [(10, 20), (10, 10)], [(10, 20), (20, 20)],
    [(10, 20), (12, 18)], [(10, 20), (10, 18)], [(10, 20), (12, 20)], [(10, 20), (12, 25)],
    [(10, 20), (5, 15)], [(10, 20), (5, 20)], [(10, 20), (5, 25)], [(10, 20), (10, 25)],
    [(3, 2)], [(10, 20), (15, 12)], [(1, 1), (3, 3), (5, 5), (0, 6)],
]


def gen_seq(rng):
    n = rng.randint(1, 12) if rng.random() < 0.9 else rng.randint(30, 80)     # a lexer state may well have > 32 classes
    mode = rng.random()
    if mode < 0.5:
        hi = rng.choice([12, 30, 80])
        base = rng.choice([0, 48, 97, 0x10FFFF - hi])
    elif mode < 0.8:
        hi, base = 300, rng.choice([0, 0xD7F0, 0xFFF0])
    else:
        hi, base = 0x10FFFF, 0
    seq = []
    for _ in range(n):
        k = rng.random()
        a = base + rng.randint(0, hi)
        if k < 0.3:
            b = a
        elif k < 0.9:
            b = min(base + hi, a + rng.randint(0, max(1, hi // 3)))
        else:
            b = a - rng.randint(1, 3)      # empty interval: adds nothing
        if seq and rng.random() < 0.35:   # derive from an earlier interval: adjacency, nesting, duplication
            p, q = rng.choice(seq)
            a, b = rng.choice([(q + 1, q + 1 + rng.randint(0, 5)), (p, q), (p, rng.randint(p, max(p, q))),
                               (rng.randint(p, max(p, q)), q), (p - rng.randint(1, 4), p - 1),
                               (p - 2, q + 2), (p + 1, q - 1)])
            a = max(0, a)
            b = min(0x10FFFF, b)
        seq.append((a, b))
    return seq


def run(tier):
    ck = C.Check("C18", tier)
    failed = ck.proofs()
    n = 2000 if tier == "quick" else 200000
    seqs = list(CORPUS) + [gen_seq(ck.rng) for _ in range(n)]
    # every second sequence goes through AddLexTNode (literals as literal nodes), the path getSymbolClasses takes
    def op(k, s):
        if k % 2 == 0 or any(a > b2 for a, b2 in s):
            return "addrange " + " ".join("%d %d" % r for r in s)
        return "addnodes " + " ".join(("l %d" % a) if a == b2 else ("r %d %d" % (a, b2)) for a, b2 in s)
    lines = [op(k, s) for k, s in enumerate(seqs)]
    mlines = ["addrange " + " ".join("%d %d" % r for r in s) for s in seqs]
    impl = C.run_lines(C.build_drv(), lines)[1]
    model = C.run_model(mlines)
    # oracle (executable spec) on the implementation's own output
    olines = []
    for s, o in zip(seqs, impl):
        olines.append("c18oracle %s | %s" % (o if o != "panic" else "", " ".join("%d %d" % r for r in s)))
    verdicts = C.run_model(olines)
    shapes, nontrivial, disagreements = {}, set(), 0
    for s, i, m, v in zip(seqs, impl, model, verdicts):
        ncls = len(i.split()) // 2 if i != "panic" else -1
        shapes[ncls] = shapes.get(ncls, 0) + 1
        if len(s) >= 2 and ncls > len([r for r in s if r[0] <= r[1]]):
            nontrivial.add(tuple(s))          # at least one class was split
        if i == "panic" or v != "ok":
            ck.violation("AddRange output is not an exact disjoint partition (%s): ranges=%s classes=%s" % (v, s, i),
                         {"op": "addrange", "ranges": s, "impl": i, "model": m, "oracle": v})
        elif i != m:
            disagreements += 1
            ck.violation("correspondence addRange (Gocc.addRange vs DisjunctRangeSet.AddRange) broken: ranges=%s impl=%s model=%s; oracle accepts impl output" % (s, i, m),
                         {"op": "addrange", "ranges": s, "impl": i, "model": m, "oracle": v,
                          "unchecked": "correspondence Gocc.Model.Range.addRange"}, found_input=False)
    ck.proof_failures(failed, "C18 theorems")
    ck.cov.update({
        "evaluations": len(seqs), "distinct_nontrivial": len(nontrivial),
        "rule": "random sequences of 1-12 closed intervals over small / mid / full rune windows, 35% derived from earlier "
                "intervals (adjacent, nested, duplicate, touching), 10% empty; non-trivial = distinct sequences in which "
                "AddRange had to split at least one class",
        "classes_histogram": {str(k): v for k, v in sorted(shapes.items())},
        "disagreements_model_vs_impl": disagreements,
        "samples": [{"ranges": s, "impl_classes": i} for s, i in list(zip(seqs, impl))[len(CORPUS):len(CORPUS) + 4]],
    })
    ck.assumptions += ["runes are int32 in Go and unbounded Int in the model; all values <= 0x10FFFF+1 so no wrap-around",
                       "the structural-recursion model is tied to the index loop by the correspondence run only"]
    return ck.finish()
