"""C17 — independent lexer/parser instances are safe to use concurrently."""
import os
import subprocess

from .. import common as C
from .. import gram, batch, parsefam as P


def run(tier):
    ck = C.Check("C17", tier)
    failed = ck.proofs()
    ng = 10 if tier == "quick" else 80
    workers = 8 if tier == "quick" else 64
    b = batch.Batch("c17")
    conc_runs = 0
    writes_found = []
    globals_seen = 0
    nontrivial = set()
    try:
        gs = []
        for k in range(ng):
            names = ["a", "b", "c"]
            lex = gram.simple_lex_for(names)
            lex.append((0, "id", [[('r', 120, 122), ('p', [[('r', 120, 122)], [('r', 48, 57)]])]]))
            terms = gram.tokens_of_lex(lex) + [(2, "+")]
            syn = gram.rand_syn(ck.rng, terms, nnt=ck.rng.choice([2, 3]), p_error=0.2)
            g = {"lex": lex, "syn": syn}
            flags = ["-a"] + (["-zip"] if k % 2 else []) + (["-debug_lexer", "-debug_parser"] if k % 3 == 2 else [])
            gs.append((g, b.add(g, flags=flags), flags))
        b.generate()
        # conflict-free grammars only: a parser resolved with -a may loop by itself (C02/C05), which is not a concurrency matter
        ok = [i for g, i, fl in gs if b.items[i]["rc"] == 0 and P.conflicts_reported(b.items[i]["out"]) == 0]
        # premise: no write to package-level state outside init(), extracted from the generated source
        drv = C.build_drv()
        for g, i, fl in gs:
            if i not in ok:
                continue
            out = C.run_lines(drv, ["pkgwrites %s" % os.path.join(b.items[i]["dir"], "out")])[1][0]
            globals_seen += int(out.split()[0].split("=")[1])
            w = out.split("writes=[", 1)[1].rstrip("]")
            if w:
                writes_found.append((fl, w))
                ck.violation("generated code (flags %s) assigns to package-level state outside init(): %s" % (fl, w),
                             {"bnf": b.items[i]["text"].decode(), "flags": fl, "writes": w, "unchecked": "premise: generated packages never write shared state after init()"},
                             found_input=False)
        # race detector build + stress
        with open(os.path.join(b.dir, "go.mod")) as fh:
            pass
        if not b.build(ok, e2e=True):
            raise C.BuildError("cannot build: " + b.build_log[-2000:])
        rc, log = C.sh(["go", "build", "-race", "-o", "drv_race", "."], cwd=b.dir, env=C.GOENV, timeout=3600)
        race_exe = os.path.join(b.dir, "drv_race") if rc == 0 else None
        lexeme = {"a": "a", "b": "b", "c": "c", "id": "xy1", "+": "+"}
        for g, i, fl in gs:
            if i not in ok:
                continue
            names, _, _ = P.parse_terminals(b.run(["terminals %d" % i])[0])
            types = {nm: k for k, nm in enumerate(names)}
            inputs = P.gen_inputs(ck.rng, g, types, 10, max_enum=30)
            srcs = [list(" ".join(lexeme.get(names[t], "?") for t in w).encode()) for w in inputs[:48]] + [list(b"a ? b"), list(b"xyz9 +\n\tb")]
            line = "conc %d %d %d %s" % (i, workers, len(srcs), " ".join("%d %s" % (len(s), " ".join(map(str, s))) for s in srcs))
            line = " ".join(line.split())
            for exe, label in ((b.exe, "plain"), (race_exe, "race")):
                if exe is None:
                    continue
                p = subprocess.run([exe], input=line + "\n", stdout=subprocess.PIPE, stderr=subprocess.PIPE, text=True, timeout=600,
                                   env=dict(C.GOENV, GORACE="halt_on_error=0"))
                conc_runs += 1
                res = p.stdout.strip()
                nontrivial.add((i, label))
                if "DATA RACE" in p.stderr:
                    ck.violation("the race detector reports a data race between goroutines that use independent lexer/parser instances (flags %s)" % fl,
                                 {"bnf": b.items[i]["text"].decode(), "flags": fl, "report": p.stderr[:3000], "op": line[:400]})
                elif "mismatches=0" not in res:
                    ck.violation("concurrent use of independent instances gives results different from sequential use: %s" % res,
                                 {"bnf": b.items[i]["text"].decode(), "flags": fl, "op": line[:400], "result": res})
    finally:
        b.close()
    ck.proof_failures(failed, "C17 theorems")
    ck.cov.update({"evaluations": conc_runs, "distinct_nontrivial": len(nontrivial), "package_level_vars_seen": globals_seen, "writes_outside_init": writes_found,
                   "race_detector_build": True,
                   "rule": "lexer+parser grammars (plain, -zip, debug flags); %d goroutines each running its own lexer and parser over ~50 inputs, results compared with the sequential run, "
                           "once normally and once under the Go race detector; non-trivial = distinct (grammar, build mode)" % workers,
                   "samples": [fl for g, i, fl in gs][:3]})
    ck.assumptions += ["the Go memory model and the race detector are trusted; schedules are those the runtime produces, not all interleavings — the all-interleavings statement is the Lean "
                       "theorem C17_interleaving_projects over the extracted premise that the shared tables are never written after init()"]
    return ck.finish()
