"""C07 — error recovery resumes after the error symbol and preserves token order."""
import re
from .. import common as C
from .. import parsefam as P
from . import pcommon as pc


def tokens_in(s):
    """indices of the *shifted* tokens of an attribute, in the order they sit in it.  The offending token
    recorded in an error attribute `(err tK:typ [discarded] [expected])` is a record, not a shifted token
    (it may also be shifted afterwards when it is itself acceptable after the error symbol)."""
    s = re.sub(r"\(err t\d+:\d+ ", "(err ", s)
    s = re.sub(r"\] \[[^\]]*\]\)", "])", s)
    return [int(x) for x in re.findall(r"\bt(\d+):", s)]


def run(tier):
    ck = C.Check("C07", tier)
    failed = ck.proofs()
    n_g, n_r = (55, 10) if tier == "quick" else (400, 24)
    res = P.run_family(ck, n_g, n_r, p_err=1.0, want_hist=False)
    ties = pc.tie_violations(ck, res, want_kinds=("parse", "stripped"))
    st = {"error_grammars": 0, "lr1_error_grammars": 0, "runs": 0, "recovered_runs": 0, "inert_checks": 0, "gave_up": 0, "multi_error": 0}
    nontrivial = set()
    for r in res:
        if not r["g"]["err"] or r["rc_a"] != 0:
            continue
        st["error_grammars"] += 1
        lr1 = pc.is_lr1(r)
        if "recwf=1" in r["validate"] and "noshifteof=1" in r["validate"]:
            st["recwf_validated"] = st.get("recwf_validated", 0) + 1
        elif r["validate"].startswith("safe="):
            ck.violation("generated tables violate RecWF / NoShiftEOF (hypotheses of C07_recover_spec, C07_no_panic_in_recovery, C07_tokens_in_order): %s" % r["validate"],
                         {"bnf": r["text"], "validate": r["validate"], "tables": r["impl_lrtab"], "unchecked": "per-table obligations recWFb / noShiftEOFb"}, found_input=False)
        if "recexact=0" in r["validate"]:
            # the property's own words: recovery pops to the topmost state that CAN SHIFT the error symbol; the generated
            # canRecover flags must mark exactly the states whose entry for `error` is a shift.  Find an input that shows it.
            shown = None
            for c in r["cases"]:
                if c["kind"] == "parse" and "(err " not in c["impl"] and c["impl"].startswith("synerr"):
                    shown = c
                    break
            st["recexact_failures"] = st.get("recexact_failures", 0) + 1
            ck.violation("the recovery states of the generated tables are not the states that can shift the error symbol (flags vs. `error` column): %s%s"
                         % (r["validate"], ("; e.g. tokens %s end with `%s` without a recovery attempt" % (shown["w"], shown["impl"][:80])) if shown else ""),
                         {"bnf": r["text"], "validate": r["validate"], "tables": r["impl_lrtab"], "example": shown["line"] if shown else None},
                         found_input=shown is not None)
        else:
            st["recexact_validated"] = st.get("recexact_validated", 0) + 1
        st["lr1_error_grammars"] += lr1
        stripped = {tuple(c["w"]): c for c in r["cases"] if c["kind"] == "stripped"}
        for c in r["cases"]:
            if c["kind"] != "parse":
                continue
            st["runs"] += 1
            v = pc.verdict(c["impl"])
            w = tuple(c["w"])
            if lr1 and v in ("panic", "hang", "fuel"):
                ck.violation("Parse did not return normally (%s) on tokens %s" % (v, list(w)), {"bnf": r["text"], "op": c["line"], "impl": c["impl"]})
                continue
            nerr = c["impl"].count("(err ")
            if nerr:
                st["recovered_runs"] += 1
                st["multi_error"] += nerr > 1
                nontrivial.add((r["gi"], w))
            if v == "synerr":
                st["gave_up"] += 1
            # tokens reach actions at most once and in input order
            body = c["impl"].split(" | log=")[0]
            if v == "ok":
                ts = tokens_in(body)
                if any(b2 <= a for a, b2 in zip(ts, ts[1:])) and lr1:
                    ck.violation("tokens do not reach the result in input order / at most once: %s" % body, {"bnf": r["text"], "op": c["line"], "impl": c["impl"]})
            # inert on inputs without syntax errors
            s = stripped.get(w)
            if lr1 and s is not None and r["stripped_conflicts"] == 0 and s["impl"].startswith("ok "):
                st["inert_checks"] += 1
                full_names, twin_names = r["names"]

                def by_name(o, names):
                    return re.sub(r"\bt(\d+):(\d+)", lambda m: "t%s:%s" % (m.group(1), names[int(m.group(2))]), o)
                if by_name(s["impl"], twin_names) != by_name(c["impl"], full_names):
                    ck.violation("on an error-free input the parser with error alternatives differs from the parser without them: `%s` vs `%s`" % (c["impl"], s["impl"]),
                                 {"bnf": r["text"], "op": c["line"], "with_error_alts": c["impl"], "without": s["impl"]})
    ck.proof_failures(failed, "C07 theorems")
    ck.cov.update({"evaluations": st["runs"], "distinct_nontrivial": len(nontrivial),
                   "rule": "random grammars in which 35% of the alternatives start with `error` (plus their error-free twins), conflict-free ones judged for panic/loop freedom; "
                           "inputs: exhaustive short sequences, sentences, mutated sentences (single and double errors, error in the first token, at end of input); "
                           "non-trivial = distinct (grammar, input) on which the parser recovered at least once",
                   "stats": st, "model_disagreements": ties,
                   "samples": [c for r in res for c in r["cases"] if c["kind"] == "parse" and "(err " in c["impl"]][:3]})
    ck.assumptions += ["which state is the 'topmost that can shift error' and which token is 'first acceptable' are decided by the Parse model (tied exactly to the compiled parser)",
                       "termination is claimed for conflict-free grammars; with -a resolved conflicts a parser may loop (model reports `fuel`, driver `hang`)"]
    return ck.finish()
