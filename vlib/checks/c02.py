"""C02 — generated parser accepts exactly the language of a conflict-free grammar.
Proof obligations: Gocc.Props.C02 (see registry).  Tie: gocc tables == generator model, compiled Parse == Parse model.
Oracle: Earley recogniser (table-free) on the implementation's verdicts."""
from .. import common as C
from .. import parsefam as P
from . import pcommon as pc


def run(tier):
    ck = C.Check("C02", tier)
    failed = ck.proofs()
    n_g, n_r = (45, 10) if tier == "quick" else (400, 24)
    res = P.run_family(ck, n_g, n_r, p_err=0.0, want_hist=True, extra=[P.D16_GRAMMAR])
    ties = pc.tie_violations(ck, res, want_kinds=("parse",))
    stats = {"grammars": len(res), "lr1": 0, "verdicts": 0, "accepted": 0, "rejected": 0, "max_len": 0, "fuel_or_panic": 0}
    nontrivial = set()
    validated = 0
    def fk(r):
        # known finding D16 is identified by the grammar: it has a string literal spelled `empty` or `error`
        lit = any(k == 2 and nm in ("empty", "error") for _, b, _, _ in r["g"]["syn"] for k, nm in b)
        return "D16-literal-empty-error" if lit else None
    for r in res:
        if not pc.is_lr1(r) or r["g"]["err"]:
            continue
        if r["validate"].startswith("safe=1 complete=1"):
            validated += 1
        else:
            ck.violation("the verified validators (Gocc.safe/safeEnds/complete; theorems C02_accept_sound, C02_sentence_accepted) reject the tables gocc generated: %s" % r["validate"],
                         {"bnf": r["text"], "validate": r["validate"], "tables": r["impl_lrtab"], "unchecked": "per-grammar obligation safe G T cert = true"},
                         found_input=False, finding_key=fk(r))
        stats["lr1"] += 1
        heads = {p[0] for p in r["g"]["syn"]}
        recursive = any(any(k == 0 for k, nm in b) for _, b, _, _ in r["g"]["syn"])
        for c in r["cases"]:
            if c["kind"] != "parse" or c["earley"] is None:
                continue
            v = pc.verdict(c["impl"])
            stats["verdicts"] += 1
            stats["max_len"] = max(stats["max_len"], len(c["w"]))
            if v in ("panic", "fuel", "hang"):
                stats["fuel_or_panic"] += 1
                ck.violation("Parse did not return normally (%s) on tokens %s" % (v, c["w"]), {"bnf": r["text"], "op": c["line"], "impl": c["impl"]})
                continue
            sentence = c["earley"].startswith("yes")
            stats["accepted" if v == "ok" else "rejected"] += 1
            if recursive and len(c["w"]) >= 2:
                nontrivial.add((r["gi"], tuple(c["w"])))
            if (v == "ok") != sentence:
                ck.violation("parser verdict `%s` but the token sequence %s is %sa sentence of the grammar" % (v, c["w"], "" if sentence else "not "),
                             {"bnf": r["text"], "op": c["line"], "impl": c["impl"], "earley": c["earley"]}, finding_key=fk(r))
    # the same verdicts on a parser object that has been used before (failed or succeeded earlier)
    reused = 0
    for r in res:
        if not pc.is_lr1(r) or r["g"]["err"]:
            continue
        verdict_of = {tuple(c["w"]): c["earley"].startswith("yes") for c in r["cases"] if c["kind"] == "parse" and c["earley"] is not None}
        for h in r["hists"]:
            for w, f, part in zip(h["hist"], h["fails"], h["impl"].split(" || ")):
                if f != 0 or tuple(w) not in verdict_of:
                    continue
                reused += 1
                if (part.split()[0] == "ok") != verdict_of[tuple(w)]:
                    ck.violation("on a parser object used before, tokens %s give `%s` but the sequence is %sa sentence (history %s)" % (w, part.split(" | ")[0], "" if verdict_of[tuple(w)] else "not ", h["hist"]),
                                 {"bnf": r["text"], "op": h["line"], "impl": h["impl"]}, finding_key=fk(r))
    stats["verdicts_on_reused_parser"] = reused
    ck.proof_failures(failed, "C02 theorems")
    ck.cov.update({"evaluations": stats["verdicts"], "distinct_nontrivial": len(nontrivial),
                   "rule": "random grammars (1-4 non-terminals, <=3 alternatives of <=4 symbols, empty alternatives, every kind of recursion, string literals, "
                           "duplicate alternatives) through the real binary; only grammars gocc reports conflict-free are judged; inputs = all sequences over the "
                           "terminals up to the length that keeps them <= 130, sentences from a derivation generator (length <= 30) and 1-2 token mutations of them; "
                           "non-trivial = distinct (recursive grammar, input of length >= 2)",
                   "grammars_validated_by_verified_checker": validated, "stats": stats, "model_disagreements": ties,
                   "samples": [{"bnf": r["text"], "case": r["cases"][len(r["cases"]) // 2]} for r in res if pc.is_lr1(r) and r["cases"]][:2]})
    ck.assumptions += ["Earley recogniser (Gocc.earleyLast) is an executable oracle for `Sentence`, not proved equivalent to it",
                       "grammars with error alternatives are C07's subject"]
    return ck.finish()
