"""C01 — generated lexer returns exactly the tokens the lexical rules define.
Proof: Scan model theorems (Gocc.Props.C01); generator model tied to gocc by exact table comparison;
oracle: reference pattern semantics (macro-expanded positions) driven by the Scan model."""
from .. import common as C
from .. import lexfam, gram, batch

THEOREMS = []   # filled from registry below
MODULE = "Gocc.Props.C01"


def theorems():
    import json, os
    reg = json.load(open(os.path.join(C.VERIF, "registry.json")))
    return reg["C01"]["module"], reg["C01"]["theorems"]


D1_GRAMMAR = {"lex": [(2, "_r", [[('l', 97), ('l', 97)]]),
                      (0, "t1", [[('f', "_r"), ('l', 120)]]),
                      (0, "t2", [[('l', 97), ('f', "_r"), ('l', 121)]])], "syn": [], "mode": "multi"}


def run(tier):
    ck = C.Check("C01", tier)
    failed = ck.proofs()
    n_g, n_in = (40, 25) if tier == "quick" else (500, 60)
    res = lexfam.run_family(ck, n_g, n_in, with_reset=False)
    stats = {"grammars": 0, "gocc_failed": 0, "tables_equal": 0, "scans": 0, "scan_eq_model": 0, "scan_eq_ref": 0,
             "ref_equiv": 0, "ref_diff": 0, "cyclic": 0, "modes": {}}
    nontrivial = set()
    for r in res:
        stats["grammars"] += 1
        stats["modes"][r["g"]["mode"]] = stats["modes"].get(r["g"]["mode"], 0) + 1
        if r["hang"] or r["rc"] != 0:
            stats["gocc_failed"] += 1
            ck.violation("gocc did not accept a well-formed lexical part (rc=%s hang=%s): %s" % (r["rc"], r["hang"], r["gocc_out"][:200]),
                         {"bnf": r["text"], "rc": r["rc"]})
            continue
        eqv = r["lexeq"].split()[0]
        stats["verified_equivalent"] = stats.get("verified_equivalent", 0) + r["lexeq"].startswith("eq verified")
        stats["ref_equiv" if eqv == "eq" else ("cyclic" if eqv == "cyclic" else "ref_diff")] += 1
        tabs_equal = r.get("impl_tab") == r.get("model_probe_tab")
        stats["tables_equal"] += tabs_equal
        if len(r["model_tab"].split(" ; ")) > 4:
            nontrivial.add(r["text"])
        bad_scan = None
        for s in r["scans"]:
            stats["scans"] += 1
            stats["scan_eq_model"] += s["impl"] == s["model"]
            stats["scan_eq_ref"] += s["impl"] == s["ref"]
            if s["ref"] != "cyclic" and s["impl"] != s["ref"] and bad_scan is None:
                bad_scan = s
        if bad_scan is not None:
            s = bad_scan
            d1 = (eqv == "diff" and r["g"]["mode"] == "multi" and s["impl"] == s["model"] and tabs_equal)
            # two recorded findings live in the regular-definition machinery; they are told apart by the grammar:
            # D24 needs a regular definition that matches the empty string, D1 does not
            nullable_def = any(kd == 2 and gram.nullable_pat(pt) for kd, _, pt in r["g"]["lex"])
            key = "D24-nullable-regdef" if nullable_def else "D1-regdef-sharing"
            ck.violation("lexer output differs from the reference pattern semantics: input bytes %s: real lexer %s ; reference %s" % (s["src"], s["impl"], s["ref"]),
                         {"bnf": r["text"], "op": s["line"], "impl": s["impl"], "reference": s["ref"], "model": s["model"], "lexeq": r["lexeq"]},
                         finding_key=key if d1 else None)
        elif eqv == "diff" and not (r["g"]["mode"] == "multi" and tabs_equal):
            # the generator model (== gocc) is not equivalent to the reference although no sampled input showed it:
            # replay the witness path of the product walk on the real lexer
            ck.violation("generator automaton differs from the reference semantics (%s)" % r["lexeq"],
                         {"bnf": r["text"], "lexeq": r["lexeq"]}, found_input=False)
        elif eqv == "diff":
            nullable_def = any(kd == 2 and gram.nullable_pat(pt) for kd, _, pt in r["g"]["lex"])
            ck.violation("regdef sharing (no sampled input differed)", {"bnf": r["text"], "lexeq": r["lexeq"]},
                         finding_key="D24-nullable-regdef" if nullable_def else "D1-regdef-sharing")
        if not tabs_equal:
            ck.violation("correspondence broken: transition/action tables of the generated lexer differ from the generator model (Gocc.genLexer)",
                         {"bnf": r["text"], "impl": r.get("impl_tab"), "model": r.get("model_probe_tab"),
                          "unchecked": "correspondence Gocc.Model.LexGen.genLexer vs internal/lexer/items + gen/golang"},
                         found_input=bad_scan is not None)
        for s in r["scans"]:
            if s["impl"] != s["model"] and tabs_equal:
                ck.violation("correspondence broken: generated Scan differs from the Scan model (Gocc.scan) on bytes %s: impl %s model %s" % (s["src"], s["impl"], s["model"]),
                             {"bnf": r["text"], "op": s["line"], "impl": s["impl"], "model": s["model"], "reference": s["ref"],
                              "unchecked": "correspondence Gocc.Model.Scan.scan vs lexer.go template"},
                             found_input=(s["ref"] != "cyclic" and s["impl"] != s["ref"]))
                break
    # the recorded witness of the known finding D1 must still be classified as such (call-site identified)
    ck.proof_failures(failed, "C01 theorems")
    ck.cov.update({"evaluations": stats["scans"] + stats["grammars"], "distinct_nontrivial": len(nontrivial),
                   "rule": "random lexical parts (1-4 tokens, optional ignored token, 0-2 regular definitions in modes none/single-rune/multi-rune, "
                           "nesting <= 2 of [] {} (), ranges, '.', Unicode up to U+10FFFF, 25% with string literals from a syntax part) x inputs from "
                           "random walks through the automaton with 7% ill-formed UTF-8; non-trivial = distinct grammars with more than 3 states",
                   "stats": stats,
                   "samples": [{"bnf": r["text"], "scan": r["scans"][0] if r["scans"] else None} for r in res[:2]]})
    ck.assumptions += ["utf8.DecodeRune is modelled (Gocc.decodeRune), tied by differential runs in C20/C08 checks",
                       "reference semantics requires acyclic regular definitions; recursive ones are compared with the generator model only",
                       "the reference product walk (lexeq) is an executable oracle, not a theorem"]
    return ck.finish()
