"""C12 — presentation flags (-zip, -debug_lexer, -debug_parser, -v, -no_lexer) do not change the generated language."""
import itertools
from .. import common as C
from .. import gram, batch, parsefam as P, lexfam

FLAGS = ["-zip", "-debug_lexer", "-debug_parser", "-v", "-no_lexer"]


def subsets():
    for k in range(len(FLAGS) + 1):
        for s in itertools.combinations(FLAGS, k):
            if "-no_lexer" in s and "-debug_lexer" in s:
                continue            # rejected by the configuration itself
            yield list(s)


def run(tier):
    ck = C.Check("C12", tier)
    failed = ck.proofs()
    ng = 3 if tier == "quick" else 8
    b = batch.Batch("c12")
    variants = 0
    nontrivial = set()
    try:
        groups = []
        for k in range(ng):
            names = ["a", "b", "c"]
            lex = gram.simple_lex_for(names)
            lex.append((0, "id", [[('r', 120, 122), ('p', [[('r', 120, 122)], [('r', 48, 57)]])]]))
            terms = gram.tokens_of_lex(lex) + [(2, "+")]
            syn = gram.rand_syn(ck.rng, terms, nnt=ck.rng.choice([2, 3]), p_error=0.15, p_error_mid=0.25)
            if k % 3 == 1:
                # conflicts resolved with -a must be resolved the same way under every flag set
                syn = gram.conflict_rich_syn(ck.rng, terms[:3])
            if k % 2 == 0:
                # an error symbol that is not the first symbol of its alternative (flags must not change which states can recover)
                syn.append((syn[0][0], [terms[0], (1, "error"), terms[1]], 0, 0))
            if k % 3 == 2:
                # a nullable non-terminal right after another non-terminal: every look-ahead computed through FIRST matters
                syn.append((syn[0][0], [(0, syn[-1][0]), (0, "O8"), terms[0]], 0, 0))
                syn.append(("O8", [(1, "empty")], 0, 0))
                syn.append(("O8", [terms[1]], 0, 0))
            g = {"lex": lex, "syn": syn}
            ids = []
            for fl in subsets():
                text = None
                if k % 3 == 0 and any(p2[2] for p2 in syn):
                    # the file header may declare any identifier the plain parser package leaves free, e.g. the names of the
                    # packages the -zip tables need
                    text = gram.render(g, pkg_token="ws/g%d/out/token" % len(b.items))
                    text = text.replace(") >>", ")\nfunc bytes() int { return 1 }\nvar gzip, gob = bytes(), 2\nvar _, _ = gzip, gob\n>>", 1)
                i = b.add(g, flags=["-a"] + fl, text=text)
                # all variants must see the same grammar text (import paths differ per directory only)
                ids.append((i, fl))
            groups.append((g, ids))
        b.generate()
        comp = [i for g, ids in groups for i, fl in ids if b.items[i]["rc"] == 0]
        for g, ids in groups:
            rcs = {b.items[i]["rc"] for i, fl in ids}
            if len(rcs) != 1:
                ck.violation("exit status depends on presentation flags: %s" % {tuple(fl): b.items[i]["rc"] for i, fl in ids}, {"bnf": b.items[ids[0][0]]["text"].decode()})
        if not b.build(comp, e2e=True):
            # which variants do not compile?  If the plain variant of a grammar compiles and a flagged one does not, the
            # flag changed what gocc generates in the most visible way
            bad = b.build_each(comp)
            reported = False
            for g, ids in groups:
                ref = ids[0][0]
                if ref in bad:
                    continue
                for i, fl in ids:
                    if i in bad:
                        reported = True
                        ck.violation("flags %s make the generated packages uncompilable (the plain variant compiles): %s" % (fl, bad[i][-300:]),
                                     {"bnf": b.items[i]["text"].decode(), "flags": fl, "go_build": bad[i][-1500:]})
            if not reported:
                raise C.BuildError("flag variants do not compile:\n" + b.build_log[-3000:])
            comp = [i for i in comp if i not in bad]
            if not b.build(comp, e2e=True):
                raise C.BuildError("flag variants do not compile:\n" + b.build_log[-3000:])
        for g, ids in groups:
            ref = ids[0][0]
            if b.items[ref]["rc"] != 0:
                continue
            tout = b.run(["terminals %d" % ref])[0]
            names, _, _ = P.parse_terminals(tout)
            types = {nm: k for k, nm in enumerate(names)}
            inputs = P.gen_inputs(ck.rng, g, types, 12, max_enum=40)
            probes = lexfam.probes_of(g)
            srcs = []
            lexeme = {"a": "a", "b": "b", "c": "c", "id": "xy1", "+": "+"}
            for w in inputs[:60]:
                srcs.append(list(" ".join(lexeme.get(names[t], "?") for t in w).encode()))
            srcs += [list(b"a ? b"), list(b"xyz9 +\n\tb"), []]
            for i, fl in ids:
                if b.items[i]["rc"] != 0:
                    continue
                variants += 1
                lines = ["lrtab %d" % i, "terminals %d" % i] + ["parse %d 0 %s" % (i, " ".join(map(str, w))) for w in inputs]
                rlines = ["lrtab %d" % ref, "terminals %d" % ref] + ["parse %d 0 %s" % (ref, " ".join(map(str, w))) for w in inputs]
                if "-no_lexer" not in fl:
                    extra = ["lextab %d %s" % (i, " ".join(map(str, probes)))] + ["scan %d %d -1 %s" % (i, len(s2) + 2, " ".join(map(str, s2))) for s2 in srcs] + \
                            ["e2e %d %s" % (i, " ".join(map(str, s2))) for s2 in srcs]
                    lines += extra
                    rlines += [l.replace(" %d " % i, " %d " % ref, 1) for l in extra]
                got = b.run(lines)
                want = b.run(rlines) if i != ref else got
                for l, a, w2 in zip(lines, got, want):
                    if a != w2:
                        ck.violation("flags %s change behaviour: op `%s` gives `%s`, without the flags `%s`" % (fl, l[:80], a[:200], w2[:200]),
                                     {"bnf": b.items[i]["text"].decode(), "flags": fl, "op": l, "with_flags": a, "without": w2})
                        break
                if fl:
                    nontrivial.add((groups.index((g, ids)), tuple(fl)))
    finally:
        b.close()
    ck.proof_failures(failed, "C12 theorems")
    ck.cov.update({"evaluations": variants, "distinct_nontrivial": len(nontrivial),
                   "rule": "every admissible subset of {-zip,-debug_lexer,-debug_parser,-v,-no_lexer} (24) on random lexer+parser grammars; tables dumped from the compiled packages "
                           "(after init()), TokMap, Parse outcomes/logs on token sequences, token streams with positions and end-to-end lexer+parser runs on source text are "
                           "compared with the flag-free build; non-trivial = distinct (grammar, non-empty flag set)",
                   "samples": [{"flags": fl} for fl in list(subsets())[1:4]]})
    ck.assumptions += ["gob+gzip decode(encode(x)) = x is assumed (the theorem covers the sparse row encoding around it)", "debug output goes to stdout and is discarded"]
    return ck.finish()
