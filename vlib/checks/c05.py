"""C05 — with -a: shift if possible, otherwise the earliest production; verdict and reductions follow."""
from .. import common as C
from .. import parsefam as P
from . import pcommon as pc


def run(tier):
    ck = C.Check("C05", tier)
    failed = ck.proofs()
    n_g, n_r = (60, 8) if tier == "quick" else (450, 20)
    res = P.run_family(ck, n_g, n_r, p_err=0.0, want_hist=False, conflict_bias=0.6)
    st = {"conflicted_grammars": 0, "competing_entries": 0, "entries": 0, "runs_on_conflicted": 0}
    nontrivial = set()
    for r in res:
        if r["rc_a"] != 0:
            continue
        if r["c05"].startswith("ok") and r["impl_lrtab"] != P.strip_c(r["model_lrtab"]):
            # the model's table IS the stated rule applied to the canonical collection (oracle `ok`): a differing entry of the
            # generated table is a concrete counter-example to the property's first sentence
            ck.violation("generated table entry differs from `shift if a shift competes, else the lowest-numbered production`: %s" % pc.first_table_diff(r["impl_lrtab"], P.strip_c(r["model_lrtab"])),
                         {"bnf": r["text"], "generated": r["impl_lrtab"], "rule": P.strip_c(r["model_lrtab"])})
        mc = P.model_conflicts(r["model_lrtab"])
        if r["c05"].startswith("ok"):
            f = dict(x.split("=") for x in r["c05"].split()[1:])
            st["entries"] += int(f["entries"])
            st["competing_entries"] += int(f["competing"])
        else:
            ck.violation("a table entry is not `shift if a shift competes, else the lowest-numbered production`: %s" % r["c05"],
                         {"bnf": r["text"], "oracle": r["c05"], "tables": r["impl_lrtab"]})
        if mc:
            st["conflicted_grammars"] += 1
            nontrivial.add(r["text"])
            st["runs_on_conflicted"] += sum(1 for c in r["cases"] if c["kind"] == "parse")
    ties = pc.tie_violations(ck, res, want_kinds=("parse",))
    ck.proof_failures(failed, "C05 theorems")
    ck.cov.update({"evaluations": st["entries"] + st["runs_on_conflicted"], "distinct_nontrivial": len(nontrivial),
                   "rule": "random grammars with -a; every (state, terminal) entry of the generated table is compared with the rule stated outright over the competing item "
                           "actions of the canonical collection; the compiled parser's verdicts, results and reduction logs on conflicted grammars equal those of the model "
                           "machine running the same (resolved) table; non-trivial = distinct grammars with at least one conflicting state",
                   "stats": st, "model_disagreements": ties,
                   "samples": [{"bnf": r["text"], "c05": r["c05"]} for r in res if P.model_conflicts(r["model_lrtab"] or "")][:2]})
    return ck.finish()
