"""C15 — the front end accepts exactly the token language of spec/gocc2.ebnf.
Regenerated every run: tables.go (through the compiled current tree) and spec/gocc2.ebnf are translated to
Lean data; the kernel re-evaluates the verified validator on them (Props/C15.lean)."""
import itertools
import os
import sys

from .. import common as C
from .. import gram

sys.path.insert(0, os.path.join(C.VERIF, "tools"))


def sentences(rng, gprods, nts, n, maxdepth=12):
    by = {}
    for h, b in gprods:
        by.setdefault(h, []).append(b)
    out = []

    def expand(sym, depth):
        alts = by[sym]
        if depth <= 0:
            alts = sorted(alts, key=len)[:2]
        elif len(alts) > 2 and rng.random() < 0.5:
            alts = sorted(alts, key=len)[2:]        # prefer the rarer, longer alternatives half of the time
        res = []
        for s in rng.choice(alts):
            if s in by:
                res += expand(s, depth - 1)
            else:
                res.append(s)
            if len(res) > 90:
                raise RecursionError
        return res
    for _ in range(4 * n):
        try:
            out.append(expand("S'", rng.randint(2, maxdepth)))
        except RecursionError:
            pass
        if len(out) >= n:
            break
    return out


def run(tier):
    import gen_frontend
    ck = C.Check("C15", tier)
    info = gen_frontend.main()
    failed = ck.proofs()
    fe_terms = info["terminals"]                      # index = front-end type
    ttype = {n: k for k, n in enumerate(fe_terms)}
    gprods = info["grammar"]
    nts = {h for h, _ in gprods}
    alpha = list(range(1, len(fe_terms)))
    alias = {n: "T%d" % (k + 1) for k, n in enumerate(fe_terms)}
    syn = [(h, [(0, s) if s in nts else (1, alias[s]) for s in b], 0, 0) for h, b in gprods[1:]]
    reg = "G 0 " + gram.encode({"lex": [], "syn": syn})
    mterms = [bytes.fromhex(h[1:]).decode() for h in C.run_model([reg, "terminals 0"])[1].split()]
    mtype = {int(n[1:]) - 1: k for k, n in enumerate(mterms) if n.startswith("T")}     # front-end type -> model terminal index
    maxlen = 3 if tier == "quick" else 4
    state = {"seqs": 0, "accepted": 0, "nontrivial": set(), "sents": []}

    def differential(n_sent, exhaustive):
        """token sequences (front-end types 1..n-1; 0 is end of input): real parser vs Earley on the ebnf vs the Parse model"""
        seqs = [[]]
        if exhaustive:
            for l in range(1, maxlen + 1):
                seqs += [list(t) for t in itertools.product(alpha, repeat=l)]
        sents = [[ttype[s] for s in w] for w in sentences(ck.rng, gprods, nts, n_sent)]
        state["sents"] = sents
        seqs += sents
        for w in sents:
            for _ in range(3):
                v = list(w)
                k = ck.rng.random()
                if k < 0.35 and v:
                    del v[ck.rng.randrange(len(v))]
                elif k < 0.7:
                    v.insert(ck.rng.randint(0, len(v)), ck.rng.choice(alpha))
                elif v:
                    v[ck.rng.randrange(len(v))] = ck.rng.choice(alpha)
                seqs.append(v)
        seqs = [list(x) for x in dict.fromkeys(map(tuple, seqs))]
        ck.rng.shuffle(seqs)          # one parser object serves all of them: verdicts must not depend on the order
        lines = ["feparse " + " ".join(map(str, w)) for w in seqs]
        impl = C.run_lines(C.build_drv(), lines)[1]
        model = C.run_model(lines, timeout=3000)
        earley = C.run_model([reg] + ["earley 0 " + " ".join(str(mtype.get(t, 0)) for t in w) for w in seqs], timeout=6000)[1:]
        found = 0
        for w, i, m, e in zip(seqs, impl, model, earley):
            iv = "accept" if i.startswith(("accept", "semerr")) else "reject"
            state["accepted"] += iv == "accept"
            if len(w) >= 4:
                state["nontrivial"].add(tuple(w))
            sentence = e.startswith("yes")
            names = [fe_terms[t] for t in w]
            if (iv == "accept") != sentence:
                found += 1
                ck.violation("gocc's own parser %ss the token sequence %s, which is %sa sentence of spec/gocc2.ebnf" % (iv, names, "" if sentence else "not "),
                             {"tokens": names, "types": w, "impl": i, "earley": e})
            elif not i.startswith("semerr") and i != m:
                ck.violation("correspondence broken: front-end Parse vs Gocc.parse on the regenerated tables: tokens %s: impl %s model %s" % (names, i, m),
                             {"tokens": names, "impl": i, "model": m, "unchecked": "correspondence Gocc.parse vs internal/frontend/parser Parse"}, found_input=False)
        state["seqs"] += len(seqs)
        return found

    found = differential(300 if tier == "quick" else 6000, True)
    if failed and not found:
        # a regenerated obligation no longer checks: search harder for an input on which the property fails
        differential(60000, False)
    seqs_n, accepted, nontrivial, sents = state["seqs"], state["accepted"], state["nontrivial"], state["sents"]
    for pr in info["problems"]:
        ck.violation("tables.go and spec/gocc2.ebnf drifted apart: " + pr, {"problem": pr}, found_input=False)
    if failed:
        # a regenerated obligation no longer checks: the differential run above is the search for a failing input
        ck.proof_failures(failed, "C15 theorems over the regenerated tables / grammar")
    ck.cov.update({"evaluations": seqs_n, "distinct_nontrivial": len(nontrivial), "exhaustive_up_to_length": maxlen,
                   "accepted": accepted, "states": info["states"], "productions": info["productions"], "regenerated_file_changed": info["changed"],
                   "rule": "all token sequences over the 21 front-end token types up to length %d, sentences of the ebnf from a derivation generator and three single-token "
                           "mutations of each; judged by an Earley recogniser running on the ebnf grammar and compared with the Parse model on the regenerated tables; "
                           "non-trivial = distinct sequences of length >= 4" % maxlen,
                   "samples": [[fe_terms[t] for t in w] for w in sents[:3]]})
    ck.assumptions += ["theorem direction proved for all sequences: accept => sentence (C15_accept_implies_sentence); sentence => accept is checked by the Earley differential run",
                       "front-end Parse is an older template than the one modelled; tied by this run (verdict and number of Scan calls)"]
    return ck.finish()
