"""C14 — ill-formed grammars are rejected, never silently repaired."""
import os
import re
import sys

from .. import common as C
from .. import gram, batch

sys.path.insert(0, os.path.join(C.VERIF, "tools"))

TOKEN_RE = re.compile(r"""'(?:\\.|[^\\'])+'|"(?:\\.|[^\\"])*"|`[^`]*`|<<.*?>>|[^\s'"`]+""", re.S)
VOCAB = [":", ";", "|", "(", ")", "[", "]", "{", "}", ".", "-", "tok9", "_reg9", "!ign9", "Prod9", "'q'", "\"str\"", "<< nil, nil >>", "error", "empty",
         ",", "<", "/", "import", "9"]


def mutate(rng, toks, defs):
    """returns (kind, new token list, ill_formed_by_construction)"""
    k = rng.random()
    t = list(toks)
    if k < 0.25 and t:
        del t[rng.randrange(len(t))]
        return "delete", t, False
    if k < 0.5:
        t.insert(rng.randint(0, len(t)), rng.choice(VOCAB))
        return "insert", t, False
    if k < 0.7 and t:
        t[rng.randrange(len(t))] = rng.choice(VOCAB)
        return "substitute", t, False
    if k < 0.8:
        # reference renaming: a production / regular definition that is not defined
        idx = [i for i, x in enumerate(t) if i > 0 and t[i - 1] != ";" and i + 1 < len(t) and t[i + 1] != ":" and (re.fullmatch(r"N\d+|S0", x) or re.fullmatch(r"_r\d+", x))]
        if idx:
            i = rng.choice(idx)
            t[i] = "Undefined9" if t[i][0] in "NS" else "_undefined9"
            return "rename_ref", t, True
    if k < 0.9 and defs:
        # duplicate a token / ignored token / regular definition
        s, e = rng.choice(defs)
        return "dup_def", t[:e] + t[s:e] + t[e:], True
    # leave an alternative empty
    idx = [i for i, x in enumerate(t) if x == "|"]
    if idx:
        i = rng.choice(idx)
        j = i + 1
        while j < len(t) and t[j] not in ("|", ";"):
            j += 1
        return "empty_alt", t[:i + 1] + t[j:], True
    t.append(":")
    return "insert", t, False


def map_pat(p, f):
    return [[(t[0], map_pat(t[1], f)) if t[0] in "opg" else f(t) for t in alt] for alt in p]


def refs_of(p, acc):
    for alt in p:
        for t in alt:
            if t[0] == 'f':
                acc.append(t[1])
            elif t[0] in "opg":
                refs_of(t[1], acc)
    return acc


def value_mutant(rng, g):
    """mutations of the grammar VALUE (so that the Lean model of the semantic checks can predict the verdict):
    reference renaming (production, regular definition), definition duplication of each kind, and harmless
    twins of each (undeclared token: a warning; unused extra definitions)"""
    lex = [tuple(x) for x in g["lex"]]
    syn = [tuple(x) for x in g["syn"]]
    k = rng.choice(["rename_prod", "rename_regdef", "dup_def", "dup_def", "undeclared_token", "extra_unused_def", "nested_undefined_regdef",
                    "undefined_in_unused_regdef"])
    if k == "rename_prod":
        idx = [(i, j) for i, (h, b, _, _) in enumerate(syn) for j, (kd, n) in enumerate(b) if kd == 0]
        if not idx:
            return None
        i, j = rng.choice(idx)
        h, b, a, aid = syn[i]
        b = list(b)
        b[j] = (0, rng.choice(["Undefined9", "Zz", "N0x", "Äb", "Ωmega", "Éé9"]))
        syn[i] = (h, b, a, aid)
    elif k == "rename_regdef":
        cands = [i for i, (_, _, p) in enumerate(lex) if refs_of(p, [])]
        if not cands:
            return None
        i = rng.choice(cands)
        kd, n, p = lex[i]
        victim = rng.choice(refs_of(p, []))
        lex[i] = (kd, n, map_pat(p, lambda t: ('f', "_undefined9") if t == ('f', victim) else t))
    elif k == "dup_def":
        if not lex:
            return None
        d = rng.choice(lex)
        lex.insert(rng.randint(0, len(lex)), (d[0], d[1], rng.choice([d[2], [[('l', 113)]]])))
    elif k == "undeclared_token":
        if not syn:
            return None
        i = rng.randrange(len(syn))
        h, b, a, aid = syn[i]
        if b and b[0][1] in ("empty", "error"):
            return None
        syn[i] = (h, list(b) + [(1, "undeclared9")], a, aid)
    elif k == "extra_unused_def":
        lex.append(rng.choice([(2, "_unused9", [[('l', 113)]]), (0, "unused9", [[('l', 113)]]), (1, "!unused9", [[('l', 113)]])]))
    elif k == "nested_undefined_regdef":
        lex.append((0, "nest9", [[('l', 113), ('o', [[('p', [[('g', [[('f', "_undefined9")]])]])]])]]))
    else:
        # inside a definition nothing uses; sometimes after a reference that IS defined
        regs = [n for kd, n, _ in lex if kd == 2]
        if rng.random() < 0.6:
            if not regs:
                lex.append((2, "_def9", [[('l', 113)]]))
                regs = ["_def9"]
            lex.append((2, "_unused9", [[('f', rng.choice(regs)), ('l', 120), ('p', [[('f', "_undefined9")]])]]))
        else:
            lex.append((2, "_unused9", [[('f', "_undefined9")]]))
    return k, {"lex": lex, "syn": syn}


def category(out):
    if "duplicate token def" in out or "duplicate ignored token def" in out or "already exists" in out:
        return "dup"
    if "empty production alternative" in out:
        return "emptyalt"
    if "undefined symbol used in production" in out:
        return "undefprod"
    if "undefined regular definition" in out:
        return "undefregdef"
    return "none"


RAW_BAD = ["A : \"b\" ; /* B : C ;", "A : \"\\q\" ;", "a : 'ab' ;", "a : '' ;", "A : \"b ;", "A : `b ;", "A : b << x ;", "a : '\\400' ;", "a : '\\uD800' ;",
           "a : 'x' ; \x00", "a : '\xff' ;", "A : \"x\x80y\" ;", "a : 'x' ; /* \x80 */", "a : '\x80' ;", "A : \"\xc0\x80\" ;", "a : 'x' ; // \x81", "A : : b ;", "A : b | ( b ;", "A : b ; ;", "A : b", "A b ;", ": A b ;", "a : 'x' -- 'z' ;",
           "A : b | ;", "A : ;", "A : B ;", "a : _x ;", "a : 'x' ; a : 'y' ;", "!a : 'x' ; !a : 'y' ;", "_a : 'x' ; _a : 'y' ; b : _a ;"]


def flagset(rng):
    """an ill-formed grammar is refused under every configuration: half of the cases run with a random set of the presentation
    flags (a check that is skipped when, say, no lexer is wanted would let the file through)"""
    fl = ["-a"]
    if rng.random() < 0.5:
        for f in ["-no_lexer", "-zip", "-v", "-debug_parser", "-debug_lexer"]:
            if rng.random() < 0.4 and not (f == "-debug_lexer" and "-no_lexer" in fl):
                fl.append(f)
    return fl


def run(tier):
    import gen_frontend
    ck = C.Check("C14", tier)
    info = gen_frontend.main()
    failed = ck.proofs()
    fe_terms = info["terminals"]
    gprods = info["grammar"]
    nts = {h for h, _ in gprods}
    alias = {n: "T%d" % (k + 1) for k, n in enumerate(fe_terms)}
    reg = "G 0 " + gram.encode({"lex": [], "syn": [(h, [(0, s) if s in nts else (1, alias[s]) for s in b], 0, 0) for h, b in gprods[1:]]})
    mterms = [bytes.fromhex(h[1:]).decode() for h in C.run_model([reg, "terminals 0"])[1].split()]
    mtype = {int(n[1:]) - 1: k for k, n in enumerate(mterms) if n.startswith("T")}
    nbase = 12 if tier == "quick" else 150
    nmut = 40 if tier == "quick" else 150
    b = batch.Batch("c14")
    cases = []
    vcases = []
    try:
        for k in range(nbase):
            lex = gram.rand_lex(ck.rng, regdef_mode=ck.rng.choice(["single", "multi"]))
            syn = gram.rand_syn(ck.rng, gram.tokens_of_lex(lex) + [(2, "+")], acts=False, p_error=0.1, p_empty=0.3)
            text = gram.render({"lex": lex, "syn": syn})
            toks = TOKEN_RE.findall(text)
            defs = []
            start = 0
            for i, x in enumerate(toks):
                if x == ";":
                    if toks[start][0] in "t_!" and start + 1 < len(toks) and toks[start + 1] == ":":
                        defs.append((start, i + 1))
                    start = i + 1
            cases.append(("base", b.add(None, flags=flagset(ck.rng), text=text), False, text))
            for _ in range(max(6, nmut // 4)):
                vm = value_mutant(ck.rng, {"lex": lex, "syn": syn})
                if vm:
                    vtxt = gram.render(vm[1])
                    vcases.append((vm[0], b.add(None, flags=flagset(ck.rng), text=vtxt), vm[1], vtxt))
            for _ in range(nmut):
                kind, t2, ill = mutate(ck.rng, toks, defs)
                txt = " ".join(t2) + "\n"
                cases.append((kind, b.add(None, flags=flagset(ck.rng), text=txt), ill, txt))
        for raw in RAW_BAD:
            cases.append(("hand", b.add(None, flags=flagset(ck.rng), text=raw.encode("latin1") if any(ord(ch) > 0x7f for ch in raw) else raw), True, raw))
        b.generate()
        # oracle: the real scanner's token types + error count, and membership in L(ebnf) by Earley
        srcs = [b.items[i]["text"] for _, i, _, _ in cases]
        scans = C.run_lines(C.build_drv(), ["fescan " + " ".join(map(str, s)) for s in srcs])[1]
        elines = []
        for sc in scans:
            toks = sc.rsplit(" errs=", 1)[0].split()
            types = [int(x.split(":")[0]) for x in toks]
            types = types[:-1] if types and types[-1] == 0 else types
            elines.append("earley 0 " + " ".join(str(mtype.get(t, 0)) for t in types))
        earley = C.run_model([reg] + elines, timeout=6000)[1:]
        stats = {"base": 0, "mutants": 0, "ill_formed": 0, "rejected": 0, "by_kind": {}, "lexical_errors": 0, "not_in_ebnf": 0, "semantic": 0}
        nontrivial = set()
        for (kind, i, ill_c, txt), sc, e in zip(cases, scans, earley):
            it = b.items[i]
            errs = int(sc.rsplit(" errs=", 1)[1])
            illegal = any(x.startswith("-1:") for x in sc.split())
            in_lang = e.startswith("yes")
            ill = ill_c or errs > 0 or illegal or not in_lang
            stats["by_kind"][kind] = stats["by_kind"].get(kind, 0) + 1
            if kind == "base":
                stats["base"] += 1
                # C14 is about rejection only; a base grammar may legitimately be refused (accept/reduce clash, C04)
                stats["base_refused"] = stats.get("base_refused", 0) + (it["rc"] != 0)
                if it["hang"]:
                    ck.violation("gocc did not terminate on a well-formed grammar", {"bnf": txt})
                continue
            stats["mutants"] += 1
            stats["lexical_errors"] += errs > 0 or illegal
            stats["not_in_ebnf"] += not in_lang
            stats["semantic"] += ill_c
            if ill:
                stats["ill_formed"] += 1
                nontrivial.add(txt)
                stats["rejected"] += it["rc"] != 0
                if it["hang"]:
                    ck.violation("gocc did not terminate on an ill-formed grammar", {"bnf": txt})
                elif it["rc"] == 0:
                    why = "lexical errors" if errs or illegal else "token sequence not in spec/gocc2.ebnf" if not in_lang else kind
                    ck.violation("an ill-formed grammar (%s) was accepted with exit status 0: %r" % (why, txt[:200]),
                                 {"bnf": txt, "flags": it["flags"], "kind": kind, "scanner": sc[:400], "earley": e, "stdout": it["out"], "stderr": it["err"][-400:]})
        # semantic half: the Lean model of the semantic checks predicts the verdict of every value-level mutant
        mlines = []
        for k, (_, _, g2, _) in enumerate(vcases):
            mlines += ["G %d %s" % (k, gram.encode(g2)), "semcheck %d" % k, "semspec %d" % k]
        mall = C.run_model(mlines, timeout=3000) if mlines else []
        mout, sout = mall[1::3], mall[2::3]
        vstats = {}
        for (kind, i, g2, vtxt), mv, sv in zip(vcases, mout, sout):
            it = b.items[i]
            outp = (it["out"] + it["err"])
            cat = category(outp)
            mcat = mv.split()[0] if mv else "?"
            vstats.setdefault(kind, {"n": 0, "model_rejects": 0, "gocc_rejects": 0})
            vstats[kind]["n"] += 1
            vstats[kind]["model_rejects"] += mcat != "ok"
            vstats[kind]["gocc_rejects"] += it["rc"] != 0
            stats["mutants"] += 1
            vstats[kind]["spec_ill_formed"] = vstats[kind].get("spec_ill_formed", 0) + (sv == "ill")
            if sv == "ill" and it["rc"] == 0 and not it["hang"]:
                ck.violation("a grammar that violates the property's clauses (%s; Spec/SemWF.lean) was accepted with exit status 0" % kind,
                             {"bnf": vtxt, "flags": it["flags"], "kind": kind, "model": mv, "spec": sv, "stdout": it["out"], "stderr": it["err"][-400:]})
                continue
            if (sv == "ill") != (mcat != "ok"):
                ck.violation("the model of the semantic checks (semCheck: %s) and the property's clauses (%s) disagree on a %s mutant" % (mv, sv, kind),
                             {"bnf": vtxt, "flags": it["flags"], "kind": kind, "model": mv, "spec": sv, "gocc_rc": it["rc"],
                              "unchecked": "theorem C14_semCheck_iff"}, found_input=False)
            if mcat != "ok":
                stats["ill_formed"] += 1
                stats["semantic"] += 1
                nontrivial.add(vtxt)
                stats["rejected"] += it["rc"] != 0
            if it["hang"]:
                ck.violation("gocc did not terminate on a semantically mutated grammar", {"bnf": vtxt})
            elif mcat != "ok" and it["rc"] == 0:
                ck.violation("a grammar the property calls ill-formed (%s: %s) was accepted with exit status 0" % (kind, mv),
                             {"bnf": vtxt, "flags": it["flags"], "kind": kind, "model": mv, "stdout": it["out"], "stderr": it["err"][-400:]})
            elif (mcat if mcat != "ok" else "none") != cat:
                ck.violation("correspondence broken: semantic checks of gocc answer `%s`, the model semCheck answers `%s` (%s)" % (cat, mv, kind),
                             {"bnf": vtxt, "flags": it["flags"], "kind": kind, "model": mv, "gocc_rc": it["rc"], "stderr": it["err"][-400:]}, found_input=False)
        stats["value_mutants"] = vstats
    finally:
        b.close()
    ck.proof_failures(failed, "C14/C15 theorems")
    ck.cov.update({"evaluations": stats["mutants"] + stats["base"], "distinct_nontrivial": len(nontrivial), "stats": stats,
                   "rule": "well-formed random grammars and token-level mutants of them (deletion, insertion, substitution at random positions with a vocabulary of every token kind), "
                           "undefined production / regular definition references, duplicated definitions, emptied alternatives, plus hand-written lexically broken files; "
                           "value-level mutants (reference renaming, duplication of each kind of definition, undefined regular definition nested in [..]{..}(..) or inside an unused definition, and harmless twins: undeclared token, unused definitions) "
                           "whose verdict and error category are predicted by the Lean model semCheck (proved equivalent to the property's clauses) and compared with gocc's; "
                           "ill-formed = scanner error or ILLEGAL token, or token sequence outside L(spec/gocc2.ebnf) by Earley, or semantic by construction; non-trivial = distinct ill-formed files",
                   "samples": [c[3][:200] for c in cases if c[0] != "base"][:3]})
    ck.assumptions += ["token-level conformance uses the real scanner's token types (tied to its Lean model in C13) and an Earley recogniser on the ebnf read independently of gocc",
                       "theorems: gocc's parser accepts exactly L(ebnf) and has no recovery states (C15), so nothing is skipped once the reduce functions are reached"]
    return ck.finish()
