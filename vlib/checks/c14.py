"""C14 — ill-formed grammars are rejected, never silently repaired."""
import os
import re
import sys

from .. import common as C
from .. import gram, batch

sys.path.insert(0, os.path.join(C.VERIF, "tools"))

TOKEN_RE = re.compile(r"""'(?:\\.|[^\\'])+'|"[^"]*"|`[^`]*`|<<.*?>>|[^\s'"`]+""", re.S)
VOCAB = [":", ";", "|", "(", ")", "[", "]", "{", "}", ".", "-", "tok9", "_reg9", "!ign9", "Prod9", "'q'", "\"str\"", "<< nil, nil >>", "error", "empty",
         ",", "<", "/", "import", "9"]


def mutate(rng, toks, defs):
    """returns (kind, new token list, ill_formed_by_construction)"""
    k = rng.random()
    t = list(toks)
    if k < 0.25 and t:
        del t[rng.randrange(len(t))]
        return "delete", t, False
    if k < 0.5:
        t.insert(rng.randint(0, len(t)), rng.choice(VOCAB))
        return "insert", t, False
    if k < 0.7 and t:
        t[rng.randrange(len(t))] = rng.choice(VOCAB)
        return "substitute", t, False
    if k < 0.8:
        # reference renaming: a production / regular definition that is not defined
        idx = [i for i, x in enumerate(t) if i > 0 and t[i - 1] != ";" and i + 1 < len(t) and t[i + 1] != ":" and (re.fullmatch(r"N\d+|S0", x) or re.fullmatch(r"_r\d+", x))]
        if idx:
            i = rng.choice(idx)
            t[i] = "Undefined9" if t[i][0] in "NS" else "_undefined9"
            return "rename_ref", t, True
    if k < 0.9 and defs:
        # duplicate a token / ignored token / regular definition
        s, e = rng.choice(defs)
        return "dup_def", t[:e] + t[s:e] + t[e:], True
    # leave an alternative empty
    idx = [i for i, x in enumerate(t) if x == "|"]
    if idx:
        i = rng.choice(idx)
        j = i + 1
        while j < len(t) and t[j] not in ("|", ";"):
            j += 1
        return "empty_alt", t[:i + 1] + t[j:], True
    t.append(":")
    return "insert", t, False


RAW_BAD = ["A : \"b\" ; /* B : C ;", "A : \"\\q\" ;", "a : 'ab' ;", "a : '' ;", "A : \"b ;", "A : `b ;", "A : b << x ;", "a : '\\400' ;", "a : '\\uD800' ;",
           "a : 'x' ; \x00", "a : '\xff' ;", "A : \"x\x80y\" ;", "a : 'x' ; /* \x80 */", "a : '\x80' ;", "A : \"\xc0\x80\" ;", "a : 'x' ; // \x81", "A : : b ;", "A : b | ( b ;", "A : b ; ;", "A : b", "A b ;", ": A b ;", "a : 'x' -- 'z' ;",
           "A : b | ;", "A : ;", "A : B ;", "a : _x ;", "a : 'x' ; a : 'y' ;", "!a : 'x' ; !a : 'y' ;", "_a : 'x' ; _a : 'y' ; b : _a ;"]


def run(tier):
    import gen_frontend
    ck = C.Check("C14", tier)
    info = gen_frontend.main()
    failed = ck.proofs()
    fe_terms = info["terminals"]
    gprods = info["grammar"]
    nts = {h for h, _ in gprods}
    alias = {n: "T%d" % (k + 1) for k, n in enumerate(fe_terms)}
    reg = "G 0 " + gram.encode({"lex": [], "syn": [(h, [(0, s) if s in nts else (1, alias[s]) for s in b], 0, 0) for h, b in gprods[1:]]})
    mterms = [bytes.fromhex(h[1:]).decode() for h in C.run_model([reg, "terminals 0"])[1].split()]
    mtype = {int(n[1:]) - 1: k for k, n in enumerate(mterms) if n.startswith("T")}
    nbase = 12 if tier == "quick" else 400
    nmut = 40 if tier == "quick" else 250
    b = batch.Batch("c14")
    cases = []
    try:
        for k in range(nbase):
            lex = gram.rand_lex(ck.rng, regdef_mode=ck.rng.choice(["single", "multi"]))
            syn = gram.rand_syn(ck.rng, gram.tokens_of_lex(lex) + [(2, "+")], acts=False, p_error=0.1, p_empty=0.3)
            text = gram.render({"lex": lex, "syn": syn})
            toks = TOKEN_RE.findall(text)
            defs = []
            start = 0
            for i, x in enumerate(toks):
                if x == ";":
                    if toks[start][0] in "t_!" and start + 1 < len(toks) and toks[start + 1] == ":":
                        defs.append((start, i + 1))
                    start = i + 1
            cases.append(("base", b.add(None, flags=["-a"], text=text), False, text))
            for _ in range(nmut):
                kind, t2, ill = mutate(ck.rng, toks, defs)
                txt = " ".join(t2) + "\n"
                cases.append((kind, b.add(None, flags=["-a"], text=txt), ill, txt))
        for raw in RAW_BAD:
            cases.append(("hand", b.add(None, flags=["-a"], text=raw.encode("latin1") if any(ord(ch) > 0x7f for ch in raw) else raw), True, raw))
        b.generate()
        # oracle: the real scanner's token types + error count, and membership in L(ebnf) by Earley
        srcs = [b.items[i]["text"] for _, i, _, _ in cases]
        scans = C.run_lines(C.build_drv(), ["fescan " + " ".join(map(str, s)) for s in srcs])[1]
        elines = []
        for sc in scans:
            toks = sc.rsplit(" errs=", 1)[0].split()
            types = [int(x.split(":")[0]) for x in toks]
            types = types[:-1] if types and types[-1] == 0 else types
            elines.append("earley 0 " + " ".join(str(mtype.get(t, 0)) for t in types))
        earley = C.run_model([reg] + elines, timeout=6000)[1:]
        stats = {"base": 0, "mutants": 0, "ill_formed": 0, "rejected": 0, "by_kind": {}, "lexical_errors": 0, "not_in_ebnf": 0, "semantic": 0}
        nontrivial = set()
        for (kind, i, ill_c, txt), sc, e in zip(cases, scans, earley):
            it = b.items[i]
            errs = int(sc.rsplit(" errs=", 1)[1])
            illegal = any(x.startswith("-1:") for x in sc.split())
            in_lang = e.startswith("yes")
            ill = ill_c or errs > 0 or illegal or not in_lang
            stats["by_kind"][kind] = stats["by_kind"].get(kind, 0) + 1
            if kind == "base":
                stats["base"] += 1
                # C14 is about rejection only; a base grammar may legitimately be refused (accept/reduce clash, C04)
                stats["base_refused"] = stats.get("base_refused", 0) + (it["rc"] != 0)
                if it["hang"]:
                    ck.violation("gocc did not terminate on a well-formed grammar", {"bnf": txt})
                continue
            stats["mutants"] += 1
            stats["lexical_errors"] += errs > 0 or illegal
            stats["not_in_ebnf"] += not in_lang
            stats["semantic"] += ill_c
            if ill:
                stats["ill_formed"] += 1
                nontrivial.add(txt)
                stats["rejected"] += it["rc"] != 0
                if it["hang"]:
                    ck.violation("gocc did not terminate on an ill-formed grammar", {"bnf": txt})
                elif it["rc"] == 0:
                    why = "lexical errors" if errs or illegal else "token sequence not in spec/gocc2.ebnf" if not in_lang else kind
                    ck.violation("an ill-formed grammar (%s) was accepted with exit status 0: %r" % (why, txt[:200]),
                                 {"bnf": txt, "kind": kind, "scanner": sc[:400], "earley": e, "stdout": it["out"], "stderr": it["err"][-400:]})
    finally:
        b.close()
    ck.proof_failures(failed, "C14/C15 theorems")
    ck.cov.update({"evaluations": stats["mutants"] + stats["base"], "distinct_nontrivial": len(nontrivial), "stats": stats,
                   "rule": "well-formed random grammars and token-level mutants of them (deletion, insertion, substitution at random positions with a vocabulary of every token kind), "
                           "undefined production / regular definition references, duplicated definitions, emptied alternatives, plus hand-written lexically broken files; "
                           "ill-formed = scanner error or ILLEGAL token, or token sequence outside L(spec/gocc2.ebnf) by Earley, or semantic by construction; non-trivial = distinct ill-formed files",
                   "samples": [c[3][:200] for c in cases if c[0] != "base"][:3]})
    ck.assumptions += ["token-level conformance uses the real scanner's token types (tied to its Lean model in C13) and an Earley recogniser on the ebnf read independently of gocc",
                       "theorems: gocc's parser accepts exactly L(ebnf) and has no recovery states (C15), so nothing is skipped once the reduce functions are reached"]
    return ck.finish()
