"""C03 — semantic actions are applied bottom-up, left to right, over the parse tree.
Oracle: table-free tree evaluation (Gocc.spanTree + evalTree) against the compiled parser's result and call log."""
from .. import common as C
from .. import parsefam as P
from . import pcommon as pc


def run(tier):
    ck = C.Check("C03", tier)
    failed = ck.proofs()
    n_g, n_r = (45, 14) if tier == "quick" else (400, 24)
    res = P.run_family(ck, n_g, n_r, p_err=0.3, want_hist=True)
    ties = pc.tie_violations(ck, res, want_kinds=("parse", "fail"))
    st = {"results_checked": 0, "failing_action_runs": 0, "with_actions": 0, "shapes": {}}
    nontrivial = set()
    validated = 0
    for r in res:
        if not pc.is_lr1(r):
            continue
        if r["g"]["err"]:
            # grammars with error alternatives: only the error clause (a failing action ends Parse with that error)
            for c in r["cases"]:
                if c["kind"] == "fail":
                    st["failing_action_runs"] += 1
                    v = pc.verdict(c["impl"])
                    log = pc.log_of(c["impl"]) or []
                    if v != "acterr" or len(log) != c["extra"]:
                        ck.violation("a failing action did not end Parse with its error (outcome %s, %d calls logged, failing call %d); tokens %s: `%s`" % (v, len(log), c["extra"], c["w"], c["impl"]),
                                     {"bnf": r["text"], "op": c["line"], "impl": c["impl"]})
            continue
        if r["validate"].startswith("safe=1"):
            validated += 1
        else:
            ck.violation("the verified validator (Gocc.safe/safeEnds, theorem C02_accept_sound) rejects the tables gocc generated: %s" % r["validate"],
                         {"bnf": r["text"], "validate": r["validate"], "tables": r["impl_lrtab"], "unchecked": "per-grammar obligation safe G T cert = true"},
                         found_input=False)
        for p in r["g"]["syn"]:
            st["shapes"][str(p[2])] = st["shapes"].get(str(p[2]), 0) + 1
        for c in r["cases"]:
            if c["kind"] == "parse" and c["impl"].startswith("ok "):
                st["results_checked"] += 1
                got = c["impl"].split(" scans=")[0]
                log = pc.log_of(c["impl"])
                if log:
                    st["with_actions"] += 1
                    if len(log) >= 2:
                        nontrivial.add((r["gi"], tuple(c["w"])))
                if c["tree"] is None or c["tree"] == "notree":
                    continue     # Earley/C02 judges acceptance
                if got != c["tree"]:
                    ck.violation("Parse result or action-call sequence differs from the post-order evaluation of the parse tree: tokens %s: parser `%s` tree `%s`" % (c["w"], got, c["tree"]),
                                 {"bnf": r["text"], "op": c["line"], "impl": c["impl"], "tree_eval": c["tree"]})
            elif c["kind"] == "fail":
                st["failing_action_runs"] += 1
                v = pc.verdict(c["impl"])
                k = c["extra"]
                log = pc.log_of(c["impl"]) or []
                tl = pc.log_of(c["tree"] or "") if c["tree"] else None
                bad = None
                if v != "acterr":
                    bad = "Parse did not return the action's error (outcome %s)" % v
                elif len(log) != k:
                    bad = "after the failing call %d, %d action calls were logged" % (k, len(log))
                elif c["tree"] and c["tree"].startswith("acterr") and (log != tl or c["impl"].split()[1] != c["tree"].split()[1]):
                    bad = "calls before the failure differ from the post-order prefix: %s vs %s" % (log, tl)
                if bad:
                    ck.violation("%s; tokens %s failAt %d: `%s`" % (bad, c["w"], k, c["impl"]),
                                 {"bnf": r["text"], "op": c["line"], "impl": c["impl"], "tree_eval": c["tree"]})
    # results and action calls on a parser object that was used (and failed) before
    for r in res:
        if not pc.is_lr1(r):
            continue
        for h in r["hists"]:
            st["histories"] = st.get("histories", 0) + 1
            if h["impl"] != h["fresh"]:
                ck.violation("results / action calls of a reused parser differ from those of fresh parsers: history %s fails %s: reused `%s` fresh `%s`" % (h["hist"], h["fails"], h["impl"][:300], h["fresh"][:300]),
                             {"bnf": r["text"], "op": h["line"], "reused": h["impl"], "fresh": h["fresh"]})
    ck.proof_failures(failed, "C03 theorems")
    ck.cov.update({"evaluations": st["results_checked"] + st["failing_action_runs"], "distinct_nontrivial": len(nontrivial),
                   "rule": "conflict-free random grammars whose alternatives carry one of eight action shapes ($n incl. $10, $Tn, $Context, a copy of X, X itself retained, printf verbs, none / empty); "
                           "accepted inputs are compared with a tree evaluator that does not use LR tables; every accepted input is re-run with the 1st, a random "
                           "and the last action call failing; non-trivial = distinct (grammar, sentence) with >= 2 action calls",
                   "grammars_validated_by_verified_checker": validated, "stats": st, "model_disagreements": ties,
                   "samples": [c for r in res if pc.is_lr1(r) for c in r["cases"] if c["kind"] == "fail"][:2]})
    ck.assumptions += ["attribute values are immutable in the model; since fix D17 the generated parser hands every action its own copy of X (action shape 8 keeps X and reads it when the result is rendered)",
                       "SDTVal's $-rewriting is exercised through the harness shapes, compiled by the Go compiler"]
    return ck.finish()
