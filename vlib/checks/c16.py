"""C16 — parsers and lexers can be reused: results do not depend on history."""
from .. import common as C
from .. import parsefam as P
from .. import lexfam
from . import pcommon as pc


from .pcommon import is_lr1 as pc_is_lr1


def run(tier):
    ck = C.Check("C16", tier)
    failed = ck.proofs()
    n_g, n_r = (30, 8) if tier == "quick" else (400, 24)
    res = P.run_family(ck, n_g, n_r, p_err=0.4, want_hist=True)
    hists = bad = 0
    kinds = {"ok": 0, "synerr": 0, "acterr": 0, "recovered": 0}
    nontrivial = set()
    for r in res:
        if r["rc_a"] != 0:
            continue
        for h in r["hists"]:
            hists += 1
            for part in h["impl"].split(" || "):
                v = part.split()[0] if part else "?"
                kinds[v] = kinds.get(v, 0) + 1
                kinds["recovered"] += "(err " in part
            if len(set(map(tuple, h["hist"]))) > 1:
                nontrivial.add((r["gi"], tuple(map(tuple, h["hist"])), tuple(h["fails"])))
            if "hang" in h["fresh"].split(" || "):
                # one input of the history does not return even on a fresh parser (a grammar whose conflicts -a resolved
                # into a reduce loop; conflict-free grammars cannot: C02_parse_terminates / C07_parse_terminates).  The
                # driver cannot continue a history past it, so the history is not comparable; the looping input is
                # C04/C05's business
                kinds["not_comparable_looping_input"] = kinds.get("not_comparable_looping_input", 0) + 1
                if pc_is_lr1(r):
                    ck.violation("Parse does not return on a conflict-free grammar: history %s: fresh `%s`" % (h["hist"], h["fresh"][:300]),
                                 {"bnf": r["text"], "op": h["line"], "fresh": h["fresh"]})
                continue
            if h["impl"] != h["fresh"]:
                bad += 1
                ck.violation("a reused parser object differs from fresh parsers: history %s fails %s: reused `%s` fresh `%s`" % (h["hist"], h["fails"], h["impl"], h["fresh"]),
                             {"bnf": r["text"], "op": h["line"], "reused": h["impl"], "fresh": h["fresh"]})
            elif h["impl"] != h["model"] and "hang" not in h["impl"]:
                ck.violation("correspondence broken: history on one parser object vs Gocc.parse: `%s` vs `%s`" % (h["impl"], h["model"]),
                             {"bnf": r["text"], "op": h["line"], "impl": h["impl"], "model": h["model"], "unchecked": "correspondence Gocc.parse"}, found_input=False)
    # lexer half: scan k tokens, Reset, scan again
    lres = lexfam.run_family(ck, 20 if tier == "quick" else 400, 20 if tier == "quick" else 80, with_reset=True)
    resets = 0
    for r in lres:
        if r["rc"] != 0:
            continue
        for s in r["scans"]:
            if s["reset_at"] < 0:
                continue
            resets += 1
            toks = s["impl"].split()
            k = s["reset_at"]
            after = toks[k:]
            fresh_prefix = toks[:len(after)]
            # tokens returned after Reset must be the first tokens of a freshly created lexer: the run before the
            # reset IS a fresh lexer, so its first len(after) tokens are the oracle (when it got that far)
            if k < len(toks) and len(fresh_prefix) == len(after) and k >= len(after) and after != fresh_prefix:
                ck.violation("after Reset the lexer returns different tokens/positions than a fresh lexer: before %s after %s (bytes %s)" % (fresh_prefix, after, s["src"]),
                             {"bnf": r["text"], "op": s["line"], "impl": s["impl"]})
            elif s["impl"] != s["model"]:
                ck.violation("correspondence broken: Scan/Reset sequence vs Gocc.scan/reset: impl %s model %s" % (s["impl"], s["model"]),
                             {"bnf": r["text"], "op": s["line"], "impl": s["impl"], "model": s["model"], "unchecked": "correspondence Gocc.scan"},
                             found_input=False)
            if k > 0:
                nontrivial.add(("lex", r["i"], tuple(s["src"]), k))
    ck.proof_failures(failed, "C16 theorems")
    ck.cov.update({"evaluations": hists + resets, "distinct_nontrivial": len(nontrivial),
                   "rule": "histories of 2-5 inputs (valid, failing, recovering, with a failing action) on ONE compiled parser object, compared with fresh objects and with the model; "
                           "lexers: k Scan calls, Reset, more Scan calls, compared with the tokens of the fresh lexer and with the model; non-trivial = histories with at least two "
                           "different inputs / resets after at least one call",
                   "history_outcomes": kinds, "parser_histories": hists,
                   "histories_with_input_over_100_tokens": sum(1 for r in res for h in r["hists"] if any(len(x) > 100 for x in h["hist"])), "lexer_resets": resets,
                   "samples": [dict(h, hist=[x[:40] for x in h["hist"]], line=h["line"][:300], impl=h["impl"][:300], model=h["model"][:300], fresh=h["fresh"][:300]) for h in [r["hists"][-1] for r in res if r["hists"]][:2]]})
    ck.assumptions += ["attribute values are immutable in the model; since fix D17 popN copies, and action shape 8 (X itself retained) is part of the histories"]
    return ck.finish()
