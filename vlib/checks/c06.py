"""C06 — syntax errors name the first offending token and the exact expected set."""
import re
from .. import common as C
from .. import parsefam as P
from . import pcommon as pc


def run(tier):
    ck = C.Check("C06", tier)
    failed = ck.proofs()
    n_g, n_r = (50, 10) if tier == "quick" else (400, 24)
    res = P.run_family(ck, n_g, n_r, p_err=0.0, want_hist=True)
    ties = pc.tie_violations(ck, res, want_kinds=("parse", "baseline"))
    st = {"errors_checked": 0, "grammars": 0, "skipped_unproductive": 0, "eof_errors": 0, "lookahead_log_checks": 0}
    nontrivial = set()
    for r in res:
        if not pc.is_lr1(r) or r["g"]["err"]:
            continue
        parses = {tuple(c["w"]): c for c in r["cases"] if c["kind"] == "parse" and c["earley"] is not None}
        if any(c["earley"] and c["earley"].endswith("productive=0") for c in parses.values()):
            st["skipped_unproductive"] += 1
            continue
        st["grammars"] += 1
        if "complete=1 valid=1" in r["validate"]:
            st["validated"] = st.get("validated", 0) + 1
        else:
            ck.violation("the verified validators (complete / validItems; theorems C06_error_token_is_first_offending, C06_expected_set_exact) reject the tables gocc generated "
                         "for a conflict-free, error-free, productive grammar: %s" % r["validate"],
                         {"bnf": r["text"], "validate": r["validate"], "tables": r["impl_lrtab"], "unchecked": "per-grammar obligations complete/validItems = true"},
                         found_input=False)
        base = {(tuple(c["w"]), c["extra"]): c for c in r["cases"] if c["kind"] == "baseline"}
        for w, c in parses.items():
            if not c["impl"].startswith("synerr"):
                continue
            m = re.match(r"synerr t(\d+):(\d+) top=\d+ exp=\[([^\]]*)\]", c["impl"])
            k, typ, exp = int(m.group(1)), int(m.group(2)), [int(x) for x in m.group(3).split()]
            st["errors_checked"] += 1
            st["eof_errors"] += (k == len(w))
            nontrivial.add((r["gi"], w))
            # the prefix before the reported token must be viable and carry the exact expected set
            pre = parses.get(w[:k])
            want_typ = w[k] if k < len(w) else 1
            problems = []
            if typ != want_typ:
                problems.append("error token type %d is not the token at index %d" % (typ, k))
            if pre is not None:
                e = re.match(r"(yes|no) exp=\[([^\]]*)\]", pre["earley"])
                nexts = [int(x) for x in e.group(2).split()]
                if want_typ in nexts:
                    problems.append("token %d at index %d can continue a sentence, yet it is reported" % (want_typ, k))
                if exp != nexts:
                    problems.append("expected list %s differs from the terminals that can follow the prefix: %s" % (exp, nexts))
                # every shorter prefix is viable: the reported token is the first offending one
                for j in range(k):
                    pj = parses.get(w[:j])
                    if pj is not None:
                        ej = [int(x) for x in re.match(r"(yes|no) exp=\[([^\]]*)\]", pj["earley"]).group(2).split()]
                        if w[j] not in ej:
                            problems.append("an earlier token (index %d) already cannot continue any sentence" % j)
                            break
            b = base.get((w, k))
            if b is not None:
                st["lookahead_log_checks"] += 1
                if pc.log_of(b["impl"]) != pc.log_of(c["impl"]):
                    problems.append("actions were run with the offending token as look-ahead: log %s vs %s before it" % (pc.log_of(c["impl"]), pc.log_of(b["impl"])))
            for pr in problems:
                ck.violation("%s; tokens %s: `%s`" % (pr, list(w), c["impl"]), {"bnf": r["text"], "op": c["line"], "impl": c["impl"],
                                                                              "prefix_oracle": pre["earley"] if pre else None})
    # the same error reports from a parser object that has been used (and has failed) before
    reused = 0
    for r in res:
        if not pc.is_lr1(r) or r["g"]["err"]:
            continue
        for h in r["hists"]:
            reused += 1
            if h["impl"] != h["fresh"]:
                ck.violation("error reports of a reused parser differ from those of fresh parsers: history %s: reused `%s` fresh `%s`" % (h["hist"], h["impl"][:300], h["fresh"][:300]),
                             {"bnf": r["text"], "op": h["line"], "reused": h["impl"], "fresh": h["fresh"]})
    st["histories_on_one_parser"] = reused
    ck.proof_failures(failed, "C06 theorems")
    ck.cov.update({"evaluations": st["errors_checked"], "distinct_nontrivial": len(nontrivial),
                   "rule": "conflict-free, error-free random grammars whose non-terminals are all productive; every rejected input (exhaustive short sequences, mutated sentences) "
                           "is judged with the Earley oracle on its prefixes: reported index is the first non-viable one, token identity, expected list = viable continuations "
                           "in type order, and the action log equals that of the same prefix followed by the never-valid INVALID token; non-trivial = distinct (grammar, rejected input)",
                   "stats": st, "model_disagreements": ties,
                   "samples": [c for r in res if pc.is_lr1(r) for c in r["cases"] if c["kind"] == "parse" and c["impl"].startswith("synerr")][:2]})
    ck.assumptions += ["prefixes longer than the enumerated length are judged only when they were themselves generated inputs"]
    return ck.finish()
