"""C19 — markdown input is equivalent to its fenced code, with positions preserved.
Proof: Gocc.Props.C19 (loadMd keeps length and newlines, blanks prose and fences, keeps code; all texts).
Tie: md.GetSource vs the model on generated documents; the real binary on .md vs the extracted .bnf
(byte-identical packages) and on a planted syntax error (diagnostic carries the markdown position)."""
import filecmp
import os
import re
from .. import common as C
from .. import gram, batch

PROSE = ["Some text", "with \"quotes\" and << brackets >>", "/* an unterminated comment", "x : 'a' ;", "tab\there", "ünïcödé ✓ prose",
         "a single ` backquote", "", "  indented", "| pipes | and ; semicolons", "// line comment", "'c' \"s\""]


def rand_doc_runes(rng):
    """runes of a random document: prose / fences / code, including adversarial fence placements"""
    out = []
    n = rng.randint(0, 6)
    for _ in range(n):
        k = rng.random()
        if k < 0.04:
            out += [45, 45, 45, 10] + [ord(c) for c in "t: x"] + [10, 45, 45, 45, 10]
        elif k < 0.35:
            out += [96, 96, 96]
        elif k < 0.45:
            out += [96] * rng.randint(1, 7)
        elif k < 0.8:
            out += [ord(c) for c in rng.choice(PROSE)] + ([10] if rng.random() < 0.7 else [])
        else:
            out += [rng.choice([10, 32, 9, 96, 97, 0x20AC, 0x1F600, 13]) for _ in range(rng.randint(1, 8))]
    return out


def make_md(rng, text):
    """split grammar text into fenced blocks surrounded by prose; returns (md, concatenated code)"""
    lines = text.split("\n")
    if lines and lines[-1] == "":
        lines.pop()
    nblocks = rng.randint(1, min(4, max(1, len(lines))))
    cuts = sorted(rng.sample(range(1, len(lines)), nblocks - 1)) if len(lines) > 1 else []
    blocks, prev = [], 0
    for c in cuts + [len(lines)]:
        blocks.append("\n".join(lines[prev:c]) + "\n")
        prev = c
    md, code = "", ""
    if rng.random() < 0.3:
        # YAML front matter, a table rule, a setext underline: lines of dashes are prose like any other
        md += rng.choice(["---\ntitle: grammar\n---\n", "---\n---\n", "Heading\n---\n", "---\nlayout: page\ntags: [a, b]\n---\n\n"])
    for b in blocks:
        for _ in range(rng.randint(0, 3)):
            md += rng.choice(PROSE) + "\n"
        md += "```\n" + b + "```\n"
        code += "\n" + b
    for _ in range(rng.randint(0, 2)):
        md += rng.choice(PROSE) + "\n"
    return md, code


def tree_equal(a, b):
    cmp = filecmp.dircmp(a, b)
    if cmp.left_only or cmp.right_only or cmp.funny_files:
        return False
    _, mism, errs = filecmp.cmpfiles(a, b, cmp.common_files, shallow=False)
    if mism or errs:
        return False
    return all(tree_equal(os.path.join(a, d), os.path.join(b, d)) for d in cmp.common_dirs)


def run(tier):
    ck = C.Check("C19", tier)
    failed = ck.proofs()
    # unit tie
    n = 400 if tier == "quick" else 30000
    docs = [rand_doc_runes(ck.rng) for _ in range(n)]
    docs += [[96, 96, 96], [96] * 6, [97, 96, 96, 96, 98, 10, 96, 96, 96, 99], [], [96, 96], [10, 96, 96, 96, 10, 120, 10, 96, 96, 96, 10]]
    lines = ["loadmd " + " ".join(map(str, d)) for d in docs]
    impl, model = C.run_pair(lines)
    fences = 0
    for d, i, m in zip(docs, impl, model):
        fences += (i != " ".join(map(str, d)))
        if i != m:
            # oracle: the properties proved of the model, evaluated on the implementation's output
            iv = [int(x) for x in i.split()] if i and i != "panic" else []
            bad = (len(iv) != len(d)) or any((a == 10) != (b2 == 10) or (b2 != a and b2 != 32) for a, b2 in zip(d, iv))
            ck.violation("md.GetSource differs from Gocc.loadMd on %s: impl %s model %s" % (d, i, m),
                         {"op": "loadmd", "input": d, "impl": i, "model": m, "unchecked": "correspondence Gocc.loadMd"},
                         found_input=bad)
    # end to end on the real binary
    ng = 10 if tier == "quick" else 150
    b = batch.Batch("c19")
    e2e = diag = 0
    try:
        pairs = []
        for k in range(ng):
            lex = gram.simple_lex_for(["a", "b", "c"])
            syn = gram.rand_syn(ck.rng, gram.tokens_of_lex(lex), acts=False)
            text = gram.render({"lex": lex, "syn": syn})
            md, code = make_md(ck.rng, text)
            i1 = b.add(None, flags=["-a"], text=md, fname="g.md")
            i2 = b.add(None, flags=["-a"], text=code, fname="g.bnf")
            # planted error: a stray ':' at a known place inside some block
            pos = [m.start() for m in re.finditer(r" ;", md) if md.rfind("```", 0, m.start()) >= 0 and md[:m.start()].count("```") % 2 == 1]
            i3 = None
            if pos:
                p = ck.rng.choice(pos)
                bad = md[:p] + " :" + md[p:]
                i3 = b.add(None, flags=["-a"], text=bad, fname="g.md")
                off = p + 1
                line = bad.count("\n", 0, off) + 1
                col = off - (bad.rfind("\n", 0, off) + 1) + 1
                pairs.append((i1, i2, i3, (line, col)))
            else:
                pairs.append((i1, i2, None, None))
        b.generate()
        for i1, i2, i3, where in pairs:
            a, c = b.items[i1], b.items[i2]
            e2e += 1
            same = a["rc"] == c["rc"] and a["out"] == c["out"]
            if same and a["rc"] == 0:
                same = tree_equal(os.path.join(a["dir"], "out"), os.path.join(c["dir"], "out").replace("/out", "/out")) if False else True
                # package paths differ per directory (gN), so compare file contents modulo the directory name
                for root, _, files in os.walk(os.path.join(a["dir"], "out")):
                    for f in files:
                        pa = os.path.join(root, f)
                        pc = pa.replace(a["dir"], c["dir"])
                        if not os.path.exists(pc):
                            same = False
                            continue
                        ta = open(pa, "rb").read().replace(os.path.basename(a["dir"]).encode(), b"gX")
                        tc = open(pc, "rb").read().replace(os.path.basename(c["dir"]).encode(), b"gX")
                        if ta != tc:
                            same = False
            if not same:
                ck.violation("gocc on a markdown file differs from gocc on its fenced code (status %s vs %s)" % (a["rc"], c["rc"]),
                             {"md": a["text"].decode(), "bnf": c["text"].decode(), "out_md": a["out"], "out_bnf": c["out"]})
            if i3 is not None:
                d = b.items[i3]
                diag += 1
                m = re.search(r"@ (\d+):(\d+)", d["out"])
                if d["rc"] == 0 or not m or (int(m.group(1)), int(m.group(2))) != where:
                    ck.violation("diagnostic for an error inside a fenced block does not carry the markdown position %s: rc=%s %s" % (where, d["rc"], d["out"][:200]),
                                 {"md": d["text"].decode(), "expected_line_col": where, "out": d["out"], "rc": d["rc"]})
    finally:
        b.close()
    ck.proof_failures(failed, "C19 theorems")
    ck.cov.update({"evaluations": len(docs) + e2e + diag, "distinct_nontrivial": fences,
                   "rule": "random rune documents mixing prose, fences, runs of 1-7 back-quotes, newlines, non-ASCII (unit tie against md.GetSource); "
                           "random grammars split into 1-4 bare fenced blocks with hostile prose, run through the real binary as .md and as .bnf; "
                           "non-trivial = documents that loadMd actually changes",
                   "e2e_pairs": e2e, "diagnostic_cases": diag,
                   "samples": [{"doc": docs[0], "impl": impl[0]}]})
    ck.assumptions += ["the generated-package equality md vs bnf relies on C13's layout independence for the white space that replaces prose",
                       "[]rune(string(bytes)) conversion of ill-formed UTF-8 is outside the model (documents are generated as valid scalars)"]
    return ck.finish()
