"""C09 — gocc always terminates, and status zero means complete, compilable output."""
import itertools
import os

from .. import common as C
from .. import gram, batch

HOSTILE_LITS = ["\\", "\\\\", "a\"b", "`", "a`b", "'", "a b", "é✓", "\U0001F600", "*/", "/*", "//", "%s", "%d%%", "{{.}}", "{{", "<<", ">>", "\t", "x\\n", "\"\"", "package", "func",
                "\\x", "$0", "`+`", "\r", "x\ufeffy", "\u2028", "\x7f", "\u00a0"]
FLAGSETS = [[], ["-a"], ["-a", "-zip"], ["-a", "-no_lexer"], ["-a", "-debug_lexer", "-debug_parser"], ["-a", "-v"], ["-a", "-zip", "-v", "-debug_parser", "-no_lexer"],
            ["-a", "-o", "sub/dir"], ["-a", "-p", "ws/custom/pkg"], ["-a", "-o", "deep/er/out", "-zip"]]


def expected_files(flags, has_syntax, outdir):
    f = ["token/token.go", "token/context.go", "util/litconv.go", "util/rune.go"]
    if "-no_lexer" not in flags:
        f += ["lexer/lexer.go", "lexer/acttab.go", "lexer/transitiontable.go"]
    if has_syntax:
        f += ["parser/parser.go", "parser/action.go", "parser/actiontable.go", "parser/gototable.go", "parser/productionstable.go", "parser/context.go", "errors/errors.go"]
    return [os.path.join(outdir, x) for x in f]


class B2(batch.Batch):
    """gocc is invoked with caller-chosen -o / -p"""
    def _gen_one(self, it, timeout=30):
        import subprocess
        fl = list(it["flags"])
        if "-o" not in fl:
            fl += ["-o", "out"]
        cmd = [self.gocc] + fl + [it["fname"]]
        try:
            p = subprocess.run(cmd, cwd=it["dir"], stdout=subprocess.PIPE, stderr=subprocess.PIPE, timeout=timeout, env=C.GOENV)
            it["rc"], it["out"], it["err"], it["hang"] = p.returncode, p.stdout.decode("utf-8", "replace"), p.stderr.decode("utf-8", "replace"), False
        except subprocess.TimeoutExpired:
            it["rc"], it["out"], it["err"], it["hang"] = -9, "", "", True


def run(tier):
    ck = C.Check("C09", tier)
    failed = ck.proofs()
    ng = 14 if tier == "quick" else 50
    nmut = 60 if tier == "quick" else 600
    b = B2("c09")
    stats = {"runs": 0, "status0": 0, "compiled": 0, "hangs": 0, "panics": 0, "byte_mutants": 0, "flagsets": len(FLAGSETS)}
    nontrivial = set()
    try:
        items = []
        for k in range(ng):
            lits = ck.rng.sample(HOSTILE_LITS, ck.rng.randint(1, 4))
            lex = gram.rand_lex(ck.rng, regdef_mode=ck.rng.choice(["single", "multi", "none"]), wide=True)
            if k % 2 == 0:
                # runes that a Go source file cannot hold verbatim everywhere (byte order mark, line separators, NEL): whatever the
                # generator prints about them (comments, case labels) must stay compilable
                lex.append((1, "!hz", [[('l', 0xFEFF)], [('l', 0x2028)], [('r', 0x85, 0xA0)], [('r', 0xFE00, 0xFEFF)]]))
            toks = gram.tokens_of_lex(lex)
            body = [(2, l) for l in lits] + toks[:2]
            syn = [("S0", [x], 0, 0) for x in body] + [("S0", [(0, "N1"), (2, lits[0])], 0, 0), ("N1", [(1, "empty")], 0, 0), ("N1", [(0, "N1"), body[0]], 0, 0)]
            if k % 3 == 0:
                syn = []        # lexer-only
            if k % 4 == 1:
                # hostile action texts: back quotes, printf verbs, braces, comments
                pass
            g = {"lex": lex, "syn": syn}
            text = gram.render(g).replace(" ;\nN1", " ;\nN1")
            if k % 4 == 1 and syn:
                first_alt_end = text.index("\n  |", text.index("S0 :")) if "\n  |" in text else None
                if first_alt_end:
                    acts = [" << func() (interface{}, error) { s := `%s{{.}}`; _ = s /* c */; return X[0], nil }() >>",
                            # an action may begin with a comment (documentation of the alternative), also one that spans lines
                            " << // the first symbol\n X[0], nil >>",
                            " << /* the first\n symbol */ X[0], nil // done >>",
                            " <<\n\t// doc\n\tX[0],\n\tnil\n>>"]
                    text = text[:first_alt_end] + ck.rng.choice(acts) + text[first_alt_end:]
            # how a file ends must not matter: no final newline, a final // comment without newline, CR LF, trailing blanks
            text = text.rstrip("\n") + ck.rng.choice(["\n", "", " // the end", "\r\n", " /* end */", "\n\n  \t", " //"])
            for fl in (FLAGSETS if k < 4 or tier == "thorough" else ck.rng.sample(FLAGSETS, 3)):
                items.append((b.add(None, flags=fl, text=text), fl, bool(syn), "hostile"))
            # byte-level mutants: termination only
            raw = text.encode("utf-8")
            for _ in range(nmut // ng):
                m = bytearray(raw)
                for _ in range(ck.rng.randint(1, 4)):
                    r = ck.rng.random()
                    pos = ck.rng.randrange(len(m) + 1)
                    if r < 0.3 and m:
                        del m[min(pos, len(m) - 1)]
                    elif r < 0.7:
                        m.insert(pos, ck.rng.choice(b"'\"`<>{}[]()|;:./*\\ \n\x00\xff_!Aa-"))
                    elif m:
                        m[min(pos, len(m) - 1)] = ck.rng.randrange(256)
                items.append((b.add(None, flags=ck.rng.choice(FLAGSETS), text=bytes(m)), None, None, "bytes"))
        b.generate()
        tocompile = []
        for i, fl, has_syn, kind in items:
            it = b.items[i]
            stats["runs"] += 1
            stats["byte_mutants"] += kind == "bytes"
            if it["hang"]:
                stats["hangs"] += 1
                ck.violation("gocc did not terminate within 30 s, nor within 300 s when run again alone (flags %s)" % it["flags"], {"grammar_bytes": list(it["text"]), "flags": it["flags"]})
                continue
            stats["panics"] += it["rc"] == 2
            if it["rc"] == 0:
                stats["status0"] += 1
                nontrivial.add(it["text"])
                fl2 = it["flags"]
                outdir = fl2[fl2.index("-o") + 1] if "-o" in fl2 else "out"
                text = it["text"].decode("utf-8", "replace")
                has_syntax = has_syn if has_syn is not None else None
                if has_syntax is not None:
                    missing = [f for f in expected_files(fl2, has_syntax, outdir) if not os.path.exists(os.path.join(it["dir"], f))]
                    if missing:
                        ck.violation("exit status 0 but files the configuration calls for are missing: %s (flags %s)" % (missing, fl2), {"bnf": text, "flags": fl2})
                tocompile.append(i)
        # everything written with status 0 must compile (hostile spellings; byte mutants whose header/actions are untouched are valid Go-wise too,
        # but a mutated action text may legitimately not compile: only the `hostile` family is required to)
        must = [i for i, fl, hs, kind in items if kind == "hostile" and b.items[i]["rc"] == 0]
        bad = b.build_pkgs(must)
        stats["compiled"] = len(must) - len(bad)
        for i, log in list(bad.items())[:5]:
            ck.violation("exit status 0 but the generated packages do not compile (flags %s): %s" % (b.items[i]["flags"], log[-500:]),
                         {"bnf": b.items[i]["text"].decode("utf-8", "replace"), "flags": b.items[i]["flags"], "go_build": log[-2000:]})
    finally:
        b.close()
    ck.proof_failures(failed, "C09 theorems")
    ck.cov.update({"evaluations": stats["runs"], "distinct_nontrivial": len(nontrivial), "stats": stats,
                   "rule": "grammars with hostile terminal spellings (back slash, quotes, back quote, comment markers, printf/template metacharacters, Go keywords, control characters, "
                           "non-BMP runes), hostile but valid action texts, lexer-only and combined, under ten flag sets incl. -o below the working directory and -p; plus byte-level "
                           "mutants (insert/delete/replace, incl. NUL and 0xFF) for termination; every status-0 run of the first family is checked for the complete file set and compiled "
                           "with the Go compiler; non-trivial = distinct inputs that gocc accepted",
                   "samples": [b2 for b2 in HOSTILE_LITS[:4]]})
    ck.assumptions += ["termination is observed under a 30 s limit per run, not proved for the generator's loops (the Lean models of those loops carry fuel); the theorems registered here "
                       "are the termination facts that ARE proved: the generated Scan loop is well-founded and reaches end of input, accepting runs are fuel-monotone",
                       "compilability is decided by the Go compiler on sampled grammars, not by a Lean model of Go syntax"]
    return ck.finish()
