"""shared verdict logic for the parser-family checks"""
import re
from .. import parsefam as P


def tie_violations(ck, res, want_kinds=("parse", "fail", "baseline", "stripped"), prop_oracle=None):
    """impl vs Lean model: tables, conflict count, parse outcomes.  A disagreement is reported as a
    broken correspondence; `prop_oracle(rec, case)` may supply a concrete property failure."""
    n = 0
    for r in res:
        if r["hang"]:
            ck.violation("gocc did not terminate on a grammar", {"bnf": r["text"]})
            continue
        model_panics = r["model_lrtab"] == "panic"
        if (r["model_lrtab"] == "refused") != (r["rc_a"] == 1 and "Parse error" in r["out_a"]):
            # the semantic checks (Model/SemCheck.lean: duplicates, undefined names, reserved spellings) refuse the file with status 1
            ck.violation("correspondence broken: gocc status %s but the model of the semantic checks says %s" % (r["rc_a"], r["model_lrtab"][:40]),
                         {"bnf": r["text"], "rc": r["rc_a"], "stdout": r["out_a"][-300:], "stderr": r["err_a"][-300:],
                          "unchecked": "correspondence Gocc.semCheck vs ast.consistent"}, found_input=False)
            if r["rc_a"] != 0:
                continue
        elif r["model_lrtab"] == "refused":
            continue
        if (r["rc_a"] == 2) != model_panics:
            ck.violation("correspondence broken: gocc status %s but generator model says %s" % (r["rc_a"], r["model_lrtab"][:40]),
                         {"bnf": r["text"], "rc": r["rc_a"], "stderr": r["err_a"][-600:], "unchecked": "correspondence Gocc.genParser (panic paths)"},
                         found_input=False)
            continue
        if r["rc_a"] != 0:
            continue
        if r["impl_lrtab"] != P.strip_c(r["model_lrtab"]):
            ck.violation("correspondence broken: generated action/goto/production tables differ from Gocc.genParser",
                         {"bnf": r["text"], "impl": r["impl_lrtab"], "model": r["model_lrtab"],
                          "unchecked": "correspondence Gocc.Model.LR1.genParser vs internal/parser/{first,lr1,gen}"}, found_input=False)
            n += 1
        bad = 0
        for c in r["cases"]:
            if c["kind"] in want_kinds and c["impl"] != c["model"] and not (c["impl"] == "hang" and c["model"].startswith("fuel")):
                bad += 1
                if bad <= 2:
                    ck.violation("correspondence broken: generated Parse differs from Gocc.parse on tokens %s: impl `%s` model `%s`" % (c["w"], c["impl"], c["model"]),
                                 {"bnf": r["text"], "op": c["line"], "impl": c["impl"], "model": c["model"],
                                  "unchecked": "correspondence Gocc.Model.Parse.parse vs parser.go template"}, found_input=False)
        n += bad
    return n


def first_table_diff(impl, model):
    """first differing entry of two `lrtab` renderings: (state, column, impl entry, model entry) or a shape note"""
    a, b = impl.split(" ; "), model.split(" ; ")
    if a[0] != b[0]:
        return "table shape differs: `%s` vs `%s`" % (a[0], b[0])
    for s, (ra, rb) in enumerate(zip(a[1:], b[1:])):
        if ra != rb:
            xa, xb = ra.split(), rb.split()
            for k, (ea, eb) in enumerate(zip(xa, xb)):
                if ea != eb:
                    return "state %d, column %d (0 = canRecover flag, then one column per terminal type, `/`, then gotos): generated `%s`, rule gives `%s`" % (s, k, ea, eb)
    return "row count differs"


def verdict(o):
    return o.split(" | ")[0].split()[0]


def log_of(o):
    m = re.search(r"log=\[([^\]]*)\]", o)
    return m.group(1).split() if m else None


def is_lr1(r):
    return r["rc_a"] == 0 and P.model_conflicts(r["model_lrtab"]) == 0 and P.conflicts_reported(r["out_a"]) == 0
