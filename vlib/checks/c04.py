"""C04 — LR(1) conflicts are reported exactly when the grammar is not LR(1); exit policy."""
from .. import common as C
from .. import parsefam as P
from . import pcommon as pc


def run(tier):
    ck = C.Check("C04", tier)
    failed = ck.proofs()
    n_g = 70 if tier == "quick" else 900
    res = P.run_family(ck, n_g, 0, p_err=0.2, want_hist=False, conflict_bias=0.5)
    st = {"grammars": len(res), "conflicting": 0, "clean": 0, "refused_accept_clash": 0, "duplicate_alt": 0}
    nontrivial = set()
    for r in res:
        if r["hang"]:
            ck.violation("gocc did not terminate", {"bnf": r["text"]})
            continue
        if r["model_lrtab"] == "refused":
            st["refused_semantic"] = st.get("refused_semantic", 0) + 1
            if r["rc_a"] == 0 or r["rc_noa"] == 0:
                ck.violation("a grammar the semantic checks must refuse (reserved spelling, undefined or duplicate name) was accepted: status %s / %s" % (r["rc_noa"], r["rc_a"]),
                             {"bnf": r["text"], "rc_a": r["rc_a"], "rc_noa": r["rc_noa"]})
            continue
        mpanic = r["model_lrtab"] == "panic"
        if mpanic:
            st["refused_accept_clash"] += 1
            if r["rc_a"] == 0 or r["rc_noa"] == 0:
                ck.violation("accept/reduce clash (start symbol derives itself) was not refused: status %s / %s" % (r["rc_noa"], r["rc_a"]),
                             {"bnf": r["text"], "rc_a": r["rc_a"], "rc_noa": r["rc_noa"]})
            continue
        if r["rc_a"] not in (0,):
            ck.violation("with -a generation must complete with status 0, got %s" % r["rc_a"], {"bnf": r["text"], "stderr": r["err_a"][-500:]})
            continue
        mc = P.model_conflicts(r["model_lrtab"])      # states with two different competing actions, canonical LR(1) collection of the model
        ia, ino = P.conflicts_reported(r["out_a"]), P.conflicts_reported(r["out_noa"])
        bodies = [(h, tuple(b)) for h, b, _, _ in r["g"]["syn"]]
        st["duplicate_alt"] += len(bodies) != len(set(bodies))
        (st.__setitem__("conflicting", st["conflicting"] + 1) if mc else st.__setitem__("clean", st["clean"] + 1))
        nontrivial.add(r["text"])
        if r["c05"].startswith("bad"):
            ck.violation("model table entry differs from the stated resolution rule: %s" % r["c05"], {"bnf": r["text"]}, found_input=False)
        if ia != mc or ino != mc:
            ck.violation("gocc announced %d (with -a) / %d conflicts, the canonical LR(1) automaton has %d conflicting states" % (ia, ino, mc),
                         {"bnf": r["text"], "out_a": r["out_a"], "out_noa": r["out_noa"], "model": r["model_lrtab"][:200]})
        want_noa = 1 if mc else 0
        if r["rc_noa"] != want_noa:
            ck.violation("exit status without -a is %s, expected %d (%d conflicts)" % (r["rc_noa"], want_noa, mc),
                         {"bnf": r["text"], "out_noa": r["out_noa"], "stderr": r["err_noa"][-400:]})
        if r["impl_lrtab"] != P.strip_c(r["model_lrtab"]):
            ck.violation("correspondence broken: tables differ from Gocc.genParser", {"bnf": r["text"], "impl": r["impl_lrtab"], "model": r["model_lrtab"],
                                                                                     "unchecked": "correspondence Gocc.genParser"}, found_input=False)
    ck.proof_failures(failed, "C04 theorems")
    ck.cov.update({"evaluations": 2 * len(res), "distinct_nontrivial": len(nontrivial),
                   "rule": "random grammars biased to conflicts (ambiguous recursion, duplicate alternatives, S0 : S0, error alternatives), each run through the real binary "
                           "with and without -a; announced count and exit status compared with the conflicting states of the model's canonical LR(1) collection "
                           "(items keyed by production index); non-trivial = distinct grammars that reached table generation",
                   "stats": st, "samples": [{"bnf": r["text"], "out": r["out_noa"], "rc": r["rc_noa"]} for r in res[:3]]})
    ck.assumptions += ["'is not LR(1)' is decided on the model's canonical collection, which is tied to gocc's by exact table equality"]
    return ck.finish()
