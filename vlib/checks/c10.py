"""C10 — token numbering is one bijection shared by token, lexer and parser packages."""
from .. import common as C
from .. import parsefam as P
from .. import lexfam, gram, batch
from . import pcommon as pc

HOSTILE = ["\\", "\\\\", "a\"b", "`", "a`b", "'", "''", "a b", "é✓", "\U0001F600", "*/", "//", "%s", "{{.}}", "<<", "\t", "x\\n", "\"\"", "x\ufeffy"]


def check_terms(ck, what, text, impl_terms, model_terms, stats):
    names, inv_ok, unknown = P.parse_terminals(impl_terms)
    mnames = [bytes.fromhex(h[1:]).decode("utf-8", "replace") for h in model_terms.split()]
    stats["terminal_sets"] += 1
    stats["terminals"] += len(names)
    rep = {"bnf": text, "impl": impl_terms, "model": model_terms}
    if names[:2] != ["INVALID", "␚"] or len(set(names)) != len(names):
        ck.violation("%s: numbering does not start INVALID=0, end-of-input=1 or repeats a terminal: %s" % (what, names), rep)
    elif not inv_ok or unknown != "unknown=0":
        ck.violation("%s: TokMap.Type(TokMap.Id(i)) != i for some i, or an unknown name does not map to INVALID: %s" % (what, impl_terms), rep)
    elif names != mnames:
        ck.violation("correspondence broken: terminal numbering differs from Gocc.PSymbols.terminals: %s vs %s" % (names, mnames),
                     dict(rep, unchecked="correspondence Gocc.newSymbols/addTokens/terminals"), found_input=False)
    return names


def run(tier):
    ck = C.Check("C10", tier)
    failed = ck.proofs()
    stats = {"terminal_sets": 0, "terminals": 0, "lexer_tables": 0, "parser_tables": 0, "hostile": 0, "lexer_vs_nolexer_pairs": 0}
    nontrivial = set()
    # parser-only (-no_lexer) and combined grammars: TokMap + the columns of the action table
    res = P.run_family(ck, 25 if tier == "quick" else 150, 2, p_err=0.2, want_hist=False)
    for r in res:
        if r["rc_a"] != 0:
            continue
        names = check_terms(ck, "parser grammar", r["text"], r["impl_terms"], r["model_terms"], stats)
        nontrivial.add(tuple(names))
        stats["parser_tables"] += 1
        if r["impl_lrtab"] != P.strip_c(r["model_lrtab"]):
            ck.violation("correspondence broken: action table columns differ from the model's numbering", {"bnf": r["text"], "impl": r["impl_lrtab"], "model": r["model_lrtab"],
                                                                                                         "unchecked": "correspondence Gocc.genParser"}, found_input=False)
    # lexer-only and lexer+string-literal grammars: Accept values emitted by the lexer
    lres = lexfam.run_family(ck, 20 if tier == "quick" else 150, 3, with_reset=False)
    for r in lres:
        if r["rc"] != 0:
            continue
        names = check_terms(ck, "lexer grammar", r["text"], r["impl_terms"], r["model_terms"], stats)
        nontrivial.add(tuple(names))
        stats["lexer_tables"] += 1
        acc_impl = [s.split()[0] for s in r["impl_tab"].split(" ; ")[1:]]
        acc_model = [s.split()[0] for s in r["model_probe_tab"].split(" ; ")[1:]]
        if acc_impl != acc_model:
            ck.violation("the lexer's Accept numbers are not the token package's numbers for the same names: %s vs %s" % (acc_impl, acc_model),
                         {"bnf": r["text"], "impl": r["impl_tab"][:400], "model": r["model_probe_tab"][:400]})
    # hostile spellings, and the same grammar with and without -no_lexer
    b = batch.Batch("c10")
    try:
        items = []
        for k in range(12 if tier == "quick" else 200):
            lits = ck.rng.sample(HOSTILE, ck.rng.randint(1, 4))
            lex = gram.simple_lex_for(["a", "b_1", "cC", "zz_unused", "arrow"])     # two tokens the syntax part never mentions
            body = [(2, l) for l in lits] + [(1, "a")]
            syn = [("S0", [x], 0, 0) for x in body] + [("S0", [(1, "b_1"), (0, "S0"), (2, lits[0])], 0, 0)]
            g = {"lex": lex, "syn": syn}
            i1 = b.add(g, flags=["-a"])
            i2 = b.add(g, flags=["-a", "-no_lexer"] if k % 2 == 0 else ["-a", "-v"])
            items.append((g, i1, i2))
        b.generate()
        okc = [i for g, i1, i2 in items for i in (i1, i2) if b.items[i]["rc"] == 0]
        for g, i1, i2 in items:
            for i in (i1, i2):
                if b.items[i]["rc"] != 0:
                    ck.violation("gocc rejected a grammar with hostile terminal spellings (rc=%s): %s" % (b.items[i]["rc"], (b.items[i]["out"] + b.items[i]["err"])[-300:]),
                                 {"bnf": b.items[i]["text"].decode()})
        if not b.build(okc):
            bad = b.build_each(okc)
            for i, log in list(bad.items())[:3]:
                ck.violation("generated packages do not compile for hostile terminal spellings: %s" % log[-400:], {"bnf": b.items[i]["text"].decode()})
        else:
            out = b.run(["terminals %d" % i for i in okc])
            terms = dict(zip(okc, out))
            mout = C.run_model(["G %d %s" % (i1, gram.encode(g)) for g, i1, i2 in items] + ["terminals %d" % i1 for g, i1, i2 in items])[len(items):]
            for (g, i1, i2), mt in zip(items, mout):
                if i1 in terms:
                    stats["hostile"] += 1
                    check_terms(ck, "hostile spellings", b.items[i1]["text"].decode(), terms[i1], mt, stats)
                if i1 in terms and i2 in terms:
                    stats["lexer_vs_nolexer_pairs"] += 1
                    if terms[i1] != terms[i2]:
                        ck.violation("numbering differs between flag sets %s and %s: %s vs %s" % (b.items[i1]["flags"], b.items[i2]["flags"], terms[i1], terms[i2]), {"bnf": b.items[i1]["text"].decode()})
    finally:
        b.close()
    ck.proof_failures(failed, "C10 theorems")
    ck.cov.update({"evaluations": stats["terminal_sets"], "distinct_nontrivial": len(nontrivial),
                   "rule": "lexer-only, parser-only (-no_lexer) and combined random grammars plus grammars whose string literals contain back slashes, quotes, back quotes, "
                           "non-ASCII, template/printf metacharacters; the compiled TokMap is asked Id(i) and Type(Id(i)) for every i and Type of an unknown name; "
                           "non-trivial = distinct terminal lists", "stats": stats,
                   "samples": [{"bnf": r["text"], "terminals": r["impl_terms"]} for r in res if r["rc_a"] == 0][:2]})
    return ck.finish()
