"""C11 — generation is deterministic."""
import json
import os
import subprocess

from .. import common as C
from .. import gram, batch, parsefam as P


def tree(d, name):
    out = {}
    for root, _, files in os.walk(os.path.join(d, "out")):
        for f in files:
            if f.endswith(".go"):
                p = os.path.join(root, f)
                out[os.path.relpath(p, d)] = open(p, "rb").read().replace(name.encode(), b"gX")
    return out


def run(tier):
    ck = C.Check("C11", tier)
    failed = ck.proofs()
    # premise, re-extracted from the current tree: the reviewed list of nondeterminism sites is complete
    exp = json.load(open(os.path.join(C.VERIF, "expected", "nondet_sites.json")))["sites"]
    p = subprocess.run([C.build_drv()], input="nondet %s\n" % C.REPO, cwd=C.REPO, env=C.GOENV, stdout=subprocess.PIPE, stderr=subprocess.PIPE, text=True, timeout=600)
    sites = [s for s in p.stdout.strip().split(" ;; ") if s]
    new = [s for s in sites if s not in exp]
    gone = [s for s in exp if s not in sites]
    # behavioural backstop: repeated runs (fresh map-hash seeds, different GOMAXPROCS)
    ng, reps = (10, 6) if tier == "quick" else (300, 20)
    b = batch.Batch("c11")
    runs = differing = 0
    nontrivial = set()
    try:
        groups = []
        for k in range(ng):
            lex = gram.rand_lex(ck.rng, regdef_mode=ck.rng.choice(["single", "multi"]), wide=True)
            toks = gram.tokens_of_lex(lex)
            bias = ck.rng.random()
            syn = gram.conflict_rich_syn(ck.rng, toks + [(2, "+")]) if bias < 0.4 and len(toks) >= 2 else gram.rand_syn(ck.rng, toks + [(2, "+"), (2, "if")], nnt=4, acts=False, p_error=0.1, p_empty=0.3)
            g = {"lex": lex, "syn": syn}
            flags = ck.rng.choice([["-a"], ["-a", "-zip"], ["-a", "-v"], [], ["-a", "-no_lexer"], ["-a", "-debug_parser"]])
            text = gram.render(g)
            ids = [b.add(g, flags=flags, text=text) for _ in range(reps)]
            groups.append((text, flags, ids))
        # vary the scheduler between repetitions
        procs = [1, 2, 16, 3, 8, 4]
        for it in b.items:
            pass
        orig_gen = b._gen_one

        def gen_with_procs(it, _k=[0]):
            _k[0] += 1
            env = dict(C.GOENV, GOMAXPROCS=str(procs[_k[0] % len(procs)]))
            cmd = [b.gocc] + it["flags"] + ["-o", "out", it["fname"]]
            try:
                q = subprocess.run(cmd, cwd=it["dir"], stdout=subprocess.PIPE, stderr=subprocess.PIPE, timeout=30, env=env)
                it["rc"], it["out"], it["err"], it["hang"] = q.returncode, q.stdout.decode("utf-8", "replace"), q.stderr.decode("utf-8", "replace"), False
            except subprocess.TimeoutExpired:
                it["rc"], it["out"], it["err"], it["hang"] = -9, "", "", True
        b._gen_one = gen_with_procs
        b.generate()
        for text, flags, ids in groups:
            ref = b.items[ids[0]]
            ref_tree = tree(ref["dir"], os.path.basename(ref["dir"]))
            nontrivial.add(text)
            for i in ids[1:]:
                it = b.items[i]
                runs += 1
                def norm(o):
                    return o.replace(os.path.basename(it["dir"]), "gX").replace(os.path.basename(ref["dir"]), "gX")
                same = it["rc"] == ref["rc"] and P.conflicts_reported(it["out"]) == P.conflicts_reported(ref["out"]) and tree(it["dir"], os.path.basename(it["dir"])) == ref_tree
                if not same:
                    differing += 1
                    ck.violation("two runs of gocc on the same grammar with flags %s differ (status %s/%s, conflicts %s/%s, or generated files)" % (flags, ref["rc"], it["rc"], P.conflicts_reported(ref["out"]), P.conflicts_reported(it["out"])),
                                 {"bnf": text, "flags": flags})
                    break
    finally:
        b.close()
    if new:
        ck.violation("unreviewed source(s) of run-to-run variation in the generator: %s" % new, {"new_sites": new, "unchecked": "premise expected/nondet_sites.json (extracted map-range / go / select / time / rand / env sites)"},
                     found_input=False)
    ck.proof_failures(failed, "C11 theorems")
    ck.cov.update({"evaluations": runs, "distinct_nontrivial": len(nontrivial), "extracted_sites": len(sites), "new_sites": new, "sites_no_longer_present": gone,
                   "rule": "random grammars (lexical part with Unicode ranges, conflict-rich or random syntax part) x a flag set, generated %d times each with GOMAXPROCS in {1,2,3,4,8,16} "
                           "(every process draws fresh map-hash seeds); generated .go files, exit status and conflict count compared; non-trivial = distinct grammars" % reps,
                   "samples": sites[:3]})
    ck.assumptions += ["the Go runtime (map iteration order, scheduler) is not modelled: determinism rests on the extracted-sites premise (each site reviewed in expected/nondet_sites.json) "
                       "plus the order-independence theorem for the conflict fold; repeated runs are the backstop"]
    return ck.finish()
