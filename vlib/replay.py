"""./run.py <Cxx> --replay <file>: re-run the recorded case on the real code (rebuilt from /repo) and on the model."""
import json
import re

from . import common as C
from . import batch


def run(pid, path):
    r = json.load(open(path))
    print("replaying %s: %s" % (path, r.get("what", "")[:300]))
    bnf = r.get("bnf") or r.get("original")
    op = r.get("op")
    if bnf and op and r.get("grammar_enc"):
        f = op.split()
        f[1] = "0"
        op0 = " ".join(f)
        b = batch.Batch("replay")
        try:
            b.add(None, flags=r.get("flags") or ["-a"], text=bnf.replace(re.search(r"ws/g\d+/", bnf).group(0), "ws/g0/") if re.search(r"ws/g\d+/", bnf) else bnf)
            b.generate()
            it = b.items[0]
            print("gocc: rc=%s %s" % (it["rc"], (it["out"] + it["err"]).strip()[:300]))
            if it["rc"] != 0 or not b.build([0], e2e=True):
                print("cannot build generated code")
                return 1
            impl = b.run([op0])[0]
        finally:
            b.close()
        lines = ["G 0 " + r["grammar_enc"], op0]
        if f[0] == "scan":
            lines.append("ref" + op0)
        if f[0] == "parse":
            lines += ["earley 0 " + " ".join(f[3:]), "tree 0 " + " ".join(f[2:])]
        m = C.run_model(lines)[1:]
        print("impl   : " + impl)
        print("model  : " + m[0])
        for extra in m[1:]:
            print("oracle : " + extra)
        return 0 if impl == m[0] and (f[0] != "scan" or m[1] in (impl, "cyclic")) else 1
    if op and not bnf:
        impl, model = C.run_pair([op])
        print("impl   : " + impl[0])
        print("model  : " + model[0])
        return 0 if impl == model else 1
    print(json.dumps(r, indent=1)[:3000])
    print("(no executable replay recorded for this kind of case: the file holds the failing input / obligation)")
    return 1
