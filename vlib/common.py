"""Shared infrastructure for the /verif checks: builds (gocc, overlay driver, Lean),
axiom audit, paired driver runs, evidence, known findings, violation reporting."""
import fcntl
import hashlib
import json
import os
import random
import re
import shutil
import subprocess
import sys
import tempfile
import time

VERIF = os.path.dirname(os.path.dirname(os.path.abspath(__file__)))
REPO = os.environ.get("VERIF_REPO", "/repo")
LEAN = os.path.join(VERIF, "lean")
CACHE = os.path.join(VERIF, ".cache")
OUT = os.path.join(VERIF, "out")
EVID = os.path.join(VERIF, "evidence")
ALLOWED_AXIOMS = {"propext", "Classical.choice", "Quot.sound"}

GOENV = dict(os.environ)
GOENV.update({"GOFLAGS": "-mod=mod", "GOPROXY": "off", "GOTOOLCHAIN": "auto"})
GOENV.pop("GOSUMDB", None)   # GOSUMDB=off makes the (cached) toolchain switch to go1.24 fail
# GOTOOLCHAIN=local breaks the build: /repo/go.mod asks for go 1.24 (cached toolchain)
if os.environ.get("GOTOOLCHAIN") == "local":
    GOENV["GOTOOLCHAIN"] = "auto"


def seed():
    try:
        return int(os.environ.get("VERIF_SEED", "1"))
    except ValueError:
        return 1


def sh(cmd, cwd=None, env=None, timeout=None, inp=None):
    p = subprocess.run(cmd, cwd=cwd, env=env, input=inp, stdout=subprocess.PIPE,
                       stderr=subprocess.STDOUT, timeout=timeout, text=True)
    return p.returncode, p.stdout


# ------------------------------------------------------------------ repo hash and build cache

def repo_hash():
    h = hashlib.sha256()
    rc, head = sh(["git", "-C", REPO, "rev-parse", "HEAD"])
    h.update(head.encode())
    rc, diff = sh(["git", "-C", REPO, "diff", "HEAD"])
    h.update(diff.encode())
    rc, untracked = sh(["git", "-C", REPO, "ls-files", "-o", "--exclude-standard"])
    for f in sorted(untracked.split()):
        h.update(f.encode())
        try:
            with open(os.path.join(REPO, f), "rb") as fh:
                h.update(fh.read())
        except OSError:
            pass
    # driver sources are part of the key
    for root in (os.path.join(VERIF, "go"),):
        for d, _, fs in sorted(os.walk(root)):
            for f in sorted(fs):
                h.update(f.encode())
                with open(os.path.join(d, f), "rb") as fh:
                    h.update(fh.read())
    return h.hexdigest()[:16]


class Lock:
    def __init__(self, name):
        os.makedirs(CACHE, exist_ok=True)
        self.path = os.path.join(CACHE, name + ".lock")

    def __enter__(self):
        self.fh = open(self.path, "w")
        fcntl.flock(self.fh, fcntl.LOCK_EX)
        return self

    def __exit__(self, *a):
        fcntl.flock(self.fh, fcntl.LOCK_UN)
        self.fh.close()


def cache_dir():
    """Per-repo-state build directory; older ones are removed."""
    key = repo_hash()
    d = os.path.join(CACHE, key)
    with Lock("cache"):
        os.makedirs(d, exist_ok=True)
        # drop stale builds (keep the 2 most recent besides this one)
        others = [x for x in os.listdir(CACHE)
                  if os.path.isdir(os.path.join(CACHE, x)) and x != key]
        others.sort(key=lambda x: os.path.getmtime(os.path.join(CACHE, x)))
        for x in others[:-2]:
            shutil.rmtree(os.path.join(CACHE, x), ignore_errors=True)
        os.utime(d, None)
    return d


class BuildError(Exception):
    pass


def build_gocc():
    """Build the real gocc binary from /repo's current working tree."""
    d = cache_dir()
    out = os.path.join(d, "gocc")
    with Lock("gocc"):
        if not os.path.exists(out):
            rc, log = sh(["go", "build", "-o", out + ".tmp", "."], cwd=REPO, env=GOENV, timeout=600)
            if rc != 0:
                raise BuildError("go build of /repo failed:\n" + log)
            os.rename(out + ".tmp", out)
    return out


def overlay_file(d):
    """go build -overlay description: driver files appear inside module goccmack/gocc."""
    rep = {}
    drv = os.path.join(VERIF, "go", "drv")
    for f in sorted(os.listdir(drv)):
        if f.endswith(".go"):
            rep[os.path.join(REPO, "internal", "verifdrv", f)] = os.path.join(drv, f)
    # extra files injected into existing packages: go/inject/<pkg path with __>/file.go
    inj = os.path.join(VERIF, "go", "inject")
    if os.path.isdir(inj):
        for pkg in sorted(os.listdir(inj)):
            for f in sorted(os.listdir(os.path.join(inj, pkg))):
                rep[os.path.join(REPO, pkg.replace("__", "/"), f)] = os.path.join(inj, pkg, f)
    p = os.path.join(d, "overlay.json")
    with open(p, "w") as fh:
        json.dump({"Replace": rep}, fh)
    return p


def build_drv():
    """Build the correspondence driver inside /repo's module (tag verif, overlay)."""
    d = cache_dir()
    out = os.path.join(d, "drv")
    with Lock("drv"):
        if not os.path.exists(out):
            ov = overlay_file(d)
            rc, log = sh(["go", "build", "-tags", "verif", "-overlay", ov, "-o", out + ".tmp",
                          "./internal/verifdrv"], cwd=REPO, env=GOENV, timeout=600)
            if rc != 0:
                raise BuildError("go build of overlay driver failed:\n" + log)
            os.rename(out + ".tmp", out)
    return out


# ------------------------------------------------------------------ Lean

def lean_build(targets):
    """lake build the given targets (modules / exe). Returns (ok, log)."""
    with Lock("lake"):
        rc, log = sh(["lake", "build"] + list(targets), cwd=LEAN, timeout=3600)
    return rc == 0, log


def model_exe():
    return os.path.join(LEAN, ".lake", "build", "bin", "gocc_model")


FORBIDDEN = re.compile(r"\b(sorry|admit|native_decide|bv_decide|implemented_by|unsafe)\b|^\s*axiom\s|maxHeartbeats\s+0\b")


def strip_comments(src):
    # remove /- ... -/ (nested) and -- comments
    out, i, depth = [], 0, 0
    while i < len(src):
        if src.startswith("/-", i):
            depth += 1
            i += 2
        elif depth and src.startswith("-/", i):
            depth -= 1
            i += 2
        elif depth:
            if src[i] == "\n":
                out.append("\n")
            i += 1
        elif src.startswith("--", i):
            while i < len(src) and src[i] != "\n":
                i += 1
        else:
            out.append(src[i])
            i += 1
    return "".join(out)


def lean_source_scan():
    """grep the Lean sources for sorry / axiom / native_decide ...; returns list of hits."""
    hits = []
    for d, _, fs in os.walk(os.path.join(LEAN, "Gocc")):
        for f in fs:
            if f.endswith(".lean"):
                p = os.path.join(d, f)
                src = strip_comments(open(p).read())
                for n, line in enumerate(src.split("\n"), 1):
                    if FORBIDDEN.search(line):
                        hits.append("%s:%d: %s" % (os.path.relpath(p, VERIF), n, line.strip()))
    return hits


def audit(module, theorems):
    """#print axioms on each theorem. Returns dict name -> (ok, axioms or error text).
    A theorem that is not reported is looked at a second time after rebuilding its module: another `lake build`
    running in the same package can remove an .olean for a moment, and that must not pass for a broken proof."""
    res = _audit(module, theorems)
    if any(v[1] == "not reported" or str(v[1]).startswith("lean error") for v in res.values()):
        lean_build([module])
        res = _audit(module, theorems)
    return res


def _audit(module, theorems):
    res = {}
    if not theorems:
        return res
    src = "import %s\n" % module + "".join("#print axioms %s\n" % t for t in theorems)
    with tempfile.NamedTemporaryFile("w", suffix=".lean", dir=LEAN, delete=False) as fh:
        fh.write(src)
        tmp = fh.name
    try:
        with Lock("lake"):
            rc, log = sh(["lake", "env", "lean", tmp], cwd=LEAN, timeout=1800)
    finally:
        os.unlink(tmp)
    # parse: "'Name' depends on axioms: [a, b]" or "'Name' does not depend on any axioms"
    for t in theorems:
        res[t] = (False, "not reported")
    for m in re.finditer(r"'([^']+)' depends on axioms: \[([^\]]*)\]", log):
        name = m.group(1)
        ax = [a.strip() for a in m.group(2).replace("\n", " ").split(",") if a.strip()]
        key = match_name(name, theorems)
        if key:
            res[key] = (set(ax) <= ALLOWED_AXIOMS, ax)
    for m in re.finditer(r"'([^']+)' does not depend on any axioms", log):
        key = match_name(m.group(1), theorems)
        if key:
            res[key] = (True, [])
    if rc != 0:
        for t in theorems:
            if res[t][1] == "not reported":
                res[t] = (False, "lean error: " + log[-400:])
    return res


def match_name(name, theorems):
    for t in theorems:
        if t == name or name.endswith("." + t) or t.endswith("." + name):
            return t
    return None


# ------------------------------------------------------------------ paired runs

def run_lines(exe, lines, timeout=600, env=None):
    inp = "\n".join(lines) + "\n"
    p = subprocess.run([exe], input=inp, stdout=subprocess.PIPE, stderr=subprocess.PIPE,
                       text=True, timeout=timeout, env=env)
    out = p.stdout.split("\n")
    if out and out[-1] == "":
        out.pop()
    return p.returncode, out, p.stderr


def run_pair(lines, timeout=600):
    """Same op lines through the Go driver (real code) and the Lean model driver."""
    drv = build_drv()
    rc1, o1, e1 = run_lines(drv, lines, timeout)
    rc2, o2, e2 = run_lines(model_exe(), lines, timeout)
    if len(o1) != len(lines):
        raise BuildError("driver produced %d lines for %d ops (rc=%d): %s" % (len(o1), len(lines), rc1, e1[-500:]))
    if len(o2) != len(lines):
        raise BuildError("model produced %d lines for %d ops (rc=%d): %s" % (len(o2), len(lines), rc2, e2[-500:]))
    return o1, o2


def run_model(lines, timeout=600):
    if not os.path.exists(model_exe()):
        lean_build(["gocc_model"])          # e.g. another build in the same package was relinking it
    rc, o, e = run_lines(model_exe(), lines, timeout)
    if len(o) != len(lines):
        raise BuildError("model produced %d lines for %d ops (rc=%d): %s" % (len(o), len(lines), rc, e[-500:]))
    return o


# ------------------------------------------------------------------ known findings / reporting

def known_findings():
    p = os.path.join(VERIF, "known_findings.json")
    if not os.path.exists(p):
        return {"findings": [], "fixed": []}
    return json.load(open(p))


class Check:
    """One run of one property's check: collects evidence, violations, known-finding lines."""

    def __init__(self, pid, tier, level="proof"):
        self.pid, self.tier, self.level = pid, tier, level
        self.t0 = time.time()
        self.cov = {"samples": []}
        self.assumptions = []
        self.violations = 0
        self.known_hits = {}
        self.rng = random.Random(seed() * 1000003 + int(pid[1:]))
        os.makedirs(os.path.join(OUT, "replays"), exist_ok=True)
        os.makedirs(EVID, exist_ok=True)
        self._replay_n = 0

    # ---- proof obligations
    def proofs(self):
        """build + audit every (module, theorems) group registered for this property in registry.json"""
        reg = json.load(open(os.path.join(VERIF, "registry.json"))).get(self.pid, [])
        failed = []
        for grp in reg:
            failed += self.proof_part(grp["module"], grp["theorems"])
        return failed

    def proof_part(self, module, theorems, extra_targets=()):
        """Build the property module, audit axioms; records obligations/discharged.
        Returns list of names that failed."""
        ok, log = lean_build(["gocc_model", module] + list(extra_targets))
        failed = []
        if not ok:
            self.cov.setdefault("build_log_tail", log[-1500:])
            failed = list(theorems)
            res = {t: (False, "lake build failed") for t in theorems}
        else:
            res = audit(module, theorems)
            failed = [t for t, (good, _) in res.items() if not good]
        hits = lean_source_scan()
        if hits:
            failed = list(theorems)
            self.cov["forbidden_tokens"] = hits[:20]
        self.cov["obligations"] = self.cov.get("obligations", 0) + len(theorems)
        self.cov["discharged"] = self.cov.get("discharged", 0) + len([t for t in theorems if t not in failed])
        self.cov.setdefault("theorems", {}).update(
            {t: (res[t][1] if isinstance(res[t][1], list) else str(res[t][1])) for t in theorems})
        self.cov["checker_cmd"] = "cd /verif/lean && lake build gocc_model %s && lake env lean <#print axioms of every registered theorem>" % module
        self.cov.setdefault("trusted_base", [
            "Lean 4.33.0 kernel", "axioms allowed: propext, Classical.choice, Quot.sound (audited per theorem per run)",
            "no sorry/admit/axiom/native_decide/bv_decide/implemented_by/unsafe (source scan per run)"])
        return failed

    # ---- reporting
    def replay(self, obj):
        self._replay_n += 1
        p = os.path.join(OUT, "replays", "%s_%s_%d_%d.json" % (self.pid, self.tier, seed(), self._replay_n))
        with open(p, "w") as fh:
            json.dump(obj, fh, indent=1)
        return p

    def violation(self, what, replay_obj, found_input=True, finding_key=None):
        """Report a violation unless it is a listed known finding."""
        if finding_key is not None:
            for f in known_findings().get("findings", []):
                if f.get("property") == self.pid and f.get("key") == finding_key:
                    self.known_hits.setdefault(finding_key, [f, 0])
                    self.known_hits[finding_key][1] += 1
                    return
        self.violations += 1
        replay_obj = dict(replay_obj)
        for k in ("bnf", "original"):
            v = replay_obj.get(k)
            if isinstance(v, Txt) and v.enc:
                replay_obj["grammar_enc"] = v.enc
                replay_obj.setdefault("flags", v.flags)
        replay_obj.update({"property": self.pid, "what": what, "seed": seed(), "tier": self.tier})
        p = self.replay(replay_obj)
        tail = "" if found_input else " no-failing-input-found"
        if self.violations <= 5:
            print("VIOLATION property=%s replay=%s%s" % (self.pid, p, tail), flush=True)
            print("  " + what[:400], flush=True)

    def finish(self):
        for key, (f, n) in self.known_hits.items():
            print("KNOWN-FINDING: property=%s %s (%d occurrence(s) this run)" % (self.pid, f.get("what", key), n))
        self.cov["known_finding_hits"] = {k: v[1] for k, v in self.known_hits.items()}
        if not self.cov.get("samples"):
            self.cov["samples"] = ["(none)"]
        self.cov["samples"] = self.cov["samples"][:12]
        ev = {"property_id": self.pid, "tier": self.tier, "seed": seed(), "level": self.level,
              "coverage": self.cov, "assumptions": self.assumptions,
              "wall_s": round(time.time() - self.t0, 2), "violations": self.violations}
        with open(os.path.join(EVID, self.pid + ".json"), "w") as fh:
            json.dump(ev, fh, indent=1)
        print("%s %s: %s  (%.1fs, obligations %s/%s, evaluations %s)" % (
            self.pid, self.tier, "VIOLATIONS=%d" % self.violations if self.violations else "ok",
            time.time() - self.t0, self.cov.get("discharged"), self.cov.get("obligations"),
            self.cov.get("evaluations")), flush=True)
        return 1 if self.violations else 0

    def proof_failures(self, failed, what):
        """A proof obligation no longer checks and no failing input is known."""
        if failed:
            self.violation("proof obligations not discharged: %s (%s)" % (", ".join(failed), what),
                           {"theorems": failed, "detail": self.cov.get("theorems")}, found_input=False)


class Txt(str):
    """grammar text that remembers the encoding the Lean model reads (so that a replay can feed both sides)"""
    enc = None
    flags = None


def scratch(prefix="vf"):
    return tempfile.mkdtemp(prefix=prefix + "_")
