"""Grammar values, random generators, BNF rendering and the line encoding read by the Lean model.

lex:  list of (kind, name, pat)       kind 0 token, 1 ignored token, 2 regular definition
pat:  list of alts; alt: list of terms
term: ('d',) | ('l', c) | ('r', lo, hi) | ('f', name) | ('o', pat) | ('p', pat) | ('g', pat)
syn:  list of (head, body, act, actId)  body: list of (kind, name), kind 0 prodId, 1 tokId, 2 strLit
      act: 0 none, 1..5 harness action shapes (see Model/Parse.lean)
"""
import random


def hexs(s):
    return "x" + s.encode("utf-8").hex()


# ------------------------------------------------------------------ encoding for the Lean driver

def enc_pat(p):
    out = [str(len(p))]
    for alt in p:
        out.append(str(len(alt)))
        for t in alt:
            k = t[0]
            if k == 'd':
                out.append('d')
            elif k == 'l':
                out += ['l', str(t[1])]
            elif k == 'r':
                out += ['r', str(t[1]), str(t[2])]
            elif k == 'f':
                out += ['f', hexs(t[1])]
            else:
                out.append(k)
                out += enc_pat(t[1])
    return out


def encode(g):
    out = ["L", str(len(g["lex"]))]
    for kind, name, pat in g["lex"]:
        out += [str(kind), hexs(name)] + enc_pat(pat)
    out += ["S", str(len(g["syn"]))]
    for head, body, act, aid in g["syn"]:
        out += [hexs(head), str(len(body))]
        for k, n in body:
            out += [str(k), hexs(n)]
        # shape 8 (the action keeps the slice X itself) has the semantics of shape 1 in the model, where attributes are values
        # shape 9 (`$010`, a decimal index written with a leading zero) is shape 7 (`$10`) in the model
        out += [str({8: 1, 9: 7}.get(act, act)), str(aid)]
    return " ".join(out)


# ------------------------------------------------------------------ BNF rendering

NAMED = {7: "\\a", 8: "\\b", 12: "\\f", 10: "\\n", 13: "\\r", 9: "\\t", 11: "\\v", 92: "\\\\", 39: "\\'"}


def char_lit_variants(c):
    """every spelling gocc's grammar language has for the rune c"""
    v = []
    if c in NAMED:
        v.append("'" + NAMED[c] + "'")
    if (0x20 <= c < 0x7f and c not in (39, 92)) or (c >= 0xA0 and not (0xD800 <= c < 0xE000) and c not in (0xFEFF,)):
        v.append("'" + chr(c) + "'")
    if c < 256:
        v += ["'\\x%02x'" % c, "'\\x%02X'" % c, "'\\%03o'" % c]
    if c < 0x10000 and not (0xD800 <= c < 0xE000):
        v += ["'\\u%04x'" % c, "'\\u%04X'" % c]
    if not (0xD800 <= c < 0xE000):
        v += ["'\\U%08x'" % c]
    return v


def char_lit(c, rng=None):
    """one spelling of the rune c as a gocc character literal (a random one when rng is given)"""
    if rng is not None:
        return rng.choice(char_lit_variants(c))
    if c in NAMED:
        return "'" + NAMED[c] + "'"
    if 0x20 <= c < 0x7f:
        return "'" + chr(c) + "'"
    if c < 0x10000 and not (0xD800 <= c < 0xE000):
        return "'\\u%04x'" % c
    return "'\\U%08x'" % c


def render_pat(p, rng=None):
    alts = []
    for alt in p:
        ts = []
        for t in alt:
            k = t[0]
            if k == 'd':
                ts.append('.')
            elif k == 'l':
                ts.append(char_lit(t[1], rng))
            elif k == 'r':
                ts.append(char_lit(t[1], rng) + '-' + char_lit(t[2], rng))
            elif k == 'f':
                ts.append(t[1])
            elif k == 'o':
                ts.append('[ ' + render_pat(t[1], rng) + ' ]')
            elif k == 'p':
                ts.append('{ ' + render_pat(t[1], rng) + ' }')
            elif k == 'g':
                ts.append('( ' + render_pat(t[1], rng) + ' )')
        alts.append(' '.join(ts))
    return ' | '.join(alts)


import re as _re
_INTERP_OK = _re.compile(r"""^([^"\\\n]|\\[abfnrtv\\'"]|\\x[0-9a-fA-F]{2}|\\[0-7]{3}|\\u[0-9a-fA-F]{4}|\\U[0-9a-fA-F]{8})*$""")


def string_lit(s, rng=None):
    """the literal whose CONTENT (the characters between the quotes, taken raw by gocc) is s; the interpreted form
    "..." exists when every backslash of s begins an escape the scanner accepts and s has no bare double quote"""
    interp = bool(_INTERP_OK.match(s)) and '"' not in s.replace('\\"', '')
    raw = '`' not in s
    assert interp or raw
    if interp and raw and rng is not None:
        return ('`' + s + '`') if rng.random() < 0.5 else ('"' + s + '"')
    return ('"' + s + '"') if interp else ('`' + s + '`')


COMMENTS = ["/** Tokens **/", "/*** x ***/", "/* * */", "/* a*b **/", "/* c */", "/* a : 'x' ; */", "/**/", "// line comment\n", "//\n", "/* multi\nline */", "/* \"unterminated string */", "// 'q\n"]


def relayout(text, rng):
    """same tokens, different layout: every white-space run between tokens is replaced by a random run of
    white space and comments; the text must have been rendered by `render` without action texts"""
    import re
    toks = re.findall(r"""'(?:\\.|[^\\'])+'|"(?:\\.|[^\\"])*"|`[^`]*`|<<.*?>>|[^\s'"`]+""", text, flags=re.S)
    assert "".join(toks).replace(" ", "") == re.sub(r"\s+", "", text).replace(" ", "") or True

    def sep():
        out = ""
        for _ in range(rng.randint(1, 3)):
            r = rng.random()
            out += rng.choice([" ", "\t", "\n", "\r\n", "  ", "\n\n"]) if r < 0.7 else (" " + rng.choice(COMMENTS) + " ")
        return out
    res = (sep() if rng.random() < 0.5 else "") + "".join(t + sep() for t in toks)
    if rng.random() < 0.3:
        res = res.rstrip() + rng.choice(["", " // last line comment without newline", " /* end */"])
    return res


def action_text(act, aid, n):
    L = "vh.L(len(X), func(i int) interface{} { return X[i] })"
    if act == 0:
        return ""
    if act == 1:
        return " << vh.Mk(C, %d, %s) >>" % (aid, L)
    if act == 2:
        return " << vh.Sel(C, %d, $0) >>" % aid
    if act == 3:
        return " << vh.Sel(C, %d, $%d) >>" % (aid, n - 1)
    if act == 4:
        return " << vh.TokOf(C, %d, $T0) >>" % aid
    if act == 5:
        return " << vh.Mk($Context, %d, %s) >>" % (aid, L)
    if act == 7:
        return " << vh.Sel(C, %d, $10) >>" % aid
    if act == 9:
        return " << vh.Sel(C, %d, $010) >>" % aid
    if act == 8:
        # the attribute slice itself is retained (no copy): it must still hold the body's attributes when the result is read
        return " << vh.MkX(C, %d, X) >>" % aid
    if act == 6:
        # the action text contains printf verbs: it must reach the generated file verbatim
        return " << vh.Pct(C, %d, \"%%s|%%d|%%%%|%%v|%%!|two  blanks\", %s) >>" % (aid, L)
    raise ValueError(act)


def render(g, pkg_token=None, rng=None):
    """BNF text.  pkg_token: import path of the generated token package (needed for $T actions)."""
    out = []
    for kind, name, pat in g["lex"]:
        out.append("%s : %s ;" % (name, render_pat(pat, rng)))
    if g["syn"]:
        uses_act = any(p[2] for p in g["syn"])
        uses_tok = any(p[2] == 4 for p in g["syn"])
        if uses_act:
            imps = ['"ws/vh"'] + (['"%s"' % pkg_token] if uses_tok else [])
            out.append("<< import ( %s ) >>" % " ; ".join(imps))
        # group consecutive productions with the same head into alternatives
        i = 0
        syn = g["syn"]
        while i < len(syn):
            head = syn[i][0]
            alts = []
            while i < len(syn) and syn[i][0] == head:
                _, body, act, aid = syn[i]
                syms = " ".join(n if k != 2 else string_lit(n, rng) for k, n in body)
                nsyms = 0 if body[0][1] == "empty" else len(body)
                alts.append(syms + action_text(act, aid, nsyms))
                i += 1
            out.append("%s : %s ;" % (head, "\n  | ".join(alts)))
    return "\n".join(out) + "\n"


# ------------------------------------------------------------------ random lexical parts

def rand_rune(rng, wide):
    r = rng.random()
    if not wide or r < 0.75:
        return rng.choice([97, 98, 99, 100, 48, 49, 32, 10, 9, 45, 95, 65])
    if r < 0.85:
        return rng.choice([0xE9, 0x3B1, 0x20AC, 0xFFFD, 0x7F, 0x80, 0x7FF, 0x800, 0xFFFF, 0xFEFF, 0x2028, 0x85])
    if r < 0.93:
        return rng.choice([0x10000, 0x1F600, 0x10FFFF])
    x = rng.randint(0, 0x10FFFF)
    return x if not (0xD800 <= x < 0xE000) else 0x61


def rand_term(rng, depth, regdefs, wide, allow_dot):
    r = rng.random()
    if depth <= 0 or r < 0.45:
        k = rng.random()
        if k < 0.55:
            return ('l', rand_rune(rng, wide))
        if k < 0.8:
            a = rand_rune(rng, wide)
            b = a + rng.choice([0, 1, 2, 3, 9, 25])
            if wide and rng.random() < 0.3:
                # a range that crosses a UTF-8 length boundary (0x80, 0x800, 0x10000): generated code that treats
                # ASCII / multi-byte runes apart must still see one class
                a = rng.choice([0x21, 0x61, 0x7F, 0x80, 0xC0, 0x7FF, 0x800, 0xE000, 0xFFFF])
                b = rng.choice([x for x in [0xFF, 0x3B1, 0x7FF, 0x800, 0xD7FF, 0xFFFF, 0x10000, 0x10FFFF] if x > a])
            if 0xD800 <= a < 0xE000 or 0xD800 <= b < 0xE000 or b > 0x10FFFF:
                a, b = 97, 99
            if rng.random() < 0.04 and a != b:
                a, b = b, a          # a reversed range matches nothing; the file is still syntactically valid
            return ('r', a, b)
        if k < 0.9 and allow_dot:
            return ('d',)
        if regdefs:
            return ('f', rng.choice(regdefs))
        return ('l', rand_rune(rng, wide))
    kind = rng.choice(['o', 'p', 'g', 'p'])
    return (kind, rand_pat(rng, depth - 1, regdefs, wide, allow_dot))


def rand_pat(rng, depth, regdefs, wide, allow_dot, max_alts=3, max_terms=3):
    return [[rand_term(rng, depth, regdefs, wide, allow_dot) for _ in range(rng.randint(1, max_terms))]
            for _ in range(rng.randint(1, max_alts))]


def nullable_pat(p):
    return any(all(nullable_term(t) for t in alt) for alt in p)


def nullable_term(t):
    if t[0] in ('o', 'p'):
        return True
    if t[0] == 'g':
        return nullable_pat(t[1])
    return False


def rand_lex(rng, ntok=None, regdef_mode="single", wide=False, allow_dot=True, ignored=True):
    """regdef_mode: none | single (one-rune definitions: the common idiom, exact) | multi (D1 territory)"""
    lex = []
    regs = []
    if regdef_mode != "none":
        for i in range(rng.randint(1, 2)):
            name = "_r%d" % i
            if regdef_mode == "single":
                pat = [[rng.choice([('r', 97, 122), ('r', 48, 57), ('l', 95), ('r', 65, 70)])]
                       for _ in range(rng.randint(1, 2))]
            else:
                pat = rand_pat(rng, 1, list(regs), wide, allow_dot, 2, 3)
            lex.append((2, name, pat))
            regs.append(name)
    ntok = ntok or rng.randint(1, 4)
    for i in range(ntok):
        pat = rand_pat(rng, rng.choice([0, 1, 1, 2]), regs, wide, allow_dot)
        lex.append((0, "t%d" % i, pat))
    if ignored and rng.random() < 0.8:
        k = rng.random()
        if k < 0.5:
            pat = [[('l', 32)], [('l', 10)], [('l', 9)]]
        elif k < 0.8:
            pat = [[('l', 32)], [('l', 47), ('l', 47), ('p', [[('d',)]]), ('l', 10)]] if allow_dot else [[('l', 32)]]
        else:
            pat = rand_pat(rng, 1, regs, wide, allow_dot)
        lex.append((1, "!ig", pat))
    rng.shuffle(lex)
    return lex


# ------------------------------------------------------------------ random syntax parts

def rand_syn(rng, terms, nnt=None, max_alts=3, max_len=3, p_empty=0.2, p_error=0.0, acts=True, strlits=None, p_error_mid=0.0):
    """terms: list of (kind,name) terminal symbols available (tokId / strLit)"""
    nnt = nnt or rng.randint(1, 4)
    nts = ["N%d" % i for i in range(nnt)]
    nts[0] = "S0"
    syn = []
    aid = 0
    productive = rng.random() < 0.85
    for h in nts:
        for a in range(rng.randint(1, max_alts)):
            r = rng.random()
            if r < p_empty and a > 0:
                body = [(1, "empty")]
            elif a == 0 and productive:
                # a base case of terminals only keeps every non-terminal productive
                body = [rng.choice(terms) for _ in range(rng.randint(1, 2))]
            else:
                n = rng.randint(1, max_len)
                body = []
                for _ in range(n):
                    if rng.random() < 0.45:
                        body.append((0, rng.choice(nts)))
                    else:
                        body.append(rng.choice(terms))
                if rng.random() < p_error:
                    # a quarter of the error alternatives are the bare `error`
                    body = [(1, "error")] + (body[: max(1, n - 1)] if rng.random() < 0.75 else [])
                elif rng.random() < p_error_mid and len(body) >= 1:
                    body.insert(rng.randint(1, len(body)), (1, "error"))
            act = 0
            if acts and rng.random() < 0.6:
                nsyms = 0 if body[0][1] == "empty" else len(body)
                choices = [1, 1, 5, 6, 8]
                if nsyms >= 1:
                    choices += [2, 3]
                    # $T0 needs a terminal in first position (but not the error symbol: its attribute is *errors.Error)
                    if body[0][0] != 0 and body[0][1] not in ("error", "empty"):
                        choices.append(4)
                act = rng.choice(choices)
                aid += 1
            syn.append((h, body, act, aid if act else 0))
    if productive:
        # make every non-terminal reachable from the start symbol (most of the time)
        for i in range(1, len(nts)):
            earlier = set(nts[:i])
            if any(hd in earlier and (0, nts[i]) in bd for hd, bd, _, _ in syn):
                continue
            cands = [k for k, (hd, bd, _, _) in enumerate(syn) if hd in earlier and bd[0][1] not in ("empty",)]
            if not cands:
                continue
            k = rng.choice(cands)
            hd, bd, act, aid2 = syn[k]
            bd = list(bd)
            if act in (0, 1, 5) and len(bd) <= max_len:
                bd.insert(rng.randint(1 if bd[0][1] == "error" else 0, len(bd)), (0, nts[i]))
            else:
                pos = rng.randrange(1 if (act == 4 or bd[0][1] == "error") and len(bd) > 1 else 0, len(bd))
                if act == 4 and pos == 0:
                    continue
                bd[pos] = (0, nts[i])
            syn[k] = (hd, bd, act, aid2)
    if acts and rng.random() < 0.15 and len(terms) >= 2:
        # a long alternative whose action uses a two-digit index ($10)
        aid += 1
        body = [rng.choice(terms) for _ in range(rng.randint(11, 13))]
        syn.append((nts[-1], body, rng.choice([7, 7, 9]), aid))
    if productive and rng.random() < 0.25 and terms:
        # a nullable, directly left-recursive list that FOLLOWS another symbol: `S0 : N x L ; L : L y | empty`
        x, y = rng.choice(terms), rng.choice(terms)
        lst = "L9"
        first = syn[0]
        syn[0] = (first[0], list(first[1]) + [(0, lst)] + ([x] if rng.random() < 0.5 else []), first[2] if first[2] in (0, 1, 5, 6) else 0, first[3] if first[2] in (0, 1, 5, 6) else 0)
        syn.append((lst, [(0, lst), y], 0, 0))
        syn.append((lst, [(1, "empty")], 0, 0))
    if productive and acts and rng.random() < 0.2 and len(terms) >= 2:
        # an optional part whose EMPTY alternative has an action of its own, used twice in one sentence:
        # the action must run once per occurrence (`S0 : ... O9 x O9`)
        x, y = rng.sample(terms, 2)
        aid += 2
        first = syn[0]
        keep = first[2] in (0, 1, 5, 6, 8)
        syn[0] = (first[0], list(first[1]) + [(0, "O9"), x, (0, "O9")], first[2] if keep else 0, first[3] if keep else 0)
        syn.append(("O9", [(1, "empty")], rng.choice([1, 5, 8]), aid - 1))
        syn.append(("O9", [y], 1, aid))
    if productive and rng.random() < 0.08 and len(terms) >= 2:
        # many productions and a long first alternative that ends in a non-terminal whose first production is number 11:
        # production and dot numbers with two digits (`S0 : t t t t t t t t t t Z9 ; (nine more productions) ; Z9 : u | v`)
        u, v = rng.sample(terms, 2)
        start = syn[0][0]
        syn.insert(0, (start, [rng.choice(terms) for _ in range(10)] + [(0, "Z9")], 0, 0))
        pad = 0
        while len(syn) < 10:
            pad += 1
            syn.append(("P9%d" % pad, [rng.choice(terms)] * pad + [rng.choice(terms)], 0, 0))
            syn.insert(1, (start, [(0, "P9%d" % pad)], 0, 0))
        z = [("Z9", [u], 0, 0), ("Z9", [v], 0, 0)] + ([("Z9", [u, v], 0, 0)] if rng.random() < 0.5 else [])
        syn[10:10] = z
    if len(syn) > 2 and rng.random() < 0.2:
        # declare a non-terminal in two separate places: `A : x ; B : y ; A : z ;`
        k = rng.randrange(1, len(syn))
        item = syn.pop(k)
        syn.insert(rng.randint(k, len(syn)), item)
    return syn


def conflict_rich_syn(rng, terms):
    """grammars in which three or more actions compete for one (state, terminal)"""
    t = [x for x in terms]
    rng.shuffle(t)
    a, b = t[0], t[1 % len(t)]
    c = t[2 % len(t)]
    k = rng.random()
    aid = [0]

    def act():
        if rng.random() < 0.6:
            aid[0] += 1
            return (1, aid[0])
        return (0, 0)
    if k < 0.3:
        # ambiguous expression grammar with several operators: shift/reduce/reduce rows
        ops = t[1:1 + rng.randint(1, 3)] or [b]
        syn = [("S0", [(0, "S0"), op, (0, "S0")]) for op in ops] + [("S0", [a])]
        if rng.random() < 0.5:
            syn.append(("S0", [(0, "S0"), (0, "S0")]))
        rng.shuffle(syn)
    elif k < 0.6:
        # several non-terminals deriving the same string, used in an order different from their declaration
        n = rng.randint(2, 4)
        nts = ["N%d" % i for i in range(1, n + 1)]
        use = list(nts)
        rng.shuffle(use)
        syn = [("S0", [(0, x), b]) for x in use]
        decl = list(nts)
        rng.shuffle(decl)
        syn += [(x, [a]) for x in decl]
        if rng.random() < 0.5:
            syn.append(("S0", [a, b]))
    elif k < 0.8:
        # dangling else with extra ambiguity
        syn = [("S0", [a, (0, "S0")]), ("S0", [a, (0, "S0"), b, (0, "S0")]), ("S0", [c]), ("S0", [(0, "S0"), b])]
        rng.shuffle(syn)
    elif k < 0.85:
        # the start symbol derives itself: accept/reduce clash, must be refused in both modes
        syn = rng.choice([[("S0", [(0, "S0")]), ("S0", [a])],
                          [("S0", [(0, "N1")]), ("S0", [a]), ("N1", [(0, "S0")])],
                          [("S0", [a, b]), ("S0", [(0, "N1")]), ("N1", [(0, "N2")]), ("N2", [(0, "S0")]), ("N2", [c])]])
    elif k < 0.9:
        # reduce/reduce between an early and a late production of a grammar with more than ten productions
        # (production numbers with one and with two digits compete)
        npad = rng.randint(6, 9)
        syn = [("S0", [(0, "N1"), b]), ("S0", [(0, "N2"), b]), ("N1", [a])]
        for i in range(1, npad + 1):
            syn.append(("S0", [(0, "P%d" % i)]))
        for i in range(1, npad + 1):
            syn.append(("P%d" % i, [c] * i + [b]))
        syn.append(("N2", [a]))
        if rng.random() < 0.5:
            syn[2], syn[-1] = ("N2", [a]), ("N1", [a])
    elif k < 0.95:
        # a nullable non-terminal followed by a non-nullable symbol (exact FIRST/look-ahead sets matter)
        syn = [("S0", [(0, "N1"), c]), ("N1", [(0, "N2"), (0, "N3"), b]), ("N3", [(1, "empty")]), ("N3", [a]), ("N2", [a]), ("N2", [a, c])]
        if rng.random() < 0.5:
            syn.append(("S0", [(0, "N1"), (0, "N3"), a]))
    else:
        # reduce, shift, reduce in one row
        syn = [("S0", [(0, "N1"), b]), ("S0", [(0, "N2")]), ("S0", [(0, "N3"), b]), ("N2", [a, b]), ("N1", [a]), ("N3", [a])]
        order = list(range(len(syn)))
        rng.shuffle(order)
        syn = [syn[i] for i in order]
    # S0 must be declared first (start symbol): stable-sort S0 alternatives to the front half of the time only if needed
    if syn[0][0] != "S0":
        i = next(i for i, p in enumerate(syn) if p[0] == "S0")
        syn.insert(0, syn.pop(i))
    out = []
    for h, bd in syn:
        ac, ai = act()
        out.append((h, bd, ac, ai))
    return out


def tokens_of_lex(lex):
    return [(1, n) for k, n, _ in lex if k == 0]


def simple_lex_for(names):
    """a lexical part giving every named token a distinct one-letter lexeme"""
    lex = []
    for i, n in enumerate(names):
        lex.append((0, n, [[('l', 97 + i)]]))
    lex.append((1, "!ws", [[('l', 32)]]))
    return lex
