#!/bin/sh
# Offline build of the framework: the Lean library (models, specs, proofs) and the model driver.
set -e
cd "$(dirname "$0")/lean"
lake build Gocc gocc_model
