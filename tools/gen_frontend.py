#!/usr/bin/env python3
"""Translator for C15: regenerates lean/Gocc/Gen/Frontend.lean from /repo's current working tree.

 * the shipped front-end tables (internal/frontend/parser/tables.go) are dumped as data by the
   overlay driver compiled from the current tree (op `fetables`);
 * spec/gocc2.ebnf is read by the small reader below (independent of gocc's own front end);
 * an (untrusted) certificate — the LR(1) item set of every table state — is obtained from the Lean
   model's canonical construction for the ebnf grammar, matched to the table states by walking both
   automata from state 0.
The Lean theorem in Props/C15.lean re-checks `safe feG feT feCert` by kernel evaluation (`decide`).
Numbering: model token type = front-end token type + 1 (0 = INVALID/ILLEGAL, 1 = end of input)."""
import json
import os
import re
import sys

sys.path.insert(0, os.path.dirname(os.path.dirname(os.path.abspath(__file__))))
from vlib import common as C          # noqa: E402
from vlib import gram                 # noqa: E402


def read_ebnf(path):
    """productions [(head, [symbols])] of the syntactic part; terminals are literal spellings or token names"""
    src = open(path, encoding="utf-8").read()
    src = re.sub(r"/\*.*?\*/", " ", src, flags=re.S)
    src = re.sub(r"//[^\n]*", " ", src)
    src = re.sub(r"<<.*?>>", " ", src, flags=re.S)
    toks = re.findall(r'"[^"]*"|[A-Za-z_][A-Za-z_0-9]*|[:|;]', src)
    prods, i = [], 0
    while i < len(toks):
        head = toks[i]
        assert toks[i + 1] == ":", (head, toks[i + 1])
        i += 2
        body = []
        while True:
            t = toks[i]
            i += 1
            if t in ("|", ";"):
                prods.append((head, body))
                body = []
                if t == ";":
                    break
            else:
                body.append(t[1:-1] if t.startswith('"') else t)
    return prods


def lean_str(s):
    return '"' + s.replace("\\", "\\\\").replace('"', '\\"') + '"'


def main(out_path=None):
    out_path = out_path or os.path.join(C.LEAN, "Gocc", "Gen", "Frontend.lean")
    drv = C.build_drv()
    rc, lines, err = C.run_lines(drv, ["fetables"])
    T = json.loads(lines[0])
    fe_terms = T["Terminals"]                       # index = front-end type
    prods_e = read_ebnf(os.path.join(C.REPO, "spec", "gocc2.ebnf"))
    problems = []
    # The shipped tables may list the productions in another order than the ebnf: match them by head and body
    # (a bijection is required) and use the TABLE's order from here on.
    tab_nt_name = lambda n: "S'" if n == "S!" else n
    def table_body(p):
        txt = re.sub(r"<<.*?>>", "", p["String"])
        return txt.split(":", 1)[1].rsplit(";", 1)[0].split()
    remaining = list(prods_e)
    ordered = []
    for k, p in enumerate(T["Prods"][1:], 1):
        key = (tab_nt_name(p["Head"]), table_body(p))
        if key in remaining:
            remaining.remove(key)
            ordered.append(key)
        else:
            problems.append("table production %d `%s` is not a production of the ebnf" % (k, p["String"]))
            ordered.append(key)
    for h, b in remaining:
        problems.append("ebnf production `%s : %s` has no counterpart in the tables" % (h, " ".join(b)))
    prods_e = ordered
    heads = []
    for h, _ in prods_e:
        if h not in heads:
            heads.append(h)
    start = prods_e[0][0]
    # non-terminal numbering: S' first, then first-use order as in the model
    nts = ["S'"] + heads
    nt_idx = {n: k for k, n in enumerate(nts)}
    term_idx = {n: k + 1 for k, n in enumerate(fe_terms)}      # model type
    unknown = sorted({s for _, b in prods_e for s in b if s not in nt_idx and s not in term_idx})
    if unknown:
        problems.append("symbols of the ebnf that are neither productions nor front-end tokens: %s" % unknown)
    # ---- certificate from the Lean model run on the ebnf grammar (terminals aliased to T<k> so that the
    #      spellings "error"/"empty" stay ordinary terminals)
    alias = {n: "T%d" % term_idx[n] for n in term_idx}
    syn = [(h, [(0, s) if s in nt_idx else (1, alias.get(s, "Tx")) for s in b], 0, 0) for h, b in prods_e]
    g = {"lex": [], "syn": syn}
    mout = C.run_model(["G 0 " + gram.encode(g), "lritems 0", "terminals 0"])
    m_terms = [bytes.fromhex(h[1:]).decode() for h in mout[2].split()]
    m_states = []
    for st in mout[1].split(" ; "):
        items_s, _, trans_s = st.partition(" / ")
        items = [tuple(int(x) for x in it.split(".")) for it in items_s.split()]
        trans = dict(t.split(">") for t in trans_s.split())
        m_states.append((items, {k: int(v) for k, v in trans.items()}))
    # model terminal index -> our model type; model NT index -> our NT index (same order by construction)
    mt2type = {k: (int(n[1:]) if n.startswith("T") and n[1:].isdigit() else (1 if n == "␚" else 0)) for k, n in enumerate(m_terms)}
    type2mt = {v: k for k, v in mt2type.items()}
    nstates = len(T["Actions"])
    mapping = {0: 0}
    work = [0]
    while work:
        s = work.pop()
        m = mapping[s]
        for t, a in T["Actions"][s].items():
            if a[0] == "s":
                key = "T%d" % type2mt.get(int(t) + 1, -1)
                if key in m_states[m][1]:
                    s2, m2 = int(a[1:]), m_states[m][1][key]
                    if s2 not in mapping:
                        mapping[s2] = m2
                        work.append(s2)
        for ntn, s2 in T["Gotos"][s].items():
            key = "N%d" % nt_idx.get(tab_nt_name(ntn), -1)
            if key in m_states[m][1] and s2 not in mapping:
                mapping[s2] = m_states[m][1][key]
                work.append(s2)
    cert, certla = [], []
    for s in range(nstates):
        items = m_states[mapping[s]][0] if s in mapping else []
        cert.append(sorted({(p, d) for p, d, _ in items}))
        certla.append(sorted({(p, d, mt2type.get(la, 0)) for p, d, la in items}))
    # ---- Lean data
    nterm = len(fe_terms) + 1
    L = []
    L.append("import Gocc.Model.Validate")
    L.append("import Gocc.Model.ValidateC")
    L.append("/- GENERATED by tools/gen_frontend.py from /repo (internal/frontend/parser/tables.go via the compiled driver,")
    L.append("   spec/gocc2.ebnf via an independent reader).  Do not edit.  Token type = front-end type + 1. -/")
    L.append("namespace Gocc.Gen")
    L.append("open Gocc")
    L.append("def feTerminals : List String := [\"INVALID\", %s]" % ", ".join(lean_str(t) for t in fe_terms))
    L.append("def feNTs : List String := [%s]" % ", ".join(lean_str(n) for n in nts))

    def sym(s):
        return "Sym.nt %d" % nt_idx[s] if s in nt_idx else "Sym.t %d" % term_idx.get(s, 0)
    gprods = [("S'", [start])] + prods_e
    L.append("def feG : NGrammar := { prods := List.toArray [")
    L.append(",\n".join("  (%d, [%s])" % (nt_idx[h], ", ".join(sym(s) for s in b)) for h, b in gprods))
    L.append("] }")

    def code(a):
        return 0 if a is None else (1 if a == "a" else 2 + 2 * int(a[1:]) if a[0] == "s" else 3 + 2 * int(a[1:]))
    rows = []
    for s in range(nstates):
        row = [None] * nterm
        for t, a in T["Actions"][s].items():
            if 0 <= int(t) + 1 < nterm:
                row[int(t) + 1] = a
        rows.append("  [" + ", ".join(str(code(a)) for a in row) + "]")
    L.append("/-- 0 = no action, 1 = accept, 2+2k = shift k, 3+2k = reduce k -/")
    L.append("def feActionCodes : List (List Nat) := [\n" + ",\n".join(rows) + "]")
    L.append("def decodeAct (c : Nat) : Option Act := if c = 0 then none else if c = 1 then some .accept else if c % 2 = 0 then some (.shift ((c - 2) / 2)) else some (.reduce ((c - 3) / 2))")
    L.append("def feAction : Array (Array (Option Act)) := (feActionCodes.map fun row => (row.map decodeAct).toArray).toArray")
    grow = []
    for s in range(nstates):
        row = [-1] * len(nts)
        for ntn, s2 in T["Gotos"][s].items():
            k = nt_idx.get(tab_nt_name(ntn))
            if k is None:
                problems.append("goto column %s is not a production of the ebnf" % ntn)
            else:
                row[k] = s2
        grow.append("  [" + ", ".join(str(x + 1) for x in row) + "]")
    L.append("/-- 0 = no entry (-1), k+1 = state k -/")
    L.append("def feGotoCodes : List (List Nat) := [\n" + ",\n".join(grow) + "]")
    L.append("def feGoto : Array (Array Int) := (feGotoCodes.map fun row => (row.map fun (c : Nat) => Int.ofNat c - 1).toArray).toArray")
    L.append("def feCanRecover : Array Bool := (([%s] : List Nat).map (· == 1)).toArray" % ", ".join("1" if c else "0" for c in T["CanRecover"]))
    L.append("def feProdNT : Array Nat := #[%s]" % ", ".join(str(nt_idx.get(tab_nt_name(p["Head"]), 999)) for p in T["Prods"]))
    L.append("def feProdLen : Array Nat := #[%s]" % ", ".join(str(p["Len"]) for p in T["Prods"]))
    L.append("def feProdKind : Array RKind := ((List.range %d).map fun k => RKind.user 1 k).toArray" % len(T["Prods"]))
    L.append("def feT : PTables where")
    for fld, val in [("terminals", "feTerminals"), ("nts", "feNTs"), ("action", "feAction"), ("goto_", "feGoto"), ("canRecover", "feCanRecover"),
                     ("prodNT", "feProdNT"), ("prodLen", "feProdLen"), ("prodKind", "feProdKind"), ("conflictStates", "0"),
                     ("nStates", str(nstates)), ("numSymbols", str(nterm + len(nts)))]:
        L.append("  %s := %s" % (fld, val))
    L.append("/-- item (p, d) is encoded as 16*p + d -/")
    L.append("def feCertCodes : List (List Nat) := [\n" + ",\n".join("  [" + ", ".join(str(16 * p + d) for p, d in c) + "]" for c in cert) + "]")
    L.append("def feCert : Cert := (feCertCodes.map fun l => l.map fun c => (c / 16, c % 16)).toArray")
    L.append("/-- item (p, d, la) is encoded as (16*p + d)*64 + la -/")
    L.append("def feCertLACodes : List (List Nat) := [\n" + ",\n".join("  [" + ", ".join(str((16 * p + d) * 64 + la) for p, d, la in c) + "]" for c in certla) + "]")
    L.append("def feCertLA : Array (List (Nat × Nat × Nat)) := (feCertLACodes.map fun l => l.map fun c => (c / 64 / 16, c / 64 % 16, c % 64)).toArray")
    # nullable / FIRST certificate (untrusted; `firstOk` re-checks that it is closed under the grammar rules)
    nullable, first = set(), set()
    changed = True
    while changed:
        changed = False
        for h, b in gprods:
            allnull = True
            for x in b:
                if x in nt_idx:
                    for (B, a2) in list(first):
                        if B == nt_idx[x] and (nt_idx[h], a2) not in first:
                            first.add((nt_idx[h], a2)); changed = True
                    if nt_idx[x] not in nullable:
                        allnull = False
                        break
                else:
                    if (nt_idx[h], term_idx.get(x, 0)) not in first:
                        first.add((nt_idx[h], term_idx.get(x, 0))); changed = True
                    allnull = False
                    break
            if allnull and nt_idx[h] not in nullable:
                nullable.add(nt_idx[h]); changed = True
    L.append("def feFirst : FirstCert := { nullable := [%s], first := [%s] }" % (", ".join(map(str, sorted(nullable))), ", ".join("(%d, %d)" % x for x in sorted(first))))
    L.append("end Gocc.Gen")
    text = "\n".join(L) + "\n"
    old = open(out_path).read() if os.path.exists(out_path) else None
    if old != text:
        with open(out_path, "w") as fh:
            fh.write(text)
    if len(T["Prods"]) != len(gprods):
        problems.append("production count differs: table %d, ebnf %d (+1 augmented)" % (len(T["Prods"]), len(prods_e)))
    if (tab_nt_name(T["Prods"][0]["Head"]), T["Prods"][0]["Len"]) != ("S'", 1):
        problems.append("production 0 of the tables is not the augmented start production")
    return {"changed": old != text, "states": nstates, "mapped_states": len(mapping), "productions": len(gprods),
            "terminals": fe_terms, "problems": problems, "grammar": gprods, "tables": T}


if __name__ == "__main__":
    r = main()
    print({k: v for k, v in r.items() if k not in ("grammar", "tables")})
