#!/usr/bin/env python3
"""Seeded-change bookkeeping.
  confirm <out_dir> <worktree>   : confirm a candidate (builds, suite passes, demo fails with / passes without)
  detect  <seeded_id> <check>... : apply /verif/seeded/<id>/patch.diff to /repo, run the checks (quick), undo
"""
import json, os, shutil, subprocess, sys, time

ENV = dict(os.environ, GOFLAGS="-mod=mod", GOPROXY="off")
ENV.pop("GOSUMDB", None)
V = os.path.dirname(os.path.dirname(os.path.abspath(__file__)))


def sh(cmd, cwd=None, env=ENV, timeout=1800):
    p = subprocess.run(cmd, cwd=cwd, env=env, shell=isinstance(cmd, str), stdout=subprocess.PIPE, stderr=subprocess.STDOUT, text=True, timeout=timeout)
    return p.returncode, p.stdout


def suite(wt):
    rc, out = sh("go test -vet=off -count=1 ./... 2>&1", cwd=wt)
    fails = [l for l in out.split("\n") if l.startswith("FAIL\t") or l.startswith("--- FAIL")]
    return [f for f in fails if "t2" not in f and "TestEmptyKeyword" not in f], out


def confirm(out_dir, wt):
    patch = os.path.join(out_dir, "patch.diff")
    res = {}
    sh(["git", "-C", wt, "checkout", "--", "."])
    rc, o = sh(["git", "-C", wt, "apply", "--check", patch]); res["applies"] = rc == 0
    env = dict(ENV, GOCC_SRC=wt)
    rc, o = sh("sh demo/run.sh", cwd=out_dir, env=env); res["demo_clean_rc"] = rc
    sh(["git", "-C", wt, "apply", patch])
    rc, o = sh("go build ./...", cwd=wt); res["builds"] = rc == 0
    bad, _ = suite(wt); res["suite_new_failures"] = bad
    rc, o = sh("sh demo/run.sh", cwd=out_dir, env=env); res["demo_patched_rc"] = rc; res["demo_patched_tail"] = o[-400:]
    sh(["git", "-C", wt, "checkout", "--", "."])
    res["confirmed"] = res["applies"] and res["builds"] and not bad and res["demo_clean_rc"] == 0 and res["demo_patched_rc"] != 0
    return res


def detect(sid, checks):
    d = os.path.join(V, "seeded", sid)
    rc, o = sh(["git", "-C", "/repo", "status", "--short"])
    assert o.strip() == "", "repo not clean: " + o
    out = {}
    try:
        rc, o = sh(["git", "-C", "/repo", "apply", os.path.join(d, "patch.diff")])
        assert rc == 0, o
        for c in checks:
            t = time.time()
            rc, o = sh([os.path.join(V, "run.py"), c, "quick"], cwd=V, env=os.environ)
            viol = [l for l in o.split("\n") if l.startswith("VIOLATION")]
            out[c] = {"rc": rc, "violations": len(viol), "first": (viol[0] if viol else ""), "detail": next((l for l in o.split("\n") if l.startswith("  ")), "")[:300], "s": round(time.time() - t)}
    finally:
        sh(["git", "-C", "/repo", "checkout", "--", "."])
        # files regenerated from /repo (Gen/Frontend.lean) must describe the clean tree again
        sh([sys.executable, os.path.join(V, "tools", "gen_frontend.py")], cwd=V, env=os.environ)
    return out


if __name__ == "__main__":
    if sys.argv[1] == "confirm":
        print(json.dumps(confirm(sys.argv[2], sys.argv[3]), indent=1))
    else:
        print(json.dumps(detect(sys.argv[2], sys.argv[3:]), indent=1))
