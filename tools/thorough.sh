#!/bin/sh
# run the thorough tier of the given checks on the unchanged tree (timing + false-alarm test)
cd "$(dirname "$0")/.."
[ -n "$VP_RUN_REPO" ] && export VERIF_REPO="$VP_RUN_REPO"
./setup.sh >/dev/null 2>&1
for c in "$@"; do
  /usr/bin/time -f "$c wall=%es maxrss=%MKB" ./run.py $c thorough 2>&1 | grep -E "^(VIOLATION|KNOWN|ERROR|  |C[0-9][0-9] thorough|C[0-9][0-9] wall)" | cut -c1-300
done
