#!/usr/bin/env python3
"""Regenerates MANIFEST.json from the table below (keeps it valid and in one place)."""
import json, os
V = os.path.dirname(os.path.dirname(os.path.abspath(__file__)))

TB = ("Trusted: Lean 4.33 kernel (+ propext, Classical.choice, Quot.sound, audited per theorem per run); the correspondence harness "
      "(overlay Go driver, batch compiler harness, run.py, canonicalisers); Go compiler/runtime; utf8.DecodeRune, strconv, gob/gzip, text/template, go/format modelled or assumed. ")

CLAIMS = {
 "C01": ("Theorems (all tables, all byte strings): Scan meets the declarative ScanSpec (skip complete ignored lexemes, follow the automaton while a transition exists, return the last state's token with exactly that text, INVALID swallows the offending rune, EOF for ever) and ScanSpec determines the result; VERIFIED equivalence checker: equivCheck M R = true implies identical token streams (types, literals, positions) of the generated automaton and the reference automaton on EVERY byte string (C01_equivCheck_sound). The checker is evaluated for every grammar the run visits, with M = the Lean model of gocc's item-set construction (tied to gocc by exact equality of every compiled table, state numbering included) and R = the macro-expanded reference semantics ('.' as fallback, string literals first, then declaration order). Token streams of compiled lexers are additionally compared with the reference directly. Known finding D1 (regdef sharing): grammars on which the checker rejects and impl = model.",
         "'For all grammars' is covered per visited grammar (D1 makes the unrestricted statement false); the reference needs acyclic regular definitions; the reference automaton construction itself (refDfa) is the executable specification.",
         "Lean 4 proof (loop invariant, spec uniqueness, verified bisimulation checker) + exact table correspondence + reference-semantics oracle"),
 "C02": ("Verified validators: theorems C02_accept_sound (tables passing safe/safeEnds: accept implies sentence) and C02_sentence_accepted (tables passing firstOk/complete: every sentence is accepted with enough fuel), together C02_accept_iff_sentence, for EVERY token sequence. Both validators are evaluated on every table gocc generates in the run (certificates = the model's LR(1) item sets and FIRST sets), so for each visited conflict-free grammar acceptance = membership for all inputs. GENERATOR LEVEL, for EVERY grammar: the tables computed by the generator model genParser pass safe/safeEnds (C02_genParser_safe; side condition NamesOk: reserved spellings gocc's scanner cannot produce; states <= 4096), hence accept implies sentence for every grammar without a validator run (C02_generated_parser_sound); if moreover the generator records no conflict the tables pass firstOk/complete (C02_genParser_complete; extra side condition CompleteNamesOk about the reserved spellings INVALID and empty, each clause shown necessary by a kernel-evaluated witness grammar), so for EVERY conflict-free grammar without recovery states and every token sequence: accepted iff sentence (C02_generated_accept_iff_sentence). Tables tied to the Lean LR(1) generator model by exact equality; Earley recogniser as an independent oracle; verdicts also checked on reused parser objects.",
         "The generator-level theorems are about the Lean generator model (tied to gocc by exact table equality on the grammars of the run) and assume the model's fuel of 4096 states is not reached; termination on non-sentences is observed (watchdog + fuel), not proved.",
         "Lean 4 verified table validators (soundness: stack invariant carrying parse trees; completeness: induction on derivations) + exact table correspondence + Earley oracle"),
 "C03": ("Theorems over validated tables — and, through C02_genParser_safe, over the generator model's tables for EVERY grammar (C03_generated_result_is_tree_eval, C03_generated_failing_action_is_reported) — all inputs: the accepted result and the action-call log equal the post-order evaluation (evalT) of a well-formed parse tree whose yield is the input; a failing k-th action stops Parse with that action's error after exactly k calls and its log is the k-prefix of the failure-free run. Compiled parsers with logging actions tied to the model; table-free tree evaluator as oracle.",
         "Action texts are exercised through seven harness shapes ($n incl. two-digit $10, $Tn, $Context, X, printf verbs next to $n, default/empty); attribute aliasing through popN is outside the model.",
         "Lean 4 proof (same stack invariant, lock-step simulation) + compiled-parser correspondence + tree-evaluation oracle"),
 "C04": ("Theorems (all action lists): the fold records a conflict iff two different non-error actions compete; it panics iff accept competes with something else or two shifts differ. Announced count and exit status of the real binary with/without -a compared with the conflicting states of the model's canonical LR(1) collection (tables equal exactly).",
         "Canonicity of the item-set collection itself is tied by exact table equality with the model, not proved against the textbook definition.",
         "Lean 4 proof about the conflict fold + binary status/stdout correspondence"),
 "C05": ("Theorems (all action lists, all orders): fold result = shift if proposed else smallest production; order independent; no competition leaves the entry unchanged; setAction is that fold. Every entry of every generated table compared with the rule stated outright; run-level behaviour tied to the Parse model.",
         "Run-level corollary (verdict and reductions of the resolved machine) is by correspondence with the model running the same table.",
         "Lean 4 proof (fold invariant, permutation invariance) + per-entry oracle + correspondence"),
 "C06": ("Verified validators, all token sequences: on tables passing firstOk/complete/validItems (LR(1) item validity with rank certificates) a syntax error reports index i with w[:i] viable, the reported token is w[i] (or end of input) and cannot continue any sentence, the expected list is EXACTLY the viable continuations in increasing type order, and the final configuration equals that of the run on w[:i]+INVALID, i.e. nothing was reduced with the offending look-ahead (C06_error_token_is_first_offending, C06_expected_set_exact, C06_no_reduction_on_bad_lookahead). GENERATOR LEVEL: for EVERY grammar whose non-terminals are productive the generator model's tables pass validItems with the certificate vcertOf G (total, fuel adequacy proved by pigeonhole; conflicts allowed) — C06_genParser_validItems — and with C02_genParser_complete the three C06 theorems hold for the generated tables of every conflict-free, error-free, reduced grammar (C06_generated_error_token_is_first_offending, C06_generated_expected_set_exact, C06_generated_no_reduction_on_bad_lookahead). The validators are additionally evaluated on every such grammar the run visits (same certificates), which ties them to gocc's actual tables. Earley prefix oracle and INVALID-look-ahead baseline as independent checks; tables tied to the generator model exactly; histories on reused parsers.",
         "Generator-level theorems are about the Lean generator model (exact table equality with gocc on the grammars of the run; fuel of 4096 states assumed not reached); token identity (the very scanner object) is checked behaviourally.",
         "Lean 4 verified validators (item validity, lock-step determinism) + Earley prefix oracle + exact table correspondence"),
 "C07": ("Theorems for ALL tables/inputs: one call of Error equals the declarative RecoverSpec (topmost recovery state, error attribute = offending token + discarded attributes oldest first + expected set, resume at the first acceptable token starting with the offending one, give up at end of input or without a recovery state) and the spec is unique; under RecWF no recovery panic is reachable; shifted tokens reach the result at most once and in input order (TokInv preserved by every step, any tables); a run in which no lookup fails is identical with and without recovery states (inertness). GENERATOR LEVEL (Props/C07Gen.lean), for EVERY conflict-free grammar WITH error alternatives (recovery states allowed, which the C02/C03 theorems exclude): every sentence is accepted and the run is, step for step, the run of the parser without recovery (C07_generated_sentence_accepted_inert); the result is the evaluation of a parse tree that uses no production mentioning the error terminal (C07_generated_error_free_tree), and acceptance-without-recovery holds iff the input is a sentence of the grammar with those alternatives removed (C07_generated_accept_iff_without) - 'behaves exactly as if those alternatives were absent'; the naive iff for the recovering parser is refuted by a kernel-evaluated run (recovery accepts non-sentences, as intended). RecWF/NoShiftEOF are evaluated on every generated table of the run. Recovery model tied exactly to compiled parsers on erroneous inputs; oracles: panic/loop freedom on conflict-free grammars, error-free twin grammar, token order. Panics D7/D7b found and fixed.",
         "Termination of a recovering parse is observed (watchdog/fuel), not proved.",
         "Lean 4 proof (relational spec of Error, step invariant, lock-step inertness) + compiled-parser correspondence + behavioural oracles"),
 "C09": ("Theorems: the FIRST fixed-point loop and the LR(1) closure work list — unbounded loops in the Go code — terminate: a bounded strictly increasing measure shows the model's fuel is never exhausted (C09_first_fixpoint, C09_first_terminates, C09_closure_closed, C09_genParser_states_closed: no Closure call inside genParser is ever truncated); the generated Scan loop is well-founded and reaches end of input; accepting runs are fuel-monotone; the lexer's epsilon-move work list (Item.Emoves, an unbounded loop with a visited set) computes exactly the basic items epsilon-reachable from its argument for EVERY lexical part and item: the model's fuel is never exhausted (C09_emoves_iff, universe of all dotted positions constructed and counted against the pattern size). Observed on the real binary: hostile spellings and action texts x ten flag sets (incl. -o below the working directory, -p), byte-level mutants incl. NUL/0xFF under a 30 s limit; every status-0 run is checked for the complete file set and compiled by the Go compiler. Defects D5 (hang), D8 and D11 (uncompilable output with status 0) found and fixed.",
         "Item-set enumeration (GetItemSets, lexer ItemSets.Closure) and the front-end scanner/parser loops are modelled with fuel without an adequacy theorem; compilability is the Go compiler's verdict on sampled grammars.",
         "Lean 4 termination proofs (bounded measures) for the unbounded generator loops + timeout-guarded runs of the real binary + Go compiler"),
 "C08": ("Theorems (all tables, bytes, call counts): every token's offset/line/column is the position rule applied to the runes before it, the cursor stays on rune boundaries, lexemes are adjacent and inside the input, literal = consumed bytes, progress, EOF sticky. Executable position/tiling oracle on compiled lexers' streams.",
         "TWF (Accept=-1 only for ignore states) is a hypothesis, true of emitted tables by construction of acttab.go.",
         "Lean 4 proof (loop invariant over the Scan model) + correspondence + position oracle"),
 "C10": ("Theorems: typeMap has INVALID at 0, end-of-input at 1, no duplicates, for every symbol table newSymbols/addTokens can build; lookups tokId/tokType are mutually inverse over the terminals and unknown names map to 0. Compiled TokMap lookups, lexer Accept values and parser columns compared with the model for lexer-only, parser-only and combined grammars incl. hostile spellings.",
         "Go map/slice lookups are modelled by List.idxOf / getElem; %q quoting round trip trusted.",
         "Lean 4 proof (NoDup invariant, inverse lookups) + compiled TokMap correspondence"),
 "C11": ("Premise re-extracted on every run with go/ast + go/types: the list of map-range / go / select / time / rand / env sites of the generator equals the hand-reviewed list (expected/nondet_sites.json; each site: sorted afterwards, commutative-idempotent set operation, or not part of the generated packages). Theorem: the conflict fold is invariant under permutation of the items (C05_order_independent). Backstop: repeated runs with fresh hash seeds and GOMAXPROCS 1..16, byte comparison of generated .go files, status and conflict count.",
         "The Go runtime is not modelled; a new nondeterminism site is reported as an unchecked premise (no-failing-input-found unless the repeated runs differ).",
         "extracted-premise comparison + Lean order-independence theorem + repeated-run byte comparison"),
 "C12": ("Theorem: decoding the sparse -zip triples into a zero row gives back exactly the dense row, for every row. All subsets of the presentation flags on sample grammars: tables dumped from the compiled packages (after init()) identical, token streams/results/errors/positions identical.",
         "gob+gzip round trip assumed; debug output on stdout ignored.",
         "Lean 4 proof (zip round trip) + all-flag-subsets behavioural comparison"),
 "C13": ("Lean model of gocc's hand-written scanner (every function of scanner.go) and theorems for every Unicode oracle: the (type, literal) token stream of a rendering is independent of the white-space/comment separators (C13_whitespace_invariant, C13_comment_is_whitespace), positions follow the layout; character literal value is spelling independent (C20_litToRune). Scanner model tied to the real scanner on respelled grammars and random byte strings; the real binary on four kinds of respelling must produce byte-identical packages.",
         "ScansAs (a spelling scans as one token when followed by white space) is discharged for ASCII spellings; 'the generator is a function of the token stream' is checked behaviourally (byte-identical output), not proved.",
         "Lean 4 proof over a scanner model + scanner correspondence + byte comparison of generated packages"),
 "C14": ("Theorems (regenerated tables): gocc's own parser accepts exactly L(spec/gocc2.ebnf) and has no recovery state, so nothing is skipped (C15_accepts_iff_sentence, C15_no_recovery_states). The real binary on token-level mutants, undefined references, duplicated definitions, emptied alternatives and lexically broken files: every file that is ill-formed by the oracle (scanner error / ILLEGAL token / token sequence outside L(ebnf) by Earley / semantic by construction) must exit non-zero. Semantic half: semCheck, a Lean model of NewLexProdMap/NewLexPart/consistent/UndefinedRegDef, is proved to accept exactly the grammars satisfying the property's clauses (C14_semCheck_iff: no duplicate definition, no empty alternative, every production name and regular definition defined) and every error names a culprit (C14_semCheck_culprit); value-level mutants (reference renaming, duplication of each kind, nested / unused-definition undefined references, harmless twins) are judged by the model and gocc's status and error category must agree. Defects D6, D10 and D12 found and fixed.",
         "Imports of the lexical part are a parameter of the model that the generator of the check leaves empty; the empty-alternative clause is reached only through the syntax level (the ebnf has no empty alternative).",
         "Lean 4 theorems on regenerated front-end tables + mutation run of the real binary with an Earley/semantic oracle"),
 "C15": ("Regenerated on every run: tables.go (dumped from the compiled current tree) and spec/gocc2.ebnf (independent reader) are translated to Lean data; the kernel evaluates both verified validators on them by `decide`: C15_accepts_iff_sentence — for ALL token sequences the front-end parser accepts iff the sequence is a sentence of the ebnf; production table = ebnf productions (head, length; bodies through the stack discipline). A changed table entry or production breaks a proof obligation; the check then searches (Earley vs real parser, one long-lived parser object) for a concrete failing input.",
         "The front-end Parse loop is an older template than the modelled one: tied by the differential run (verdict and number of Scan calls).",
         "Lean 4 kernel evaluation (decide) of verified validators on regenerated tables + differential search"),
 "C16": ("Theorems: Parse does not read the previous parser state (model shape), Reset restores all cursor fields so scanN after reset equals scanN of a new lexer. Histories of 2-5 inputs on ONE compiled parser object compared with fresh objects and the model; Scan/Reset/Scan sequences likewise.",
         "The parser theorem is immediate from the model's shape; its content is carried by the history correspondence.",
         "Lean 4 proof + history correspondence against fresh objects"),
 "C17": ("Theorem: in an interleaving semantics where threads own private state and only read a shared store, every interleaving projects per thread to its solo run (C17_interleaving_projects, instance for lexers over shared tables). Premise re-extracted every run from the generated source (plain, -zip, debug): no assignment to package-level state outside init(). Backstop: N goroutines with own lexer+parser vs sequential results, also under the Go race detector.",
         "The Go memory model and the race detector are trusted; the premise extraction is syntactic (go/ast).",
         "Lean 4 interleaving theorem + extracted no-shared-writes premise + race-detector stress"),
 "C18": ("Theorems for all interval sequences: classes sorted/disjoint/non-empty, union exact, every added range a union of classes, at most one class per rune, Item.match all-or-nothing. Real AddRange tied to the model; executable partition oracle on its output.",
         "Structural-recursion model tied to the index loop by correspondence only.",
         "Lean 4 proof by induction over the class list + differential correspondence"),
 "C19": ("Theorems for all texts: loadMd keeps length and newlines, every rune kept or blanked, structured documents map to blanked prose + code. md.GetSource tied to the model; real binary on .md vs extracted .bnf (identical packages) and planted errors (markdown positions).",
         "Package equality md vs bnf relies on layout independence (C13).",
         "Lean 4 proof + unit correspondence + end-to-end binary comparison"),
 "C20": ("Theorems for all valid rune literals (inductive GoRuneLit): litToRune and runeValue return Go's value; both copies agree on all byte strings. LitToRune and the compiled generated RuneValue tied to the models; go/scanner+strconv.UnquoteChar as oracle; utf8.DecodeRune model tied to Go.",
         "GoRuneLit is our reading of the Go spec (tied by the differential run).",
         "Lean 4 proof (UTF-8 encode/decode, digit arithmetic) + differential correspondence"),
}

ALL = ["C%02d" % i for i in range(1, 21)]


def main():
    claimed = [p for p in ALL if p in CLAIMS and os.path.exists(os.path.join(V, "vlib", "checks", p.lower() + ".py"))]
    m = {
        "version": 1,
        "setup_cmd": "./setup.sh",
        "hooks": {
            "guard": "verif",
            "enable": "go build -tags verif -overlay <generated overlay.json> ./internal/verifdrv  (driver sources live in /verif/go/drv and are injected with -overlay; /repo carries no hook code)",
            "baseline_off_cmd": "cd /repo && GOFLAGS=-mod=mod go test -vet=off -count=1 ./...",
            "source_commits": [],
            "add_only": True,
        },
        "engines": [
            {"name": "lean-proof", "path": "lean/", "serves_properties": claimed,
             "kind_free_text": "Lean 4 models, specs and theorems (core only); lake build + per-theorem #print axioms audit + source scan"},
            {"name": "correspondence", "path": "run.py", "serves_properties": claimed,
             "kind_free_text": "differential runs of the real code (overlay driver inside /repo's module, the gocc binary, compiled generated packages) against the Lean model driver, judged by executable-spec oracles"},
        ],
        "checks": [],
        "not_applicable": [],
        "notes": "Defects found on the pinned tree and repaired by unguarded `fix:` commits in /repo are listed in known_findings.json (fixed: D2-D10); D1 is a known finding.",
    }
    for p in ALL:
        if p in claimed:
            text, note, tech = CLAIMS[p]
            m["checks"].append({
                "property_id": p, "quick_cmd": "./run.py %s quick" % p, "thorough_cmd": "./run.py %s thorough" % p,
                "evidence_file": "evidence/%s.json" % p, "replay_cmd_template": "./run.py %s quick --replay {path}" % p, "engine": "lean-proof",
                "level_claimed": {"category": "proof", "text": text, "design_ref": "DESIGN.md §6 " + p},
                "level_note": TB + note, "technique": tech})
        else:
            m["not_applicable"].append({"property_id": p, "reason": "check under construction in this round (design in DESIGN.md §6); will be claimed once its machinery is committed"})
    json.dump(m, open(os.path.join(V, "MANIFEST.json"), "w"), indent=1)
    print("claimed:", " ".join(claimed))


main()
