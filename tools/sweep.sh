#!/bin/sh
# seed sweep of the quick tier on the unchanged tree: every line must end in "ok"
cd "$(dirname "$0")/.."
[ -n "$VP_RUN_REPO" ] && export VERIF_REPO="$VP_RUN_REPO"
./setup.sh >/dev/null 2>&1
for s in "$@"; do
  for c in C01 C02 C03 C04 C05 C06 C07 C08 C09 C10 C11 C12 C13 C14 C15 C16 C17 C18 C19 C20; do
    VERIF_SEED=$s ./run.py $c quick 2>&1 | grep -E "^(VIOLATION|KNOWN|ERROR|  |C[0-9][0-9] quick)" | cut -c1-300 | sed "s/^/seed=$s /"
  done
done
