//go:build verif

// Package main is the correspondence driver.  It is compiled *inside* module
// github.com/goccmack/gocc (directory internal/verifdrv, which exists only through
// `go build -overlay`), from /repo's current working tree, so it can call internal packages.
// One op per input line, one result line per op; a Go panic is reported as "panic".
package main

import (
	"bufio"
	"fmt"
	goscanner "go/scanner"
	gotoken "go/token"
	"os"
	"path/filepath"
	"strconv"
	"strings"
	"unicode/utf8"

	"github.com/goccmack/gocc/internal/ast"
	"github.com/goccmack/gocc/internal/lexer/items"
	"github.com/goccmack/gocc/internal/util"
	"github.com/goccmack/gocc/internal/util/md"
)

var tmpDir string

func ints(args []string) []int {
	r := make([]int, len(args))
	for i, a := range args {
		v, err := strconv.Atoi(a)
		if err != nil {
			panic("bad int " + a)
		}
		r[i] = v
	}
	return r
}

func showInts(v []int) string {
	s := make([]string, len(v))
	for i, x := range v {
		s[i] = strconv.Itoa(x)
	}
	return strings.Join(s, " ")
}

func opAddRange(args []string) string {
	v := ints(args)
	set := items.NewDisjunctRangeSet()
	for i := 0; i+1 < len(v); i += 2 {
		set.AddRange(rune(v[i]), rune(v[i+1]))
	}
	out := []int{}
	for _, r := range set.List() {
		out = append(out, int(r.From), int(r.To))
	}
	return showInts(out)
}

// opAddNodes feeds literals / ranges through AddLexTNode (the path getSymbolClasses takes):
// args: "l v" or "r lo hi" repeated
func opAddNodes(args []string) string {
	set := items.NewDisjunctRangeSet()
	for i := 0; i < len(args); {
		switch args[i] {
		case "l":
			v := ints(args[i+1 : i+2])
			set.AddLexTNode(&ast.LexCharLit{Val: rune(v[0])})
			i += 2
		case "r":
			v := ints(args[i+1 : i+3])
			set.AddLexTNode(&ast.LexCharRange{From: &ast.LexCharLit{Val: rune(v[0])}, To: &ast.LexCharLit{Val: rune(v[1])}})
			i += 3
		default:
			panic("bad node")
		}
	}
	out := []int{}
	for _, r := range set.List() {
		out = append(out, int(r.From), int(r.To))
	}
	return showInts(out)
}

func opLoadMd(args []string) string {
	v := ints(args)
	rs := make([]rune, len(v))
	for i, x := range v {
		rs[i] = rune(x)
	}
	f := filepath.Join(tmpDir, "in.md")
	if err := os.WriteFile(f, []byte(string(rs)), 0666); err != nil {
		return "ioerr"
	}
	s, err := md.GetSource(f)
	if err != nil {
		return "ioerr"
	}
	out := []int{}
	for _, r := range []rune(s) {
		out = append(out, int(r))
	}
	return showInts(out)
}

func bytesOf(args []string) []byte {
	v := ints(args)
	b := make([]byte, len(v))
	for i, x := range v {
		b[i] = byte(x)
	}
	return b
}

func opLit2Rune(args []string) string {
	return fmt.Sprintf("ok %d", util.LitToRune(bytesOf(args)))
}

// Go's own reading of a rune literal (oracle for C20): go/scanner decides validity,
// strconv.UnquoteChar gives the value.
func opGoRune(args []string) string {
	src := bytesOf(args)
	var sc goscanner.Scanner
	fset := gotoken.NewFileSet()
	nerr := 0
	sc.Init(fset.AddFile("lit", fset.Base(), len(src)), src, func(gotoken.Position, string) { nerr++ }, 0)
	_, tok, lit := sc.Scan()
	if tok != gotoken.CHAR || lit != string(src) || nerr != 0 {
		return "invalid"
	}
	if _, tok2, _ := sc.Scan(); tok2 != gotoken.EOF && tok2 != gotoken.SEMICOLON {
		return "invalid"
	}
	if nerr != 0 {
		return "invalid"
	}
	code, _, tail, err := strconv.UnquoteChar(lit[1:len(lit)-1], '\'')
	if err != nil || tail != "" {
		return "invalid"
	}
	return fmt.Sprintf("ok %d", code)
}

// util.IntValue / util.UintValue against strconv (generator's copy)
func opIntValue(args []string) string {
	b := bytesOf(args)
	i1, e1 := util.IntValue(b)
	i2, e2 := strconv.ParseInt(string(b), 10, 64)
	u1, f1 := util.UintValue(b)
	u2, f2 := strconv.ParseUint(string(b), 10, 64)
	if i1 == i2 && (e1 == nil) == (e2 == nil) && u1 == u2 && (f1 == nil) == (f2 == nil) {
		return "same"
	}
	return "diff"
}

func opDecodeRune(args []string) string {
	r, n := utf8.DecodeRune(bytesOf(args))
	return fmt.Sprintf("%d %d", r, n)
}

var ops = map[string]func([]string) string{
	"addrange":   opAddRange,
	"addnodes":   opAddNodes,
	"loadmd":     opLoadMd,
	"lit2rune":   opLit2Rune,
	"decoderune": opDecodeRune,
	"gorune":     opGoRune,
	"intvalue":   opIntValue,
}

func run(line string) (res string) {
	defer func() {
		if e := recover(); e != nil {
			res = "panic"
		}
	}()
	f := strings.Fields(line)
	if len(f) == 0 {
		return ""
	}
	op, ok := ops[f[0]]
	if !ok {
		return "bad-op"
	}
	return op(f[1:])
}

func main() {
	var err error
	tmpDir, err = os.MkdirTemp("", "verifdrv")
	if err != nil {
		panic(err)
	}
	defer os.RemoveAll(tmpDir)
	in := bufio.NewReaderSize(os.Stdin, 1<<20)
	out := bufio.NewWriterSize(os.Stdout, 1<<20)
	defer out.Flush()
	for {
		line, err := in.ReadString('\n')
		if len(line) > 0 {
			fmt.Fprintln(out, run(strings.TrimRight(line, "\n")))
		}
		if err != nil {
			break
		}
	}
}
