//go:build verif

package main

import (
	"fmt"
	"go/ast"
	"go/importer"
	"go/parser"
	"go/token"
	"go/types"
	"os"
	"path/filepath"
	"sort"
	"strings"
)

func init() {
	ops["nondet"] = opNondet
	ops["pkgwrites"] = opPkgWrites
}

func exprString(fset *token.FileSet, e ast.Expr) string {
	return types.ExprString(e)
}

// opNondet lists, for the generator packages of the current tree (main.go + internal/..., tests and the
// checked-in generated test packages excluded), every source of run-to-run variation we know how to name:
// `range` over a map-typed operand, `go` statements, `select`, and imports of time / math/rand / os env.
// One item per site: file:function:kind:operand
func opNondet(args []string) string {
	root := args[0]
	fset := token.NewFileSet()
	var sites []string
	dirs := []string{root}
	filepath.Walk(filepath.Join(root, "internal"), func(p string, info os.FileInfo, err error) error {
		if err == nil && info.IsDir() {
			if strings.Contains(p, "/internal/test") || strings.Contains(p, "/verifdrv") {
				return filepath.SkipDir
			}
			dirs = append(dirs, p)
		}
		return nil
	})
	imp := importer.ForCompiler(fset, "source", nil)
	for _, d := range dirs {
		pkgs, err := parser.ParseDir(fset, d, func(fi os.FileInfo) bool {
			return !strings.HasSuffix(fi.Name(), "_test.go") && !strings.HasPrefix(fi.Name(), "zz_verif")
		}, 0)
		if err != nil {
			continue
		}
		for _, pkg := range pkgs {
			var files []*ast.File
			var names []string
			for n := range pkg.Files {
				names = append(names, n)
			}
			sort.Strings(names)
			for _, n := range names {
				files = append(files, pkg.Files[n])
			}
			info := &types.Info{Types: map[ast.Expr]types.TypeAndValue{}}
			conf := types.Config{Importer: imp, Error: func(error) {}}
			conf.Check(pkg.Name, fset, files, info)
			for k, f := range files {
				rel, _ := filepath.Rel(root, names[k])
				for _, im := range f.Imports {
					switch im.Path.Value {
					case `"time"`, `"math/rand"`, `"math/rand/v2"`, `"sync"`, `"runtime"`:
						sites = append(sites, fmt.Sprintf("%s::import:%s", rel, im.Path.Value))
					}
				}
				for _, decl := range f.Decls {
					fd, ok := decl.(*ast.FuncDecl)
					if !ok || fd.Body == nil {
						continue
					}
					fname := fd.Name.Name
					if fd.Recv != nil && len(fd.Recv.List) > 0 {
						fname = types.ExprString(fd.Recv.List[0].Type) + "." + fname
					}
					ast.Inspect(fd.Body, func(n ast.Node) bool {
						switch x := n.(type) {
						case *ast.RangeStmt:
							if tv, ok := info.Types[x.X]; ok && tv.Type != nil {
								if _, isMap := tv.Type.Underlying().(*types.Map); isMap {
									sites = append(sites, fmt.Sprintf("%s:%s:range-map:%s", rel, fname, exprString(fset, x.X)))
								}
							} else {
								sites = append(sites, fmt.Sprintf("%s:%s:range-untyped:%s", rel, fname, exprString(fset, x.X)))
							}
						case *ast.GoStmt:
							sites = append(sites, fmt.Sprintf("%s:%s:go:", rel, fname))
						case *ast.SelectStmt:
							sites = append(sites, fmt.Sprintf("%s:%s:select:", rel, fname))
						case *ast.CallExpr:
							s := types.ExprString(x.Fun)
							if s == "os.Getenv" || s == "os.Environ" || s == "os.Getpid" || strings.HasPrefix(s, "time.") || strings.HasPrefix(s, "rand.") {
								sites = append(sites, fmt.Sprintf("%s:%s:call:%s", rel, fname, s))
							}
						}
						return true
					})
				}
			}
		}
	}
	sort.Strings(sites)
	return strings.Join(sites, " ;; ")
}

func rootIdent(e ast.Expr) *ast.Ident {
	for {
		switch x := e.(type) {
		case *ast.Ident:
			return x
		case *ast.SelectorExpr:
			e = x.X
		case *ast.IndexExpr:
			e = x.X
		case *ast.StarExpr:
			e = x.X
		case *ast.ParenExpr:
			e = x.X
		case *ast.SliceExpr:
			e = x.X
		default:
			return nil
		}
	}
}

// opPkgWrites scans generated packages under the given directory: every assignment / inc-dec, outside
// init(), whose target is (reached from) a package-level variable.  Expected: none.
func opPkgWrites(args []string) string {
	fset := token.NewFileSet()
	var found []string
	nvars := 0
	filepath.Walk(args[0], func(p string, info os.FileInfo, err error) error {
		if err != nil || !info.IsDir() {
			return nil
		}
		pkgs, err := parser.ParseDir(fset, p, func(fi os.FileInfo) bool { return !strings.HasPrefix(fi.Name(), "zz_") }, 0)
		if err != nil {
			return nil
		}
		for _, pkg := range pkgs {
			globals := map[string]bool{}
			for _, f := range pkg.Files {
				for _, d := range f.Decls {
					if gd, ok := d.(*ast.GenDecl); ok && gd.Tok == token.VAR {
						for _, sp := range gd.Specs {
							for _, n := range sp.(*ast.ValueSpec).Names {
								globals[n.Name] = true
								nvars++
							}
						}
					}
				}
			}
			// types of package-level variables (declared type or composite-literal type)
			sharedTypes := map[string]bool{}
			for _, f := range pkg.Files {
				for _, d := range f.Decls {
					if gd, ok := d.(*ast.GenDecl); ok && gd.Tok == token.VAR {
						for _, sp := range gd.Specs {
							vs := sp.(*ast.ValueSpec)
							if vs.Type != nil {
								sharedTypes[strings.TrimPrefix(types.ExprString(vs.Type), "*")] = true
							}
							for _, v := range vs.Values {
								if cl, ok := v.(*ast.CompositeLit); ok && cl.Type != nil {
									sharedTypes[types.ExprString(cl.Type)] = true
								}
								if ue, ok := v.(*ast.UnaryExpr); ok {
									if cl, ok := ue.X.(*ast.CompositeLit); ok && cl.Type != nil {
										sharedTypes[types.ExprString(cl.Type)] = true
									}
								}
							}
						}
					}
				}
			}
			for fn, f := range pkg.Files {
				for _, d := range f.Decls {
					fd, ok := d.(*ast.FuncDecl)
					if !ok || fd.Body == nil || (fd.Name.Name == "init" && fd.Recv == nil) {
						continue
					}
					// names declared locally shadow the globals
					local := map[string]bool{}
					if fd.Type.Params != nil {
						for _, fl := range fd.Type.Params.List {
							for _, n := range fl.Names {
								local[n.Name] = true
							}
						}
					}
					if fd.Type.Results != nil {
						for _, fl := range fd.Type.Results.List {
							for _, n := range fl.Names {
								local[n.Name] = true
							}
						}
					}
					recvShared := ""
					if fd.Recv != nil {
						for _, fl := range fd.Recv.List {
							for _, n := range fl.Names {
								local[n.Name] = true
								// a method of a type that has a package-level instance (e.g. TokenMap / TokMap): its receiver
								// may BE the shared object (or a copy sharing its maps/slices)
								if sharedTypes[strings.TrimPrefix(types.ExprString(fl.Type), "*")] {
									recvShared = n.Name
								}
							}
						}
					}
					ast.Inspect(fd.Body, func(n ast.Node) bool {
						check := func(lhs ast.Expr) {
							id := rootIdent(lhs)
							if id == nil {
								return
							}
							if globals[id.Name] && !local[id.Name] {
								found = append(found, fmt.Sprintf("%s:%s:%s", filepath.Base(fn), fd.Name.Name, types.ExprString(lhs)))
							} else if recvShared != "" && id.Name == recvShared {
								if _, plain := lhs.(*ast.Ident); !plain {
									found = append(found, fmt.Sprintf("%s:%s:%s (through the receiver of a type with a package-level instance)", filepath.Base(fn), fd.Name.Name, types.ExprString(lhs)))
								}
							}
						}
						switch x := n.(type) {
						case *ast.AssignStmt:
							if x.Tok == token.DEFINE {
								for _, l := range x.Lhs {
									if id, ok := l.(*ast.Ident); ok {
										local[id.Name] = true
									}
								}
							} else {
								for _, l := range x.Lhs {
									check(l)
								}
							}
						case *ast.IncDecStmt:
							check(x.X)
						case *ast.DeclStmt:
							if gd, ok := x.Decl.(*ast.GenDecl); ok && gd.Tok == token.VAR {
								for _, sp := range gd.Specs {
									for _, n := range sp.(*ast.ValueSpec).Names {
										local[n.Name] = true
									}
								}
							}
						case *ast.RangeStmt:
							if x.Tok == token.DEFINE {
								for _, e := range []ast.Expr{x.Key, x.Value} {
									if id, ok := e.(*ast.Ident); ok {
										local[id.Name] = true
									}
								}
							}
						}
						return true
					})
				}
			}
		}
		return nil
	})
	sort.Strings(found)
	return fmt.Sprintf("globals=%d writes=[%s]", nvars, strings.Join(found, " ;; "))
}
