//go:build verif

package main

import (
	"encoding/json"
	"fmt"
	"sort"
	"strings"

	feparser "github.com/goccmack/gocc/internal/frontend/parser"
	fescanner "github.com/goccmack/gocc/internal/frontend/scanner"
	fetoken "github.com/goccmack/gocc/internal/frontend/token"
)

func init() {
	ops["fetables"] = opFeTables
	ops["feparse"] = opFeParse
	ops["fescan"] = opFeScan
}

// opFeTables dumps the shipped front-end tables (as data, from the compiled current tree).
func opFeTables(args []string) string {
	type prod struct {
		Head   string
		Len    int
		String string
	}
	type out struct {
		Terminals  []string // index = front-end token type
		Prods      []prod
		Actions    []map[string]string // per state: token type -> "s12" / "r3" / "a"
		Gotos      []map[string]int
		CanRecover []bool
	}
	var o out
	n := fetoken.FRONTENDTokens.Len()
	for i := 0; i < n; i++ {
		o.Terminals = append(o.Terminals, fetoken.FRONTENDTokens.TokenString(fetoken.Type(i)))
	}
	for _, p := range feparser.ProductionsTable {
		o.Prods = append(o.Prods, prod{string(p.Head), p.NumSymbols, p.String})
	}
	for _, row := range feparser.ActionTable {
		m := map[string]string{}
		for t, a := range row.Actions {
			switch x := a.(type) {
			case feparser.Shift:
				m[fmt.Sprint(int(t))] = fmt.Sprintf("s%d", int(x))
			case feparser.Reduce:
				m[fmt.Sprint(int(t))] = fmt.Sprintf("r%d", int(x))
			case feparser.Accept:
				m[fmt.Sprint(int(t))] = "a"
			}
		}
		o.Actions = append(o.Actions, m)
	}
	for _, row := range feparser.GotoTable {
		m := map[string]int{}
		for nt, s := range row {
			m[string(nt)] = int(s)
		}
		o.Gotos = append(o.Gotos, m)
	}
	o.CanRecover = feparser.VerifCanRecover()
	b, _ := json.Marshal(o)
	return string(b)
}

var feP *feparser.Parser

type feFake struct {
	toks []int
	k    int
}

var feLits = map[string]string{"tokId": "tok", "regDefId": "_r", "ignoredTokId": "!i", "char_lit": "'a'", "prodId": "P",
	"string_lit": "\"s\"", "g_sdt_lit": "<< x >>", "id": "id", "error": "error", "empty": "empty"}

func (s *feFake) Scan() (*fetoken.Token, fetoken.Position) {
	pos := fetoken.Position{Offset: s.k, Line: 1, Column: s.k + 1}
	if s.k >= len(s.toks) {
		s.k++
		return fetoken.NewToken(fetoken.EOF, nil), pos
	}
	t := fetoken.Type(s.toks[s.k])
	name := fetoken.FRONTENDTokens.TokenString(t)
	lit, ok := feLits[name]
	if !ok {
		lit = name
	}
	// distinct names keep the semantic checks (duplicate definitions) out of the way
	if name == "tokId" || name == "regDefId" || name == "ignoredTokId" || name == "prodId" {
		lit = fmt.Sprintf("%s%d", lit, s.k)
	}
	s.k++
	return fetoken.NewToken(t, []byte(lit)), pos
}

// opFeParse runs gocc's own parser on a sequence of front-end token types:
// "accept", "synerr", or "semerr" (a reduce function returned an error).
func opFeParse(args []string) string {
	sc := &feFake{toks: ints(args)}
	// ONE parser object serves every op of the run: a verdict must not depend on earlier inputs
	if feP == nil {
		feP = feparser.NewParser(feparser.ActionTable, feparser.GotoTable, feparser.ProductionsTable, fetoken.FRONTENDTokens)
	}
	p := feP
	_, err := p.Parse(sc)
	if err == nil {
		return fmt.Sprintf("accept scans=%d", sc.k)
	}
	if strings.Contains(err.Error(), "expected one of:") {
		return fmt.Sprintf("synerr scans=%d", sc.k)
	}
	return "semerr"
}

// opFeScan runs gocc's own scanner over the bytes: token types, literals (hex), positions, error count.
func opFeScan(args []string) string {
	src := bytesOf(args)
	var s fescanner.Scanner
	s.Init(src, fetoken.FRONTENDTokens)
	var out []string
	for i := 0; i < len(src)+2; i++ {
		tok, pos := s.Scan()
		out = append(out, fmt.Sprintf("%d:%x@%d:%d:%d", int(tok.Type), tok.Lit, pos.Offset, pos.Line, pos.Column))
		if tok.Type == fetoken.EOF {
			break
		}
	}
	return strings.Join(out, " ") + fmt.Sprintf(" errs=%d", s.ErrorCount)
}

var _ = sort.Strings
