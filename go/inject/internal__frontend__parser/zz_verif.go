//go:build verif

package parser

// VerifCanRecover exposes the unexported canRecover flags of the shipped front-end tables.
func VerifCanRecover() []bool {
	r := make([]bool, len(ActionTable))
	for i, row := range ActionTable {
		r[i] = row.canRecover
	}
	return r
}
